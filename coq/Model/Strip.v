(* Model/Strip.v -- hand model of crates/anstream/src/adapter/strip.rs:
   next_str / next_bytes (two-phase scanners: `position` with the state update on
   every inspected byte including the one it stops at, split_at, second
   `position`, None on an empty run), the iterators built on them, Utf8Parser::add,
   is_printable_bytes, is_utf8_continuation.  Definitions only. *)
From Coq Require Import NArith List Bool.
From AV Require Import Generated.Table Model.Base Model.Utf8parse Model.Parser.
Import ListNotations.
Local Open Scope N_scope.

Definition is_ascii_whitespace (b : N) : bool :=
  (b =? 9) || (b =? 10) || (b =? 12) || (b =? 13) || (b =? 32).

Definition is_printable_bytes (a : action) (b : N) : bool :=
  (action_eqb a APrint && negb (b =? 127))
  || action_eqb a ABeginUtf8
  || (action_eqb a AExecute && is_ascii_whitespace b).

Definition is_utf8_continuation (b : N) : bool := (128 <=? b) && (b <=? 191).

Definition is_ascii (b : N) : bool := b <? 128.

(* anstream's Utf8Parser::add: true when the decoder reports a code point or an
   invalid sequence *)
Definition utf8_add (u : u8parser) (b : N) : u8parser * bool :=
  let '(u', o) := u8_parser_advance u b in
  (u', match o with U8None => false | _ => true end).

(* ---- next_bytes ---------------------------------------------------------- *)

(* first `position`: returns the remaining bytes (starting at the byte the scan
   stopped at) and the updated state *)
Fixpoint nb_skip (bs : list N) (st : state) (u : u8parser) : option (list N * state * u8parser) :=
  match bs with
  | [] => Some ([], st, u)
  | b :: rest =>
      if state_eqb st Utf8 && negb (is_ascii b) then Some (bs, st, u)
      else
        let '(st0, u0) := if state_eqb st Utf8 then (Ground, u8_new) else (st, u) in
        '(ns, a) <- state_change st0 b ;;
        let st1 := if state_eqb ns Anywhere then st0 else ns in
        if is_printable_bytes a b then Some (bs, st1, u0) else nb_skip rest st1 u0
  end.

(* second `position`: returns (printable run, remaining bytes, state) *)
Fixpoint nb_take (bs : list N) (st : state) (u : u8parser)
  : option (list N * list N * state * u8parser) :=
  match bs with
  | [] => Some ([], [], st, u)
  | b :: rest =>
      if state_eqb st Utf8 && negb (is_ascii b) then
        let '(u1, done) := utf8_add u b in
        '(t, r, st', u') <- nb_take rest (if done then Ground else st) u1 ;;
        Some (b :: t, r, st', u')
      else
        let '(st0, u0) := if state_eqb st Utf8 then (Ground, u8_new) else (st, u) in
        '(ns, a) <- state_change st0 b ;;
        if negb (is_printable_bytes a b) then Some ([], bs, st0, u0)
        else if state_eqb ns Utf8 then
          let '(u1, _) := utf8_add u0 b in
          '(t, r, st', u') <- nb_take rest ns u1 ;;
          Some (b :: t, r, st', u')
        else
          '(t, r, st', u') <- nb_take rest st0 u0 ;;
          Some (b :: t, r, st', u')
  end.

Record piece : Set := mkPiece { p_off : N; p_bytes : list N }.

(* one call of next_bytes; [off] is the offset of [bs] in the original slice *)
Definition next_bytes (bs : list N) (off : N) (st : state) (u : u8parser)
  : option (option piece * list N * N * state * u8parser) :=
  '(bs1, st1, u1) <- nb_skip bs st u ;;
  let off1 := off + N.of_nat (length bs - length bs1) in
  '(t, bs2, st2, u2) <- nb_take bs1 st1 u1 ;;
  let off2 := off1 + N.of_nat (length t) in
  match t with
  | [] => Some (None, bs2, off2, st2, u2)
  | _ => Some (Some (mkPiece off1 t), bs2, off2, st2, u2)
  end.

(* draining the iterator (`for printable in ...`): stops at the first None *)
Fixpoint bytes_iter (fuel : nat) (bs : list N) (off : N) (st : state) (u : u8parser)
  : option (list piece * list N * state * u8parser) :=
  match fuel with
  | O => None
  | S f =>
      '(p, bs', off', st', u') <- next_bytes bs off st u ;;
      match p with
      | None => Some ([], bs', st', u')
      | Some pc =>
          '(ps, bs'', st'', u'') <- bytes_iter f bs' off' st' u' ;;
          Some (pc :: ps, bs'', st'', u'')
      end
  end.

Definition strip_next_bytes (bs : list N) (st : state) (u : u8parser) :=
  bytes_iter (S (length bs)) bs 0 st u.

Definition strip_bytes_pieces (bs : list N) : option (list piece) :=
  '(ps, _, _, _) <- strip_next_bytes bs Ground u8_new ;; Some ps.

Definition strip_bytes_model (bs : list N) : option (list N) :=
  ps <- strip_bytes_pieces bs ;; Some (concat (map p_bytes ps)).

(* StripBytes fed chunk by chunk *)
Fixpoint strip_bytes_chunks (chunks : list (list N)) (st : state) (u : u8parser)
  : option (list (list piece) * state * u8parser) :=
  match chunks with
  | [] => Some ([], st, u)
  | c :: rest =>
      '(ps, _, st', u') <- strip_next_bytes c st u ;;
      '(pss, st'', u'') <- strip_bytes_chunks rest st' u' ;;
      Some (ps :: pss, st'', u'')
  end.

(* ---- next_str ------------------------------------------------------------ *)

Fixpoint ns_skip (bs : list N) (st : state) : option (list N * state) :=
  match bs with
  | [] => Some ([], st)
  | b :: rest =>
      '(ns, a) <- state_change st b ;;
      let st1 := if negb (state_eqb ns Anywhere) && negb (state_eqb ns Utf8) then ns else st in
      if is_printable_bytes a b then Some (bs, st1) else ns_skip rest st1
  end.

Fixpoint ns_take (bs : list N) (st : state) : option (list N * list N) :=
  match bs with
  | [] => Some ([], [])
  | b :: rest =>
      '(_, a) <- state_change st b ;;
      if negb (is_printable_bytes a b || is_utf8_continuation b) then Some ([], bs)
      else '(t, r) <- ns_take rest st ;; Some (b :: t, r)
  end.

Definition next_str (bs : list N) (off : N) (st : state)
  : option (option piece * list N * N * state) :=
  '(bs1, st1) <- ns_skip bs st ;;
  let off1 := off + N.of_nat (length bs - length bs1) in
  '(t, bs2) <- ns_take bs1 st1 ;;
  let off2 := off1 + N.of_nat (length t) in
  match t with
  | [] => Some (None, bs2, off2, st1)
  | _ => Some (Some (mkPiece off1 t), bs2, off2, st1)
  end.

Fixpoint str_iter (fuel : nat) (bs : list N) (off : N) (st : state)
  : option (list piece * list N * state) :=
  match fuel with
  | O => None
  | S f =>
      '(p, bs', off', st') <- next_str bs off st ;;
      match p with
      | None => Some ([], bs', st')
      | Some pc =>
          '(ps, bs'', st'') <- str_iter f bs' off' st' ;;
          Some (pc :: ps, bs'', st'')
      end
  end.

Definition strip_next_str (bs : list N) (st : state) := str_iter (S (length bs)) bs 0 st.

Definition strip_str_pieces (bs : list N) : option (list piece) :=
  '(ps, _, _) <- strip_next_str bs Ground ;; Some ps.

Definition strip_str_model (bs : list N) : option (list N) :=
  ps <- strip_str_pieces bs ;; Some (concat (map p_bytes ps)).

Fixpoint strip_str_chunks (chunks : list (list N)) (st : state)
  : option (list (list piece) * state) :=
  match chunks with
  | [] => Some ([], st)
  | c :: rest =>
      '(ps, _, st') <- strip_next_str c st ;;
      '(pss, st'') <- strip_str_chunks rest st' ;;
      Some (ps :: pss, st'')
  end.

(* ---- vocabulary of the function translator (tools/gen_fn_strip.py) --------- *)

(* `struct Utf8Parser { utf8_parser: utf8parse::Parser }` is modelled by the decoder itself *)
Definition u8p_inner (u : u8parser) : u8parser := u.
Definition set_u8p_inner (_ v : u8parser) : u8parser := v.

(* `struct VtUtf8Receiver<'a>(&'a mut bool)` is modelled by the bool it borrows *)
Definition rcv_flag (r : bool) : bool := r.
Definition set_rcv_flag (_ v : bool) : bool := v.

(* StrippedStr<'s> { bytes, state } and StripStrIter<'s> { bytes, state: &mut State } *)
Record str_iter_st : Set := mkStrIt { si_bytes : list N; si_state : state }.
Definition set_si_bytes (i : str_iter_st) (v : list N) : str_iter_st := mkStrIt v (si_state i).
Definition set_si_state (i : str_iter_st) (v : state) : str_iter_st := mkStrIt (si_bytes i) v.

(* StrippedBytes<'s> { bytes, state, utf8parser } and StripBytesIter<'s> (the same behind &mut) *)
Record bytes_iter_st : Set := mkBytesIt { bi_bytes : list N; bi_state : state; bi_utf8 : u8parser }.
Definition set_bi_bytes (i : bytes_iter_st) (v : list N) : bytes_iter_st := mkBytesIt v (bi_state i) (bi_utf8 i).
Definition set_bi_state (i : bytes_iter_st) (v : state) : bytes_iter_st := mkBytesIt (bi_bytes i) v (bi_utf8 i).
Definition set_bi_utf8 (i : bytes_iter_st) (v : u8parser) : bytes_iter_st := mkBytesIt (bi_bytes i) (bi_state i) v.

(* ---- vocabulary of the function translator, second part (StripStr / StripBytes, tools/gen_fn_strip.py) ----
   Small adapters only. *)
(* pub struct StripStr { state }  ==  the state itself *)
Definition sstr_state (s : state) : state := s.
Definition set_sstr_state (_ v : state) : state := v.
Definition sstr_mk (s : state) : state := s.
(* pub struct StripBytes { state, utf8parser } *)
Record strip_bytes_st : Set := mkStripBytesSt { sbs_state : state; sbs_utf8 : u8parser }.
Definition set_sbs_state (x : strip_bytes_st) (v : state) : strip_bytes_st := mkStripBytesSt v (sbs_utf8 x).
Definition set_sbs_utf8 (x : strip_bytes_st) (v : u8parser) : strip_bytes_st := mkStripBytesSt (sbs_state x) v.
