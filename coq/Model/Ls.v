(* Model/Ls.v -- hand model of crates/anstyle-ls/src/lib.rs `parse`:
   the early return on the literal strings, split(';') with all-or-nothing
   parse::<u8>, the VecDeque loop with pop_front look-ahead for 38/48/58 (two,
   then two more; `break` when a pop fails or the selector is neither 5 nor 2),
   the final Some(Style).  The match arms come from Generated/Ls.v.
   The code has no indexing, slicing or overflowing arithmetic (pop_front returns
   an Option), so no step of the transcription produces the panic value (the
   outer [None]).  Definitions only. *)
From Coq Require Import NArith List Bool.
From AV Require Import Generated.Ls Spec.StyleRec Model.Base Model.Text.
Import ListNotations.
Local Open Scope N_scope.

Fixpoint ls_lookup (c : N) (arms : list (N * ls_action)) : option ls_action :=
  match arms with
  | [] => None                      (* `_ => {}` *)
  | (k, a) :: rest => if c =? k then Some a else ls_lookup c rest
  end.

Definition set_target (t : ls_target) (st : tstyle) (c : option tcolor) : tstyle :=
  match t with
  | TFg => set_fg st c
  | TBg => set_bg st c
  | TUl => set_underline st c
  end.

(* the arms that do not look ahead *)
Definition ls_apply (a : ls_action) (st : tstyle) : tstyle :=
  match a with
  | LsReset => t_default
  | LsInsert b => set_effects st (eff_insert (t_eff st) b)
  | LsRemove bs => set_effects st (eff_remove_all (t_eff st) bs)
  | LsSetAnsi t i => set_target t st (Some (TAnsi i))
  | LsClear t => set_target t st None
  | LsExtended _ => st
  end.

(* `while let Some(part) = parts.pop_front()`; returning [st] = `break` *)
Fixpoint ls_loop (parts : list N) (st : tstyle) : tstyle :=
  match parts with
  | [] => st
  | part :: rest =>
      match ls_lookup part ls_arms with
      | Some (LsExtended t) =>
          match rest with
          | a :: n :: rest1 =>                      (* (Some(a), Some(n)) *)
              if a =? 5 then ls_loop rest1 (set_target t st (Some (TAnsi256 n)))
              else if a =? 2 then
                match rest1 with
                | g :: b :: rest2 => ls_loop rest2 (set_target t st (Some (TRgb n g b)))
                | _ => st                           (* break *)
                end
              else st                               (* break *)
          | _ => st                                 (* a pop_front returned None: break *)
          end
      | Some a => ls_loop rest (ls_apply a st)
      | None => ls_loop rest st
      end
  end.

(* outer option: panic; inner option: the Option<Style> of the crate *)
Definition ls_parse (s : list N) : option (option tstyle) :=
  if existsb (list_eqb s) ls_none_strings then Some None
  else
    match collect_option (map parse_u8 (split_on ls_separator s)) with
    | None => Some None
    | Some parts => Some (Some (ls_loop parts t_default))
    end.
