(* Model/Stream.v -- hand model of crates/anstream/src/strip.rs (StripStream's
   write / write_all / write_vectored / write_fmt / flush with the lazy piece
   iterator, the rewind-and-replay logic and the `delivered` flag, as repaired),
   crates/anstream/src/fmt.rs (Adapter) and the forwarding of AutoStream
   (crates/anstream/src/auto.rs) in its PassThrough and Strip modes, over the
   scripted inner writers of Spec/Io.  Definitions only. *)
From Coq Require Import NArith List Bool.
From AV Require Import Generated.Table Spec.Io Model.Base Model.Utf8parse Model.Parser Model.Strip.
Import ListNotations.
Local Open Scope N_scope.

Inductive sop : Set :=
  | OWrite (buf : list N)
  | OWriteAll (buf : list N)
  | OWriteVectored (bufs : list (list N))
  | OWriteFmt (frags : list (list N))     (* the fragments `fmt::write` hands to write_str *)
  | OFlush.

Inductive sres : Set := ROkN (n : N) | ROk | RErr (k : ekind).

(* StripBytes *)
Record sbytes : Set := mkSB { sb_state : state; sb_u : u8parser }.
Definition sb_new : sbytes := mkSB Ground u8_new.

(* state.strip_next(prefix).last(): drain the iterator, keep the state *)
Definition ss_replay (s0 : sbytes) (prefix : list N) : option sbytes :=
  '(_, _, st, u) <- strip_next_bytes prefix (sb_state s0) (sb_u s0) ;; Some (mkSB st u).

(* fn write: the `for printable in state.strip_next(buf)` loop *)
Fixpoint ss_write_loop (fuel : nat) (buf bs : list N) (off : N) (s0 : sbytes) (st : state) (u : u8parser)
         (delivered : bool) (w : writer) : option (sbytes * writer * sres) :=
  match fuel with
  | O => None
  | S f =>
      '(p, bs', off', st', u') <- next_bytes bs off st u ;;
      match p with
      | None => Some (mkSB st' u', w, ROkN (N.of_nat (length buf)))
      | Some pc =>
          let possible := N.of_nat (length (p_bytes pc)) in
          let '(w1, r) := w_write w (p_bytes pc) in
          match r with
          | inr e =>
              if delivered then
                s1 <- ss_replay s0 (firstn (N.to_nat (p_off pc)) buf) ;;
                Some (s1, w1, ROkN (p_off pc))
              else Some (s0, w1, RErr e)
          | inl written =>
              if negb (possible =? written) then
                (* offset_to(buf, &printable[written..]): a slice past the end panics *)
                if possible <? written then None
                else
                  let offset := p_off pc + written in
                  s1 <- ss_replay s0 (firstn (N.to_nat offset) buf) ;;
                  Some (s1, w1, ROkN offset)
              else ss_write_loop f buf bs' off' s0 st' u' true w1
          end
      end
  end.

Definition ss_write (s : sbytes) (buf : list N) (w : writer) : option (sbytes * writer * sres) :=
  ss_write_loop (S (length buf)) buf buf 0 s (sb_state s) (sb_u s) false w.

(* fn write_all: `for printable in state.strip_next(buf) { raw.write_all(printable)?; }` *)
Fixpoint ss_write_all_loop (fuel : nat) (bs : list N) (off : N) (st : state) (u : u8parser) (w : writer)
  : option (sbytes * writer * sres) :=
  match fuel with
  | O => None
  | S f =>
      '(p, bs', off', st', u') <- next_bytes bs off st u ;;
      match p with
      | None => Some (mkSB st' u', w, ROk)
      | Some pc =>
          let '(w1, r) := w_write_all w (p_bytes pc) in
          match r with
          | inl _ => ss_write_all_loop f bs' off' st' u' w1
          | inr e => Some (mkSB st' u', w1, RErr e)
          end
      end
  end.

Definition ss_write_all (s : sbytes) (buf : list N) (w : writer) : option (sbytes * writer * sres) :=
  ss_write_all_loop (S (length buf)) buf 0 (sb_state s) (sb_u s) w.

(* bufs.iter().find(|b| !b.is_empty()).unwrap_or(&[]) *)
Fixpoint first_nonempty (bufs : list (list N)) : list N :=
  match bufs with
  | [] => []
  | [] :: rest => first_nonempty rest
  | b :: _ => b
  end.

(* fmt::Adapter: write_str = write_all of the fragment; the first error is saved
   and returned *)
Fixpoint ss_write_fmt (s : sbytes) (frags : list (list N)) (w : writer) : option (sbytes * writer * sres) :=
  match frags with
  | [] => Some (s, w, ROk)
  | fr :: rest =>
      '(s1, w1, r) <- ss_write_all s fr w ;;
      match r with
      | RErr e => Some (s1, w1, RErr e)
      | _ => ss_write_fmt s1 rest w1
      end
  end.

Definition ss_op (s : sbytes) (w : writer) (o : sop) : option (sbytes * writer * sres) :=
  match o with
  | OWrite buf => ss_write s buf w
  | OWriteAll buf => ss_write_all s buf w
  | OWriteVectored bufs => ss_write s (first_nonempty bufs) w
  | OWriteFmt frags => ss_write_fmt s frags w
  | OFlush => Some (s, w_flush w, ROk)
  end.

(* the inner writer's own (std default) methods, used by the PassThrough arm *)
Fixpoint w_write_fmt (w : writer) (frags : list (list N)) : writer * sres :=
  match frags with
  | [] => (w, ROk)
  | fr :: rest =>
      let '(w1, r) := w_write_all w fr in
      match r with
      | inl _ => w_write_fmt w1 rest
      | inr e => (w1, RErr e)
      end
  end.

(* [wv_all]: the inner writer implements real vectored writes (Vec<u8>, File:
   every buffer is written); otherwise std's default (the first non-empty buffer) *)
Definition pass_op (wv_all : bool) (w : writer) (o : sop) : writer * sres :=
  match o with
  | OWrite buf => let '(w1, r) := w_write w buf in (w1, match r with inl n => ROkN n | inr e => RErr e end)
  | OWriteAll buf => let '(w1, r) := w_write_all w buf in (w1, match r with inl _ => ROk | inr e => RErr e end)
  | OWriteVectored bufs =>
      let '(w1, r) := w_write w (if wv_all then concat bufs else first_nonempty bufs) in
      (w1, match r with inl n => ROkN n | inr e => RErr e end)
  | OWriteFmt frags => w_write_fmt w frags
  | OFlush => (w_flush w, ROk)
  end.

(* AutoStream: the arm chosen at construction (non-Windows: Always = AlwaysAnsi) *)
Inductive amode : Set := MPass | MStrip.
Inductive cchoice : Set := CAuto | CAlwaysAnsi | CAlways | CNever.

(* [decided]: what AutoStream::choice answers for ColorChoice::Auto (C09) *)
Definition auto_mode (c : cchoice) (decided : cchoice) : amode :=
  match c with
  | CNever => MStrip
  | CAlwaysAnsi | CAlways => MPass
  | CAuto => match decided with CNever => MStrip | _ => MPass end
  end.

Definition current_choice (m : amode) : cchoice := match m with MPass => CAlwaysAnsi | MStrip => CNever end.

Definition auto_op (wv_all : bool) (m : amode) (s : sbytes) (w : writer) (o : sop) : option (sbytes * writer * sres) :=
  match m with
  | MStrip => ss_op s w o
  | MPass => let '(w1, r) := pass_op wv_all w o in Some (s, w1, r)
  end.

Fixpoint run_ops (wv_all : bool) (m : amode) (s : sbytes) (w : writer) (ops : list sop)
  : option (sbytes * writer * list sres) :=
  match ops with
  | [] => Some (s, w, [])
  | o :: rest =>
      '(s1, w1, r) <- auto_op wv_all m s w o ;;
      '(s2, w2, rs) <- run_ops wv_all m s1 w1 rest ;;
      Some (s2, w2, r :: rs)
  end.

(* the standard caller protocol over `write`: resubmit the unconsumed tail, retry
   after Interrupted, stop on any other error, Ok(0) on a non-empty buffer is
   WriteZero (std's write_all) *)
Fixpoint ss_drive (fuel : nat) (s : sbytes) (w : writer) (buf : list N) : option (sbytes * writer * sres) :=
  match buf with
  | [] => Some (s, w, ROk)
  | _ =>
      match fuel with
      | O => None
      | S f =>
          '(s1, w1, r) <- ss_write s buf w ;;
          match r with
          | ROkN 0 => Some (s1, w1, RErr WriteZero)
          | ROkN n => ss_drive f s1 w1 (skipn (N.to_nat n) buf)
          | RErr Interrupted => ss_drive f s1 w1 buf
          | RErr e => Some (s1, w1, RErr e)
          | ROk => None
          end
      end
  end.

Definition ss_drive_all (script : list resp) (buf : list N) : option (sbytes * writer * sres) :=
  ss_drive (S (length script + length buf)) sb_new (writer_of script) buf.

(* the same protocol over `write_vectored` (std's write_all_vectored loop):
   IoSlice::advance_slices after a partial count, retry after Interrupted *)
Fixpoint advance_slices (n : nat) (bufs : list (list N)) : list (list N) :=
  match bufs with
  | [] => []
  | b :: rest => if Nat.leb (length b) n then advance_slices (n - length b) rest else skipn n b :: rest
  end.

Fixpoint ss_drive_v (fuel : nat) (s : sbytes) (w : writer) (bufs : list (list N)) : option (sbytes * writer * sres) :=
  match advance_slices 0 bufs with
  | [] => Some (s, w, ROk)
  | bufs1 =>
      match fuel with
      | O => None
      | S f =>
          '(s1, w1, r) <- ss_op s w (OWriteVectored bufs1) ;;
          match r with
          | ROkN 0 => Some (s1, w1, RErr WriteZero)
          | ROkN n => ss_drive_v f s1 w1 (advance_slices (N.to_nat n) bufs1)
          | RErr Interrupted => ss_drive_v f s1 w1 bufs1
          | RErr e => Some (s1, w1, RErr e)
          | ROk => None
          end
      end
  end.

Definition ss_drive_v_all (script : list resp) (bufs : list (list N)) : option (sbytes * writer * sres) :=
  ss_drive_v (S (length script + length (concat bufs) + length bufs)) sb_new (writer_of script) bufs.

(* ---- vocabulary of the function translator (tools/gen_fn_stream.py, Generated/StreamFn.v) ----
   Small adapters only: no existing definition changes meaning. *)

(* StripBytesIter as a cursor (remaining bytes, their offset in the slice handed to strip_next);
   the `&mut StripBytes` the iterator holds is threaded through every `next` *)
Definition sbi_new (buf : list N) : list N * N := (buf, 0).
Definition sbi_next (it : list N * N) (s : sbytes) : option (option piece * (list N * N) * sbytes) :=
  '(p, bs', off', st', u') <- next_bytes (fst it) (snd it) (sb_state s) (sb_u s) ;;
  Some (p, (bs', off'), mkSB st' u').

(* state.strip_next(bs).last(): drain the iterator; the value is the last piece *)
Definition sb_last (s : sbytes) (bs : list N) : option (sbytes * option piece) :=
  '(ps, _, st, u) <- strip_next_bytes bs (sb_state s) (sb_u s) ;;
  Some (mkSB st u, last (map Some ps) None).

(* a `&[u8]` that is a sub-slice of the buffer: a piece (offset, bytes) *)
Definition piece_len (p : piece) : N := N.of_nat (length (p_bytes p)).
(* &p[a..]: panics when a > len *)
Definition piece_from (p : piece) (a : N) : option piece :=
  if a <=? piece_len p then Some (mkPiece (p_off p + a) (skipn (N.to_nat a) (p_bytes p))) else None.
(* address model of offset_to: addresses are counted from the start of the buffer the pieces
   were cut from, so the buffer itself sits at 0 and a piece at its offset *)
Definition buf_addr (total : list N) : N := 0.
Definition piece_addr (p : piece) : N := p_off p.

(* calls on the inner writer (`raw: &mut dyn io::Write`) with a piece as the argument *)
Definition ss_raw_write (w : writer) (p : piece) : writer * (N + ekind) := w_write w (p_bytes p).
Definition ss_raw_write_all (w : writer) (p : piece) : writer * (unit + ekind) := w_write_all w (p_bytes p).
Definition ss_raw_flush (w : writer) : writer * (unit + ekind) := (w_flush w, inl tt).

(* crates/anstream/src/fmt.rs, Adapter::new(f).write_fmt(args) over core::fmt::write: write_str
   hands every fragment to the closure [f] (which threads its captured state [S]); the first
   error is saved and returned, the remaining fragments are not written *)
Fixpoint fmt_adapter_write_fmt {S : Type} (f : list N -> S -> option (S * (unit + ekind))) (s : S)
         (frags : list (list N)) : option (S * (unit + ekind)) :=
  match frags with
  | [] => Some (s, inl tt)
  | fr :: rest =>
      '(s1, r) <- f fr s ;;
      match r with
      | inr e => Some (s1, inr e)
      | inl _ => fmt_adapter_write_fmt f s1 rest
      end
  end.

(* the struct StripStream { raw, state } *)
Record sstream : Set := mkSS { ss_raw : writer; ss_state : sbytes }.
Definition set_ss_raw (x : sstream) (w : writer) : sstream := mkSS w (ss_state x).
Definition set_ss_state (x : sstream) (s : sbytes) : sstream := mkSS (ss_raw x) s.

(* io::Result<usize> / io::Result<()> of the translated functions as the hand model's [sres] *)
Definition sres_of_n (r : N + ekind) : sres := match r with inl n => ROkN n | inr e => RErr e end.
Definition sres_of_unit (r : unit + ekind) : sres := match r with inl _ => ROk | inr e => RErr e end.

(* ---- vocabulary of the function translator, second part (tools/gen_fn_auto.py, Generated/AutoFn.v:
   crates/anstream/src/auto.rs and the constructors / accessors of strip.rs) ----
   Small adapters only: no existing definition changes meaning. *)

(* auto.rs `enum StreamInner<S>` on a non-Windows target (the Wincon variant is compiled out) and
   `struct AutoStream<S> { inner }` *)
Inductive sinner : Set := SIPass (w : writer) | SIStrip (x : sstream).
Record astream : Set := mkAStream { as_inner : sinner }.
Definition set_as_inner (a : astream) (i : sinner) : astream := mkAStream i.

(* the hand model keeps the arm, the strip state and the inner writer side by side
   ([auto_op m s w]); as a value of the Rust type: *)
Definition as_of (m : amode) (s : sbytes) (w : writer) : astream :=
  match m with MPass => mkAStream (SIPass w) | MStrip => mkAStream (SIStrip (mkSS w s)) end.
Definition as_mode (a : astream) : amode :=
  match as_inner a with SIPass _ => MPass | SIStrip _ => MStrip end.
Definition as_writer (a : astream) : writer :=
  match as_inner a with SIPass w => w | SIStrip x => ss_raw x end.
(* the strip state of a pass-through stream does not exist: [d] stands for it *)
Definition as_sbytes (d : sbytes) (a : astream) : sbytes :=
  match as_inner a with SIPass _ => d | SIStrip x => ss_state x end.

Definition cchoice_eqb (a b : cchoice) : bool :=
  match a, b with
  | CAuto, CAuto | CAlwaysAnsi, CAlwaysAnsi | CAlways, CAlways | CNever, CNever => true
  | _, _ => false
  end.

(* what the raw stream `S: RawStream` answers besides being a writer, fixed per stream:
   [ac_decided] = `choice(&raw)` (the free function of auto.rs, C09's subject), [ac_tty] =
   `raw.is_terminal()`, [ac_wv_all] = the raw stream has real vectored writes (Vec<u8>, File) *)
Record acfg : Set := mkACfg { ac_decided : cchoice; ac_tty : bool; ac_wv_all : bool }.
Definition raw_choice (cf : acfg) (w : writer) : cchoice := ac_decided cf.
Definition raw_is_terminal (cf : acfg) (w : writer) : bool := ac_tty cf.
(* Stdout::lock / Stderr::lock: the guard writes to the same stream (the lock discipline is C19's subject) *)
Definition raw_lock (w : writer) : writer := w.
(* anstyle_query::windows::enable_ansi_colors() on a non-Windows target: no effect, None *)
Definition raw_enable_ansi_colors : option bool := None.

(* calls on the guard `w.as_locked_write()` of the pass-through arm: the inner writer's own methods
   (std's defaults for write_all / write_fmt / write_vectored, as in [pass_op]) *)
Definition raw_write (w : writer) (buf : list N) : writer * (N + ekind) := w_write w buf.
Definition raw_write_all (w : writer) (buf : list N) : writer * (unit + ekind) := w_write_all w buf.
Definition raw_write_vectored (cf : acfg) (w : writer) (bufs : list (list N)) : writer * (N + ekind) :=
  w_write w (if ac_wv_all cf then concat bufs else first_nonempty bufs).
Definition raw_flush (w : writer) : writer * (unit + ekind) := (w_flush w, inl tt).
Fixpoint raw_write_fmt (w : writer) (frags : list (list N)) : writer * (unit + ekind) :=
  match frags with
  | [] => (w, inl tt)
  | fr :: rest =>
      let '(w1, r) := w_write_all w fr in
      match r with
      | inl _ => raw_write_fmt w1 rest
      | inr e => (w1, inr e)
      end
  end.

(* the answers of the accessors, for the proofs of Proofs/AutoGen.v *)
Definition auto_into_inner (m : amode) (s : sbytes) (w : writer) : writer := w.
Definition auto_is_terminal (cf : acfg) (m : amode) : bool := ac_tty cf.

(* ---- the lock discipline (C19), vocabulary of the second translation `gl_*` in Generated/AutoFn.v ----
   A raw stream that records WHEN its lock is taken and given back, as positions in the inner
   writer's call history ([w_calls], which already records every inner write / flush in order):
   `as_locked_write()` appends [LAcq n] and hands out a guard = a view of the writer inside; the
   guard's destructor, run at the end of the temporary scope the guard was created in, appends
   [LRel n']; every inner call made in between lies at the positions n .. n'-1 of the history. *)
Inductive lmark : Set := LAcq (ncalls : nat) | LRel (ncalls : nat).
Record lraw : Set := mkLR { lr_w : writer; lr_log : list lmark }.
Definition set_lr_w (x : lraw) (w : writer) : lraw := mkLR w (lr_log x).
Definition lr_acquire (x : lraw) : lraw := mkLR (lr_w x) (lr_log x ++ [LAcq (length (w_calls (lr_w x)))]).
Definition lr_release (x : lraw) : lraw := mkLR (lr_w x) (lr_log x ++ [LRel (length (w_calls (lr_w x)))]).

Record lsstream : Set := mkLSS { lss_raw : lraw; lss_state : sbytes }.
Definition set_lss_raw (x : lsstream) (r : lraw) : lsstream := mkLSS r (lss_state x).
Definition set_lss_state (x : lsstream) (s : sbytes) : lsstream := mkLSS (lss_raw x) s.
Inductive lsinner : Set := LSIPass (w : lraw) | LSIStrip (x : lsstream).
Record lastream : Set := mkLAS { las_inner : lsinner }.
Definition set_las_inner (a : lastream) (i : lsinner) : lastream := mkLAS i.

(* forgetting the lock log gives the streams of the first translation *)
Definition lss_erase (x : lsstream) : sstream := mkSS (lr_w (lss_raw x)) (lss_state x).
Definition las_erase (a : lastream) : astream :=
  match las_inner a with
  | LSIPass w => mkAStream (SIPass (lr_w w))
  | LSIStrip x => mkAStream (SIStrip (lss_erase x))
  end.
Definition las_raw (a : lastream) : lraw :=
  match las_inner a with LSIPass w => w | LSIStrip x => lss_raw x end.
(* a stream value with the lock log [log] over the plain stream [a] *)
Definition las_with (log : list lmark) (a : astream) : lastream :=
  match as_inner a with
  | SIPass w => mkLAS (LSIPass (mkLR w log))
  | SIStrip x => mkLAS (LSIStrip (mkLSS (mkLR (ss_raw x) log) (ss_state x)))
  end.
(* "the call took the lock once, around all its inner calls": the log grows by one Acquire at
   the length of the history before the call and one Release at its length after the call *)
Definition lock_once (log : list lmark) (before after : writer) : list lmark :=
  log ++ [LAcq (length (w_calls before)); LRel (length (w_calls after))].

(* ---- vocabulary of tools/gen_fn_fmt.py (Generated/FmtFn.v): crates/anstream/src/fmt.rs, translated ----
   Small adapters only: no existing definition changes meaning. *)

(* a Rust closure VALUE `W: FnMut(&[u8]) -> io::Result<()>`: its code (a state-passing function over the variables it
   captures, as rs2v's e_closure emits it) together with the current value of those variables *)
Definition fclosure (S : Type) : Type := ((list N -> S -> option (S * (unit + ekind))) * S)%type.
(* `(closure)(bytes)`: run the code on the captured state; the closure keeps the new state *)
Definition fclosure_call {S : Type} (c : fclosure S) (bytes : list N) : option (fclosure S * (unit + ekind)) :=
  '(s1, r) <- fst c bytes (snd c) ;; Some ((fst c, s1), r).

(* `struct Adapter<W> { writer: W, error: io::Result<()> }` *)
Record fadapter (S : Type) : Type := mkFA { fa_writer : fclosure S; fa_error : unit + ekind }.
Definition set_fa_writer (S : Type) (a : fadapter S) (w : fclosure S) : fadapter S := mkFA S w (fa_error S a).
Definition set_fa_error (S : Type) (a : fadapter S) (e : unit + ekind) : fadapter S := mkFA S (fa_writer S a) e.

Definition res_is_err {A E : Type} (r : A + E) : bool := match r with inl _ => false | inr _ => true end.

(* `core::fmt::write(out, args)`: one `out.write_str(fragment)?` per fragment of the Arguments, in order; the first
   `Err(fmt::Error)` stops it and is returned.  [write_str] is the `fmt::Write::write_str` of the output (here: the
   TRANSLATED Adapter::write_str); `fmt::Result` = unit + unit; None = write_str panicked *)
Fixpoint core_fmt_write {A : Type} (write_str : A -> list N -> option (A * (unit + unit))) (out : A)
         (frags : list (list N)) : option (A * (unit + unit)) :=
  match frags with
  | [] => Some (out, inl tt)
  | fr :: rest =>
      '(out1, r) <- write_str out fr ;;
      match r with
      | inl _ => core_fmt_write write_str out1 rest
      | inr e => Some (out1, inr e)
      end
  end.
