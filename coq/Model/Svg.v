(* Model/Svg.v -- hand model of crates/anstyle-svg/src/lib.rs (Term::render_svg and
   its helpers), in two layers.  Definitions only.

   Layer 1, [svg_doc]: the ABSTRACT document, computed as the code does: the styled
   runs of anstream's WinconBytes (Model/Wincon.extract_next on a fresh state), the
   INVERT pre-pass against the configured default colours, [split_lines] (as
   repaired: when the text before a newline is empty, a CR that ended up in the
   previous, differently styled fragment is dropped), [color_name], [rgb_value] over Model/Lossy.color_to_rgb,
   [color_styles] (a BTreeMap keyed by class name: sorted, no duplicate key),
   [effects_in_use], the canvas height.

   Layer 2, [svg_print]: the textual template with html_escape::encode_text (and, in
   foreground spans, a carriage return written as the reference &#13;).

   Texts are lists of Unicode code points (a Rust String is its sequence of chars;
   everything the code does byte-wise -- '\n', '\r', '&', '<', '>' -- concerns ASCII
   characters, so acting on code points is the same thing).  A Rust operation that
   can panic returns [None].  usize arithmetic is not range-checked (64-bit sums of
   line counts).

   unicode_width is NOT modelled: it only influences the `width` attribute and the
   length of the background fill strings.  Both enter [svg_print] as oracle
   arguments ([width_px], and [wf], the width of an escaped fragment). *)
From Coq Require Import NArith List Bool Strings.String Strings.Ascii.
From AV Require Import Generated.Style Generated.Palette Generated.Svg Spec.Sgr Spec.Lossy
  Model.Base Model.Parser Model.Wincon Model.Lossy.
Import ListNotations.
Local Open Scope N_scope.

(* string literals of the template: L"text" is the list of its characters, computed
   where it is written (no string type reaches the definitions or the extraction) *)
Definition svg_s (s : string) : list N := map N_of_ascii (list_ascii_of_string s).
Local Notation "'L' s" := (ltac:(let v := eval vm_compute in (svg_s s%string) in exact v)) (at level 0, s at level 0, only parsing).

(* Term (font_family, min_width_px and padding_px have no setter that matters here:
   the first is template text, the second enters the width only, the third is the
   generated constant) *)
Record svg_term : Set := mkSvgTerm {
  svg_t_palette : list rgb;
  svg_t_fg : colour;
  svg_t_bg : colour;
  svg_t_background : bool
}.

(* Term::new() *)
Definition svg_term_new : svg_term := mkSvgTerm vga (CAnsi svg_default_fg_ansi) (CAnsi svg_default_bg_ansi) true.

(* the colour type of the wincon model -> the colour type of the lossy model *)
Definition svg_to_color (c : colour) : color :=
  match c with
  | CAnsi i => Ansi i
  | CIdx i => Ansi256 i
  | CRgb r g b => Rgb (r, g, b)
  end.

(* Effects::contains / Effects::remove *)
Definition svg_contains (e m : N) : bool := N.land e m =? m.

(* the INVERT pre-pass of render_svg *)
Definition svg_invert (t : svg_term) (s : sstyle) : sstyle :=
  if svg_contains (s_eff s) eff_invert
  then mkStyle (Some (match s_bg s with Some c => c | None => svg_t_bg t end))
               (Some (match s_fg s with Some c => c | None => svg_t_fg t end))
               (s_ul s)
               (N.ldiff (s_eff s) eff_invert)
  else s.

(* ---- split_lines ----------------------------------------------------------- *)

(* str::strip_suffix('\r').unwrap_or(..) *)
Fixpoint svg_strip_cr (t : list N) : list N :=
  match t with
  | [] => []
  | c :: r => match r with
              | [] => if c =? 13 then [] else [c]
              | _ :: _ => c :: svg_strip_cr r
              end
  end.

(* `if let Some((_, last)) = current_line.last_mut() { *last = strip_suffix .. }` *)
Fixpoint svg_strip_last (l : list (sstyle * list N)) : list (sstyle * list N) :=
  match l with
  | [] => []
  | x :: r => match r with
              | [] => [(fst x, svg_strip_cr (snd x))]
              | _ :: _ => x :: svg_strip_last r
              end
  end.

Definition svg_is_nil {A} (l : list A) : bool := match l with [] => true | _ => false end.

(* the `while let Some((current, remaining)) = next.split_once('\n')` loop over one
   run, unrolled to characters: [cur] is the part of `next` before the first LF seen
   so far.  Returns (lines, current_line) *)
Fixpoint svg_run_loop (style : sstyle) (next cur : list N)
    (current_line : list (sstyle * list N)) (lines : list (list (sstyle * list N)))
  : list (list (sstyle * list N)) * list (sstyle * list N) :=
  match next with
  | [] => (lines, current_line ++ [(style, cur)])                 (* current_line.push((style, next)) *)
  | c :: r =>
      if c =? 10 then
        let cl := if svg_is_nil cur then svg_strip_last current_line else current_line in    (* `if current.is_empty()` *)
        let current := svg_strip_cr cur in
        svg_run_loop style r [] [] (lines ++ [cl ++ [(style, current)]])
      else svg_run_loop style r (cur ++ [c]) current_line lines
  end.

Fixpoint svg_split_go (styled : list (sstyle * list N))
    (current_line : list (sstyle * list N)) (lines : list (list (sstyle * list N)))
  : list (list (sstyle * list N)) :=
  match styled with
  | [] => if svg_is_nil current_line then lines else lines ++ [current_line]
  | (s, t) :: rest =>
      let '(lines1, cl1) := svg_run_loop s t [] current_line lines in
      svg_split_go rest cl1 lines1
  end.

Definition svg_split_lines (styled : list (sstyle * list N)) : list (list (sstyle * list N)) :=
  svg_split_go styled [] [].

(* ---- names and colours ----------------------------------------------------- *)

Definition svg_hex_digit (d : N) : N := if d <? 10 then 48 + d else 55 + d.
(* {:02X} of a u8 *)
Definition svg_hex2 (b : N) : list N := [svg_hex_digit (b / 16); svg_hex_digit (b mod 16)].
(* {:03} of a u8 *)
Definition svg_dec3 (i : N) : list N := [48 + i / 100; 48 + (i / 10) mod 10; 48 + i mod 10].

(* Display of a usize *)
Fixpoint svg_dec_go (fuel : nat) (n : N) (acc : list N) : list N :=
  match fuel with
  | O => acc
  | S f => let acc' := (48 + n mod 10) :: acc in
           if n <? 10 then acc' else svg_dec_go f (n / 10) acc'
  end.
Definition svg_dec (n : N) : list N := svg_dec_go (S (N.size_nat n)) n [].

(* color_name *)
Definition svg_color_name (prefix : list N) (c : colour) : option (list N) :=
  match c with
  | CAnsi a =>
      index <- from_ansi a ;;
      name <- aget svg_ansi_names index ;;
      Some (prefix ++ [45] ++ name)
  | CIdx index => Some (prefix ++ L"-ansi256-" ++ svg_dec3 index)
  | CRgb r g b => Some (prefix ++ L"-rgb-" ++ svg_hex2 r ++ svg_hex2 g ++ svg_hex2 b)
  end.

Definition svg_rgb_hex (c : rgb) : list N :=
  let '(r, g, b) := c in [35] ++ svg_hex2 r ++ svg_hex2 g ++ svg_hex2 b.

(* rgb_value *)
Definition svg_rgb_value (c : colour) (palette : list rgb) : option (list N) :=
  v <- color_to_rgb (svg_to_color c) palette ;; Some (svg_rgb_hex v).

(* Ord for str *)
Fixpoint svg_cmp (a b : list N) : comparison :=
  match a, b with
  | [], [] => Eq
  | [], _ :: _ => Lt
  | _ :: _, [] => Gt
  | x :: a', y :: b' => match x ?= y with Eq => svg_cmp a' b' | c => c end
  end.

(* BTreeMap::insert; the map is its sorted list of entries *)
Fixpoint svg_map_insert (k v : list N) (m : list (list N * list N)) : list (list N * list N) :=
  match m with
  | [] => [(k, v)]
  | (k', v') :: r =>
      match svg_cmp k k' with
      | Lt => (k, v) :: m
      | Eq => (k, v) :: r
      | Gt => (k', v') :: svg_map_insert k v r
      end
  end.

Definition svg_insert_colour (palette : list rgb) (prefix : list N) (c : option colour)
    (m : list (list N * list N)) : option (list (list N * list N)) :=
  match c with
  | None => Some m
  | Some col =>
      k <- svg_color_name prefix col ;;
      v <- svg_rgb_value col palette ;;
      Some (svg_map_insert k v m)
  end.

(* color_styles *)
Fixpoint svg_color_styles (styled : list (sstyle * list N)) (palette : list rgb)
    (m : list (list N * list N)) : option (list (list N * list N)) :=
  match styled with
  | [] => Some m
  | (s, _) :: rest =>
      m1 <- svg_insert_colour palette svg_fg_prefix (s_fg s) m ;;
      m2 <- svg_insert_colour palette svg_bg_prefix (s_bg s) m1 ;;
      m3 <- svg_insert_colour palette svg_underline_prefix (s_ul s) m2 ;;
      svg_color_styles rest palette m3
  end.

(* ---- spans ------------------------------------------------------------------ *)

(* (classes, text) *)
Definition svg_span : Set := (list (list N) * list N)%type.

Record svg_line : Set := mkSvgLine {
  svg_l_bg : option (list svg_span);     (* None: no fragment of the line has a background colour *)
  svg_l_fg : list svg_span
}.

Record svg_document : Set := mkSvgDoc {
  svg_d_height : N;
  svg_d_fg : list N;                     (* rgb_value of the default foreground *)
  svg_d_bg : list N;
  svg_d_sheet : list (list N * list N);  (* (class, css rgb) in key order *)
  svg_d_effects : N;                     (* effects_in_use *)
  svg_d_background : bool;
  svg_d_lines : list svg_line
}.

Definition svg_opt_class (prefix : list N) (c : option colour) : option (list (list N)) :=
  match c with
  | None => Some []
  | Some col => n <- svg_color_name prefix col ;; Some [n]
  end.

(* the class list of write_fg_span *)
Definition svg_fg_classes (s : sstyle) : option (list (list N)) :=
  fgc <- svg_opt_class svg_fg_prefix (s_fg s) ;;
  ulc <- svg_opt_class svg_underline_prefix (s_ul s) ;;
  Some (fgc ++ ulc ++ map snd (filter (fun p => svg_contains (s_eff s) (fst p)) svg_effect_classes)).

(* the class list of write_bg_span *)
Definition svg_bg_classes (s : sstyle) : option (list (list N)) := svg_opt_class svg_bg_prefix (s_bg s).

Fixpoint svg_spans (classes : sstyle -> option (list (list N))) (line : list (sstyle * list N)) : option (list svg_span) :=
  match line with
  | [] => Some []
  | (s, t) :: rest =>
      if svg_is_nil t then svg_spans classes rest                  (* `if fragment.is_empty() { continue; }` *)
      else cl <- classes s ;; r <- svg_spans classes rest ;; Some ((cl, t) :: r)
  end.

Definition svg_has_bg (line : list (sstyle * list N)) : bool :=
  existsb (fun p => match s_bg (fst p) with Some _ => true | None => false end) line.

Definition svg_line_of (line : list (sstyle * list N)) : option svg_line :=
  fg <- svg_spans svg_fg_classes line ;;
  if svg_has_bg line
  then bg <- svg_spans svg_bg_classes line ;; Some (mkSvgLine (Some bg) fg)
  else Some (mkSvgLine None fg).

Fixpoint svg_lines_of (lines : list (list (sstyle * list N))) : option (list svg_line) :=
  match lines with
  | [] => Some []
  | l :: rest => x <- svg_line_of l ;; r <- svg_lines_of rest ;; Some (x :: r)
  end.

(* the styled runs after the INVERT pre-pass *)
Definition svg_styled (t : svg_term) (input : list N) : option (list (sstyle * list N)) :=
  '(styled, _, _) <- extract_next input parser_new capture_default ;;
  Some (map (fun p => (svg_invert t (fst p), snd p)) styled).

Definition svg_effects_in_use (styled : list (sstyle * list N)) : N :=
  fold_left (fun e p => N.lor e (s_eff (fst p))) styled 0.

(* layer 1 *)
Definition svg_doc (t : svg_term) (input : list N) : option svg_document :=
  styled <- svg_styled t input ;;
  let styled_lines := svg_split_lines styled in
  fg_color <- svg_rgb_value (svg_t_fg t) (svg_t_palette t) ;;
  bg_color <- svg_rgb_value (svg_t_bg t) (svg_t_palette t) ;;
  let height := N.of_nat (List.length styled_lines) * svg_line_height + svg_padding * 2 in
  sheet <- svg_color_styles styled (svg_t_palette t) [] ;;
  lines <- svg_lines_of styled_lines ;;
  Some (mkSvgDoc height fg_color bg_color sheet (svg_effects_in_use styled) (svg_t_background t) lines).

(* ---- layer 2: the template --------------------------------------------------- *)

(* html_escape::encode_text *)
Fixpoint svg_encode_text (t : list N) : list N :=
  match t with
  | [] => []
  | c :: r =>
      (if c =? 38 then L"&amp;" else if c =? 60 then L"&lt;" else if c =? 62 then L"&gt;" else [c])
      ++ svg_encode_text r
  end.

(* str::replace('\r', "&#13;") *)
Definition svg_replace_cr (t : list N) : list N := flat_map (fun c => if c =? 13 then L"&#13;" else [c]) t.

(* the fragment as write_fg_span writes it *)
Definition svg_encode_fg (t : list N) : list N := svg_replace_cr (svg_encode_text t).

(* ` name="value"` *)
Definition svg_attr (a : list N * list N) : list N := [32] ++ fst a ++ [61; 34] ++ snd a ++ [34].
(* `<name atts>content</name>` *)
Definition svg_elem (name : list N) (atts : list (list N * list N)) (content : list N) : list N :=
  [60] ++ name ++ flat_map svg_attr atts ++ [62] ++ content ++ [60; 47] ++ name ++ [62].
(* `<name atts />` *)
Definition svg_empty_elem (name : list N) (atts : list (list N * list N)) : list N :=
  [60] ++ name ++ flat_map svg_attr atts ++ [32] ++ [47; 62].

Fixpoint svg_join (sep : list N) (l : list (list N)) : list N :=
  match l with
  | [] => []
  | [x] => x
  | x :: r => x ++ sep ++ svg_join sep r
  end.

Definition svg_class_attr (classes : list (list N)) : list (list N * list N) :=
  if svg_is_nil classes then [] else [(L"class", svg_join [32] classes)].

(* write_fg_span *)
Definition svg_print_fg_span (sp : svg_span) : list N :=
  svg_elem (L"tspan") (svg_class_attr (fst sp)) (svg_encode_fg (snd sp)).

(* write_bg_span: the fill repeats the width of the ESCAPED fragment *)
Definition svg_print_bg_span (wf : list N -> N) (sp : svg_span) : list N :=
  let fill := if svg_is_nil (fst sp) then svg_fill_off else svg_fill_on in
  svg_elem (L"tspan") (svg_class_attr (fst sp)) (repeat fill (N.to_nat (wf (svg_encode_text (snd sp))))).

Definition svg_px (n : N) : list N := svg_dec n ++ L"px".

(* `    <tspan x=".." y="..">` spans `\n</tspan>\n` *)
Definition svg_print_row (y : N) (spans : list N) : list N :=
  L"    " ++ svg_elem (L"tspan") [(L"x", svg_px svg_padding); (L"y", svg_px y)] (spans ++ [10]) ++ [10].

Definition svg_print_line (wf : list N -> N) (y : N) (l : svg_line) : list N :=
  (match svg_l_bg l with
   | Some bg => svg_print_row y (flat_map (svg_print_bg_span wf) bg)
   | None => []
   end)
  ++ svg_print_row y (flat_map svg_print_fg_span (svg_l_fg l)).

(* text_y starts at padding + line_height and grows by line_height *)
Fixpoint svg_print_lines (wf : list N -> N) (y : N) (ls : list svg_line) : list N :=
  match ls with
  | [] => []
  | l :: rest => svg_print_line wf y l ++ svg_print_lines wf (y + svg_line_height) rest
  end.

(* one entry of color_styles: three independent `if name.starts_with(..)` *)
Fixpoint svg_starts (p t : list N) : bool :=
  match p, t with
  | [], _ => true
  | a :: p', b :: t' => (a =? b) && svg_starts p' t'
  | _ :: _, [] => false
  end.

Definition svg_rule (name body : list N) : list N :=
  L"    ." ++ name ++ L" { " ++ body ++ L" }" ++ [10].

Definition svg_print_sheet_entry (e : list N * list N) : list N :=
  let '(name, rgb) := e in
  (if svg_starts svg_fg_prefix name then svg_rule name (L"fill: " ++ rgb) else [])
  ++ (if svg_starts svg_bg_prefix name
      then svg_rule name (L"stroke: " ++ rgb ++ L"; fill: " ++ rgb ++ L"; user-select: none; ") else [])
  ++ (if svg_starts svg_underline_prefix name
      then svg_rule name (L"text-decoration-line: underline; text-decoration-color: " ++ rgb) else []).

Definition svg_print_effect_rule (effects : N) (r : N * list N * list N) : list N :=
  let '(m, name, body) := r in
  if svg_contains effects m then svg_rule name body else [].

(* the character data of <style> *)
Definition svg_style_text (d : svg_document) : list N :=
  [10]
  ++ svg_rule svg_fg_class (L"fill: " ++ svg_d_fg d)
  ++ svg_rule svg_bg_class (L"background: " ++ svg_d_bg d)
  ++ flat_map svg_print_sheet_entry (svg_d_sheet d)
  ++ L"    .container {" ++ [10]
  ++ L"      padding: 0 10px;" ++ [10]
  ++ L"      line-height: " ++ svg_px svg_line_height ++ L";" ++ [10]
  ++ L"    }" ++ [10]
  ++ flat_map (svg_print_effect_rule (svg_d_effects d)) svg_effect_rules
  ++ L"    tspan {" ++ [10]
  ++ L"      font: 14px " ++ svg_font_family ++ L";" ++ [10]
  ++ L"      white-space: pre;" ++ [10]
  ++ L"      line-height: " ++ svg_px svg_line_height ++ L";" ++ [10]
  ++ L"    }" ++ [10]
  ++ L"  ".

Definition svg_rect : list N :=
  svg_empty_elem (L"rect")
    [(L"width", L"100%"); (L"height", L"100%"); (L"y", L"0"); (L"rx", L"4.5");
     (L"class", svg_bg_class)].

(* class="container {FG}" of <text> *)
Definition svg_text_classes : list (list N) := [L"container"; svg_fg_class].

(* layer 2 *)
Definition svg_print (width_px : N) (wf : list N -> N) (d : svg_document) : list N :=
  svg_elem (L"svg")
    [(L"width", svg_px width_px); (L"height", svg_px (svg_d_height d)); (L"xmlns", L"http://www.w3.org/2000/svg")]
    ([10] ++ L"  " ++ svg_elem (L"style") [] (svg_style_text d) ++ [10]
     ++ [10]
     ++ (if svg_d_background d then L"  " ++ svg_rect ++ [10] ++ [10] else [])
     ++ L"  "
     ++ svg_elem (L"text") [(L"xml:space", L"preserve"); (L"class", svg_join [32] svg_text_classes)]
          ([10] ++ svg_print_lines wf (svg_padding + svg_line_height) (svg_d_lines d) ++ L"  ")
     ++ [10]
     ++ [10])
  ++ [10].

(* ---- observations for the correspondence driver ------------------------------ *)

(* the visible text of the model's runs *)
Definition svg_visible (styled : list (sstyle * list N)) : list N := List.concat (map snd styled).

Definition svg_line_text (spans : list svg_span) : list N := List.concat (map snd spans).
Definition svg_fg_lines (d : svg_document) : list (list svg_span) := map svg_l_fg (svg_d_lines d).

(* the rules of the style sheet, abstractly: (selector name, css colour or []) in
   document order *)
Definition svg_rule_index (d : svg_document) : list (list N * list N) :=
  [(svg_fg_class, svg_d_fg d); (svg_bg_class, svg_d_bg d)]
  ++ svg_d_sheet d
  ++ [(L"container", [])]
  ++ map (fun r => (snd (fst r), [])) (filter (fun r => svg_contains (svg_d_effects d) (fst (fst r))) svg_effect_rules)
  ++ [(L"tspan", [])].

(* y attribute of the k-th line *)
Definition svg_line_y (k : N) : N := svg_padding + svg_line_height * (k + 1).

Definition svg_m_doc (palette : list rgb) (fg bg : colour) (background : bool) (input : list N) : option svg_document :=
  svg_doc (mkSvgTerm palette fg bg background) input.

Definition svg_m_print (width_px : N) (wf : list N -> N) (d : svg_document) : list N := svg_print width_px wf d.

(* ---- adapters for the function translator (tools/gen_fn_svg.py -> Generated/SvgFn.v) ----
   Definitions only; nothing above changes meaning.  The translated code sees an
   anstyle::Color as the [color] of Spec/Lossy (the Rust enum with its payloads as they
   are: it is what color_name / rgb_value match on); a Style keeps the [colour] of
   Spec/Sgr in its slots, so the accessors convert. *)
Definition svg_of_color (c : color) : colour :=
  match c with
  | Ansi a => CAnsi a
  | Ansi256 i => CIdx i
  | Rgb (r, g, b) => CRgb r g b
  end.

(* Style::get_{fg,bg,underline}_color / Style::{fg,bg}_color *)
Definition svg_get_fg (s : sstyle) : option color := option_map svg_to_color (s_fg s).
Definition svg_get_bg (s : sstyle) : option color := option_map svg_to_color (s_bg s).
Definition svg_get_ul (s : sstyle) : option color := option_map svg_to_color (s_ul s).
Definition svg_set_fg (s : sstyle) (c : option color) : sstyle := set_fg s (option_map svg_of_color c).
Definition svg_set_bg (s : sstyle) (c : option color) : sstyle := set_bg s (option_map svg_of_color c).

(* what the hand model leaves to its oracle arguments: unicode_width (UnicodeWidthStr::width),
   the f64 expression `(x as f64 * 8.4).ceil() as usize` (a function of x), and the one field of
   Term the record above does not carry (min_width_px: it enters the width attribute only) *)
Record svg_oracle : Type := mkSvgOracle {
  svg_o_uw : list N -> N;
  svg_o_ceil84 : N -> N;
  svg_o_min_width : N
}.

(* the fields of `struct Term` *)
Definition svg_t_fg_c (t : svg_term) : color := svg_to_color (svg_t_fg t).
Definition svg_t_bg_c (t : svg_term) : color := svg_to_color (svg_t_bg t).
Definition svg_t_font_family (t : svg_term) : list N := svg_font_family.     (* no setter: Term::new's value *)
Definition svg_t_padding (t : svg_term) : N := svg_padding.                  (* no setter: Term::new's value *)
Definition svg_t_min_width (o : svg_oracle) (t : svg_term) : N := svg_o_min_width o.

(* str::split_once(char) *)
Fixpoint svg_split_once (c : N) (s : list N) : option (list N * list N) :=
  match s with
  | [] => None
  | x :: r => if x =? c then Some ([], r)
              else match svg_split_once c r with
                   | Some (a, b) => Some (x :: a, b)
                   | None => None
                   end
  end.

(* str::strip_suffix(char) *)
Fixpoint svg_strip_suffix (s : list N) (c : N) : option (list N) :=
  match s with
  | [] => None
  | x :: r => match r with
              | [] => if x =? c then Some [] else None
              | _ :: _ => match svg_strip_suffix r c with Some r' => Some (x :: r') | None => None end
              end
  end.

(* slice::last_mut: the element borrowed, and the vector with that element replaced *)
Fixpoint svg_last {A} (l : list A) : option A :=
  match l with
  | [] => None
  | x :: r => match r with [] => Some x | _ :: _ => svg_last r end
  end.
Fixpoint svg_set_last {A} (l : list A) (v : A) : list A :=
  match l with
  | [] => []
  | x :: r => match r with [] => [v] | _ :: _ => x :: svg_set_last r v end
  end.

(* str::replace(char, &str) / str::repeat / str::starts_with / [&str]::join *)
Definition svg_str_replace (c : N) (by_ : list N) (t : list N) : list N :=
  flat_map (fun x => if x =? c then by_ else [x]) t.
Definition svg_str_repeat (s : list N) (n : N) : list N := List.concat (repeat s (N.to_nat n)).
Definition svg_str_starts_with (t p : list N) : bool := svg_starts p t.

(* Iterator::sum / Iterator::max over usize (max: None when empty) *)
Definition svg_sum (l : list N) : N := fold_left N.add l 0.
Definition svg_max_opt (l : list N) : option N :=
  match l with
  | [] => None
  | x :: r => Some (fold_left N.max r x)
  end.

(* BTreeMap<String, String>::insert as the translated code calls it (map first) *)
Definition svg_btree_insert (m : list (list N * list N)) (k v : list N) : list (list N * list N) := svg_map_insert k v m.

(* the width arithmetic of render_svg over the oracle: `max_width` (the widest line, fragment widths summed),
   the f64 product, std::cmp::max with min_width_px, the padding on both sides.  This is the value the
   translated code hands to [svg_print] as its [width_px] argument. *)
Definition svg_width_px (o : svg_oracle) (styled_lines : list (list (sstyle * list N))) : N :=
  let max_width := match svg_max_opt (map (fun l => svg_sum (map (fun '(_, tx) => svg_o_uw o tx) l)) styled_lines) with
                   | Some m => m
                   | None => 0
                   end in
  N.max (svg_o_ceil84 o max_width) (svg_o_min_width o) + svg_padding * 2.

(* ---- the WHOLE `struct Term` (tools/gen_fn_svg.py: Term::new, the builders, impl Default) ----
   The record above ([svg_term]) carries the four fields the abstract document depends on; this one has
   every field of the Rust struct, in declaration order, with the colours as the translated code sees them
   ([color] of Spec/Lossy).  Definitions only; nothing above changes meaning. *)
Record svg_term_full : Set := mkSvgTermFull {
  svg_tf_palette : list rgb;          (* palette: Palette *)
  svg_tf_fg_color : color;            (* fg_color: anstyle::Color *)
  svg_tf_bg_color : color;            (* bg_color: anstyle::Color *)
  svg_tf_background : bool;           (* background: bool *)
  svg_tf_font_family : list N;        (* font_family: &'static str *)
  svg_tf_min_width_px : N;            (* min_width_px: usize *)
  svg_tf_padding_px : N               (* padding_px: usize *)
}.

Definition set_svg_tf_palette (t : svg_term_full) (v : list rgb) : svg_term_full :=
  mkSvgTermFull v (svg_tf_fg_color t) (svg_tf_bg_color t) (svg_tf_background t) (svg_tf_font_family t) (svg_tf_min_width_px t) (svg_tf_padding_px t).
Definition set_svg_tf_fg_color (t : svg_term_full) (v : color) : svg_term_full :=
  mkSvgTermFull (svg_tf_palette t) v (svg_tf_bg_color t) (svg_tf_background t) (svg_tf_font_family t) (svg_tf_min_width_px t) (svg_tf_padding_px t).
Definition set_svg_tf_bg_color (t : svg_term_full) (v : color) : svg_term_full :=
  mkSvgTermFull (svg_tf_palette t) (svg_tf_fg_color t) v (svg_tf_background t) (svg_tf_font_family t) (svg_tf_min_width_px t) (svg_tf_padding_px t).
Definition set_svg_tf_background (t : svg_term_full) (v : bool) : svg_term_full :=
  mkSvgTermFull (svg_tf_palette t) (svg_tf_fg_color t) (svg_tf_bg_color t) v (svg_tf_font_family t) (svg_tf_min_width_px t) (svg_tf_padding_px t).
Definition set_svg_tf_font_family (t : svg_term_full) (v : list N) : svg_term_full :=
  mkSvgTermFull (svg_tf_palette t) (svg_tf_fg_color t) (svg_tf_bg_color t) (svg_tf_background t) v (svg_tf_min_width_px t) (svg_tf_padding_px t).
Definition set_svg_tf_min_width_px (t : svg_term_full) (v : N) : svg_term_full :=
  mkSvgTermFull (svg_tf_palette t) (svg_tf_fg_color t) (svg_tf_bg_color t) (svg_tf_background t) (svg_tf_font_family t) v (svg_tf_padding_px t).
Definition set_svg_tf_padding_px (t : svg_term_full) (v : N) : svg_term_full :=
  mkSvgTermFull (svg_tf_palette t) (svg_tf_fg_color t) (svg_tf_bg_color t) (svg_tf_background t) (svg_tf_font_family t) (svg_tf_min_width_px t) v.

(* projection to the hand model: the record [svg_doc] / the translated render_svg take, and the oracle whose
   [svg_o_min_width] is the one field that record leaves out *)
Definition svg_tf_term (t : svg_term_full) : svg_term :=
  mkSvgTerm (svg_tf_palette t) (svg_of_color (svg_tf_fg_color t)) (svg_of_color (svg_tf_bg_color t)) (svg_tf_background t).
Definition svg_tf_oracle (uw : list N -> N) (ceil84 : N -> N) (t : svg_term_full) : svg_oracle :=
  mkSvgOracle uw ceil84 (svg_tf_min_width_px t).

(* the two fields without a setter hold the constants tools/gen_svg.py reads from Term::new
   (what [svg_t_font_family] / [svg_t_padding] assume) *)
Definition svg_tf_consts (t : svg_term_full) : Prop :=
  svg_tf_font_family t = svg_font_family /\ svg_tf_padding_px t = svg_padding.

(* Term::new() as the hand model states it, over the whole record *)
Definition svg_term_full_new : svg_term_full :=
  mkSvgTermFull vga (Ansi svg_default_fg_ansi) (Ansi svg_default_bg_ansi) true svg_font_family svg_min_width svg_padding.

(* one builder call `Term::<b>(self, x)`, and a chain of them applied to a term *)
Inductive svg_builder : Set :=
| SbPalette (p : list rgb)
| SbFgColor (c : color)
| SbBgColor (c : color)
| SbBackground (b : bool)
| SbMinWidthPx (n : N).
Definition svg_build1 (t : svg_term_full) (b : svg_builder) : svg_term_full :=
  match b with
  | SbPalette p => set_svg_tf_palette t p
  | SbFgColor c => set_svg_tf_fg_color t c
  | SbBgColor c => set_svg_tf_bg_color t c
  | SbBackground y => set_svg_tf_background t y
  | SbMinWidthPx n => set_svg_tf_min_width_px t n
  end.
Definition svg_build (t : svg_term_full) (bs : list svg_builder) : svg_term_full := fold_left svg_build1 bs t.
