(* Model/ParseCfg.v -- C20: the build configurations of anstyle-parse as values of
   [Model.Parser.cfg], and executable helpers over the (unchanged) parser model:
   which input bytes the fixed OSC buffer drops, whether an input fits.
   Definitions only. *)
From Coq Require Import NArith List Bool.
From AV Require Import Generated.Table Generated.ParseCfg Spec.Vt Model.Base Model.Parser.
Import ListNotations.
Local Open Scope N_scope.

(* feature `core` => ArrayVec<u8, MAX_OSC_RAW>; feature `utf8` => Utf8Parser *)
Definition pc_cfg_of (core utf8 : bool) : cfg :=
  mkCfg (if core then Some pc_max_osc_raw else None) utf8.

Fixpoint pc_bytes_eqb (a b : list N) : bool :=
  match a, b with
  | [], [] => true
  | x :: a', y :: b' => (x =? y) && pc_bytes_eqb a' b'
  | _, _ => false
  end.

Fixpoint pc_lookup (l : list N) (t : list (list N * (bool * bool))) : option cfg :=
  match t with
  | [] => None
  | (k, (c, u)) :: rest => if pc_bytes_eqb l k then Some (pc_cfg_of c u) else pc_lookup l rest
  end.

(* the configuration built by the feature set with the given label *)
Definition pc_cfg_of_label (l : list N) : option cfg := pc_lookup l pc_feature_sets.

Definition pc_cfgs : list cfg := map (fun e => pc_cfg_of (fst (snd e)) (snd (snd e))) pc_feature_sets.

(* byte [b] arriving in parser state [p] is handed to Action::OscPut *)
Definition pc_puts (p : parser) (b : N) : bool :=
  match pstate p with
  | Utf8 => false
  | s => match state_change s b with
         | Some (_, AOscPut) => true
         | _ => false
         end
  end.

(* osc_raw holds exactly [cap] bytes *)
Definition pc_full (cap : N) (p : parser) : bool := N.of_nat (length (osc_raw p)) =? cap.

(* running the heap configuration (utf8 = u) from [p] over [bs], no byte is handed
   to OscPut while osc_raw already holds [cap] bytes *)
Fixpoint pc_fitb (cap : N) (u : bool) (p : parser) (bs : list N) : bool :=
  match bs with
  | [] => true
  | b :: rest =>
      negb (pc_puts p b && pc_full cap p) &&
      match advance (mkCfg None u) p b with
      | Some (p', _) => pc_fitb cap u p' rest
      | None => true
      end
  end.

(* the input with every OSC payload cut where [cap] payload bytes have been
   stored: walking the HEAP configuration, a byte that OscPut would receive
   while osc_raw already holds [cap] bytes is deleted (';' included) and the
   parser is left as it is; every other byte is kept and consumed *)
Fixpoint pc_trunc (cap : N) (u : bool) (p : parser) (bs : list N) : list N :=
  match bs with
  | [] => []
  | b :: rest =>
      if pc_puts p b && pc_full cap p then pc_trunc cap u p rest
      else b :: match advance (mkCfg None u) p b with
                | Some (p', _) => pc_trunc cap u p' rest
                | None => rest
                end
  end.

(* the same cut on a bare OSC payload with [room] free bytes: ';' takes no room;
   once there is no room everything up to the terminator is dropped *)
Fixpoint pc_cut (room : nat) (body : list N) : list N :=
  match body with
  | [] => []
  | b :: rest =>
      match room with
      | O => []
      | S k => b :: pc_cut (if b =? 59 then room else k) rest
      end
  end.

Definition pc_events (c : cfg) (bs : list N) : option (list event) :=
  '(_, e) <- run c parser_new bs ;; Some e.
