(* Model/Choice.v -- C09: hand model of colour auto-detection.  Definitions only.

   Transcribes, as compiled on this (non-Windows) platform:
     crates/anstream/src/auto.rs        fn choice(raw: &dyn RawStream) -> ColorChoice
     crates/anstyle-query/src/lib.rs    clicolor, clicolor_force, no_color,
                                        term_supports_color, term_supports_ansi_color,
                                        truecolor, is_ci, non_empty
     crates/anstream/src/stream.rs      IsTerminal::is_terminal per stream type
   The `#[cfg(windows)]` blocks of term_supports_color / term_supports_ansi_color
   (TERM unset counts as colour-capable; "cygwin" is excluded) are compiled out
   here and are NOT modelled; `cfg!(windows)`-only arms of AutoStream likewise.

   The process environment is abstract: [e name] is what `std::env::var_os(name)`
   returns, a byte string (OsString on Unix) or None.  Variable names and the
   literals compared with come from Generated/Choice.v (translated from the
   sources on every run); comparing an OsString with a &str is byte equality.
   [choice] is the vocabulary type of Spec/Choice.v (the four ColorChoice values). *)
From Coq Require Import NArith List Bool.
From AV Require Import Spec.Choice Generated.Choice.
Import ListNotations.
Local Open Scope N_scope.

Definition ch_env := list N -> option (list N).

(* OsString == str / OsStr == str *)
Fixpoint ch_bytes_eq (a b : list N) : bool :=
  match a, b with
  | [], [] => true
  | x :: a', y :: b' => if x =? y then ch_bytes_eq a' b' else false
  | _, _ => false
  end.

Definition ch_unwrap_or {A} (o : option A) (d : A) : A := match o with Some x => x | None => d end.
Definition ch_is_empty (s : list N) : bool := match s with [] => true | _ :: _ => false end.

(* fn non_empty(var: Option<&OsStr>) -> bool { !var.unwrap_or_default().is_empty() } *)
Definition ch_non_empty (v : option (list N)) : bool := negb (ch_is_empty (ch_unwrap_or v [])).

(* let value = var_os("CLICOLOR")?; Some(value != "0") *)
Definition ch_clicolor (e : ch_env) : option bool :=
  match e ch_var_clicolor with
  | None => None
  | Some value => Some (negb (ch_bytes_eq value ch_lit_clicolor_off))
  end.

Definition ch_clicolor_force (e : ch_env) : bool := ch_non_empty (e ch_var_clicolor_force).

Definition ch_no_color (e : ch_env) : bool := ch_non_empty (e ch_var_no_color).

(* #[cfg(not(windows))]: match var_os("TERM") { None => return false,
     Some(k) => { if k == "dumb" { return false; } } } true *)
Definition ch_term_supports_color (e : ch_env) : bool :=
  match e ch_var_term with
  | None => false
  | Some k => if ch_bytes_eq k ch_lit_term_dumb then false else true
  end.

(* #[cfg(not(windows))]: term_supports_color() *)
Definition ch_term_supports_ansi_color (e : ch_env) : bool := ch_term_supports_color e.

(* let value = var_os("COLORTERM"); let value = value.as_deref().unwrap_or_default();
   value == "truecolor" || value == "24bit" *)
Definition ch_truecolor (e : ch_env) : bool :=
  let value := ch_unwrap_or (e ch_var_colorterm) [] in
  existsb (fun l => ch_bytes_eq value l) ch_lit_truecolor.

(* var_os("CI").is_some() *)
Definition ch_is_ci (e : ch_env) : bool :=
  match e ch_var_ci with Some _ => true | None => false end.

(* anstream::auto::choice; [global] is ColorChoice::global(), [tty] is raw.is_terminal() *)
Definition choice_model (global : choice) (e : ch_env) (tty : bool) : choice :=
  match global with
  | ChAuto =>
      let clicolor := ch_clicolor e in
      let clicolor_enabled := ch_unwrap_or clicolor false in
      let clicolor_disabled := negb (ch_unwrap_or clicolor true) in
      if ch_no_color e then ChNever
      else if ch_clicolor_force e then ChAlways
      else if clicolor_disabled then ChNever
      else if tty && (ch_term_supports_color e || clicolor_enabled || ch_is_ci e) then ChAlways
      else ChNever
  | ChAlwaysAnsi | ChAlways | ChNever => global
  end.

(* ColorChoice::write_global(c); ColorChoice::global(): the value goes through the
   atomic as a usize; None = the `expect` in AtomicChoice::get panics *)
Definition ch_global_after_write (c : choice) : option choice := ch_to_choice (ch_from_choice c).

(* <T as IsTerminal>::is_terminal for the stream type named [ty] (as spelt in
   stream.rs) whose descriptor, if it has one, is a terminal iff [fd_tty];
   None = no such impl (the forwarding impls &T, &mut T, Box<T> answer what their
   pointee answers and are not types of their own here) *)
Definition ch_is_terminal (ty : list N) (fd_tty : bool) : option bool :=
  if existsb (ch_bytes_eq ty) ch_streams_const_false then Some false
  else if existsb (ch_bytes_eq ty) ch_streams_polyfill then Some fd_tty
  else None.

(* AutoStream::<T>::choice(&raw) *)
Definition ch_choice_on (ty : list N) (fd_tty : bool) (global : choice) (e : ch_env) : option choice :=
  match ch_is_terminal ty fd_tty with
  | Some t => Some (choice_model global e t)
  | None => None
  end.

(* the value `--color <word>` leaves in the global: clap's value parser accepts the
   three flag words (Spec/Choice.flag_of_word; clap itself is a third-party crate and
   is not modelled), Color::as_choice maps the flag *)
Definition ch_flag_choice (w : list N) : option choice :=
  match flag_of_word w with Some f => Some (ch_as_choice f) | None => None end.

(* ---- vocabulary of the function translator (tools/gen_fn_choice.py -> Generated/ChoiceFn.v) ----
   Adapters and the hand models of the plumbing around the global; definitions only. *)

(* #[derive(PartialEq)] of Option<T>, over T's equality (`clicolor == Some(true)`) *)
Definition ch_opt_eqb {A : Type} (eqb : A -> A -> bool) (a b : option A) : bool :=
  match a, b with
  | None, None => true
  | Some x, Some y => eqb x y
  | _, _ => false
  end.

(* #[derive(PartialEq)] of colorchoice::ColorChoice and of clap's ColorChoice (`choice != ColorChoice::Auto`) *)
Definition ch_choice_eqb (a b : choice) : bool :=
  match a, b with
  | ChAuto, ChAuto | ChAlwaysAnsi, ChAlwaysAnsi | ChAlways, ChAlways | ChNever, ChNever => true
  | _, _ => false
  end.
Definition ch_flag_eqb (a b : color_flag) : bool :=
  match a, b with
  | FlAuto, FlAuto | FlAlways, FlAlways | FlNever, FlNever => true
  | _, _ => false
  end.

(* a `&dyn RawStream`, as far as anstream::auto::choice looks at it: the answer of is_terminal() *)
Definition ch_raw := bool.
Definition ch_raw_is_terminal (r : ch_raw) : bool := r.

(* core::sync::atomic::AtomicUsize: a register holding a usize; load / store read / write it (every
   memory Ordering is sequential here: one thread, one atomic) *)
Definition ch_reg := N.
Definition ch_reg_new (v : N) : ch_reg := v.
Definition ch_reg_load (r : ch_reg) : N := r.
Definition ch_reg_store (r : ch_reg) (v : N) : ch_reg := v.

(* struct AtomicChoice(AtomicUsize) *)
Definition ch_atomic := ch_reg.
Definition ch_atomic_mk (r : ch_reg) : ch_atomic := r.
Definition ac_f0 (a : ch_atomic) : ch_reg := a.
Definition set_ac_f0 (a : ch_atomic) (r : ch_reg) : ch_atomic := r.

(* colorchoice_clap: struct Color { color: clap::ColorChoice } *)
Definition ch_clap_color := color_flag.
Definition cc_color (c : ch_clap_color) : color_flag := c.
Definition set_cc_color (c : ch_clap_color) (f : color_flag) : ch_clap_color := f.

(* AtomicChoice::new / get / set; `static USER`; ColorChoice::global / write_global over the value
   [user] of the static; None = the `expect` in AtomicChoice::get panics *)
Definition ch_atomic_new : ch_atomic := ch_from_choice ch_global_initial.
Definition ch_atomic_get (a : ch_atomic) : option choice := ch_to_choice a.
Definition ch_atomic_set (a : ch_atomic) (c : choice) : ch_atomic := ch_from_choice c.
Definition ch_user_initial : ch_atomic := ch_atomic_new.
Definition ch_global (user : ch_atomic) : option choice := ch_atomic_get user.
Definition ch_write_global (c : choice) (user : ch_atomic) : ch_atomic := ch_atomic_set user c.

(* colorchoice_clap::Color::write_global *)
Definition ch_color_write_global (f : ch_clap_color) (user : ch_atomic) : ch_atomic :=
  ch_write_global (ch_as_choice (cc_color f)) user.

(* anstream::auto::choice with the global read from the static *)
Definition ch_choice_fn (e : ch_env) (user : ch_atomic) (raw : ch_raw) : option choice :=
  match ch_global user with
  | Some g => Some (choice_model g e (ch_raw_is_terminal raw))
  | None => None
  end.

(* impl Default for ColorChoice (`Auto`: "use colors if the output device appears to support them") and
   impl Default for AtomicChoice (the value of `AtomicChoice::new()`: an atomic holding the default choice) *)
Definition ch_choice_default : choice := ChAuto.
Definition ch_atomic_default : ch_atomic := ch_atomic_new.
