(* Model/Roff.v -- hand model of anstyle_roff::to_roff(text).to_roff().  Definitions only.

   Pipeline (crates/anstyle-roff/src/{lib.rs,styled_str.rs}):

     cansi::v3::categorise_text     third party (cansi 2.2.1, src/{parsing.rs,categorise.rs}),
                                    transcribed here, tied by the correspondence runs
     StyledStr::from                styled_str.rs, over the tables of Generated/Roff.v
     set_color / add_color_to_roff / set_effects_and_text      lib.rs
     roff::Roff::{control, text, to_roff}                     third party (roff 0.2.1, src/lib.rs),
                                    transcribed here, tied by the correspondence runs

   Strings are byte strings (the UTF-8 bytes of the Rust &str).  Every character the
   code looks at (ESC, '[', ';', the digits, the final bytes 40..7E, '\', '-', '.', ''',
   newline, space) is ASCII, and no byte of a multi-byte UTF-8 character is ASCII, so
   working on bytes is the same as working on characters for valid UTF-8.  Nothing on
   this path can panic (cansi slices at ASCII bytes only; the table reads are total on
   their Rust types); the only [option] is inherited from Model/Lossy's array reads. *)
From Coq Require Import NArith List Bool.
From AV Require Import Model.Base Generated.Style Model.Style Generated.Palette Spec.Lossy Model.Lossy Generated.Roff.
Import ListNotations.
Local Open Scope N_scope.

Fixpoint rf_eqb (a b : list N) : bool :=
  match a, b with
  | [], [] => true
  | x :: a', y :: b' => (x =? y) && rf_eqb a' b'
  | _, _ => false
  end.

(* ================= (a) cansi 2.2.1 ============================================ *)

(* struct SGR (lib.rs): Color and Intensity by declaration number
   (Color: Black = 0 .. White = 7, BrightBlack = 8 .. BrightWhite = 15;
    Intensity: Normal = 0, Bold = 1, Faint = 2) *)
Record rf_sgr : Set := mkRfSgr {
  cs_fg : option N;
  cs_bg : option N;
  cs_intensity : option N;
  cs_italic : option bool;
  cs_underline : option bool;
  cs_blink : option bool;
  cs_reversed : option bool;
  cs_hidden : option bool;
  cs_strikethrough : option bool
}.

Definition rf_sgr_default : rf_sgr := mkRfSgr None None None None None None None None None.

(* the arms of adjust_sgr (categorise.rs): `"<code>" => <action>`; the wildcard arm is `_ => ()` *)
Inductive rf_cansi_action : Set :=
  | RfCaReset                       (* return SGR::default() *)
  | RfCaIntensity (k : N)
  | RfCaItalic (b : bool)
  | RfCaUnderline (b : bool)
  | RfCaBlink (b : bool)
  | RfCaReversed (b : bool)
  | RfCaHidden (b : bool)
  | RfCaStrikethrough (b : bool)
  | RfCaFg (c : N)
  | RfCaBg (c : N).

Definition rf_cansi_arms : list (N * rf_cansi_action) :=
  [ (0, RfCaReset);
    (1, RfCaIntensity 1); (2, RfCaIntensity 2);
    (3, RfCaItalic true); (4, RfCaUnderline true); (5, RfCaBlink true);
    (7, RfCaReversed true); (8, RfCaHidden true); (9, RfCaStrikethrough true);
    (22, RfCaIntensity 0);
    (23, RfCaItalic false); (24, RfCaUnderline false); (25, RfCaBlink false);
    (27, RfCaReversed false); (28, RfCaHidden false); (29, RfCaStrikethrough false);
    (30, RfCaFg 0); (31, RfCaFg 1); (32, RfCaFg 2); (33, RfCaFg 3);
    (34, RfCaFg 4); (35, RfCaFg 5); (36, RfCaFg 6); (37, RfCaFg 7);
    (40, RfCaBg 0); (41, RfCaBg 1); (42, RfCaBg 2); (43, RfCaBg 3);
    (44, RfCaBg 4); (45, RfCaBg 5); (46, RfCaBg 6); (47, RfCaBg 7);
    (90, RfCaFg 8); (91, RfCaFg 9); (92, RfCaFg 10); (93, RfCaFg 11);
    (94, RfCaFg 12); (95, RfCaFg 13); (96, RfCaFg 14); (97, RfCaFg 15);
    (100, RfCaBg 8); (101, RfCaBg 9); (102, RfCaBg 10); (103, RfCaBg 11);
    (104, RfCaBg 12); (105, RfCaBg 13); (106, RfCaBg 14); (107, RfCaBg 15) ].

(* the string literal of an arm: the decimal digits of its code, no leading zeros *)
Definition rf_code_str (c : N) : list N :=
  if c <? 10 then [48 + c]
  else if c <? 100 then [48 + c / 10; 48 + c mod 10]
  else [48 + c / 100; 48 + (c / 10) mod 10; 48 + c mod 10].

(* `match seq { "0" => .., .. , _ => () }`: string equality with the literals, first match *)
Fixpoint rf_cansi_lookup (seq : list N) (arms : list (N * rf_cansi_action)) : option rf_cansi_action :=
  match arms with
  | [] => None
  | (c, a) :: rest => if rf_eqb seq (rf_code_str c) then Some a else rf_cansi_lookup seq rest
  end.

Definition rf_cansi_apply (sgr : rf_sgr) (a : rf_cansi_action) : rf_sgr :=
  match a with
  | RfCaReset => rf_sgr_default
  | RfCaIntensity k =>
      mkRfSgr (cs_fg sgr) (cs_bg sgr) (Some k) (cs_italic sgr) (cs_underline sgr) (cs_blink sgr) (cs_reversed sgr) (cs_hidden sgr) (cs_strikethrough sgr)
  | RfCaItalic b =>
      mkRfSgr (cs_fg sgr) (cs_bg sgr) (cs_intensity sgr) (Some b) (cs_underline sgr) (cs_blink sgr) (cs_reversed sgr) (cs_hidden sgr) (cs_strikethrough sgr)
  | RfCaUnderline b =>
      mkRfSgr (cs_fg sgr) (cs_bg sgr) (cs_intensity sgr) (cs_italic sgr) (Some b) (cs_blink sgr) (cs_reversed sgr) (cs_hidden sgr) (cs_strikethrough sgr)
  | RfCaBlink b =>
      mkRfSgr (cs_fg sgr) (cs_bg sgr) (cs_intensity sgr) (cs_italic sgr) (cs_underline sgr) (Some b) (cs_reversed sgr) (cs_hidden sgr) (cs_strikethrough sgr)
  | RfCaReversed b =>
      mkRfSgr (cs_fg sgr) (cs_bg sgr) (cs_intensity sgr) (cs_italic sgr) (cs_underline sgr) (cs_blink sgr) (Some b) (cs_hidden sgr) (cs_strikethrough sgr)
  | RfCaHidden b =>
      mkRfSgr (cs_fg sgr) (cs_bg sgr) (cs_intensity sgr) (cs_italic sgr) (cs_underline sgr) (cs_blink sgr) (cs_reversed sgr) (Some b) (cs_strikethrough sgr)
  | RfCaStrikethrough b =>
      mkRfSgr (cs_fg sgr) (cs_bg sgr) (cs_intensity sgr) (cs_italic sgr) (cs_underline sgr) (cs_blink sgr) (cs_reversed sgr) (cs_hidden sgr) (Some b)
  | RfCaFg c =>
      mkRfSgr (Some c) (cs_bg sgr) (cs_intensity sgr) (cs_italic sgr) (cs_underline sgr) (cs_blink sgr) (cs_reversed sgr) (cs_hidden sgr) (cs_strikethrough sgr)
  | RfCaBg c =>
      mkRfSgr (cs_fg sgr) (Some c) (cs_intensity sgr) (cs_italic sgr) (cs_underline sgr) (cs_blink sgr) (cs_reversed sgr) (cs_hidden sgr) (cs_strikethrough sgr)
  end.

(* adjust_sgr(sgr, seq) *)
Definition rf_adjust_sgr (sgr : rf_sgr) (seq : list N) : rf_sgr :=
  match rf_cansi_lookup seq rf_cansi_arms with
  | Some a => rf_cansi_apply sgr a
  | None => sgr
  end.

(* str::split(';'): "" yields [""], "a;" yields ["a", ""] *)
Fixpoint rf_split (sep : N) (s : list N) : list (list N) :=
  match s with
  | [] => [[]]
  | c :: t =>
      if c =? sep then [] :: rf_split sep t
      else match rf_split sep t with
           | f :: fs => (c :: f) :: fs
           | [] => [[c]]
           end
  end.

(* handle_seq: the bytes between "ESC [" and the terminating byte, split at ';', folded
   over SGR::default() -- every sequence starts from the default (no accumulation), and
   the terminating byte is not looked at (any CSI sequence is read as SGR) *)
Definition rf_handle_seq (params : list N) : rf_sgr :=
  fold_left rf_adjust_sgr (rf_split 59 params) rf_sgr_default.

(* terminated_byte *)
Definition rf_terminated (b : N) : bool := (64 <=? b) && (b <=? 126).

(* parse + categorise_text_v3 as one left-to-right pass.
   parse: at a position where the text starts with "ESC [", bytes are skipped up to the
   first terminated byte; that is a Match; if the end of the text comes first the loop
   is left and no Match is recorded (the rest, "ESC [" included, stays text).  At any
   other position one character is skipped (an ESC that is not followed by '[' is an
   ordinary character).  [The loop also stops when fewer than two bytes are left; such a
   tail cannot start with "ESC [".]
   categorise_text_v3: the text before a Match (if not empty) becomes a slice with the
   SGR of the PREVIOUS sequence; then sgr = handle_seq(match); the text after the last
   Match (if not empty) becomes the last slice.
   State: [pend] = the text of the current slice so far (reversed); [RfSawEsc]: the
   previous byte was an ESC that is not yet part of [pend]; in state [RfInCsi acc],
   [acc] = the parameter bytes seen so far (reversed). *)
Inductive rf_scan_state : Set := RfInText | RfSawEsc | RfInCsi (acc : list N).

Definition rf_flush (sgr : rf_sgr) (pend : list N) : list (rf_sgr * list N) :=
  match pend with [] => [] | _ => [(sgr, rev pend)] end.

Fixpoint rf_cat_go (st : rf_scan_state) (sgr : rf_sgr) (pend : list N) (s : list N) : list (rf_sgr * list N) :=
  match s with
  | [] =>
      match st with
      | RfInText => rf_flush sgr pend
      | RfSawEsc => rf_flush sgr (27 :: pend)
      | RfInCsi acc => rf_flush sgr (acc ++ 91 :: 27 :: pend)     (* unterminated: all of it is text *)
      end
  | b :: t =>
      match st with
      | RfInCsi acc =>
          if rf_terminated b then rf_flush sgr pend ++ rf_cat_go RfInText (rf_handle_seq (rev acc)) [] t
          else rf_cat_go (RfInCsi (b :: acc)) sgr pend t
      | RfSawEsc =>
          if b =? 91 then rf_cat_go (RfInCsi []) sgr pend t
          else if b =? 27 then rf_cat_go RfSawEsc sgr (27 :: pend) t
          else rf_cat_go RfInText sgr (b :: 27 :: pend) t
      | RfInText =>
          if b =? 27 then rf_cat_go RfSawEsc sgr pend t
          else rf_cat_go RfInText sgr (b :: pend) t
      end
  end.

Definition rf_categorise (text : list N) : list (rf_sgr * list N) :=
  rf_cat_go RfInText rf_sgr_default [] text.

(* ================= (b) styled_str.rs ========================================== *)

(* anstyle::Style as far as this crate uses it: colours ([color] of Spec/Lossy.v:
   Ansi (AnsiColor number) | Ansi256 | Rgb) and the Effects bit set *)
Record rf_style : Set := mkRfStyle {
  ry_fg : option color;
  ry_bg : option color;
  ry_effects : N
}.

(* cansi_to_anstyle_color over the translated arms *)
Definition rf_cansi_to_anstyle (c : option N) : option color :=
  match c with
  | None => None
  | Some k => match assoc k rf_cansi_color_tab with Some a => Some (Ansi a) | None => None end
  end.

Definition rf_flag (o : option bool) : bool := match o with Some b => b | None => false end.   (* unwrap_or(false) *)

Definition rf_source_on (sgr : rf_sgr) (src : rf_source) : bool :=
  match src with
  | RfSrcItalic => rf_flag (cs_italic sgr)
  | RfSrcUnderline => rf_flag (cs_underline sgr)
  | RfSrcBlink => rf_flag (cs_blink sgr)
  | RfSrcReversed => rf_flag (cs_reversed sgr)
  | RfSrcHidden => rf_flag (cs_hidden sgr)
  | RfSrcStrikethrough => rf_flag (cs_strikethrough sgr)
  | RfSrcIntensity k => match cs_intensity sgr with Some j => j =? k | None => false end   (* matches!(.., Some(<k>)) *)
  end.

(* create_effects: Effects::new().set(Effects(1 << bit), <source>) ... *)
Definition rf_create_effects (sgr : rf_sgr) : N :=
  fold_left (fun e (p : N * rf_source) => e_set e (N.shiftl 1 (fst p)) (rf_source_on sgr (snd p))) rf_effect_sources e_new.

(* From<CategorisedSlice> for StyledStr *)
Definition rf_style_of (sgr : rf_sgr) : rf_style :=
  mkRfStyle (rf_cansi_to_anstyle (cs_fg sgr)) (rf_cansi_to_anstyle (cs_bg sgr)) (rf_create_effects sgr).

(* ================= (c) lib.rs ================================================== *)

(* roff::Inline / roff::Line *)
Inductive rf_inline : Set :=
  | RfInRoman (t : list N)
  | RfInItalic (t : list N)
  | RfInBold (t : list N)
  | RfInLineBreak.

Inductive rf_line : Set :=
  | RfControl (name : list N) (args : list (list N))
  | RfText (inlines : list rf_inline).

(* ansi_color_to_roff (total on AnsiColor; [] for a number that is no AnsiColor) *)
Definition rf_ansi_name (a : N) : list N := nth (N.to_nat a) rf_color_names [].

(* format!("{val:0<w>x}"): lower-case hexadecimal, at least [w] digits *)
Definition rf_hex_digit_lc (d : N) : N := if d <? 10 then 48 + d else 97 + (d - 10).

(* the [w] low hexadecimal digits, most significant first *)
Fixpoint rf_hex_fixed (w : nat) (v : N) : list N :=
  match w with
  | O => []
  | S k => rf_hex_fixed k (v / 16) ++ [rf_hex_digit_lc (v mod 16)]
  end.

(* number of hexadecimal digits of a positive number *)
Definition rf_hex_len (v : N) : nat := N.to_nat ((N.size v + 3) / 4).

Definition rf_fmt_lower_hex (w : nat) (v : N) : list N :=
  if v <? 16 ^ N.of_nat w then rf_hex_fixed w v else rf_hex_fixed (rf_hex_len v) v.

(* to_hex: val = (r << 16) + (g << 8) + b as usize (no overflow: r, g, b are u8) *)
Definition rf_to_hex (c : rgb) : list N :=
  let '(r, g, b) := c in
  rf_hex_prefix ++ rf_fmt_lower_hex rf_hex_width (N.shiftl r 16 + N.shiftl g 8 + b).

(* rgb_name *)
Definition rf_rgb_name (c : rgb) : list N := rf_rgb_name_prefix ++ rf_to_hex c.

(* xterm_to_ansi_or_rgb; Palette::default() is VGA (not windows) *)
Definition rf_xterm_to_ansi_or_rgb (i : N) : option color :=
  match into_ansi i with
  | Some a => Some (Ansi a)
  | None => c <- xterm_to_rgb i vga ;; Some (Rgb c)
  end.

(* add_color_to_roff for a colour that is not Ansi256 *)
Definition rf_add_color_direct (req : list N) (c : option color) : list rf_line :=
  match c with
  | Some (Rgb c) =>
      let name := rf_rgb_name c in
      [RfControl rf_req_defcolor [name; rf_rgb_word; rf_to_hex c]; RfControl req [name]]
  | Some (Ansi a) => [RfControl req [rf_ansi_name a]]
  | Some (Ansi256 _) => []      (* not used: see rf_add_color *)
  | None => [RfControl req [rf_default_name]]
  end.

(* add_color_to_roff: the Ansi256 arm calls itself once with an Ansi or Rgb colour *)
Definition rf_add_color (req : list N) (c : option color) : option (list rf_line) :=
  match c with
  | Some (Ansi256 i) => c' <- rf_xterm_to_ansi_or_rgb i ;; Some (rf_add_color_direct req (Some c'))
  | _ => Some (rf_add_color_direct req c)
  end.

(* set_color *)
Definition rf_set_color (st : rf_style) : option (list rf_line) :=
  a <- rf_add_color rf_req_fg (ry_fg st) ;;
  b <- rf_add_color rf_req_bg (ry_bg st) ;;
  Some (a ++ b).

(* is_bright over the translated matches! list; false for a colour that is not Color::Ansi *)
Definition rf_is_bright (c : color) : bool :=
  match c with
  | Ansi a => nth (N.to_nat a) rf_bright_tab false
  | _ => false
  end.

Definition rf_has_bright_fg (st : rf_style) : bool :=
  match ry_fg st with Some c => rf_is_bright c | None => false end.

(* set_effects_and_text *)
Definition rf_effects_and_text (st : rf_style) (text : list N) : rf_line :=
  if e_contains (ry_effects st) eff_bold || rf_has_bright_fg st then RfText [RfInBold text]
  else if e_contains (ry_effects st) eff_italic then RfText [RfInItalic text]
  else RfText [RfInRoman text].

(* to_roff: the lines pushed for the styled slices, in order *)
Fixpoint rf_doc_lines (slices : list (rf_sgr * list N)) : option (list rf_line) :=
  match slices with
  | [] => Some []
  | (sgr, text) :: rest =>
      let st := rf_style_of sgr in
      cl <- rf_set_color st ;;
      tl <- rf_doc_lines rest ;;
      Some (cl ++ rf_effects_and_text st text :: tl)
  end.

(* ================= (d) roff 0.2.1: Roff::to_roff ================================ *)

(* str::replace(<one char>, to) *)
Definition rf_replace1 (a : N) (to : list N) (s : list N) : list N :=
  flat_map (fun c => if c =? a then to else [c]) s.

(* str::replace(<two different chars a b>, to): leftmost, non-overlapping matches *)
Fixpoint rf_replace2 (a b : N) (to : list N) (s : list N) : list N :=
  match s with
  | [] => []
  | x :: t =>
      match t with
      | y :: t' => if (x =? a) && (y =? b) then to ++ rf_replace2 a b to t' else x :: rf_replace2 a b to t
      | [] => [x]
      end
  end.

(* escape_inline: text.replace(r"\", r"\\").replace('-', r"\-") *)
Definition rf_escape_inline (t : list N) : list N :=
  rf_replace1 45 [92; 45] (rf_replace1 92 [92; 92] t).

(* escape_leading_cc: s.replace("\n.", "\n\\&.").replace("\n'", "\n\\&'") *)
Definition rf_escape_leading_cc (s : list N) : list N :=
  rf_replace2 10 39 [10; 92; 38; 39] (rf_replace2 10 46 [10; 92; 38; 46] s).

(* starts_with_cc *)
Definition rf_starts_with_cc (s : list N) : bool :=
  match s with c :: _ => (c =? 46) || (c =? 39) | [] => false end.

(* escape_spaces *)
Definition rf_escape_spaces (w : list N) : list N :=
  if existsb (N.eqb 32) w then 34 :: w ++ [34] else w.

(* the inlines of a text line, Apostrophes::DontHandle (that is what to_roff() passes) *)
Fixpoint rf_render_inlines (at_line_start : bool) (l : list rf_inline) : list N :=
  match l with
  | [] => []
  | i :: rest =>
      (match i with
       | RfInLineBreak => if at_line_start then [46; 98; 114; 10] else [10; 46; 98; 114; 10]    (* ".br\n" / "\n.br\n" *)
       | RfInBold t => [92; 102; 66] ++ rf_escape_leading_cc (rf_escape_inline t) ++ [92; 102; 82]
       | RfInItalic t => [92; 102; 73] ++ rf_escape_leading_cc (rf_escape_inline t) ++ [92; 102; 82]
       | RfInRoman t =>
           let text := rf_escape_leading_cc (rf_escape_inline t) in
           (if at_line_start && rf_starts_with_cc text then [92; 38] else []) ++ text
       end) ++ rf_render_inlines false rest
  end.

(* Line::render *)
Definition rf_render_line (l : rf_line) : list N :=
  match l with
  | RfControl name args => 46 :: name ++ concat (map (fun a => 32 :: rf_escape_spaces a) args) ++ [10]
  | RfText inlines => rf_render_inlines true inlines ++ [10]
  end.

Definition rf_render (ls : list rf_line) : list N := concat (map rf_render_line ls).

(* ================= the whole ================================================== *)

Definition rf_to_roff (input : list N) : option (list N) :=
  ls <- rf_doc_lines (rf_categorise input) ;; Some (rf_render ls).

(* add_color_to_roff alone, rendered (its Rgb and Ansi256 arms are not reachable through to_roff) *)
Definition rf_color_requests (req : list N) (c : option color) : option (list N) :=
  ls <- rf_add_color req c ;; Some (rf_render ls).

(* ================= adapters for the function translator ==========================
   (tools/gen_fn_roff.py -> Generated/RoffFn.v).  Definitions only; nothing above uses them. *)

(* cansi::v3::CategorisedSlice seen through the pair (SGR, text) of rf_categorise
   (its `start` / `end` fields are not read by anstyle-roff) *)
Definition rf_cat : Set := (rf_sgr * list N)%type.
Definition rf_cslice_text (c : rf_cat) : list N := snd c.
Definition rf_cslice_fg (c : rf_cat) : option N := cs_fg (fst c).
Definition rf_cslice_bg (c : rf_cat) : option N := cs_bg (fst c).
Definition rf_cslice_intensity (c : rf_cat) : option N := cs_intensity (fst c).
Definition rf_cslice_italic (c : rf_cat) : option bool := cs_italic (fst c).
Definition rf_cslice_underline (c : rf_cat) : option bool := cs_underline (fst c).
Definition rf_cslice_blink (c : rf_cat) : option bool := cs_blink (fst c).
Definition rf_cslice_reversed (c : rf_cat) : option bool := cs_reversed (fst c).
Definition rf_cslice_hidden (c : rf_cat) : option bool := cs_hidden (fst c).
Definition rf_cslice_strikethrough (c : rf_cat) : option bool := cs_strikethrough (fst c).

(* anstyle::Style::{new, fg_color, bg_color, effects} on the part of Style this crate uses *)
Definition rf_style_new : rf_style := mkRfStyle None None e_new.
Definition rf_style_set_fg (s : rf_style) (c : option color) : rf_style := mkRfStyle c (ry_bg s) (ry_effects s).
Definition rf_style_set_bg (s : rf_style) (c : option color) : rf_style := mkRfStyle (ry_fg s) c (ry_effects s).
Definition rf_style_set_effects (s : rf_style) (e : N) : rf_style := mkRfStyle (ry_fg s) (ry_bg s) e.

(* styled_str.rs: struct StyledStr { text, style } *)
Record rf_styled : Set := mkRfStyled { rfs_text : list N; rfs_style : rf_style }.

(* roff::Roff = the lines pushed so far; Roff::new, Roff::control (returns the document itself:
   `&mut Self`), Roff::text; roff::{bold, italic, roman} are the constructors of rf_inline *)
Definition rf_roff_new : list rf_line := [].
Definition rf_roff_control (d : list rf_line) (name : list N) (args : list (list N)) : list rf_line :=
  d ++ [RfControl name args].
Definition rf_roff_text (d : list rf_line) (inlines : list rf_inline) : list rf_line := d ++ [RfText inlines].

(* Iterator::map / Option::map with a function whose translation is option-valued (None = panic) *)
Fixpoint rf_map_m {A B : Type} (f : A -> option B) (l : list A) : option (list B) :=
  match l with
  | [] => Some []
  | x :: t => y <- f x ;; ys <- rf_map_m f t ;; Some (y :: ys)
  end.
Definition rf_opt_map_m {A B : Type} (f : A -> option B) (o : option A) : option (option B) :=
  match o with Some x => y <- f x ;; Some (Some y) | None => Some None end.

(* ===== adapters for tools/gen_fn_cansi.py (-> Generated/CansiFn.v) =====
   Definitions only; nothing above uses them.  cansi 2.2.1 as TRANSLATED from the registry source
   is proved equal to [rf_categorise] in Proofs/CansiGen.v. *)

(* parsing.rs: struct Match { start, end, text } *)
Record rf_match : Set := mkRfMatch { rfm_start : N; rfm_end : N; rfm_text : list N }.

(* lib.rs: struct SGR, one setter per field (`sgr.fg = ..`) *)
Definition set_cs_fg (g : rf_sgr) (v : option N) : rf_sgr :=
  mkRfSgr v (cs_bg g) (cs_intensity g) (cs_italic g) (cs_underline g) (cs_blink g) (cs_reversed g) (cs_hidden g) (cs_strikethrough g).
Definition set_cs_bg (g : rf_sgr) (v : option N) : rf_sgr :=
  mkRfSgr (cs_fg g) v (cs_intensity g) (cs_italic g) (cs_underline g) (cs_blink g) (cs_reversed g) (cs_hidden g) (cs_strikethrough g).
Definition set_cs_intensity (g : rf_sgr) (v : option N) : rf_sgr :=
  mkRfSgr (cs_fg g) (cs_bg g) v (cs_italic g) (cs_underline g) (cs_blink g) (cs_reversed g) (cs_hidden g) (cs_strikethrough g).
Definition set_cs_italic (g : rf_sgr) (v : option bool) : rf_sgr :=
  mkRfSgr (cs_fg g) (cs_bg g) (cs_intensity g) v (cs_underline g) (cs_blink g) (cs_reversed g) (cs_hidden g) (cs_strikethrough g).
Definition set_cs_underline (g : rf_sgr) (v : option bool) : rf_sgr :=
  mkRfSgr (cs_fg g) (cs_bg g) (cs_intensity g) (cs_italic g) v (cs_blink g) (cs_reversed g) (cs_hidden g) (cs_strikethrough g).
Definition set_cs_blink (g : rf_sgr) (v : option bool) : rf_sgr :=
  mkRfSgr (cs_fg g) (cs_bg g) (cs_intensity g) (cs_italic g) (cs_underline g) v (cs_reversed g) (cs_hidden g) (cs_strikethrough g).
Definition set_cs_reversed (g : rf_sgr) (v : option bool) : rf_sgr :=
  mkRfSgr (cs_fg g) (cs_bg g) (cs_intensity g) (cs_italic g) (cs_underline g) (cs_blink g) v (cs_hidden g) (cs_strikethrough g).
Definition set_cs_hidden (g : rf_sgr) (v : option bool) : rf_sgr :=
  mkRfSgr (cs_fg g) (cs_bg g) (cs_intensity g) (cs_italic g) (cs_underline g) (cs_blink g) (cs_reversed g) v (cs_strikethrough g).
Definition set_cs_strikethrough (g : rf_sgr) (v : option bool) : rf_sgr :=
  mkRfSgr (cs_fg g) (cs_bg g) (cs_intensity g) (cs_italic g) (cs_underline g) (cs_blink g) (cs_reversed g) (cs_hidden g) v.

(* lib.rs, mod v3: the struct literal of CategorisedSlice in with_sgr, seen through the pair (SGR, text) of
   [rf_cat]: `start` / `end` (byte offsets of the slice, not read by anstyle-roff) are dropped *)
Definition rf_cslice_mk (text : list N) (start end_ : N) (fg bg intensity : option N)
    (italic underline blink reversed hidden strikethrough : option bool) : rf_cat :=
  (mkRfSgr fg bg intensity italic underline blink reversed hidden strikethrough, text).

(* std: str::starts_with(&str) on UTF-8 bytes *)
Fixpoint rf_starts_with (s p : list N) : bool :=
  match p with
  | [] => true
  | x :: p' => match s with y :: s' => (y =? x) && rf_starts_with s' p' | [] => false end
  end.

(* std: `s.chars().next()` and `char::len_utf8`.  A char is represented by its UTF-8 encoding: the first char of a
   string is the prefix whose length the leading byte announces (1 for ASCII, 2 / 3 / 4 for C0.. / E0.. / F0..);
   on valid UTF-8 (what a &str holds) that prefix is the encoding of the first char *)
Definition rf_utf8_width (b : N) : N := if b <? 128 then 1 else if b <? 224 then 2 else if b <? 240 then 3 else 4.
Definition rf_chars_next (s : list N) : option (list N) :=
  match s with [] => None | b :: _ => Some (firstn (N.to_nat (rf_utf8_width b)) s) end.
Definition rf_char_len_utf8 (c : list N) : N := N.of_nat (length c).

(* std: RangeInclusive<u8>::contains *)
Definition rf_range_incl_contains (r : N * N) (b : N) : bool := (fst r <=? b) && (b <=? snd r).

(* std: Iterator::fold with a function whose translation is option-valued (None = panic) *)
Fixpoint rf_fold_m {A B : Type} (f : A -> B -> option A) (l : list B) (a : A) : option A :=
  match l with
  | [] => Some a
  | x :: t => a' <- f a x ;; rf_fold_m f t a'
  end.

(* ===== adapters for tools/gen_fn_roffcrate.py ===== *)
(* (roff 0.2.1 src/lib.rs translated -> Generated/RoffCrateFn.v; definitions only, nothing above uses them) *)

(* struct Roff { lines: Vec<Line> } = the list of its lines: the field getter / setter are identities *)
Definition rf_roff_lines (d : list rf_line) : list rf_line := d.
Definition rf_roff_set_lines (d : list rf_line) (l : list rf_line) : list rf_line := l.

(* enum Apostrophes { Handle, DontHandle } with its derived PartialEq *)
Inductive rf_apostrophes : Set := RfHandle | RfDontHandle.
Definition rf_apostrophes_eqb (a b : rf_apostrophes) : bool :=
  match a, b with
  | RfHandle, RfHandle => true
  | RfDontHandle, RfDontHandle => true
  | _, _ => false
  end.

(* str::starts_with(<ASCII char>), str::contains(<ASCII char>) on the UTF-8 bytes *)
Definition rf_starts_with_char (c : N) (s : list N) : bool :=
  match s with x :: _ => x =? c | [] => false end.
Definition rf_contains_char (c : N) (s : list N) : bool := existsb (N.eqb c) s.
