(* Adapters for tools/gen_fn_unicodewidth.py (third-party crate unicode-width, C14): what the
   translated functions of Generated/UnicodeWidthFn.v CALL (std plumbing) and the identity
   getters of the tuple structs.  Definitions only.

   Representation: a `char` is its code point (N), a `&str` the list of its code points (as in
   the svg area, Model/Svg.v), `WidthInfo(u16)` is its field, `Align32/64/128<T>(T)` is its
   field, `[u8; 3]` a list of three bytes, `Ordering` is Coq's `comparison`, the
   `Result<usize, usize>` of `binary_search_by` is `N + N` (inl = Ok, inr = Err). *)
From Coq Require Import NArith ZArith List Bool.
Import ListNotations.
Local Open Scope N_scope.

(* tuple structs = their field *)
Definition uw_wi_f0 (w : N) : N := w.
Definition uw_wi_new (x : N) : N := x.
Definition uw_align_f0 {A : Type} (x : A) : A := x.
Definition uw_str_chars (s : list N) : list N := s.
Definition uw_char_f0 (c : N) : N := c.

(* `a[i]` with a literal index on a `[u8; 3]` (the plug-in checks that every row of the table
   has three elements and that the index is a literal: rustc rejects an out-of-range constant
   index on an array) *)
Definition uw_b3_get (l : list N) (i : nat) : N := nth i l 0.

(* u32::from_le_bytes([b0, b1, b2, b3]) *)
Definition uw_u32_from_le_bytes (l : list N) : N := fold_right (fun b acc => b + 256 * acc) 0 l.

(* usize::wrapping_add_signed (64-bit usize) *)
Definition uw_wrapping_add_signed (sum : N) (add : Z) : N :=
  Z.to_N ((Z.of_N sum + add) mod 18446744073709551616)%Z.

(* <[T]>::binary_search_by: bisection as in core::slice (the comparator answers how the ELEMENT
   compares with the target: Less -> continue to the right).  Only is_ok / is_err of the result
   are used by the crate; on a table that is sorted for the comparator every correct
   implementation finds an element that compares Equal iff there is one
   (Proofs/UnicodeWidthGen.v: uw_tables_sorted). *)
Fixpoint uw_bsearch_go {A : Type} (f : A -> comparison) (l : list A) (fuel : nat) (left right : N) : N + N :=
  match fuel with
  | O => inr left
  | S fuel' =>
      if left <? right then
        let mid := left + (right - left) / 2 in
        match nth_error l (N.to_nat mid) with
        | None => inr left
        | Some x =>
            match f x with
            | Lt => uw_bsearch_go f l fuel' (mid + 1) right
            | Gt => uw_bsearch_go f l fuel' left mid
            | Eq => inl mid
            end
        end
      else inr left
  end.

Definition uw_binary_search_by {A : Type} (f : A -> comparison) (l : list A) : N + N :=
  uw_bsearch_go f l (S (length l)) 0 (N.of_nat (length l)).

Definition uw_res_is_ok (r : N + N) : bool := match r with inl _ => true | inr _ => false end.
Definition uw_res_is_err (r : N + N) : bool := match r with inl _ => false | inr _ => true end.

(* s.chars().rfold(init, f): the characters from the LAST to the first; f may panic *)
Fixpoint uw_fold_m {A : Type} (f : A -> N -> option A) (a : A) (l : list N) : option A :=
  match l with
  | [] => Some a
  | c :: r => match f a c with Some a' => uw_fold_m f a' r | None => None end
  end.

Definition uw_rfold_m {A : Type} (f : A -> N -> option A) (init : A) (s : list N) : option A :=
  uw_fold_m f init (rev s).

(* a Rust `char`: a Unicode scalar value *)
Definition uw_is_char (c : N) : bool := (c <? 55296) || ((57343 <? c) && (c <? 1114112)).
