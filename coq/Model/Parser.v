(* Model/Parser.v -- hand model of crates/anstyle-parse/src/{lib.rs,params.rs,
   state/mod.rs}: [Parser::advance] with its bookkeeping exactly as written
   (fixed-size arrays with bounds-checked writes, saturating u16 arithmetic,
   early returns).  [None] = the Rust code would panic. Definitions only. *)
From Coq Require Import NArith List Bool.
From AV Require Import Generated.Table Spec.Vt Model.Base Model.Utf8parse.
Import ListNotations.
Local Open Scope N_scope.

(* ---- state/mod.rs, state/definitions.rs ---------------------------------- *)

Definition state_change_ (s : state) (b : N) : option N :=
  row <- aget state_changes (state_disc s) ;; aget row b.

Definition unpack (delta : N) : option (state * action) :=
  s <- state_of_disc (N.land delta 15) ;;
  a <- action_of_disc (N.shiftr delta 4) ;;
  Some (s, a).

Definition state_change (s : state) (b : N) : option (state * action) :=
  c0 <- state_change_ Anywhere b ;;
  c <- (if c0 =? 0 then state_change_ s b else Some c0) ;;
  unpack c.

Definition state_eqb (a b : state) : bool := state_disc a =? state_disc b.
Definition action_eqb (a b : action) : bool := action_disc a =? action_disc b.

(* ---- params.rs ----------------------------------------------------------- *)

Record params : Set := mkParams {
  subparams : list N;          (* [u8; MAX_PARAMS] *)
  pvals : list N;              (* [u16; MAX_PARAMS] *)
  current_subparams : N;       (* u8 *)
  plen : N                     (* usize *)
}.

Definition params_default : params :=
  mkParams (repeat 0 (N.to_nat MAX_PARAMS)) (repeat 0 (N.to_nat MAX_PARAMS)) 0 0.

Definition params_is_full (p : params) : bool := plen p =? MAX_PARAMS.

Definition params_clear (p : params) : params :=
  mkParams (subparams p) (pvals p) 0 0.

Definition params_push (p : params) (item : N) : option params :=
  i <- csub (plen p) (current_subparams p) ;;
  c1 <- cadd 8 (current_subparams p) 1 ;;
  sp <- aset (subparams p) i c1 ;;
  pv <- aset (pvals p) (plen p) item ;;
  Some (mkParams sp pv 0 (plen p + 1)).

Definition params_extend (p : params) (item : N) : option params :=
  i <- csub (plen p) (current_subparams p) ;;
  c1 <- cadd 8 (current_subparams p) 1 ;;
  sp <- aset (subparams p) i c1 ;;
  pv <- aset (pvals p) (plen p) item ;;
  Some (mkParams sp pv c1 (plen p + 1)).

(* ParamsIter, collected; the fuel bounds the number of groups (an iterator
   that never advances would loop forever: out of fuel = [None]) *)
Fixpoint params_iter (fuel : nat) (p : params) (index : N) : option (list (list N)) :=
  if plen p <=? index then Some []
  else match fuel with
       | O => None
       | S f =>
           num <- aget (subparams p) index ;;
           g <- slice (pvals p) index (index + num) ;;
           rest <- params_iter f p (index + num) ;;
           Some (g :: rest)
       end.

Definition params_groups (p : params) : option (list (list N)) :=
  params_iter (S (N.to_nat MAX_PARAMS)) p 0.

(* ---- lib.rs -------------------------------------------------------------- *)

(* build configuration: `core` feature => fixed OSC buffer; `utf8` feature *)
Record cfg : Set := mkCfg { osc_cap : option N; utf8_on : bool }.
Definition cfg_default : cfg := mkCfg None true.

Record parser : Set := mkParser {
  pstate : state;
  intermediates : list N;          (* [u8; MAX_INTERMEDIATES] *)
  intermediate_idx : N;
  pparams : params;
  pparam : N;                      (* u16 *)
  osc_raw : list N;
  osc_params : list (N * N);       (* [(usize, usize); MAX_OSC_PARAMS] *)
  osc_num_params : N;
  ignoring : bool;
  utf8_parser : u8parser
}.

Definition parser_new : parser :=
  mkParser default_state (repeat 0 (N.to_nat MAX_INTERMEDIATES)) 0 params_default 0 []
           (repeat (0, 0) (N.to_nat MAX_OSC_PARAMS)) 0 false u8_new.

Definition set_state (p : parser) (s : state) : parser :=
  mkParser s (intermediates p) (intermediate_idx p) (pparams p) (pparam p) (osc_raw p)
           (osc_params p) (osc_num_params p) (ignoring p) (utf8_parser p).
Definition set_params (p : parser) (ps : params) : parser :=
  mkParser (pstate p) (intermediates p) (intermediate_idx p) ps (pparam p) (osc_raw p)
           (osc_params p) (osc_num_params p) (ignoring p) (utf8_parser p).
Definition set_param (p : parser) (v : N) : parser :=
  mkParser (pstate p) (intermediates p) (intermediate_idx p) (pparams p) v (osc_raw p)
           (osc_params p) (osc_num_params p) (ignoring p) (utf8_parser p).
Definition set_ignoring (p : parser) (b : bool) : parser :=
  mkParser (pstate p) (intermediates p) (intermediate_idx p) (pparams p) (pparam p) (osc_raw p)
           (osc_params p) (osc_num_params p) b (utf8_parser p).
Definition set_osc (p : parser) (raw : list N) (ops : list (N * N)) (n : N) : parser :=
  mkParser (pstate p) (intermediates p) (intermediate_idx p) (pparams p) (pparam p) raw
           ops n (ignoring p) (utf8_parser p).
Definition set_inter (p : parser) (i : list N) (idx : N) : parser :=
  mkParser (pstate p) i idx (pparams p) (pparam p) (osc_raw p)
           (osc_params p) (osc_num_params p) (ignoring p) (utf8_parser p).
Definition set_utf8 (p : parser) (u : u8parser) : parser :=
  mkParser (pstate p) (intermediates p) (intermediate_idx p) (pparams p) (pparam p) (osc_raw p)
           (osc_params p) (osc_num_params p) (ignoring p) u.

(* per-field setters (vocabulary of the function translator, tools/gen_fn_parser.py) *)
Definition set_osc_raw (p : parser) (raw : list N) : parser := set_osc p raw (osc_params p) (osc_num_params p).
Definition set_osc_params (p : parser) (ops : list (N * N)) : parser := set_osc p (osc_raw p) ops (osc_num_params p).
Definition set_osc_num (p : parser) (n : N) : parser := set_osc p (osc_raw p) (osc_params p) n.
Definition set_intermediates (p : parser) (i : list N) : parser := set_inter p i (intermediate_idx p).
Definition set_intermediate_idx (p : parser) (idx : N) : parser := set_inter p (intermediates p) idx.
Definition set_subparams (q : params) (l : list N) : params := mkParams l (pvals q) (current_subparams q) (plen q).
Definition set_pvals (q : params) (l : list N) : params := mkParams (subparams q) l (current_subparams q) (plen q).
Definition set_cursub (q : params) (n : N) : params := mkParams (subparams q) (pvals q) n (plen q).
Definition set_plen (q : params) (n : N) : params := mkParams (subparams q) (pvals q) (current_subparams q) n.

(* cfg(feature = "core"): the OSC buffer is an ArrayVec of capacity MAX_OSC_RAW *)
Definition cfg_core (c : cfg) : bool := match osc_cap c with Some _ => true | None => false end.
Definition raw_full (c : cfg) (raw : list N) : bool :=
  match osc_cap c with Some cap => N.of_nat (length raw) =? cap | None => false end.

(* fn intermediates(&self) -> &self.intermediates[..self.intermediate_idx] *)
Definition intermediates_of (p : parser) : option (list N) :=
  slice (intermediates p) 0 (intermediate_idx p).

(* CharAccumulator::add for Utf8Parser / AsciiParser *)
Definition char_add (c : cfg) (u : u8parser) (b : N) : option (u8parser * option N) :=
  if utf8_on c then
    let '(u', o) := u8_parser_advance u b in
    Some (u', match o with
              | U8None => None
              | U8Codepoint cp => Some cp
              | U8Invalid => Some 65533
              end)
  else None.   (* unreachable!("multi-byte UTF8 characters are unsupported") *)

Definition process_utf8 (c : cfg) (p : parser) (b : N) : option (parser * list event) :=
  '(u', o) <- char_add c (utf8_parser p) b ;;
  let p1 := set_utf8 p u' in
  match o with
  | Some cp => Some (set_state p1 Ground, [EPrint cp])
  | None => Some (p1, [])
  end.

Fixpoint osc_slices (fuel : nat) (p : parser) (i : N) : option (list (list N)) :=
  match fuel with
  | O => Some []
  | S f =>
      if osc_num_params p <=? i then Some []
      else
        '(a, b) <- aget (osc_params p) i ;;
        s <- slice (osc_raw p) a b ;;
        rest <- osc_slices f p (i + 1) ;;
        Some (s :: rest)
  end.

Definition osc_dispatch (p : parser) (b : N) : option (list event) :=
  (* &slices[..num_params] over a 16-element array *)
  if MAX_OSC_PARAMS <? osc_num_params p then None
  else
    fields <- osc_slices (N.to_nat MAX_OSC_PARAMS) p 0 ;;
    Some [EOsc fields (b =? 7)].

(* the same with the performer as an accumulator (calling convention of the translated code);
   Parser::osc_dispatch itself is unsafe pointer code and stays hand-modelled (token-pinned) *)
Definition osc_dispatch_acc (p : parser) (perf : list event) (b : N) : option (list event) :=
  ev <- osc_dispatch p b ;; Some (perf ++ ev).
(* CharAccumulator::add as a method: new accumulator and the completed character, if any *)
Definition char_add_m (c : cfg) (u : u8parser) (b : N) : option (u8parser * option N) := char_add c u b.

(* CsiDispatch / Hook share the finalisation of the parameter list *)
Definition finish_params (p : parser) : option parser :=
  if params_is_full (pparams p) then Some (set_ignoring p true)
  else ps <- params_push (pparams p) (pparam p) ;; Some (set_params p ps).

Definition osc_full (c : cfg) (p : parser) : bool :=
  match osc_cap c with
  | Some cap => N.of_nat (length (osc_raw p)) =? cap
  | None => false
  end.

Definition perform_action (c : cfg) (p : parser) (a : action) (b : N) : option (parser * list event) :=
  match a with
  | APrint => Some (p, [EPrint b])
  | AExecute => Some (p, [EExecute b])
  | AHook =>
      p1 <- finish_params p ;;
      ps <- params_groups (pparams p1) ;;
      is <- intermediates_of p1 ;;
      Some (p1, [EHook ps is (ignoring p1) b])
  | APut => Some (p, [EPut b])
  | AOscStart => Some (set_osc p [] (osc_params p) 0, [])
  | AOscPut =>
      if osc_full c p then Some (p, [])
      else
        let idx := N.of_nat (length (osc_raw p)) in
        if b =? 59 then
          let param_idx := osc_num_params p in
          if param_idx =? MAX_OSC_PARAMS then Some (p, [])
          else if param_idx =? 0 then
            ops <- aset (osc_params p) param_idx (0, idx) ;;
            Some (set_osc p (osc_raw p) ops (param_idx + 1), [])
          else
            pi <- csub param_idx 1 ;;
            '(_, begin) <- aget (osc_params p) pi ;;
            ops <- aset (osc_params p) param_idx (begin, idx) ;;
            Some (set_osc p (osc_raw p) ops (param_idx + 1), [])
        else Some (set_osc p (osc_raw p ++ [b]) (osc_params p) (osc_num_params p), [])
  | AOscEnd =>
      let param_idx := osc_num_params p in
      let idx := N.of_nat (length (osc_raw p)) in
      p1 <- (if param_idx =? MAX_OSC_PARAMS then Some p
             else if param_idx =? 0 then
               ops <- aset (osc_params p) param_idx (0, idx) ;;
               Some (set_osc p (osc_raw p) ops (param_idx + 1))
             else
               pi <- csub param_idx 1 ;;
               '(_, begin) <- aget (osc_params p) pi ;;
               ops <- aset (osc_params p) param_idx (begin, idx) ;;
               Some (set_osc p (osc_raw p) ops (param_idx + 1))) ;;
      ev <- osc_dispatch p1 b ;;
      Some (p1, ev)
  | AUnhook => Some (p, [EUnhook])
  | ACsiDispatch =>
      p1 <- finish_params p ;;
      ps <- params_groups (pparams p1) ;;
      is <- intermediates_of p1 ;;
      Some (p1, [ECsi ps is (ignoring p1) b])
  | AEscDispatch =>
      is <- intermediates_of p ;;
      Some (p, [EEsc is (ignoring p) b])
  | ACollect =>
      if intermediate_idx p =? MAX_INTERMEDIATES then Some (set_ignoring p true, [])
      else
        i <- aset (intermediates p) (intermediate_idx p) b ;;
        Some (set_inter p i (intermediate_idx p + 1), [])
  | AParam =>
      if params_is_full (pparams p) then Some (set_ignoring p true, [])
      else if b =? 59 then
        ps <- params_push (pparams p) (pparam p) ;;
        Some (set_param (set_params p ps) 0, [])
      else if b =? 58 then
        ps <- params_extend (pparams p) (pparam p) ;;
        Some (set_param (set_params p ps) 0, [])
      else
        d <- csub b 48 ;;   (* (byte - b'0') on u8 *)
        Some (set_param p (u16_sat_add (u16_sat_mul (pparam p) 10) d), [])
  | AClear =>
      Some (set_params (set_param (set_ignoring (set_inter p (intermediates p) 0) false) 0)
                       (params_clear (pparams p)), [])
  | ABeginUtf8 => process_utf8 c p b
  | AIgnore => Some (p, [])
  | ANop => Some (p, [])
  end.

Definition perform_state_change (c : cfg) (p : parser) (s : state) (a : action) (b : N)
  : option (parser * list event) :=
  match s with
  | Anywhere => perform_action c p a b
  | _ =>
      '(p1, e1) <- (match pstate p with
                    | DcsPassthrough => perform_action c p AUnhook b
                    | OscString => perform_action c p AOscEnd b
                    | _ => Some (p, [])
                    end) ;;
      '(p2, e2) <- (match a with
                    | ANop => Some (p1, [])
                    | _ => perform_action c p1 a b
                    end) ;;
      '(p3, e3) <- (match s with
                    | CsiEntry | DcsEntry | Escape => perform_action c p2 AClear b
                    | DcsPassthrough => perform_action c p2 AHook b
                    | OscString => perform_action c p2 AOscStart b
                    | _ => Some (p2, [])
                    end) ;;
      Some (set_state p3 s, e1 ++ e2 ++ e3)
  end.

Definition advance (c : cfg) (p : parser) (b : N) : option (parser * list event) :=
  match pstate p with
  | Utf8 => process_utf8 c p b
  | _ =>
      '(s, a) <- state_change (pstate p) b ;;
      perform_state_change c p s a b
  end.

Fixpoint run (c : cfg) (p : parser) (bs : list N) : option (parser * list event) :=
  match bs with
  | [] => Some (p, [])
  | b :: rest =>
      '(p1, e1) <- advance c p b ;;
      '(p2, e2) <- run c p1 rest ;;
      Some (p2, e1 ++ e2)
  end.

Definition events_model (bs : list N) : option (list event) :=
  '(_, e) <- run cfg_default parser_new bs ;; Some e.

(* ---- adapters of the function translator (tools/gen_fn_parser.py); definitions only ------ *)

(* struct ParamsIter<'a> { params: &'a Params, index: usize } *)
Record params_it : Set := mkPIt { pit_params : params; pit_index : N }.
Definition set_pit_params (it : params_it) (q : params) : params_it := mkPIt q (pit_index it).
Definition set_pit_index (it : params_it) (i : N) : params_it := mkPIt (pit_params it) i.

(* struct Utf8Parser { utf8_parser: utf8::Parser } == the decoder itself; the unit struct AsciiParser is
   represented in the same type (the field Parser.utf8_parser has ONE Coq type for both builds; its value is
   never read when utf8 is off) by the fresh decoder *)
Definition pu_inner (u : u8parser) : u8parser := u.
Definition set_pu_inner (u v : u8parser) : u8parser := v.
Definition ascii_parser_unit : u8parser := u8_new.
(* struct VtUtf8Receiver<'a>(&'a mut Option<char>) == the slot it borrows *)
Definition prcv_slot (o : option N) : option N := o.
Definition set_prcv_slot (o v : option N) : option N := v.

(* Result<T, u8> of the two TryFrom impls, as a sum *)
Definition opt_ok_or {A E} (o : option A) (e : E) : A + E := match o with Some x => inl x | None => inr e end.

(* core::fmt::Formatter over an infallible sink = the text written so far (as in Model/Style.v);
   <u16 as Debug/Display>::fmt without flags: decimal, no leading zeros (five digits suffice) *)
Definition pfmt_write_str (f s : list N) : list N := f ++ s.
Fixpoint pfmt_dec (fuel : nat) (n : N) (acc : list N) : list N :=
  match fuel with
  | O => acc
  | S k => if n <? 10 then (48 + n) :: acc else pfmt_dec k (n / 10) ((48 + n mod 10) :: acc)
  end.
Definition pfmt_u16 (f : list N) (v : N) : list N := f ++ pfmt_dec 5 v [].
Fixpoint penumerate_from {A} (i : N) (l : list A) : list (N * A) :=
  match l with [] => [] | x :: t => (i, x) :: penumerate_from (i + 1) t end.
Definition penumerate {A} (l : list A) : list (N * A) := penumerate_from 0 l.

(* MaybeUninit<T>, value level: [None] = uninitialised.  An array of MaybeUninit needs no initialisation
   (`MaybeUninit::uninit().assume_init()` at type [MaybeUninit<T>; n] is sound); reading a slot as
   initialised (`assume_init`, or the pointer cast `*const [MaybeUninit<T>] as *const [T]`) is undefined
   behaviour when it is not: [None] (= "would panic") stands for that too *)
Definition mu_uninit_array {A} (n : N) : list (option A) := repeat None (N.to_nat n).
Fixpoint mu_assume_init_slice {A} (l : list (option A)) : option (list A) :=
  match l with
  | [] => Some []
  | Some x :: t => match mu_assume_init_slice t with Some r => Some (x :: r) | None => None end
  | None :: _ => None
  end.
(* slices.iter_mut().enumerate().take(n): the first min(n, len) slots with their indices *)
Definition mu_take_enum {A} (l : list A) (n : N) : list (N * A) := firstn (N.to_nat n) (penumerate l).
