(* Model/Wincon.v -- hand model of crates/anstream/src/adapter/wincon.rs:
   WinconCapture::{print, execute, csi_dispatch} with the nested loops, the local
   decoder state and every `break` as written; next_bytes / extract_next over the
   parser model.  Definitions only. *)
From Coq Require Import NArith List Bool.
From AV Require Import Generated.Table Spec.Vt Spec.Sgr Model.Base Model.Utf8parse Model.Parser Model.Strip.
Import ListNotations.
Local Open Scope N_scope.

Inductive wstate : Set := WNormal | WPrepareCustomColor | WAnsi256 | WRgb | WUnderline.

Record dstate : Set := mkD {
  d_style : sstyle;
  d_state : wstate;
  d_r : option N;
  d_g : option N;
  d_target : target
}.

(* anstyle::Style / Effects operations used by the adapter *)
Definition st_insert (s : sstyle) (k : N) : sstyle := mkStyle (s_fg s) (s_bg s) (s_ul s) (N.lor (s_eff s) (bit k)).
Definition st_remove (s : sstyle) (k : N) : sstyle := mkStyle (s_fg s) (s_bg s) (s_ul s) (N.ldiff (s_eff s) (bit k)).

Definition style_eqb := sstyle_eqb.

(* to_ansi_color(digit) *)
Definition to_ansi_color (d : N) : option N := if d <=? 7 then Some d else None.

Definition set_d (d : dstate) (s : sstyle) (w : wstate) : dstate := mkD s w (d_r d) (d_g d) (d_target d).

(* one `match (state, *value)`: returns the new decoder state and whether the
   inner loop `break`s; None = `expect` failed *)
Definition value_step (d : dstate) (v : N) : option (dstate * bool) :=
  let s := d_style d in
  match d_state d with
  | WNormal =>
      if v =? 0 then Some (set_d d style_default WNormal, true)
      else if v =? 1 then Some (set_d d (st_insert s BOLD) WNormal, true)
      else if v =? 2 then Some (set_d d (st_insert s DIMMED) WNormal, true)
      else if v =? 3 then Some (set_d d (st_insert s ITALIC) WNormal, true)
      else if v =? 4 then Some (set_d d (st_insert s UNDERLINE) WUnderline, false)
      else if v =? 21 then Some (set_d d (st_insert s DOUBLE_UNDERLINE) WNormal, true)
      else if v =? 7 then Some (set_d d (st_insert s INVERT) WNormal, true)
      else if v =? 8 then Some (set_d d (st_insert s HIDDEN) WNormal, true)
      else if v =? 9 then Some (set_d d (st_insert s STRIKETHROUGH) WNormal, true)
      else if in_rng 30 37 v then
        x <- csub v 30 ;; c <- to_ansi_color x ;;
        Some (set_d d (set_fg s (Some (CAnsi c))) WNormal, true)
      else if v =? 38 then Some (mkD s WPrepareCustomColor (d_r d) (d_g d) TFg, false)
      else if v =? 39 then Some (set_d d (set_fg s None) WNormal, true)
      else if in_rng 40 47 v then
        x <- csub v 40 ;; c <- to_ansi_color x ;;
        Some (set_d d (set_bg s (Some (CAnsi c))) WNormal, true)
      else if v =? 48 then Some (mkD s WPrepareCustomColor (d_r d) (d_g d) TBg, false)
      else if v =? 49 then Some (set_d d (set_bg s None) WNormal, true)
      else if v =? 58 then Some (mkD s WPrepareCustomColor (d_r d) (d_g d) TUl, false)
      else if in_rng 90 97 v then
        x <- csub v 90 ;; c <- to_ansi_color x ;;
        Some (set_d d (set_fg s (Some (CAnsi (c + 8)))) WNormal, true)      (* .bright(true) *)
      else if in_rng 100 107 v then
        x <- csub v 100 ;; c <- to_ansi_color x ;;
        Some (set_d d (set_bg s (Some (CAnsi (c + 8)))) WNormal, true)
      else Some (set_d d s WNormal, true)
  | WPrepareCustomColor =>
      if v =? 5 then Some (set_d d s WAnsi256, false)
      else if v =? 2 then Some (mkD s WRgb None None (d_target d), false)
      else Some (set_d d s WNormal, true)
  | WAnsi256 =>
      Some (set_d d (set_target (d_target d) s (Some (CIdx (v mod 256)))) WNormal, true)
  | WRgb =>
      match d_r d, d_g d with
      | None, _ => Some (mkD s WRgb (Some v) (d_g d) (d_target d), false)
      | Some _, None => Some (mkD s WRgb (d_r d) (Some v) (d_target d), false)
      | Some r, Some g =>
          Some (set_d d (set_target (d_target d) s (Some (CRgb (r mod 256) (g mod 256) (v mod 256)))) WNormal, true)
      end
  | WUnderline =>
      if v =? 0 then Some (set_d d (st_remove s UNDERLINE) WUnderline, false)
      else if v =? 1 then Some (d, false)
      else if v =? 2 then Some (set_d d (st_insert (st_remove s UNDERLINE) DOUBLE_UNDERLINE) WUnderline, false)
      else if v =? 3 then Some (set_d d (st_insert (st_remove s UNDERLINE) CURLY_UNDERLINE) WUnderline, false)
      else if v =? 4 then Some (set_d d (st_insert (st_remove s UNDERLINE) DOTTED_UNDERLINE) WUnderline, false)
      else if v =? 5 then Some (set_d d (st_insert (st_remove s UNDERLINE) DASHED_UNDERLINE) WUnderline, false)
      else Some (set_d d s WNormal, true)
  end.

(* `for value in param` *)
Fixpoint values_loop (d : dstate) (vs : list N) : option dstate :=
  match vs with
  | [] => Some d
  | v :: rest =>
      '(d1, brk) <- value_step d v ;;
      if brk then Some d1 else values_loop d1 rest
  end.

(* `for param in params` with the reset of the Underline state after each parameter *)
Fixpoint params_loop (d : dstate) (ps : list (list N)) : option dstate :=
  match ps with
  | [] => Some d
  | p :: rest =>
      d1 <- values_loop d p ;;
      let d2 := match d_state d1 with WUnderline => set_d d1 (d_style d1) WNormal | _ => d1 end in
      params_loop d2 rest
  end.

Definition sgr_dispatch (s : sstyle) (ps : list (list N)) : option sstyle :=
  d <- params_loop (mkD s WNormal None None TFg) ps ;; Some (d_style d).

Record capture : Set := mkCap {
  c_style : sstyle;
  c_printable : list N;          (* String, as code points *)
  c_ready : option sstyle
}.
Definition capture_default : capture := mkCap style_default [] None.

Definition capture_event (c : capture) (e : event) : option capture :=
  match e with
  | EPrint cp => Some (mkCap (c_style c) (c_printable c ++ [cp]) (c_ready c))
  | EExecute b =>
      if is_ascii_whitespace b then Some (mkCap (c_style c) (c_printable c ++ [b]) (c_ready c)) else Some c
  | ECsi ps ints ign action =>
      if ign then Some c
      else if negb (action =? 109) then Some c
      else if negb (match ints with [] => true | _ => false end) then Some c
      else
        style <- sgr_dispatch (c_style c) ps ;;
        let ready := if negb (style_eqb style (c_style c)) && negb (match c_printable c with [] => true | _ => false end)
                     then Some (c_style c) else c_ready c in
        Some (mkCap style (c_printable c) ready)
  | _ => Some c
  end.

Fixpoint capture_events (c : capture) (es : list event) : option capture :=
  match es with
  | [] => Some c
  | e :: rest => c1 <- capture_event c e ;; capture_events c1 rest
  end.

(* next_bytes: `while capture.ready.is_none()` *)
Fixpoint wn_loop (bs : list N) (p : parser) (c : capture) : option (list N * parser * capture) :=
  match c_ready c with
  | Some _ => Some (bs, p, c)
  | None =>
      match bs with
      | [] => Some ([], p, c)
      | b :: rest =>
          '(p1, evs) <- advance cfg_default p b ;;
          c1 <- capture_events c evs ;;
          wn_loop rest p1 c1
      end
  end.

Definition wincon_next (bs : list N) (p : parser) (c : capture)
  : option (option (sstyle * list N) * list N * parser * capture) :=
  let c0 := mkCap (c_style c) (c_printable c) None in       (* capture.reset() *)
  '(bs1, p1, c1) <- wn_loop bs p c0 ;;
  match c_printable c1 with
  | [] => Some (None, bs1, p1, c1)
  | txt =>
      let style := match c_ready c1 with Some s => s | None => c_style c1 end in
      Some (Some (style, txt), bs1, p1, mkCap (c_style c1) [] (c_ready c1))
  end.

Fixpoint wincon_iter (fuel : nat) (bs : list N) (p : parser) (c : capture)
  : option (list (sstyle * list N) * parser * capture) :=
  match fuel with
  | O => None
  | S f =>
      '(item, bs1, p1, c1) <- wincon_next bs p c ;;
      match item with
      | None => Some ([], p1, c1)
      | Some it =>
          '(its, p2, c2) <- wincon_iter f bs1 p1 c1 ;;
          Some (it :: its, p2, c2)
      end
  end.

(* WinconBytes::extract_next(bytes).collect() *)
Definition extract_next (bs : list N) (p : parser) (c : capture) :=
  wincon_iter (S (S (length bs))) bs p (mkCap (c_style c) (c_printable c) None).

Fixpoint extract_chunks (chunks : list (list N)) (p : parser) (c : capture)
  : option (list (list (sstyle * list N)) * parser * capture) :=
  match chunks with
  | [] => Some ([], p, c)
  | ch :: rest =>
      '(its, p1, c1) <- extract_next ch p c ;;
      '(itss, p2, c2) <- extract_chunks rest p1 c1 ;;
      Some (its :: itss, p2, c2)
  end.

(* merging neighbouring runs that carry the same style *)
Fixpoint merge_runs (rs : list (sstyle * list N)) : list (sstyle * list N) :=
  match rs with
  | [] => []
  | (s, t) :: rest =>
      match merge_runs rest with
      | (s', t') :: rest' => if style_eqb s s' then (s, t ++ t') :: rest' else (s, t) :: (s', t') :: rest'
      | [] => [(s, t)]
      end
  end.

(* ---- vocabulary of the function translator (tools/gen_fn_wincon.py): per-field setters and
   small adapters naming the anstyle operations the Rust code calls.  Definitions only; nothing
   above depends on them. *)
Definition set_c_style (c : capture) (s : sstyle) : capture := mkCap s (c_printable c) (c_ready c).
Definition set_c_printable (c : capture) (t : list N) : capture := mkCap (c_style c) t (c_ready c).
Definition set_c_ready (c : capture) (r : option sstyle) : capture := mkCap (c_style c) (c_printable c) r.

Definition wstate_eqb (a b : wstate) : bool :=
  match a, b with
  | WNormal, WNormal | WPrepareCustomColor, WPrepareCustomColor | WAnsi256, WAnsi256
  | WRgb, WRgb | WUnderline, WUnderline => true
  | _, _ => false
  end.

(* anstyle::Effects is a bit set (an N); Style::effects(e), Style | Effects *)
Definition set_eff (s : sstyle) (e : N) : sstyle := mkStyle (s_fg s) (s_bg s) (s_ul s) e.
Definition st_or_eff (s : sstyle) (e : N) : sstyle := mkStyle (s_fg s) (s_bg s) (s_ul s) (N.lor (s_eff s) e).

(* anstyle::AnsiColor as an enumeration (crates/anstyle/src/color.rs); the hand model above
   works with its palette index *)
Inductive acolor : Set :=
  | ABlack | ARed | AGreen | AYellow | ABlue | AMagenta | ACyan | AWhite
  | ABrightBlack | ABrightRed | ABrightGreen | ABrightYellow | ABrightBlue | ABrightMagenta | ABrightCyan | ABrightWhite.
Definition ansi_idx (a : acolor) : N :=
  match a with
  | ABlack => 0 | ARed => 1 | AGreen => 2 | AYellow => 3 | ABlue => 4 | AMagenta => 5 | ACyan => 6 | AWhite => 7
  | ABrightBlack => 8 | ABrightRed => 9 | ABrightGreen => 10 | ABrightYellow => 11 | ABrightBlue => 12
  | ABrightMagenta => 13 | ABrightCyan => 14 | ABrightWhite => 15
  end.

(* ---- vocabulary of the function translator, second part (WinconBytes / WinconBytesIter, tools/gen_fn_wincon.py) ----
   Small adapters only. *)
(* pub struct WinconBytes { parser, capture } *)
Record wbytes : Set := mkWB { wb_parser : parser; wb_capture : capture }.
Definition set_wb_parser (x : wbytes) (p : parser) : wbytes := mkWB p (wb_capture x).
Definition set_wb_capture (x : wbytes) (c : capture) : wbytes := mkWB (wb_parser x) c.
(* pub struct WinconBytesIter<'s> { bytes, parser: &mut Parser, capture: &mut WinconCapture }: the borrowed fields by value *)
Record wbiter : Set := mkWBI { wbi_bytes : list N; wbi_parser : parser; wbi_capture : capture }.
Definition set_wbi_bytes (x : wbiter) (b : list N) : wbiter := mkWBI b (wbi_parser x) (wbi_capture x).
Definition set_wbi_parser (x : wbiter) (p : parser) : wbiter := mkWBI (wbi_bytes x) p (wbi_capture x).
Definition set_wbi_capture (x : wbiter) (c : capture) : wbiter := mkWBI (wbi_bytes x) (wbi_parser x) c.
