(* Model/Style.v -- hand model of anstyle's Effects (effect.rs), Style (style.rs)
   and of the colour conversions (color.rs) over the translated tables of
   Generated/Style.v.  Definitions only.

   Effects is a u16: every value is an [N]; the only operation that depends on
   the width is [!x] ([u16_not]).  `1 << index` on u16 panics (debug) / wraps
   (release) for index >= 16, hence [shl1_u16] returns [None] there. *)
From Coq Require Import NArith List Bool.
From AV Require Import Generated.Style Model.Base.
Import ListNotations.
Local Open Scope N_scope.

(* ---- Effects ------------------------------------------------------------ *)

Definition e_new : N := effect_plain.                         (* Self::PLAIN *)
Definition e_is_plain (e : N) : bool := e =? effect_plain.    (* self.0 == Self::PLAIN.0 *)
Definition e_contains (s o : N) : bool := N.land o s =? o.    (* (other.0 & self.0) == other.0 *)
Definition e_insert (s o : N) : N := N.lor s o.               (* self.0 |= other.0 *)
Definition u16_not (x : N) : N := N.lnot x 16.                (* !x on u16 *)
Definition e_remove (s o : N) : N := N.land s (u16_not o).    (* self.0 &= !other.0 *)
Definition e_clear (s : N) : N := e_new.                      (* Self::new() *)
Definition e_set (s o : N) (enable : bool) : N :=
  if enable then e_insert s o else e_remove s o.

(* operators: BitOr / BitOrAssign call insert, Sub / SubAssign call remove *)
Definition e_bitor (s o : N) : N := e_insert s o.
Definition e_bitor_assign (s o : N) : N := e_insert s o.
Definition e_sub (s o : N) : N := e_remove s o.
Definition e_sub_assign (s o : N) : N := e_remove s o.

Definition shl1_u16 (i : N) : option N := if i <? 16 then Some (N.shiftl 1 i) else None.

(* EffectIter / EffectIndexIter::next, run to exhaustion:
     while self.index < METADATA.len() {
         let index = self.index; self.index += 1;
         let effect = Effects(1 << index);
         if self.effects.contains(effect) { return Some(<item>); } }
   [fuel] = METADATA.len() - index *)
Fixpoint iter_loop {A} (item : N -> N -> A) (fuel : nat) (index : N) (e : N) : option (list A) :=
  match fuel with
  | O => Some []
  | S k =>
      effect <- shl1_u16 index ;;
      rest <- iter_loop item k (index + 1) e ;;
      Some (if e_contains e effect then item index effect :: rest else rest)
  end.

Definition e_iter (e : N) : option (list N) :=
  iter_loop (fun _ effect => effect) (length metadata) 0 e.
Definition e_index_iter (e : N) : option (list N) :=
  iter_loop (fun index _ => index) (length metadata) 0 e.

(* Debug: "Effects(" name (" | " name)* ")" with METADATA[index].name *)
Definition str_effects_open : list N := [69; 102; 102; 101; 99; 116; 115; 40].
Definition str_bar : list N := [32; 124; 32].
Definition str_close : list N := [41].

Fixpoint debug_body (i : nat) (l : list N) : option (list N) :=
  match l with
  | [] => Some []
  | index :: t =>
      md <- aget metadata index ;;
      rest <- debug_body (S i) t ;;
      Some ((match i with O => [] | S _ => str_bar end) ++ fst md ++ rest)
  end.

Definition e_debug (e : N) : option (list N) :=
  l <- e_index_iter e ;;
  body <- debug_body 0 l ;;
  Some (str_effects_open ++ body ++ str_close).

(* how the correspondence harness names a set: bit j of the mask = the j-th
   public constant (declaration order) is inserted *)
Fixpoint e_of_mask_from (j : N) (cs : list (list N * N)) (m : N) : N :=
  match cs with
  | [] => e_new
  | (_, k) :: t =>
      let r := e_of_mask_from (j + 1) t m in
      if N.testbit m j then e_insert r (N.shiftl 1 k) else r
  end.
Definition e_of_mask (m : N) : N := e_of_mask_from 0 effect_consts m.

(* ---- colours ------------------------------------------------------------ *)

Inductive color : Set :=
  | CoAnsi (c : ansi_color)
  | CoAnsi256 (n : N)
  | CoRgb (r g b : N).

Definition ansi_bright (c : ansi_color) (yes : bool) : ansi_color :=
  if yes then ansi_bright_on c else ansi_bright_off c.

(* derived PartialEq *)
Definition ansi_eqb (a b : ansi_color) : bool := ansi_disc a =? ansi_disc b.

Definition color_eqb (a b : color) : bool :=
  match a, b with
  | CoAnsi x, CoAnsi y => ansi_eqb x y
  | CoAnsi256 x, CoAnsi256 y => x =? y
  | CoRgb r g b, CoRgb r' g' b' => (r =? r') && (g =? g') && (b =? b')
  | _, _ => false
  end.

Definition ocolor_eqb (a b : option color) : bool :=
  match a, b with
  | None, None => true
  | Some x, Some y => color_eqb x y
  | _, _ => false
  end.

(* `Ansi256Color::from(AnsiColor)` *)
Definition ansi256_from (c : ansi_color) : N := ansi256_from_ansi c.

(* flat representation, for the driver only: (tag, x, y, z) *)
Definition color_repr (c : color) : N * (N * (N * N)) :=
  match c with
  | CoAnsi a => (0, (ansi_disc a, (0, 0)))
  | CoAnsi256 n => (1, (n, (0, 0)))
  | CoRgb r g b => (2, (r, (g, b)))
  end.

Definition color_of_repr (tag x y z : N) : option color :=
  match tag with
  | 0 => a <- nth_error all_ansi (N.to_nat x) ;; Some (CoAnsi a)
  | 1 => Some (CoAnsi256 x)
  | 2 => Some (CoRgb x y z)
  | _ => None
  end.

(* ---- Style -------------------------------------------------------------- *)

Record style : Set := mkStyle {
  st_fg : option color;
  st_bg : option color;
  st_ul : option color;
  st_eff : N
}.

Definition st_new : style := mkStyle None None None e_new.

Definition st_fg_color (s : style) (v : option color) : style := mkStyle v (st_bg s) (st_ul s) (st_eff s).
Definition st_bg_color (s : style) (v : option color) : style := mkStyle (st_fg s) v (st_ul s) (st_eff s).
Definition st_underline_color (s : style) (v : option color) : style := mkStyle (st_fg s) (st_bg s) v (st_eff s).
Definition st_effects (s : style) (e : N) : style := mkStyle (st_fg s) (st_bg s) (st_ul s) e.

Definition st_get_fg_color (s : style) : option color := st_fg s.
Definition st_get_bg_color (s : style) : option color := st_bg s.
Definition st_get_underline_color (s : style) : option color := st_ul s.
Definition st_get_effects (s : style) : N := st_eff s.

(* bold() / dimmed() / ...: self.effects = self.effects.insert(Effects::X) *)
Definition st_conv (m : conv_method) (s : style) : style :=
  mkStyle (st_fg s) (st_bg s) (st_ul s) (e_insert (st_eff s) (conv_effect m)).

Definition o_is_none {A} (o : option A) : bool := match o with None => true | Some _ => false end.

Definition st_is_plain (s : style) : bool :=
  o_is_none (st_fg s) && o_is_none (st_bg s) && o_is_none (st_ul s) && e_is_plain (st_eff s).

(* From<Effects>: Self::new().effects(effects) *)
Definition st_from_effects (e : N) : style := st_effects st_new e.

(* Style | Effects, |=, -, -= : self.effects |= rhs / self.effects -= rhs *)
Definition st_bitor (s : style) (e : N) : style :=
  mkStyle (st_fg s) (st_bg s) (st_ul s) (e_bitor_assign (st_eff s) e).
Definition st_bitor_assign (s : style) (e : N) : style :=
  mkStyle (st_fg s) (st_bg s) (st_ul s) (e_bitor_assign (st_eff s) e).
Definition st_sub (s : style) (e : N) : style :=
  mkStyle (st_fg s) (st_bg s) (st_ul s) (e_sub_assign (st_eff s) e).
Definition st_sub_assign (s : style) (e : N) : style :=
  mkStyle (st_fg s) (st_bg s) (st_ul s) (e_sub_assign (st_eff s) e).

(* derived PartialEq on Style, and PartialEq<Effects> for Style:
   the effects value is converted with From and the two styles compared *)
Definition style_eqb (a b : style) : bool :=
  ocolor_eqb (st_fg a) (st_fg b) && ocolor_eqb (st_bg a) (st_bg b) &&
  ocolor_eqb (st_ul a) (st_ul b) && (st_eff a =? st_eff b).

Definition st_eq_effects (s : style) (e : N) : bool := style_eqb s (st_from_effects e).

(* ---- adapters for the function translator (tools/gen_fn_style.py -> Generated/StyleFn.v) ----
   Definitions only; nothing above depends on them.  The tuple structs `Effects(u16)` and
   `EffectsDisplay(Effects)` are their field (identity getters / setters / constructors); the
   two iterator structs of effect.rs share one record; per-field setters of [style]. *)
Definition eff_f0 (e : N) : N := e.                     (* self.0 *)
Definition set_eff_f0 (e v : N) : N := v.               (* self.0 = v *)
Definition eff_new (v : N) : N := v.                    (* Effects(v) *)
Definition effd_f0 (d : N) : N := d.                    (* EffectsDisplay: self.0 *)
Definition effd_new (e : N) : N := e.                   (* EffectsDisplay(e) *)

(* `a << i` at width w: panics (debug build) when i >= w; bits shifted out are dropped *)
Definition cshl (w a i : N) : option N := if i <? w then Some (N.shiftl a i mod 2 ^ w) else None.

(* struct EffectIter / EffectIndexIter { index: usize, effects: Effects } *)
Record eff_iter : Set := mkEffIter { ei_index : N; ei_effects : N }.
Definition set_ei_index (it : eff_iter) (v : N) : eff_iter := mkEffIter v (ei_effects it).
Definition set_ei_effects (it : eff_iter) (v : N) : eff_iter := mkEffIter (ei_index it) v.

(* struct Metadata { name, escape }: a row of [metadata] *)
Definition md_name (m : list N * list N) : list N := fst m.
Definition md_escape (m : list N * list N) : list N := snd m.

Definition set_st_fg (s : style) (v : option color) : style := mkStyle v (st_bg s) (st_ul s) (st_eff s).
Definition set_st_bg (s : style) (v : option color) : style := mkStyle (st_fg s) v (st_ul s) (st_eff s).
Definition set_st_ul (s : style) (v : option color) : style := mkStyle (st_fg s) (st_bg s) v (st_eff s).
Definition set_st_eff (s : style) (v : N) : style := mkStyle (st_fg s) (st_bg s) (st_ul s) v.

(* struct Ansi256Color(u8): the index itself *)
Definition a256_f0 (i : N) : N := i.
Definition a256_of (v : N) : N := v.

(* core::fmt::Formatter over an infallible sink = the text written so far; write_str appends *)
Definition fmt_write_str (f s : list N) : list N := f ++ s.

(* Iterator::enumerate on the collected items *)
Fixpoint enumerate_from {A} (i : N) (l : list A) : list (N * A) :=
  match l with [] => [] | x :: t => (i, x) :: enumerate_from (i + 1) t end.
Definition enumerate0 {A} (l : list A) : list (N * A) := enumerate_from 0 l.
