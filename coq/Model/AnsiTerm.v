(* Model/AnsiTerm.v -- the value types and the hand model of the RENDERING code of the
   third-party library ansi_term (the version /repo/Cargo.lock pins, 0.12.1):
   `ansi_term::Style` as the record it is, `ansi_term::Colour` as the enum it is, and what
   `style.paint(text).to_string()` writes.  tools/gen_fn_ansiterm.py translates the
   library's source (style.rs, ansi.rs, display.rs of the cargo registry copy) on every
   run into Generated/AnsiTermFn.v; Proofs/AnsiTermFnGen.v proves the translation equal
   to this model and the model's bytes, read by Spec/Vt + Spec/Sgr, equal to the meaning
   Spec/Targets.v gives the value.  Definitions only. *)
From Coq Require Import NArith List Bool.
From AV Require Import Spec.Sgr Spec.Targets.
Import ListNotations.
Local Open Scope N_scope.

(* ---- the value types ------------------------------------------------------------ *)

(* pub enum Colour { Black, Red, Green, Yellow, Blue, Purple, Cyan, White, Fixed(u8), RGB(u8, u8, u8) } *)
Inductive atm_colour : Set :=
  | AtBlack | AtRed | AtGreen | AtYellow | AtBlue | AtPurple | AtCyan | AtWhite
  | AtFixed (n : N)
  | AtRGB (r g b : N).

(* pub struct Style { foreground, background: Option<Colour>, is_bold .. is_strikethrough: bool } *)
Record atm_style : Set := mkAtm {
  atm_fg : option atm_colour;
  atm_bg : option atm_colour;
  atm_bold : bool;
  atm_dimmed : bool;
  atm_italic : bool;
  atm_underline : bool;
  atm_blink : bool;
  atm_reverse : bool;
  atm_hidden : bool;
  atm_strike : bool
}.

(* #[derive(PartialEq)] on both *)
Definition atm_colour_eqb (a b : atm_colour) : bool :=
  match a, b with
  | AtBlack, AtBlack | AtRed, AtRed | AtGreen, AtGreen | AtYellow, AtYellow
  | AtBlue, AtBlue | AtPurple, AtPurple | AtCyan, AtCyan | AtWhite, AtWhite => true
  | AtFixed n, AtFixed m => n =? m
  | AtRGB r g b0, AtRGB r' g' b' => (r =? r') && (g =? g') && (b0 =? b')
  | _, _ => false
  end.
Definition atm_ocolour_eqb (a b : option atm_colour) : bool :=
  match a, b with
  | None, None => true
  | Some x, Some y => atm_colour_eqb x y
  | _, _ => false
  end.
Definition atm_style_eqb (a b : atm_style) : bool :=
  atm_ocolour_eqb (atm_fg a) (atm_fg b) && atm_ocolour_eqb (atm_bg a) (atm_bg b)
  && Bool.eqb (atm_bold a) (atm_bold b) && Bool.eqb (atm_dimmed a) (atm_dimmed b)
  && Bool.eqb (atm_italic a) (atm_italic b) && Bool.eqb (atm_underline a) (atm_underline b)
  && Bool.eqb (atm_blink a) (atm_blink b) && Bool.eqb (atm_reverse a) (atm_reverse b)
  && Bool.eqb (atm_hidden a) (atm_hidden b) && Bool.eqb (atm_strike a) (atm_strike b).

(* the tuple structs Prefix(Style), Suffix(Style) and ANSIGenericString { style, string }
   (the string, a Cow<str>, is its UTF-8 bytes) *)
Definition atm_prefix_f0 (p : atm_style) : atm_style := p.
Definition atm_prefix_new (s : atm_style) : atm_style := s.
Definition atm_suffix_f0 (p : atm_style) : atm_style := p.
Definition atm_suffix_new (s : atm_style) : atm_style := s.
Record atm_string : Set := mkAtmString { atm_s_style : atm_style; atm_s_string : list N }.

(* ---- std's formatting, as far as the rendering code uses it --------------------------
   A `fmt::Formatter`, a `&mut dyn fmt::Write` and the generic `W: AnyWrite` are one
   thing here: the bytes written so far, over a sink that never fails (the String of
   `to_string()`, which is what the harness calls).  `fmt::Result` = unit + unit. *)
Definition atm_write_str (f s : list N) : list N := f ++ s.

(* `{}` of a u8 (core::fmt::Display for u8): canonical decimal, no leading zero *)
Fixpoint atm_dec_go (fuel : nat) (n : N) (acc : list N) : list N :=
  match fuel with
  | O => acc
  | S f => let acc' := (48 + n mod 10) :: acc in
           if n <? 10 then acc' else atm_dec_go f (n / 10) acc'
  end.
Definition atm_dec (n : N) : list N := atm_dec_go (S (N.size_nat n)) n [].
(* `{}` of a char: its UTF-8 encoding; the chars that reach it are ASCII literals *)
Definition atm_char (c : N) : list N := [c].

(* ---- the hand model of the rendering ------------------------------------------------ *)

Definition atm_default : atm_style := mkAtm None None false false false false false false false false.
Definition atm_is_plain (s : atm_style) : bool := atm_style_eqb s atm_default.

(* Colour::write_foreground_code / write_background_code ([base] = 30 / 40): the SGR
   parameters written, each a digit string; write_prefix separates ALL parameters by ';' *)
Definition atm_colour_params (base : N) (c : atm_colour) : list (list N) :=
  match c with
  | AtBlack => [atm_dec base] | AtRed => [atm_dec (base + 1)] | AtGreen => [atm_dec (base + 2)]
  | AtYellow => [atm_dec (base + 3)] | AtBlue => [atm_dec (base + 4)] | AtPurple => [atm_dec (base + 5)]
  | AtCyan => [atm_dec (base + 6)] | AtWhite => [atm_dec (base + 7)]
  | AtFixed n => [atm_dec (base + 8); [53]; atm_dec n]
  | AtRGB r g b => [atm_dec (base + 8); [50]; atm_dec r; atm_dec g; atm_dec b]
  end.
Definition atm_ocolour_params (base : N) (c : option atm_colour) : list (list N) :=
  match c with Some c => atm_colour_params base c | None => [] end.

(* the parameters of write_prefix, in the order it writes them: the flags, the
   background, the foreground *)
Definition atm_flag_params (s : atm_style) : list (list N) :=
  (if atm_bold s then [[49]] else []) ++ (if atm_dimmed s then [[50]] else []) ++
  (if atm_italic s then [[51]] else []) ++ (if atm_underline s then [[52]] else []) ++
  (if atm_blink s then [[53]] else []) ++ (if atm_reverse s then [[55]] else []) ++
  (if atm_hidden s then [[56]] else []) ++ (if atm_strike s then [[57]] else []).
Definition atm_params (s : atm_style) : list (list N) :=
  atm_flag_params s ++ atm_ocolour_params 40 (atm_bg s) ++ atm_ocolour_params 30 (atm_fg s).

Fixpoint atm_join (l : list (list N)) : list N :=
  match l with
  | [] => []
  | x :: t => match t with [] => x | _ :: _ => x ++ 59 :: atm_join t end
  end.

Definition atm_reset : list N := [27; 91; 48; 109].
Definition atm_prefix (s : atm_style) : list N :=
  if atm_is_plain s then [] else [27; 91] ++ atm_join (atm_params s) ++ [109].
Definition atm_suffix (s : atm_style) : list N :=
  if atm_is_plain s then [] else atm_reset.
(* format!("{}", style.paint(text)) *)
Definition atm_paint (s : atm_style) (text : list N) : list N := atm_prefix s ++ text ++ atm_suffix s.
(* the harness: s.paint("x").to_string().into_bytes() *)
Definition atm_render (s : atm_style) : list N := atm_paint s [120].

(* ---- the value as Spec/Targets.v names it -------------------------------------------
   (what harness/h-adapters prints for a converted value: the colour constructors by
   name, the flags that are on as the builder-method names, in declaration order) *)
Definition atm_abs_colour (c : atm_colour) : ad_tcolor :=
  match c with
  | AtBlack => AdNamed [66; 108; 97; 99; 107]
  | AtRed => AdNamed [82; 101; 100]
  | AtGreen => AdNamed [71; 114; 101; 101; 110]
  | AtYellow => AdNamed [89; 101; 108; 108; 111; 119]
  | AtBlue => AdNamed [66; 108; 117; 101]
  | AtPurple => AdNamed [80; 117; 114; 112; 108; 101]
  | AtCyan => AdNamed [67; 121; 97; 110]
  | AtWhite => AdNamed [87; 104; 105; 116; 101]
  | AtFixed n => AdFixed n
  | AtRGB r g b => AdRgb r g b
  end.
Definition atm_abs_attrs (s : atm_style) : list (list N) :=
  (if atm_bold s then [[98; 111; 108; 100]] else []) ++
  (if atm_dimmed s then [[100; 105; 109; 109; 101; 100]] else []) ++
  (if atm_italic s then [[105; 116; 97; 108; 105; 99]] else []) ++
  (if atm_underline s then [[117; 110; 100; 101; 114; 108; 105; 110; 101]] else []) ++
  (if atm_blink s then [[98; 108; 105; 110; 107]] else []) ++
  (if atm_reverse s then [[114; 101; 118; 101; 114; 115; 101]] else []) ++
  (if atm_hidden s then [[104; 105; 100; 100; 101; 110]] else []) ++
  (if atm_strike s then [[115; 116; 114; 105; 107; 101; 116; 104; 114; 111; 117; 103; 104]] else []).
Definition atm_abstract (s : atm_style) : ad_tstyle :=
  mkAdT (option_map atm_abs_colour (atm_fg s)) (option_map atm_abs_colour (atm_bg s)) None (atm_abs_attrs s).

(* the values of the Rust type: the u8 payloads are bytes *)
Definition atm_colour_wf (c : atm_colour) : Prop :=
  match c with
  | AtFixed n => n < 256
  | AtRGB r g b => r < 256 /\ g < 256 /\ b < 256
  | _ => True
  end.
Definition atm_ocolour_wf (c : option atm_colour) : Prop :=
  match c with Some c => atm_colour_wf c | None => True end.
Definition atm_wf (s : atm_style) : Prop := atm_ocolour_wf (atm_fg s) /\ atm_ocolour_wf (atm_bg s).

(* ---- what the value means, read through the tables of Spec/Targets.v ------------------ *)
Definition atm_colour_meaning (c : atm_colour) : colour :=
  match c with
  | AtBlack => CAnsi 0 | AtRed => CAnsi 1 | AtGreen => CAnsi 2 | AtYellow => CAnsi 3
  | AtBlue => CAnsi 4 | AtPurple => CAnsi 5 | AtCyan => CAnsi 6 | AtWhite => CAnsi 7
  | AtFixed n => CIdx n
  | AtRGB r g b => CRgb r g b
  end.
Definition atm_bits (s : atm_style) : N :=
  N.lor (if atm_bold s then bit BOLD else 0) (N.lor (if atm_dimmed s then bit DIMMED else 0)
  (N.lor (if atm_italic s then bit ITALIC else 0) (N.lor (if atm_underline s then bit UNDERLINE else 0)
  (N.lor (if atm_blink s then bit BLINK else 0) (N.lor (if atm_reverse s then bit INVERT else 0)
  (N.lor (if atm_hidden s then bit HIDDEN else 0) (if atm_strike s then bit STRIKETHROUGH else 0))))))).
(* = ad_meaning AdAnsiTerm (atm_abstract s), see Proofs/AnsiTermFnGen.atm_meaning_is_targets *)
Definition atm_meaning (s : atm_style) : sstyle :=
  mkStyle (option_map atm_colour_meaning (atm_fg s)) (option_map atm_colour_meaning (atm_bg s)) None (atm_bits s).

(* ---- hand model of anstyle_ansi_term::to_ansi_term over these types ------------------- *)
Definition atm_named : list atm_colour := [AtBlack; AtRed; AtGreen; AtYellow; AtBlue; AtPurple; AtCyan; AtWhite].
(* the colour and the flag "also make it bold" (a bright 16-colour value) *)
Definition atm_conv_colour (c : colour) : atm_colour * bool :=
  match c with
  | CAnsi i => (nth (N.to_nat (i mod 8)) atm_named AtBlack, 8 <=? i)
  | CIdx n => (AtFixed n, false)
  | CRgb r g b => (AtRGB r g b, false)
  end.
Definition atm_of_src (s : sstyle) : atm_style :=
  let fg := option_map atm_conv_colour (s_fg s) in
  let e := s_eff s in
  mkAtm (option_map fst fg) (option_map (fun c => fst (atm_conv_colour c)) (s_bg s))
        (N.testbit e BOLD || match fg with Some (_, true) => true | _ => false end)
        (N.testbit e DIMMED) (N.testbit e ITALIC) (N.testbit e UNDERLINE)
        (N.testbit e BLINK) (N.testbit e INVERT) (N.testbit e HIDDEN) (N.testbit e STRIKETHROUGH).

(* the anstyle styles whose indexed / RGB payloads are bytes (with Spec/Targets.ad_src_ok:
   exactly the values of the Rust type anstyle::Style) *)
Definition atm_src_colour_ok (c : option colour) : Prop :=
  match c with
  | Some (CIdx n) => n < 256
  | Some (CRgb r g b) => r < 256 /\ g < 256 /\ b < 256
  | _ => True
  end.
Definition atm_src_ok (s : sstyle) : Prop := atm_src_colour_ok (s_fg s) /\ atm_src_colour_ok (s_bg s).
