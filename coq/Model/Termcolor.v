(* Model/Termcolor.v -- the value types of the THIRD-PARTY crate termcolor (the version
   Cargo.lock pins; ~/.cargo/registry/src/*/termcolor-<version>/src/lib.rs) as far as the
   rendering path `Ansi<W>::set_color` / `reset` reaches them, and the std plumbing that path
   uses.  Vocabulary of Generated/TermcolorFn.v (tools/gen_fn_termcolor.py, which checks the
   `enum Color` / `struct ColorSpec` / `struct Ansi` items against what is written here on
   every run).  There is no hand model of the rendering: Proofs/TermcolorFnGen.v proves the
   translated code against Spec/Vt + Spec/Sgr + Spec/Targets directly.  Definitions only. *)
From Coq Require Import NArith List Bool.
Import ListNotations.
Local Open Scope N_scope.

(* `pub enum Color { Black, Blue, Green, Red, Cyan, Magenta, Yellow, White, Ansi256(u8),
   Rgb(u8, u8, u8), #[doc(hidden)] __Nonexhaustive }` (declaration order) *)
Inductive tc_color : Set :=
  | TcBlack | TcBlue | TcGreen | TcRed | TcCyan | TcMagenta | TcYellow | TcWhite
  | TcAnsi256 (n : N)
  | TcRgb (r g b : N)
  | TcNonexhaustive.

(* `pub struct ColorSpec` (private fields, declaration order) *)
Record tc_spec : Set := mkTcSpec {
  tcs_fg_color : option tc_color;
  tcs_bg_color : option tc_color;
  tcs_bold : bool;
  tcs_intense : bool;
  tcs_underline : bool;
  tcs_dimmed : bool;
  tcs_italic : bool;
  tcs_reset : bool;
  tcs_strikethrough : bool
}.

Definition set_tcs_fg_color (s : tc_spec) (v : option tc_color) : tc_spec :=
  mkTcSpec v (tcs_bg_color s) (tcs_bold s) (tcs_intense s) (tcs_underline s) (tcs_dimmed s) (tcs_italic s) (tcs_reset s) (tcs_strikethrough s).
Definition set_tcs_bg_color (s : tc_spec) (v : option tc_color) : tc_spec :=
  mkTcSpec (tcs_fg_color s) v (tcs_bold s) (tcs_intense s) (tcs_underline s) (tcs_dimmed s) (tcs_italic s) (tcs_reset s) (tcs_strikethrough s).
Definition set_tcs_bold (s : tc_spec) (v : bool) : tc_spec :=
  mkTcSpec (tcs_fg_color s) (tcs_bg_color s) v (tcs_intense s) (tcs_underline s) (tcs_dimmed s) (tcs_italic s) (tcs_reset s) (tcs_strikethrough s).
Definition set_tcs_intense (s : tc_spec) (v : bool) : tc_spec :=
  mkTcSpec (tcs_fg_color s) (tcs_bg_color s) (tcs_bold s) v (tcs_underline s) (tcs_dimmed s) (tcs_italic s) (tcs_reset s) (tcs_strikethrough s).
Definition set_tcs_underline (s : tc_spec) (v : bool) : tc_spec :=
  mkTcSpec (tcs_fg_color s) (tcs_bg_color s) (tcs_bold s) (tcs_intense s) v (tcs_dimmed s) (tcs_italic s) (tcs_reset s) (tcs_strikethrough s).
Definition set_tcs_dimmed (s : tc_spec) (v : bool) : tc_spec :=
  mkTcSpec (tcs_fg_color s) (tcs_bg_color s) (tcs_bold s) (tcs_intense s) (tcs_underline s) v (tcs_italic s) (tcs_reset s) (tcs_strikethrough s).
Definition set_tcs_italic (s : tc_spec) (v : bool) : tc_spec :=
  mkTcSpec (tcs_fg_color s) (tcs_bg_color s) (tcs_bold s) (tcs_intense s) (tcs_underline s) (tcs_dimmed s) v (tcs_reset s) (tcs_strikethrough s).
Definition set_tcs_reset (s : tc_spec) (v : bool) : tc_spec :=
  mkTcSpec (tcs_fg_color s) (tcs_bg_color s) (tcs_bold s) (tcs_intense s) (tcs_underline s) (tcs_dimmed s) (tcs_italic s) v (tcs_strikethrough s).
Definition set_tcs_strikethrough (s : tc_spec) (v : bool) : tc_spec :=
  mkTcSpec (tcs_fg_color s) (tcs_bg_color s) (tcs_bold s) (tcs_intense s) (tcs_underline s) (tcs_dimmed s) (tcs_italic s) (tcs_reset s) v.

(* `pub struct Ansi<W>(W);` at W = Vec<u8> (what the harness renders into): the tuple struct is
   its field, a Vec<u8> used as an io::Write is the bytes written so far (its `write_all`
   appends and never fails) *)
Definition tc_ansi_f0 (w : list N) : list N := w.
Definition set_tc_ansi_f0 (w v : list N) : list N := v.
Definition tc_ansi_mk (w : list N) : list N := w.
Definition tc_vec_new : list N := [].

(* `dst[..n].copy_from_slice(src)`: panics unless n <= dst.len() (the slicing) and
   src.len() == n (copy_from_slice); the first n elements become src *)
Definition tc_copy_prefix (dst : list N) (n : N) (src : list N) : option (list N) :=
  if (n <=? N.of_nat (length dst)) && (N.of_nat (length src) =? n)
  then Some (src ++ skipn (N.to_nat n) dst)
  else None.
