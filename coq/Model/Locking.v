(* Model/Locking.v -- the lock discipline of anstream's streams as data (C19), and
   colorchoice's AtomicChoice.  Definitions only.

   crates/anstream/src/auto.rs, strip.rs: every method of `impl std::io::Write for
   AutoStream<S>` / `StripStream<S>` evaluates `self.raw.as_locked_write()` ONCE,
   performs all its inner writes through that guard and drops the guard when it
   returns ("Must forward all calls to ensure locking happens appropriately").
   For S = std::io::Stdout / Stderr `as_locked_write` is `self.lock()` (checked by
   tools/gen_locking.py), so a call is the event trace
       Acquire ; inner calls on the guard ... ; Release.
   The inner writer is taken to accept whatever it is handed (short writes and
   errors of the inner writer are C06's subject; they change which inner calls
   happen, never where the lock is taken).

   crates/colorchoice/src/lib.rs: a `static AtomicUsize` read and written with
   `Ordering::SeqCst`; with the assumption that SeqCst accesses are linearisable,
   a run is a list of get/set operations in linearisation order. *)
From Coq Require Import NArith List Bool.
From AV Require Import Generated.Table Generated.Locking Spec.Atomicity
  Model.Base Model.Utf8parse Model.Parser Model.Strip.
Import ListNotations.
Local Open Scope N_scope.

(* ---- operations and events ------------------------------------------------ *)

(* a call on the guard returned by as_locked_write *)
Inductive lk_inner : Set :=
  | LkW (buf : list N)              (* write *)
  | LkWA (buf : list N)             (* write_all *)
  | LkWV (bufs : list (list N))     (* write_vectored *)
  | LkF.                            (* flush *)

Inductive lk_event : Set :=
  | LkAcquire
  | LkInner (i : lk_inner)
  | LkRelease.

(* the five methods of std::io::Write; write_fmt is given by the fragments the
   formatting machinery hands to `write_str`, one after the other *)
Inductive lk_op : Set :=
  | LkWrite (buf : list N)
  | LkWriteVectored (bufs : list (list N))
  | LkFlush
  | LkWriteAll (buf : list N)
  | LkWriteFmt (frags : list (list N)).

(* auto.rs `enum StreamInner` on a non-Windows target: the pass-through stream has
   no state, the stripping one carries StripBytes' state (parser state, utf8
   decoder) from one call to the next *)
Inductive lk_stream : Set :=
  | LkPassThrough
  | LkStrip (st : state) (u : u8parser).

Definition lk_never : lk_stream := LkStrip Ground u8_new.      (* AutoStream::never *)
Definition lk_always_ansi : lk_stream := LkPassThrough.         (* AutoStream::always_ansi *)

(* ---- strip.rs: the free functions behind StripStream's methods ------------ *)
(* they receive the guard (`raw: &mut dyn Write`) and call it once per printable run *)

(* fn write: `for printable in state.strip_next(buf) { raw.write(printable) ... }`,
   every run accepted in full *)
Definition lk_strip_write (st : state) (u : u8parser) (buf : list N)
  : option (list lk_event * state * u8parser) :=
  '(ps, _, st', u') <- strip_next_bytes buf st u ;;
  Some (map (fun p => LkInner (LkW (p_bytes p))) ps, st', u').

(* fn write_all: `for printable in state.strip_next(buf) { raw.write_all(printable)?; }` *)
Definition lk_strip_write_all (st : state) (u : u8parser) (buf : list N)
  : option (list lk_event * state * u8parser) :=
  '(ps, _, st', u') <- strip_next_bytes buf st u ;;
  Some (map (fun p => LkInner (LkWA (p_bytes p))) ps, st', u').

(* fn write_fmt: fmt::Adapter calls the `write_all` closure once per fragment *)
Fixpoint lk_strip_write_fmt (st : state) (u : u8parser) (frags : list (list N))
  : option (list lk_event * state * u8parser) :=
  match frags with
  | [] => Some ([], st, u)
  | f :: rest =>
      '(e1, st1, u1) <- lk_strip_write_all st u f ;;
      '(e2, st2, u2) <- lk_strip_write_fmt st1 u1 rest ;;
      Some (e1 ++ e2, st2, u2)
  end.

(* StripStream::write_vectored: the first non-empty buffer, else the empty one *)
Fixpoint lk_first_nonempty (bufs : list (list N)) : list N :=
  match bufs with
  | [] => []
  | [] :: rest => lk_first_nonempty rest
  | b :: _ => b
  end.

(* ---- one call of a Write method: trace and stream afterwards -------------- *)

Definition lk_op_trace (s : lk_stream) (op : lk_op) : option (list lk_event * lk_stream) :=
  match s with
  | LkPassThrough =>
      (* auto.rs: `StreamInner::PassThrough(w) => w.as_locked_write().<method>(..)`;
         the guard's write_fmt is std's default: write_all per fragment *)
      match op with
      | LkWrite buf => Some ([LkAcquire; LkInner (LkW buf); LkRelease], s)
      | LkWriteVectored bufs => Some ([LkAcquire; LkInner (LkWV bufs); LkRelease], s)
      | LkFlush => Some ([LkAcquire; LkInner LkF; LkRelease], s)
      | LkWriteAll buf => Some ([LkAcquire; LkInner (LkWA buf); LkRelease], s)
      | LkWriteFmt frags => Some (LkAcquire :: map (fun f => LkInner (LkWA f)) frags ++ [LkRelease], s)
      end
  | LkStrip st u =>
      (* auto.rs: `StreamInner::Strip(w) => w.<method>(..)`; strip.rs:
         `<fn>(&mut self.raw.as_locked_write(), &mut self.state, ..)` *)
      match op with
      | LkWrite buf =>
          '(es, st', u') <- lk_strip_write st u buf ;;
          Some (LkAcquire :: es ++ [LkRelease], LkStrip st' u')
      | LkWriteVectored bufs =>
          '(es, st', u') <- lk_strip_write st u (lk_first_nonempty bufs) ;;
          Some (LkAcquire :: es ++ [LkRelease], LkStrip st' u')
      | LkFlush => Some ([LkAcquire; LkInner LkF; LkRelease], s)
      | LkWriteAll buf =>
          '(es, st', u') <- lk_strip_write_all st u buf ;;
          Some (LkAcquire :: es ++ [LkRelease], LkStrip st' u')
      | LkWriteFmt frags =>
          '(es, st', u') <- lk_strip_write_fmt st u frags ;;
          Some (LkAcquire :: es ++ [LkRelease], LkStrip st' u')
      end
  end.

(* a thread program: the traces of its calls, the stream state carried along *)
Fixpoint lk_prog_ops (s : lk_stream) (ops : list lk_op) : option (list (list lk_event)) :=
  match ops with
  | [] => Some []
  | op :: rest =>
      '(tr, s') <- lk_op_trace s op ;;
      trs <- lk_prog_ops s' rest ;;
      Some (tr :: trs)
  end.

(* the inner calls of a trace *)
Fixpoint lk_inner_of (tr : list lk_event) : list lk_inner :=
  match tr with
  | [] => []
  | LkInner i :: r => i :: lk_inner_of r
  | _ :: r => lk_inner_of r
  end.

(* the lock events of a trace *)
Fixpoint lk_profile (tr : list lk_event) : list at_lock_ev :=
  match tr with
  | [] => []
  | LkAcquire :: r => AtTake :: lk_profile r
  | LkRelease :: r => AtGive :: lk_profile r
  | LkInner _ :: r => lk_profile r
  end.

(* the shape "lock once": *)
Definition lk_wrap (ins : list lk_inner) : list lk_event :=
  LkAcquire :: map LkInner ins ++ [LkRelease].

Definition lk_thread_events (ops : list (list lk_inner)) : list lk_event :=
  concat (map lk_wrap ops).

(* bytes an inner call hands to the inner writer *)
Definition lk_inner_bytes (i : lk_inner) : list N :=
  match i with
  | LkW b => b
  | LkWA b => b
  | LkWV bs => concat bs
  | LkF => []
  end.

(* ---- executions: interleavings under a re-entrant lock --------------------- *)

Record lk_state : Type := mkLk {
  lk_threads : list (list lk_event);     (* remaining events of every thread *)
  lk_owner : option nat;                 (* thread holding the lock *)
  lk_depth : nat;                        (* how many times it holds it (re-entrant) *)
  lk_acqs : list nat;                    (* threads in the order they took the free lock *)
  lk_out : list (nat * lk_inner)         (* calls that reached the inner writer so far *)
}.

Definition lk_init (ts : list (list lk_event)) : lk_state := mkLk ts None 0 [] [].

Fixpoint lk_upd {A : Type} (l : list A) (n : nat) (x : A) : list A :=
  match l, n with
  | [], _ => []
  | _ :: r, O => x :: r
  | y :: r, S m => y :: lk_upd r m x
  end.

(* thread [t] performs its next event.  Acquire is enabled only when the lock is
   free or already held by [t]; Release gives back one level.  An inner call
   needs no permission -- whether the caller holds the lock is up to its trace. *)
Inductive lk_step : lk_state -> nat -> lk_state -> Prop :=
  | lk_step_acquire_free : forall ts t rest acqs out,
      nth_error ts t = Some (LkAcquire :: rest) ->
      lk_step (mkLk ts None 0 acqs out) t
              (mkLk (lk_upd ts t rest) (Some t) 1 (acqs ++ [t]) out)
  | lk_step_acquire_again : forall ts t rest d acqs out,
      nth_error ts t = Some (LkAcquire :: rest) ->
      lk_step (mkLk ts (Some t) d acqs out) t
              (mkLk (lk_upd ts t rest) (Some t) (S d) acqs out)
  | lk_step_inner : forall ts t i rest o d acqs out,
      nth_error ts t = Some (LkInner i :: rest) ->
      lk_step (mkLk ts o d acqs out) t
              (mkLk (lk_upd ts t rest) o d acqs (out ++ [(t, i)]))
  | lk_step_release_last : forall ts t rest acqs out,
      nth_error ts t = Some (LkRelease :: rest) ->
      lk_step (mkLk ts (Some t) 1 acqs out) t
              (mkLk (lk_upd ts t rest) None 0 acqs out)
  | lk_step_release_inner : forall ts t rest d acqs out,
      nth_error ts t = Some (LkRelease :: rest) ->
      lk_step (mkLk ts (Some t) (S (S d)) acqs out) t
              (mkLk (lk_upd ts t rest) (Some t) (S d) acqs out).

(* an execution: any schedule (list of thread numbers), any length *)
Inductive lk_exec : lk_state -> list nat -> lk_state -> Prop :=
  | lk_exec_nil : forall s, lk_exec s [] s
  | lk_exec_cons : forall s t s1 sched s2,
      lk_step s t s1 -> lk_exec s1 sched s2 -> lk_exec s (t :: sched) s2.

(* every thread has run to its end *)
Definition lk_finished (s : lk_state) : Prop := Forall (fun evs => evs = []) (lk_threads s).

(* the same machine as a function, for running schedules (examples, driver) *)
Definition lk_step_fn (s : lk_state) (t : nat) : option lk_state :=
  match nth_error (lk_threads s) t with
  | Some (LkAcquire :: rest) =>
      match lk_owner s, lk_depth s with
      | None, O => Some (mkLk (lk_upd (lk_threads s) t rest) (Some t) 1 (lk_acqs s ++ [t]) (lk_out s))
      | None, S _ => None
      | Some h, d => if Nat.eqb h t
                     then Some (mkLk (lk_upd (lk_threads s) t rest) (Some t) (S d) (lk_acqs s) (lk_out s))
                     else None
      end
  | Some (LkInner i :: rest) =>
      Some (mkLk (lk_upd (lk_threads s) t rest) (lk_owner s) (lk_depth s) (lk_acqs s) (lk_out s ++ [(t, i)]))
  | Some (LkRelease :: rest) =>
      match lk_owner s, lk_depth s with
      | Some h, S O => if Nat.eqb h t
                       then Some (mkLk (lk_upd (lk_threads s) t rest) None 0 (lk_acqs s) (lk_out s)) else None
      | Some h, S (S d) => if Nat.eqb h t
                           then Some (mkLk (lk_upd (lk_threads s) t rest) (Some t) (S d) (lk_acqs s) (lk_out s)) else None
      | _, _ => None
      end
  | _ => None
  end.

Fixpoint lk_run (s : lk_state) (sched : list nat) : option lk_state :=
  match sched with
  | [] => Some s
  | t :: r => s1 <- lk_step_fn s t ;; lk_run s1 r
  end.

(* ---- the process-wide colour choice ---------------------------------------- *)

Inductive lk_reg_op : Set :=
  | LkSet (c : lk_choice)      (* ColorChoice::write_global: store(from_choice c, SeqCst) *)
  | LkGet.                     (* ColorChoice::global: to_choice(load(SeqCst)).expect(..) *)

(* the operations in linearisation order, run on the usize cell; [None] = the
   `expect` in AtomicChoice::get panics *)
Fixpoint lk_reg_run (cell : N) (ops : list lk_reg_op) : option (list (reg_ev lk_choice)) :=
  match ops with
  | [] => Some []
  | LkSet c :: r => h <- lk_reg_run (lk_from_choice c) r ;; Some (RegWrite c :: h)
  | LkGet :: r => c <- lk_to_choice cell ;; h <- lk_reg_run cell r ;; Some (RegRead c :: h)
  end.

(* `static USER: AtomicChoice = AtomicChoice::new()` *)
Definition lk_reg_init : N := lk_from_choice lk_choice_init.
