(* Model/Imp.v -- the target vocabulary of the Rust-to-Gallina translator
   (tools/rs2v): loops with break / return, fuelled while loops, iterator
   adapters taking closures that mutate captured state, width-checked
   arithmetic.  [None] = the Rust code would panic (or loop forever: fuel).
   Definitions only. *)
From Coq Require Import NArith ZArith List Bool.
From AV Require Import Model.Base.
Import ListNotations.
Local Open Scope N_scope.

(* what one iteration of a loop body decides *)
Inductive lctl (S R : Type) : Type :=
  | LNext (s : S)          (* fall through / continue *)
  | LBreak (s : S)
  | LRet (r : R).          (* return from the enclosing function *)
Arguments LNext {S R} s.
Arguments LBreak {S R} s.
Arguments LRet {S R} r.

(* for x in l { body } ; inl = the loop ended (normally or by break) *)
Fixpoint for_list {A S R : Type} (body : A -> S -> option (lctl S R)) (l : list A) (s : S) : option (S + R) :=
  match l with
  | [] => Some (inl s)
  | x :: t =>
      match body x s with
      | None => None
      | Some (LNext s') => for_list body t s'
      | Some (LBreak s') => Some (inl s')
      | Some (LRet r) => Some (inr r)
      end
  end.

(* loops whose body has no `return` *)
Inductive bctl (S : Type) : Type := BNext (s : S) | BBreak (s : S).
Arguments BNext {S} s.
Arguments BBreak {S} s.

Fixpoint for_list0 {A S : Type} (body : A -> S -> option (bctl S)) (l : list A) (s : S) : option S :=
  match l with
  | [] => Some s
  | x :: t =>
      match body x s with
      | None => None
      | Some (BNext s') => for_list0 body t s'
      | Some (BBreak s') => Some s'
      end
  end.

(* while / loop: [step] evaluates the condition and the body; out of fuel = None *)
Fixpoint while_fuel {S R : Type} (fuel : nat) (step : S -> option (lctl S R)) (s : S) : option (S + R) :=
  match fuel with
  | O => None
  | S f =>
      match step s with
      | None => None
      | Some (LNext s') => while_fuel f step s'
      | Some (LBreak s') => Some (inl s')
      | Some (LRet r) => Some (inr r)
      end
  end.

Fixpoint while_fuel0 {S : Type} (fuel : nat) (step : S -> option (bctl S)) (s : S) : option S :=
  match fuel with
  | O => None
  | S f =>
      match step s with
      | None => None
      | Some (BNext s') => while_fuel0 f step s'
      | Some (BBreak s') => Some s'
      end
  end.

(* Iterator::position with a closure that may mutate captured variables and may
   panic: index of the first element for which the closure answers true; the
   closure is NOT run on later elements *)
Fixpoint position_st {A S : Type} (f : A -> S -> option (S * bool)) (l : list A) (s : S) (i : N)
  : option (S * option N) :=
  match l with
  | [] => Some (s, None)
  | x :: t =>
      match f x s with
      | None => None
      | Some (s', true) => Some (s', Some i)
      | Some (s', false) => position_st f t s' (i + 1)
      end
  end.

(* slice::split_at(mid): panics when mid > len *)
Definition split_at {A} (l : list A) (mid : N) : option (list A * list A) :=
  if mid <=? N.of_nat (length l) then Some (firstn (N.to_nat mid) l, skipn (N.to_nat mid) l) else None.

Definition len {A} (l : list A) : N := N.of_nat (length l).
Definition is_empty {A} (l : list A) : bool := match l with [] => true | _ => false end.

(* width-checked unsigned multiplication *)
Definition cmul (w a b : N) : option N := if a * b <? 2 ^ w then Some (a * b) else None.

(* i32 arithmetic: every result must fit *)
Definition ci32 (z : Z) : option Z :=
  if ((-2147483648 <=? z) && (z <=? 2147483647))%Z then Some z else None.

Definition is_ascii (b : N) : bool := b <? 128.
(* u8::is_ascii_whitespace: space, TAB, LF, FF, CR *)
Definition is_ascii_whitespace (b : N) : bool :=
  (b =? 32) || (b =? 9) || (b =? 10) || (b =? 12) || (b =? 13).

Definition opt_is_none {A} (o : option A) : bool := match o with None => true | Some _ => false end.
Definition opt_is_some {A} (o : option A) : bool := match o with None => false | Some _ => true end.
Definition opt_unwrap_or {A} (o : option A) (d : A) : A := match o with Some x => x | None => d end.

(* `for x in it { .. }` over a value whose `Iterator::next` is itself translated
   ([next it] = the new iterator and the item, [None] = panic): the items it yields until the
   first `None` item.  Out of fuel = None.  (The loop body cannot touch the iterator -- it is
   moved into the loop -- so collecting the items first is the same computation.) *)
Fixpoint iter_drain {I A : Type} (next : I -> option (I * option A)) (fuel : nat) (it : I) : option (list A) :=
  match fuel with
  | O => None
  | S f =>
      match next it with
      | None => None
      | Some (_, None) => Some []
      | Some (it', Some x) =>
          match iter_drain next f it' with
          | Some xs => Some (x :: xs)
          | None => None
          end
      end
  end.
