(* Model/ArrayVec.v -- the third-party crate arrayvec (0.7.6), `ArrayVec<T, CAP>`:
   (1) the REPRESENTATION the translation of its unsafe code works on (tools/gen_fn_arrayvec.py ->
       Generated/ArrayVecFn.v), and
   (2) the LIST MODEL anstyle-parse's translation (tools/gen_fn_parser.py, Model/Parser.v: `osc_raw` is a
       list; `raw_full`, `len`, `++ [b]` that panics when full, `[]`, `slice`) uses for it.
   Proofs/ArrayVecGen.v proves (1) behaves as (2) on the representation invariant.  Definitions only.

   TRUSTED value-level reading of the unsafe code (the same reading as for Parser::osc_dispatch, Model/Parser.v):
   * `xs: [MaybeUninit<T>; CAP]` is a list of CAP slots, a slot `MaybeUninit<T>` is an `option T`, [None] =
     uninitialised.  `MaybeUninit::uninit().assume_init()` AT THE TYPE `[MaybeUninit<T>; CAP]` is CAP
     uninitialised slots (sound: an array of MaybeUninit needs no initialisation).
   * a raw pointer obtained from the buffer (`self.xs.as_ptr() as _`, `as_mut_ptr`) is the INDEX of the slot it
     points to (0 for the start of the buffer), `p.add(n)` is `p + n`; the cast `*const MaybeUninit<T>` ->
     `*const T` keeps the address.  The vector a pointer points INTO is the receiver it was obtained from.
   * `ptr::write(p, x)` initialises slot p ([None] = outside the buffer: undefined behaviour is reported like a
     panic); `slice::from_raw_parts(p, n)` reads the slots [p, p+n) AS INITIALISED ([None] if one of them is not,
     or if the range leaves the buffer); `ptr::drop_in_place(slice::from_raw_parts_mut(p, n))` drops the values
     in the slots [p, p+n): they must be initialised and are uninitialised afterwards (for `u8` the drop is a
     no-op on the memory; reading such a slot again would still be reported).
   * `debug_assert!` is checked (the debug profile): a failing one is [None]. *)
From Coq Require Import NArith List Bool.
From AV Require Import Model.Base Model.Imp.
Import ListNotations.
Local Open Scope N_scope.

(* ---- (1) the representation ------------------------------------------------------------- *)

(* pub struct ArrayVec<T, const CAP: usize> { len: LenUint (= u32), xs: [MaybeUninit<T>; CAP] } *)
Record avec (T : Type) : Type := mkAvec { av_len : N; av_xs : list (option T) }.
Arguments mkAvec {T} _ _.
Arguments av_len {T} _.
Arguments av_xs {T} _.
Definition set_av_len {T} (v : avec T) (n : N) : avec T := mkAvec n (av_xs v).
Definition set_av_xs {T} (v : avec T) (xs : list (option T)) : avec T := mkAvec (av_len v) xs.

(* pub struct CapacityError<T = ()> { element: T } *)
Record av_cap_error (T : Type) : Type := mkAvCapErr { ave_element : T }.
Arguments mkAvCapErr {T} _.
Arguments ave_element {T} _.

(* `MaybeUninit::uninit().assume_init()` at type [MaybeUninit<T>; n] *)
Definition av_uninit_array {T} (n : N) : list (option T) := repeat None (N.to_nat n).

(* reading slots as initialised *)
Fixpoint av_assume_init {T} (l : list (option T)) : option (list T) :=
  match l with
  | [] => Some []
  | Some x :: t => match av_assume_init t with Some r => Some (x :: r) | None => None end
  | None :: _ => None
  end.

(* the address of the start of a buffer, in the address model above *)
Definition av_buf_start : N := 0.
(* <*const T>::add / <*mut T>::add *)
Definition av_ptr_add (p n : N) : N := p + n.

(* ptr::write(p, x) into the buffer xs *)
Definition av_ptr_write {T} (xs : list (option T)) (p : N) (x : T) : option (list (option T)) := aset xs p (Some x).

(* slice::from_raw_parts(p, n) over the buffer xs, dereferenced *)
Definition av_from_raw_parts {T} (xs : list (option T)) (p n : N) : option (list T) :=
  s <- slice xs p (p + n) ;; av_assume_init s.

(* ptr::drop_in_place(slice::from_raw_parts_mut(p, n)) over the buffer xs *)
Definition av_drop_in_place {T} (xs : list (option T)) (p n : N) : option (list (option T)) :=
  s <- slice xs p (p + n) ;;
  _ <- av_assume_init s ;;
  Some (firstn (N.to_nat p) xs ++ repeat None (N.to_nat n) ++ skipn (N.to_nat (p + n)) xs).

(* Result<T, E>::unwrap on the sum  T + E *)
Definition av_res_unwrap {A E} (r : A + E) : option A := match r with inl x => Some x | inr _ => None end.

(* LenUint::MAX as usize *)
Definition av_len_uint_max : N := 4294967295.

(* ---- (2) the list model ------------------------------------------------------------------ *)

Definition avl_new {T} (cap : N) : option (list T) := if av_len_uint_max <? cap then None else Some [].
Definition avl_len {T} (l : list T) : N := len l.
Definition avl_is_empty {T} (l : list T) : bool := len l =? 0.
Definition avl_is_full {T} (cap : N) (l : list T) : bool := len l =? cap.
Definition avl_remaining {T} (cap : N) (l : list T) : option N := csub cap (len l).
(* push PANICS when the vector is full *)
Definition avl_push {T} (cap : N) (l : list T) (x : T) : option (list T) :=
  if len l <? cap then Some (l ++ [x]) else None.
Definition avl_try_push {T} (cap : N) (l : list T) (x : T) : list T * (unit + av_cap_error T) :=
  if len l <? cap then (l ++ [x], inl tt) else (l, inr (mkAvCapErr x)).
Definition avl_truncate {T} (l : list T) (n : N) : list T := if n <? len l then firstn (N.to_nat n) l else l.
Definition avl_clear {T} (l : list T) : list T := [].

(* ---- the representation relation: vector v holds the list l at capacity cap ---------------- *)
(* "the `len` first elements of the array are initialised", len <= CAP, CAP fits LenUint *)
Definition av_rep {T} (cap : N) (v : avec T) (l : list T) : Prop :=
  cap <= av_len_uint_max /\ len (av_xs v) = cap /\ av_len v = len l /\
  exists rest, av_xs v = map Some l ++ rest.

(* ---- operation scripts (the entry-point theorem runs both sides over any script) ---------- *)
Inductive av_op (T : Type) : Type :=
| AvPush (x : T) | AvTryPush (x : T) | AvClear | AvTruncate (n : N).
Arguments AvPush {T} _.
Arguments AvTryPush {T} _.
Arguments AvClear {T}.
Arguments AvTruncate {T} _.

Definition avl_step {T} (cap : N) (l : list T) (o : av_op T) : option (list T) :=
  match o with
  | AvPush x => avl_push cap l x
  | AvTryPush x => Some (fst (avl_try_push cap l x))
  | AvClear => Some (avl_clear l)
  | AvTruncate n => Some (avl_truncate l n)
  end.
Fixpoint avl_run {T} (cap : N) (l : list T) (os : list (av_op T)) : option (list T) :=
  match os with
  | [] => Some l
  | o :: r => l' <- avl_step cap l o ;; avl_run cap l' r
  end.
