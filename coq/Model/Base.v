(* Model/Base.v -- shared vocabulary of the hand models: Rust operations that can
   panic are explicit and return [None]. *)
From Coq Require Import NArith List Bool.
Import ListNotations.
Local Open Scope N_scope.

Notation "x <- e ;; f" := (match e with Some x => f | None => None end)
  (at level 61, e at next level, right associativity).

Notation "' p <- e ;; f" := (match e with Some p => f | None => None end)
  (at level 61, p pattern, e at next level, right associativity).

(* array read: index out of bounds panics *)
Definition aget {A} (l : list A) (i : N) : option A := nth_error l (N.to_nat i).

(* array write: index out of bounds panics *)
Fixpoint aset_nat {A} (l : list A) (i : nat) (v : A) : option (list A) :=
  match l, i with
  | [], _ => None
  | _ :: t, O => Some (v :: t)
  | h :: t, S j => match aset_nat t j v with Some t' => Some (h :: t') | None => None end
  end.
Definition aset {A} (l : list A) (i : N) (v : A) : option (list A) := aset_nat l (N.to_nat i) v.

(* slice l[a..b]: panics unless a <= b <= len *)
Definition slice {A} (l : list A) (a b : N) : option (list A) :=
  if (a <=? b) && (b <=? N.of_nat (length l))
  then Some (firstn (N.to_nat (b - a)) (skipn (N.to_nat a) l))
  else None.

(* checked subtraction on unsigned integers: underflow panics (debug) or wraps to
   a huge index that then panics (release); both are [None] *)
Definition csub (a b : N) : option N := if b <=? a then Some (a - b) else None.

(* checked addition at a given width *)
Definition cadd (w a b : N) : option N := if a + b <? 2 ^ w then Some (a + b) else None.

Definition u16_sat_mul (a b : N) : N := N.min 65535 (a * b).
Definition u16_sat_add (a b : N) : N := N.min 65535 (a + b).

Definition repeat_n {A} (x : A) (n : nat) : list A := repeat x n.

Fixpoint range_from (a : N) (n : nat) : list N :=
  match n with O => [] | S k => a :: range_from (a + 1) k end.
Definition all_bytes : list N := range_from 0 256.
