(* Model/Render.v -- hand model of anstyle's rendering code (C05):
     color.rs   DisplayBuffer::{write_str, write_code, as_str, write_to}, the
                as_{fg,bg,underline}_buffer families, Color::render_* / write_*_to,
                NullFormatter
     effect.rs  Effects::render (EffectsDisplay) / write_to
     style.rs   Style::fmt_to, write_to, render, render_reset, write_reset_to,
                impl Display for Style
     reset.rs   Reset
   over the translated data of Generated/Style.v (METADATA, fg/bg tables) and
   Generated/Render.v (builder chains, RESET, capacity, field order).
   Definitions only.  [None] = the Rust code panics.

   core::fmt::Formatter is modelled as far as this code uses it: the output
   sink, the alternate flag (read by `impl Display for Style`) and the
   width / fill / align / precision flags, which are carried along and which
   [write_str] -- the only Formatter method that is called -- does not look at.
   Writing into a String / Vec never fails, so fmt::Error / io::Error do not
   occur; the io::Write path is modelled as the list of buffers handed to
   write_all. *)
From Coq Require Import NArith List Bool.
From AV Require Import Generated.Style Generated.Render Spec.Sgr Model.Base Model.Style.
Import ListNotations.
Local Open Scope N_scope.

(* ---- DisplayBuffer -------------------------------------------------------- *)

(* { buffer: [u8; DISPLAY_BUFFER_CAPACITY], len }: the bytes buffer[0..len] *)
Definition rn_buf : Set := list N.
Definition rn_buf_new : rn_buf := [].

(* self.buffer[self.len] = x; self.len += 1   (index out of bounds panics) *)
Definition rn_buf_put (b : rn_buf) (x : N) : option rn_buf :=
  if N.of_nat (length b) <? rn_display_buffer_capacity then Some (b ++ [x]) else None.

(* for (i, b) in part.as_bytes().iter().enumerate() { self.buffer[self.len + i] = *b; }
   self.len += part.len();
   (the same stores, one position after the other; panics iff one of them is out of bounds) *)
Fixpoint rn_buf_write_str (b : rn_buf) (part : list N) : option rn_buf :=
  match part with
  | [] => Some b
  | x :: t => b' <- rn_buf_put b x ;; rn_buf_write_str b' t
  end.

(* write_code(code: u8): c1 c2 c3 = hundreds, tens, units; `printed` starts out
   true (sic), so the tens digit is always stored: 5 is written "05" *)
Definition rn_write_code (b : rn_buf) (code : N) : option rn_buf :=
  let c1 := (code / 100) mod 10 in
  let c2 := (code / 10) mod 10 in
  let c3 := code mod 10 in
  let printed := true in
  b1 <- (if negb (c1 =? 0) then rn_buf_put b (48 + c1) else Some b) ;;
  b2 <- (if negb (c2 =? 0) || printed then rn_buf_put b1 (48 + c2) else Some b1) ;;
  rn_buf_put b2 (48 + c3).

(* a translated builder chain, run on the fields of a colour *)
Fixpoint rn_run_parts (b : rn_buf) (ps : list rn_part) (fields : list N) : option rn_buf :=
  match ps with
  | [] => Some b
  | RnStr s :: t => b' <- rn_buf_write_str b s ;; rn_run_parts b' t fields
  | RnCode k :: t => v <- nth_error fields k ;; b' <- rn_write_code b v ;; rn_run_parts b' t fields
  end.

(* AnsiColor *)
Definition rn_ansi_fg_buffer (c : ansi_color) : option rn_buf := rn_buf_write_str rn_buf_new (ansi_fg_str c).
Definition rn_ansi_bg_buffer (c : ansi_color) : option rn_buf := rn_buf_write_str rn_buf_new (ansi_bg_str c).
(* Ansi256Color *)
Definition rn_ansi256_fg_buffer (n : N) : option rn_buf := rn_run_parts rn_buf_new rn_ansi256_fg_parts [n].
Definition rn_ansi256_bg_buffer (n : N) : option rn_buf := rn_run_parts rn_buf_new rn_ansi256_bg_parts [n].
Definition rn_ansi256_ul_buffer (n : N) : option rn_buf := rn_run_parts rn_buf_new rn_ansi256_ul_parts [n].
(* no per-colour underline codes: Ansi256Color::from( *self ).as_underline_buffer() *)
Definition rn_ansi_ul_buffer (c : ansi_color) : option rn_buf := rn_ansi256_ul_buffer (ansi256_from c).
(* RgbColor *)
Definition rn_rgb_fg_buffer (r g b : N) : option rn_buf := rn_run_parts rn_buf_new rn_rgb_fg_parts [r; g; b].
Definition rn_rgb_bg_buffer (r g b : N) : option rn_buf := rn_run_parts rn_buf_new rn_rgb_bg_parts [r; g; b].
Definition rn_rgb_ul_buffer (r g b : N) : option rn_buf := rn_run_parts rn_buf_new rn_rgb_ul_parts [r; g; b].

(* Color::render_fg / render_bg / render_underline (and the buffer of write_*_to) *)
Definition rn_color_fg_buffer (c : color) : option rn_buf :=
  match c with
  | CoAnsi a => rn_ansi_fg_buffer a
  | CoAnsi256 n => rn_ansi256_fg_buffer n
  | CoRgb r g b => rn_rgb_fg_buffer r g b
  end.
Definition rn_color_bg_buffer (c : color) : option rn_buf :=
  match c with
  | CoAnsi a => rn_ansi_bg_buffer a
  | CoAnsi256 n => rn_ansi256_bg_buffer n
  | CoRgb r g b => rn_rgb_bg_buffer r g b
  end.
Definition rn_color_ul_buffer (c : color) : option rn_buf :=
  match c with
  | CoAnsi a => rn_ansi_ul_buffer a
  | CoAnsi256 n => rn_ansi256_ul_buffer n
  | CoRgb r g b => rn_rgb_ul_buffer r g b
  end.

(* ---- core::fmt::Formatter, as far as it is used ----------------------------- *)

Record rn_flags : Set := mkRnFlags {
  rf_width : option N;
  rf_fill : N;                   (* a char *)
  rf_align : option N;           (* 0 left, 1 centre, 2 right *)
  rf_precision : option N
}.
Definition rn_no_flags : rn_flags := mkRnFlags None 32 None None.

Record rn_fmt : Set := mkRnFmt {
  fm_alternate : bool;
  fm_flags : rn_flags;
  fm_out : list N
}.

(* Formatter::write_str: appends to the sink; no padding, no truncation *)
Definition rn_f_write_str (f : rn_fmt) (s : list N) : rn_fmt :=
  mkRnFmt (fm_alternate f) (fm_flags f) (fm_out f ++ s).

(* impl Display for DisplayBuffer: f.write_str(self.as_str()) -- building the
   buffer may already have panicked *)
Definition rn_fmt_buffer (b : option rn_buf) (f : rn_fmt) : option rn_fmt :=
  b' <- b ;; Some (rn_f_write_str f b').

(* impl Display for NullFormatter: f.write_str(self.0) *)
Definition rn_fmt_null (s : list N) (f : rn_fmt) : option rn_fmt := Some (rn_f_write_str f s).

(* impl Display for EffectsDisplay:
     for index in self.0.index_iter() { f.write_str(METADATA[index].escape)?; } *)
Fixpoint rn_fmt_effects_loop (l : list N) (f : rn_fmt) : option rn_fmt :=
  match l with
  | [] => Some f
  | index :: t => md <- aget metadata index ;; rn_fmt_effects_loop t (rn_f_write_str f (snd md))
  end.
Definition rn_fmt_effects (e : N) (f : rn_fmt) : option rn_fmt :=
  l <- e_index_iter e ;; rn_fmt_effects_loop l f.

(* Style::fmt_to: the translated order of effects / fg / bg / underline *)
Definition rn_fmt_ocolor (buffer : color -> option rn_buf) (o : option color) (f : rn_fmt) : option rn_fmt :=
  match o with Some c => rn_fmt_buffer (buffer c) f | None => Some f end.

Definition rn_fmt_slot (s : style) (sl : rn_slot) (f : rn_fmt) : option rn_fmt :=
  match sl with
  | RnEffects => rn_fmt_effects (st_eff s) f
  | RnFg => rn_fmt_ocolor rn_color_fg_buffer (st_fg s) f
  | RnBg => rn_fmt_ocolor rn_color_bg_buffer (st_bg s) f
  | RnUl => rn_fmt_ocolor rn_color_ul_buffer (st_ul s) f
  end.

Fixpoint rn_fmt_slots (s : style) (l : list rn_slot) (f : rn_fmt) : option rn_fmt :=
  match l with
  | [] => Some f
  | sl :: t => f' <- rn_fmt_slot s sl f ;; rn_fmt_slots s t f'
  end.

Definition rn_style_fmt_to (s : style) (f : rn_fmt) : option rn_fmt := rn_fmt_slots s rn_fmt_order f.

(* Style::render_reset: `if self != Self::new() { NullFormatter(RESET) } else { NullFormatter("") }` *)
Definition rn_render_reset (s : style) : list N :=
  if negb (style_eqb s st_new) then rn_reset_str else [].

(* impl Display for Style *)
Definition rn_style_fmt (s : style) (f : rn_fmt) : option rn_fmt :=
  if fm_alternate f then rn_fmt_null (rn_render_reset s) f else rn_style_fmt_to s f.

(* format!("{:<flags>}", x) into a fresh String *)
Definition rn_format (alternate : bool) (flags : rn_flags) (fmt : rn_fmt -> option rn_fmt) : option (list N) :=
  f <- fmt (mkRnFmt alternate flags []) ;; Some (fm_out f).

(* format!("{..}", style) *)
Definition rn_display (alternate : bool) (flags : rn_flags) (s : style) : option (list N) :=
  rn_format alternate flags (rn_style_fmt s).

(* style.render() (StyleDisplay: fmt_to whatever the flags), shown with "{}" *)
Definition rn_display_render (alternate : bool) (flags : rn_flags) (s : style) : option (list N) :=
  rn_format alternate flags (rn_style_fmt_to s).
Definition rn_render_style (s : style) : option (list N) := rn_display_render false rn_no_flags s.

(* the other public entry points *)
Definition rn_display_reset_of (alternate : bool) (flags : rn_flags) (s : style) : option (list N) :=
  rn_format alternate flags (rn_fmt_null (rn_render_reset s)).                      (* style.render_reset() *)
Definition rn_display_effects (alternate : bool) (flags : rn_flags) (e : N) : option (list N) :=
  rn_format alternate flags (rn_fmt_effects e).                                     (* Effects::render *)
Definition rn_render_effects (e : N) : option (list N) := rn_display_effects false rn_no_flags e.
Definition rn_display_color_fg (alternate : bool) (flags : rn_flags) (c : color) : option (list N) :=
  rn_format alternate flags (rn_fmt_buffer (rn_color_fg_buffer c)).                 (* Color::render_fg *)
Definition rn_display_color_bg (alternate : bool) (flags : rn_flags) (c : color) : option (list N) :=
  rn_format alternate flags (rn_fmt_buffer (rn_color_bg_buffer c)).                 (* Color::render_bg *)
(* AnsiColor::render_fg / render_bg: NullFormatter(self.as_fg_str()), no buffer *)
Definition rn_display_ansi_fg (alternate : bool) (flags : rn_flags) (a : ansi_color) : option (list N) :=
  rn_format alternate flags (rn_fmt_null (ansi_fg_str a)).
Definition rn_display_ansi_bg (alternate : bool) (flags : rn_flags) (a : ansi_color) : option (list N) :=
  rn_format alternate flags (rn_fmt_null (ansi_bg_str a)).
(* Reset, Reset.render(): f.write_str(RESET) *)
Definition rn_display_reset (alternate : bool) (flags : rn_flags) : option (list N) :=
  rn_format alternate flags (rn_fmt_null rn_reset_str).

(* ---- the io::Write path ------------------------------------------------------ *)

(* the writer = the buffers handed to write_all so far *)
Definition rn_writer : Set := list (list N).

(* DisplayBuffer::write_to: write.write_all(self.as_str().as_bytes()) *)
Definition rn_buffer_write_to (b : option rn_buf) (w : rn_writer) : option rn_writer :=
  b' <- b ;; Some (w ++ [b']).

(* Effects::write_to *)
Fixpoint rn_write_effects_loop (l : list N) (w : rn_writer) : option rn_writer :=
  match l with
  | [] => Some w
  | index :: t => md <- aget metadata index ;; rn_write_effects_loop t (w ++ [snd md])
  end.
Definition rn_write_effects (e : N) (w : rn_writer) : option rn_writer :=
  l <- e_index_iter e ;; rn_write_effects_loop l w.

Definition rn_write_ocolor (buffer : color -> option rn_buf) (o : option color) (w : rn_writer) : option rn_writer :=
  match o with Some c => rn_buffer_write_to (buffer c) w | None => Some w end.

Definition rn_write_slot (s : style) (sl : rn_slot) (w : rn_writer) : option rn_writer :=
  match sl with
  | RnEffects => rn_write_effects (st_eff s) w
  | RnFg => rn_write_ocolor rn_color_fg_buffer (st_fg s) w
  | RnBg => rn_write_ocolor rn_color_bg_buffer (st_bg s) w
  | RnUl => rn_write_ocolor rn_color_ul_buffer (st_ul s) w
  end.

Fixpoint rn_write_slots (s : style) (l : list rn_slot) (w : rn_writer) : option rn_writer :=
  match l with
  | [] => Some w
  | sl :: t => w' <- rn_write_slot s sl w ;; rn_write_slots s t w'
  end.

(* Style::write_to *)
Definition rn_write_to (s : style) : option rn_writer := rn_write_slots s rn_write_order [].

(* Style::write_reset_to *)
Definition rn_write_reset_to (s : style) : rn_writer :=
  if negb (style_eqb s st_new) then [rn_reset_str] else [].

(* ---- the style value as a rendition of Spec/Sgr -------------------------------- *)

Definition rn_colour (c : color) : colour :=
  match c with
  | CoAnsi a => CAnsi (ansi_disc a)
  | CoAnsi256 n => CIdx n
  | CoRgb r g b => CRgb r g b
  end.

Definition rn_sstyle (s : style) : sstyle :=
  Sgr.mkStyle (option_map rn_colour (st_fg s)) (option_map rn_colour (st_bg s))
              (option_map rn_colour (st_ul s)) (st_eff s).

(* ---- vocabulary of the function translator (tools/gen_fn_render.py -> Generated/RenderFn.v):
   the Rust data layout of DisplayBuffer and of the colour newtypes.  Definitions only;
   nothing above uses them. *)

(* struct DisplayBuffer { buffer: [u8; DISPLAY_BUFFER_CAPACITY], len: usize } as it is *)
Record rn_dbuf : Set := mkRnDbuf { db_buffer : list N; db_len : N }.
Definition set_db_buffer (d : rn_dbuf) (v : list N) : rn_dbuf := mkRnDbuf v (db_len d).
Definition set_db_len (d : rn_dbuf) (v : N) : rn_dbuf := mkRnDbuf (db_buffer d) v.
(* #[derive(Default)]: all zero *)
Definition rn_dbuf_default : rn_dbuf := mkRnDbuf (repeat 0 (N.to_nat rn_display_buffer_capacity)) 0.
(* what [rn_buf] keeps of it: buffer[0..len] (DisplayBuffer::as_str) *)
Definition rn_dbuf_abs (d : rn_dbuf) : rn_buf := firstn (N.to_nat (db_len d)) (db_buffer d).

(* Iterator::enumerate over a slice *)
Definition rn_enumerate {A} (l : list A) : list (N * A) := combine (range_from 0 (length l)) l.

(* RgbColor(pub u8, pub u8, pub u8), Ansi256Color(pub u8) *)
Definition rn_rgb_f0 (c : N * N * N) : N := let '(r, _, _) := c in r.
Definition rn_rgb_f1 (c : N * N * N) : N := let '(_, g, _) := c in g.
Definition rn_rgb_f2 (c : N * N * N) : N := let '(_, _, b) := c in b.
Definition rn_a256_f0 (i : N) : N := i.
Definition rn_a256_new (i : N) : N := i.
(* core::str::from_utf8_unchecked: bytes and strings are both byte lists here *)
Definition rn_from_utf8_unchecked (b : list N) : list N := b.

(* enum Color { Ansi(AnsiColor), Ansi256(Ansi256Color), Rgb(RgbColor) } with the payloads as the
   translator sees them ([color] of Model/Style.v spreads the three components of Rgb) *)
Inductive rn_color_view : Set :=
  | RvAnsi (a : ansi_color)
  | RvAnsi256 (i : N)
  | RvRgb (c : N * N * N).
Definition rn_color_view_of (c : color) : rn_color_view :=
  match c with
  | CoAnsi a => RvAnsi a
  | CoAnsi256 n => RvAnsi256 n
  | CoRgb r g b => RvRgb (r, g, b)
  end.

(* ---- vocabulary of the function translator, part 2 (core::fmt / io::Write side of Generated/RenderFn.v).
   Definitions only; nothing above uses them. *)

(* the Formatter the translated code works on: the hand model's [rn_fmt] over a sink (the `dyn fmt::Write` a
   Formatter wraps) that answers each write_str from a script -- [true] / exhausted: the text is appended, Ok(());
   [false]: fmt::Error, nothing appended.  A String / Vec sink is the empty script. *)
Record rn_fmtr : Set := mkRnFmtr { fr_fmt : rn_fmt; fr_script : list bool }.
Definition fr_alternate (f : rn_fmtr) : bool := fm_alternate (fr_fmt f).          (* Formatter::alternate *)
(* Formatter::write_str as the translated code calls it: the new formatter and the fmt::Result *)
Definition rn_fw_write_str (f : rn_fmtr) (s : list N) : rn_fmtr * (unit + unit) :=
  match fr_script f with
  | false :: t => (mkRnFmtr (fr_fmt f) t, inr tt)
  | true :: t => (mkRnFmtr (rn_f_write_str (fr_fmt f) s) t, inl tt)
  | [] => (mkRnFmtr (rn_f_write_str (fr_fmt f) s) [], inl tt)
  end.

(* struct NullFormatter(&'static str), struct StyleDisplay(Style): the field itself *)
Definition rn_nf_f0 (x : list N) : list N := x.
Definition rn_nf_new (x : list N) : list N := x.
Definition rn_sd_f0 (s : style) : style := s.
Definition rn_sd_new (s : style) : style := s.

(* the colour slots of a Style read / written as the Rust enum (rn_color_view) *)
Definition rn_color_of_view (v : rn_color_view) : color :=
  match v with
  | RvAnsi a => CoAnsi a
  | RvAnsi256 i => CoAnsi256 i
  | RvRgb (r, g, b) => CoRgb r g b
  end.
Definition rn_st_fg (s : style) : option rn_color_view := option_map rn_color_view_of (st_fg s).
Definition rn_st_bg (s : style) : option rn_color_view := option_map rn_color_view_of (st_bg s).
Definition rn_st_ul (s : style) : option rn_color_view := option_map rn_color_view_of (st_ul s).
(* Style::fg_color / bg_color (translated in Generated/StyleFn.v over [color]; Model/Style.v st_fg_color) *)
Definition rn_st_fg_color (s : style) (o : option rn_color_view) : style := st_fg_color s (option_map rn_color_of_view o).
Definition rn_st_bg_color (s : style) (o : option rn_color_view) : style := st_bg_color s (option_map rn_color_of_view o).
