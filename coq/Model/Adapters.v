(* Model/Adapters.v -- hand model of the conversion functions of the adapter crates
   anstyle-{ansi-term,crossterm,owo-colors,termcolor,yansi} (anstyle::Style -> the
   target library's style) and anstyle-syntect (syntect style -> anstyle::Style),
   driven by the translated tables of Generated/Adapters.v.  The statement skeleton
   of every function modelled here is pinned token for token by the translator
   (tools/gen_adapters.py), and every function is also TRANSLATED as a whole
   (tools/gen_fn_adapters.py -> Generated/AdaptersFn.v) and proved equal to this
   model (Proofs/AdaptersGen.v).  Definitions only.

   An anstyle::Style is the record [sstyle] of Spec/Sgr (three optional colours,
   effects as a bit set); a target style is the abstract [ad_tstyle] of
   Spec/Targets: the colour constructors chosen and the attribute calls made, in
   source order. *)
From Coq Require Import NArith List Bool.
From AV Require Import Generated.Adapters Spec.Sgr Spec.Targets.
Import ListNotations.
Local Open Scope N_scope.

(* `match color { AnsiColor::V => e, ... }`: the first arm for the variant.  The
   translator guarantees one arm per variant; a missing arm (code that would not
   compile) is the constructor with the empty name, which no library has. *)
Fixpoint ad_arm {A : Type} (dflt : A) (tbl : list (N * A)) (i : N) : A :=
  match tbl with
  | [] => dflt
  | (k, v) :: t => if k =? i then v else ad_arm dflt t i
  end.

(* to_*_color: `match color { Ansi(a) => <16-way table>, Ansi256(x) => <indexed>(x.0),
   Rgb(c) => <rgb>(c.0, c.1, c.2) }` *)
Definition ad_conv_colour (tbl : list (N * list N)) (c : colour) : ad_tcolor :=
  match c with
  | CAnsi i => AdNamed (ad_arm [] tbl i)
  | CIdx n => AdFixed n
  | CRgb r g b => AdRgb r g b
  end.

(* `if effects.contains(Effects::X) { <call> }` for every entry, in source order *)
Fixpoint ad_conv_effects (tbl : list (N * list N)) (e : N) : list (list N) :=
  match tbl with
  | [] => []
  | (k, name) :: t => if N.testbit e k then name :: ad_conv_effects t e else ad_conv_effects t e
  end.

(* ---- ansi_term: colours come with a flag "also make it bold" -------------- *)
Definition ad_at_colour (c : colour) : ad_tcolor * bool :=
  match c with
  | CAnsi i => let p := ad_arm ([], false) ad_gen_ansi_term_colors i in (AdNamed (fst p), snd p)
  | CIdx n => (AdFixed n, false)
  | CRgb r g b => (AdRgb r g b, false)
  end.

Definition ad_to_ansi_term (s : sstyle) : ad_tstyle :=
  let fg := option_map ad_at_colour (s_fg s) in
  let bg := option_map ad_at_colour (s_bg s) in
  mkAdT (option_map fst fg) (option_map fst bg) None
        ((match fg with Some (_, true) => [ad_gen_ansi_term_fg_bold] | _ => [] end)
         ++ ad_conv_effects ad_gen_ansi_term_effects (s_eff s)).

(* ---- crossterm: the only target with an underline colour ----------------- *)
Definition ad_to_crossterm (s : sstyle) : ad_tstyle :=
  mkAdT (option_map (ad_conv_colour ad_gen_crossterm_colors) (s_fg s))
        (option_map (ad_conv_colour ad_gen_crossterm_colors) (s_bg s))
        (option_map (ad_conv_colour ad_gen_crossterm_colors) (s_ul s))
        (ad_conv_effects ad_gen_crossterm_effects (s_eff s)).

(* ---- owo-colors ---------------------------------------------------------- *)
Definition ad_to_owo (s : sstyle) : ad_tstyle :=
  mkAdT (option_map (ad_conv_colour ad_gen_owo_colors) (s_fg s))
        (option_map (ad_conv_colour ad_gen_owo_colors) (s_bg s))
        None
        (ad_conv_effects ad_gen_owo_effects (s_eff s)).

(* ---- termcolor: `style.set_x(effects.contains(X))`; a ColorSpec starts with
   every flag off, so the flags that end up on are those whose effect is set --- *)
Definition ad_to_termcolor (s : sstyle) : ad_tstyle :=
  mkAdT (option_map (ad_conv_colour ad_gen_termcolor_colors) (s_fg s))
        (option_map (ad_conv_colour ad_gen_termcolor_colors) (s_bg s))
        None
        (ad_conv_effects ad_gen_termcolor_effects (s_eff s)).

(* ---- yansi: an absent colour becomes the `unwrap_or` constructor ---------- *)
Definition ad_to_yansi (s : sstyle) : ad_tstyle :=
  mkAdT (Some (match s_fg s with Some c => ad_conv_colour ad_gen_yansi_colors c | None => AdNamed ad_gen_yansi_default_fg end))
        (Some (match s_bg s with Some c => ad_conv_colour ad_gen_yansi_colors c | None => AdNamed ad_gen_yansi_default_bg end))
        None
        (ad_conv_effects ad_gen_yansi_effects (s_eff s)).

Definition ad_convert (l : ad_lib) : sstyle -> ad_tstyle :=
  match l with
  | AdAnsiTerm => ad_to_ansi_term
  | AdCrossterm => ad_to_crossterm
  | AdOwo => ad_to_owo
  | AdTermcolor => ad_to_termcolor
  | AdYansi => ad_to_yansi
  end.

(* ---- syntect -> anstyle --------------------------------------------------- *)
(* to_anstyle_effects: `if style.contains(FontStyle::F) { effects |= Effects::E }` per
   entry; FontStyle is a bit set whose flag positions are the library's
   (Spec/Targets.ad_syntect_flags); an unknown flag name is never contained *)
Fixpoint ad_syntect_conv_effects (tbl : list (list N * N)) (font : N) : N :=
  match tbl with
  | [] => 0
  | (flag, e) :: t =>
      let rest := ad_syntect_conv_effects t font in
      match ad_assoc flag ad_syntect_flags with
      | Some (pos, _) => if N.testbit font pos then N.lor (bit e) rest else rest
      | None => rest
      end
  end.

Definition ad_from_syntect (fg bg : N * N * N * N) (font : N) : sstyle :=
  let rgb := fun c : N * N * N * N => match c with (r, g, b, _) => CRgb r g b end in
  mkStyle (Some (rgb fg)) (Some (rgb bg)) None (ad_syntect_conv_effects ad_gen_syntect_flags font).

(* ---- adapters for the function translator (tools/gen_fn_adapters.py) -------- *)
(* Vocabulary of Generated/AdaptersFn.v: what the translated Rust functions CALL
   (anstyle's getters / builders, the target libraries' builder methods and
   constructors), over the types above.  Definitions only; nothing above depends on
   them.  Proofs/AdaptersGen.v proves the translated functions equal to the hand
   model above. *)

(* anstyle::Color as the Rust enum is shaped: every variant has ONE payload (AnsiColor =
   its ANSI number, Ansi256Color = its index, RgbColor = the triple of its fields) *)
Inductive ad_color : Set :=
  | AdcAnsi (a : N)
  | AdcIdx (x : N)
  | AdcRgb (c : N * N * N).
Definition ad_color_of (c : colour) : ad_color :=
  match c with CAnsi i => AdcAnsi i | CIdx n => AdcIdx n | CRgb r g b => AdcRgb (r, g, b) end.
Definition ad_colour_of (c : ad_color) : colour :=
  match c with AdcAnsi i => CAnsi i | AdcIdx n => CIdx n | AdcRgb (r, g, b) => CRgb r g b end.
(* the tuple structs Ansi256Color(u8), RgbColor(u8, u8, u8) *)
Definition ad_idx_f0 (x : N) : N := x.
Definition ad_rgb_f0 (c : N * N * N) : N := match c with (r, _, _) => r end.
Definition ad_rgb_f1 (c : N * N * N) : N := match c with (_, g, _) => g end.
Definition ad_rgb_f2 (c : N * N * N) : N := match c with (_, _, b) => b end.
Definition ad_rgb_new (r g b : N) : N * N * N := (r, g, b).

(* anstyle::Style::{get_fg_color, get_bg_color, get_underline_color, get_effects} *)
Definition ad_s_get_fg (s : sstyle) : option ad_color := option_map ad_color_of (s_fg s).
Definition ad_s_get_bg (s : sstyle) : option ad_color := option_map ad_color_of (s_bg s).
Definition ad_s_get_ul (s : sstyle) : option ad_color := option_map ad_color_of (s_ul s).
Definition ad_s_get_eff (s : sstyle) : N := s_eff s.
(* anstyle::Style::{new, fg_color, bg_color, effects} (builders, by value) *)
Definition ad_s_new : sstyle := mkStyle None None None 0.
Definition ad_s_with_fg (s : sstyle) (c : option ad_color) : sstyle :=
  mkStyle (option_map ad_colour_of c) (s_bg s) (s_ul s) (s_eff s).
Definition ad_s_with_bg (s : sstyle) (c : option ad_color) : sstyle :=
  mkStyle (s_fg s) (option_map ad_colour_of c) (s_ul s) (s_eff s).
Definition ad_s_with_eff (s : sstyle) (e : N) : sstyle :=
  mkStyle (s_fg s) (s_bg s) (s_ul s) e.
(* anstyle::Effects / syntect FontStyle (both bitflags): new, contains, `|` *)
Definition ad_bits_new : N := 0.
Definition ad_bits_contains (e other : N) : bool := N.land e other =? other.
Definition ad_bits_or (a b : N) : N := N.lor a b.

(* a target style under construction: builder methods of ansi_term / owo-colors / yansi
   (`style.fg(c)`, `style.on(c)`, `style.bold()` ..: by value), setters of termcolor's
   ColorSpec (`set_fg(Option<Color>)`, `set_bold(bool)`: a flag that is switched off is
   no longer in the list), crossterm's `Attributes::set` *)
Definition ad_t_new : ad_tstyle := mkAdT None None None [].
Definition ad_t_with_fg (t : ad_tstyle) (c : ad_tcolor) : ad_tstyle :=
  mkAdT (Some c) (ad_t_bg t) (ad_t_ul t) (ad_t_attrs t).
Definition ad_t_with_bg (t : ad_tstyle) (c : ad_tcolor) : ad_tstyle :=
  mkAdT (ad_t_fg t) (Some c) (ad_t_ul t) (ad_t_attrs t).
Definition ad_t_set_fg (t : ad_tstyle) (c : option ad_tcolor) : ad_tstyle :=
  mkAdT c (ad_t_bg t) (ad_t_ul t) (ad_t_attrs t).
Definition ad_t_set_bg (t : ad_tstyle) (c : option ad_tcolor) : ad_tstyle :=
  mkAdT (ad_t_fg t) c (ad_t_ul t) (ad_t_attrs t).
Definition ad_t_attr (t : ad_tstyle) (name : list N) : ad_tstyle :=
  mkAdT (ad_t_fg t) (ad_t_bg t) (ad_t_ul t) (ad_t_attrs t ++ [name]).
Definition ad_t_flag (t : ad_tstyle) (name : list N) (on : bool) : ad_tstyle :=
  if on then ad_t_attr t name
  else mkAdT (ad_t_fg t) (ad_t_bg t) (ad_t_ul t) (filter (fun n => negb (ad_name_eqb n name)) (ad_t_attrs t)).
Definition ad_attrs_new : list (list N) := [].
Definition ad_attrs_set (l : list (list N)) (a : list N) : list (list N) := l ++ [a].

(* Option::map with a function that can "panic" (the 16-way matches over AnsiColor = N
   answer None above 15) *)
Definition ad_opt_map_m {A B : Type} (f : A -> option B) (o : option A) : option (option B) :=
  match o with
  | Some x => match f x with Some y => Some (Some y) | None => None end
  | None => Some None
  end.

(* syntect::highlighting::{Style, Color, FontStyle}: a colour is (r, g, b, a), a font
   style its bits; a FontStyle constant is the bit the library documents for it *)
Record ad_syn_style : Set := mkAdSyn {
  ad_syn_fg : N * N * N * N;
  ad_syn_bg : N * N * N * N;
  ad_syn_font : N
}.
Definition ad_syn_r (c : N * N * N * N) : N := match c with (r, _, _, _) => r end.
Definition ad_syn_g (c : N * N * N * N) : N := match c with (_, g, _, _) => g end.
Definition ad_syn_b (c : N * N * N * N) : N := match c with (_, _, b, _) => b end.
Definition ad_syn_a (c : N * N * N * N) : N := match c with (_, _, _, a) => a end.
Definition ad_font_flag (name : list N) : N :=
  match ad_assoc name ad_syntect_flags with Some (pos, _) => bit pos | None => 0 end.
