(* Model/Adapters.v -- hand model of the conversion functions of the adapter crates
   anstyle-{ansi-term,crossterm,owo-colors,termcolor,yansi} (anstyle::Style -> the
   target library's style) and anstyle-syntect (syntect style -> anstyle::Style),
   driven by the translated tables of Generated/Adapters.v.  The statement skeleton
   of every function modelled here is pinned token for token by the translator
   (tools/gen_adapters.py).  Definitions only.

   An anstyle::Style is the record [sstyle] of Spec/Sgr (three optional colours,
   effects as a bit set); a target style is the abstract [ad_tstyle] of
   Spec/Targets: the colour constructors chosen and the attribute calls made, in
   source order. *)
From Coq Require Import NArith List Bool.
From AV Require Import Generated.Adapters Spec.Sgr Spec.Targets.
Import ListNotations.
Local Open Scope N_scope.

(* `match color { AnsiColor::V => e, ... }`: the first arm for the variant.  The
   translator guarantees one arm per variant; a missing arm (code that would not
   compile) is the constructor with the empty name, which no library has. *)
Fixpoint ad_arm {A : Type} (dflt : A) (tbl : list (N * A)) (i : N) : A :=
  match tbl with
  | [] => dflt
  | (k, v) :: t => if k =? i then v else ad_arm dflt t i
  end.

(* to_*_color: `match color { Ansi(a) => <16-way table>, Ansi256(x) => <indexed>(x.0),
   Rgb(c) => <rgb>(c.0, c.1, c.2) }` *)
Definition ad_conv_colour (tbl : list (N * list N)) (c : colour) : ad_tcolor :=
  match c with
  | CAnsi i => AdNamed (ad_arm [] tbl i)
  | CIdx n => AdFixed n
  | CRgb r g b => AdRgb r g b
  end.

(* `if effects.contains(Effects::X) { <call> }` for every entry, in source order *)
Fixpoint ad_conv_effects (tbl : list (N * list N)) (e : N) : list (list N) :=
  match tbl with
  | [] => []
  | (k, name) :: t => if N.testbit e k then name :: ad_conv_effects t e else ad_conv_effects t e
  end.

(* ---- ansi_term: colours come with a flag "also make it bold" -------------- *)
Definition ad_at_colour (c : colour) : ad_tcolor * bool :=
  match c with
  | CAnsi i => let p := ad_arm ([], false) ad_gen_ansi_term_colors i in (AdNamed (fst p), snd p)
  | CIdx n => (AdFixed n, false)
  | CRgb r g b => (AdRgb r g b, false)
  end.

Definition ad_to_ansi_term (s : sstyle) : ad_tstyle :=
  let fg := option_map ad_at_colour (s_fg s) in
  let bg := option_map ad_at_colour (s_bg s) in
  mkAdT (option_map fst fg) (option_map fst bg) None
        ((match fg with Some (_, true) => [ad_gen_ansi_term_fg_bold] | _ => [] end)
         ++ ad_conv_effects ad_gen_ansi_term_effects (s_eff s)).

(* ---- crossterm: the only target with an underline colour ----------------- *)
Definition ad_to_crossterm (s : sstyle) : ad_tstyle :=
  mkAdT (option_map (ad_conv_colour ad_gen_crossterm_colors) (s_fg s))
        (option_map (ad_conv_colour ad_gen_crossterm_colors) (s_bg s))
        (option_map (ad_conv_colour ad_gen_crossterm_colors) (s_ul s))
        (ad_conv_effects ad_gen_crossterm_effects (s_eff s)).

(* ---- owo-colors ---------------------------------------------------------- *)
Definition ad_to_owo (s : sstyle) : ad_tstyle :=
  mkAdT (option_map (ad_conv_colour ad_gen_owo_colors) (s_fg s))
        (option_map (ad_conv_colour ad_gen_owo_colors) (s_bg s))
        None
        (ad_conv_effects ad_gen_owo_effects (s_eff s)).

(* ---- termcolor: `style.set_x(effects.contains(X))`; a ColorSpec starts with
   every flag off, so the flags that end up on are those whose effect is set --- *)
Definition ad_to_termcolor (s : sstyle) : ad_tstyle :=
  mkAdT (option_map (ad_conv_colour ad_gen_termcolor_colors) (s_fg s))
        (option_map (ad_conv_colour ad_gen_termcolor_colors) (s_bg s))
        None
        (ad_conv_effects ad_gen_termcolor_effects (s_eff s)).

(* ---- yansi: an absent colour becomes the `unwrap_or` constructor ---------- *)
Definition ad_to_yansi (s : sstyle) : ad_tstyle :=
  mkAdT (Some (match s_fg s with Some c => ad_conv_colour ad_gen_yansi_colors c | None => AdNamed ad_gen_yansi_default_fg end))
        (Some (match s_bg s with Some c => ad_conv_colour ad_gen_yansi_colors c | None => AdNamed ad_gen_yansi_default_bg end))
        None
        (ad_conv_effects ad_gen_yansi_effects (s_eff s)).

Definition ad_convert (l : ad_lib) : sstyle -> ad_tstyle :=
  match l with
  | AdAnsiTerm => ad_to_ansi_term
  | AdCrossterm => ad_to_crossterm
  | AdOwo => ad_to_owo
  | AdTermcolor => ad_to_termcolor
  | AdYansi => ad_to_yansi
  end.

(* ---- syntect -> anstyle --------------------------------------------------- *)
(* to_anstyle_effects: `if style.contains(FontStyle::F) { effects |= Effects::E }` per
   entry; FontStyle is a bit set whose flag positions are the library's
   (Spec/Targets.ad_syntect_flags); an unknown flag name is never contained *)
Fixpoint ad_syntect_conv_effects (tbl : list (list N * N)) (font : N) : N :=
  match tbl with
  | [] => 0
  | (flag, e) :: t =>
      let rest := ad_syntect_conv_effects t font in
      match ad_assoc flag ad_syntect_flags with
      | Some (pos, _) => if N.testbit font pos then N.lor (bit e) rest else rest
      | None => rest
      end
  end.

Definition ad_from_syntect (fg bg : N * N * N * N) (font : N) : sstyle :=
  let rgb := fun c : N * N * N * N => match c with (r, g, b, _) => CRgb r g b end in
  mkStyle (Some (rgb fg)) (Some (rgb bg)) None (ad_syntect_conv_effects ad_gen_syntect_flags font).
