(* Model/Lossy.v -- hand model of crates/anstyle-lossy/src/{lib.rs,palette.rs}.
   Definitions only.  Every Rust operation that can panic returns [None]:
   i32 arithmetic that leaves the i32 range (overflow check of a debug build),
   array reads out of bounds.  Types ([rgb], [color]) are the shared vocabulary
   of Spec/Lossy.v; a 16-colour value (AnsiColor) is its ANSI number, a palette
   is a [list rgb] (the Rust type fixes its length to 16; the model does not).
   Tables (XTERM_COLORS, the literal arms of xterm_to_ansi / into_ansi /
   from_ansi) come from Generated/Palette.v. *)
From Coq Require Import ZArith NArith List Bool.
From AV Require Import Generated.Palette Spec.Lossy Model.Base.
Import ListNotations.
Local Open Scope N_scope.

(* ---- i32 arithmetic -------------------------------------------------------- *)

(* the result of one i32 operation: [None] when it does not fit (overflow) *)
Definition i32 (z : Z) : option Z :=
  if ((-2147483648 <=? z) && (z <? 2147483648))%Z then Some z else None.

(* `x as u32` on an i32: wrapping reinterpretation, never panics *)
Definition i32_as_u32 (z : Z) : N :=
  if (0 <=? z)%Z then Z.to_N z else Z.to_N (z + 4294967296).

(* lib.rs `distance`: every `let` is one line, every binary operation one check,
   in evaluation order.  `2 * 512`, `2 * 767`, `1 << 8` are constant
   sub-expressions (1024, 1534, 256). *)
Definition distance (c1 c2 : rgb) : option N :=
  let '(r1, g1, b1) := c1 in
  let '(r2, g2, b2) := c2 in
  let c1_r := Z.of_N r1 in
  let c1_g := Z.of_N g1 in
  let c1_b := Z.of_N b1 in
  let c2_r := Z.of_N r2 in
  let c2_g := Z.of_N g2 in
  let c2_b := Z.of_N b2 in
  (* let r_sum = c1_r + c2_r; ... *)
  r_sum <- i32 (c1_r + c2_r) ;;
  r_delta <- i32 (c1_r - c2_r) ;;
  g_delta <- i32 (c1_g - c2_g) ;;
  b_delta <- i32 (c1_b - c2_b) ;;
  (* let r = (2 * 512 + r_sum) * r_delta * r_delta; *)
  r0 <- i32 (1024 + r_sum) ;;
  r1' <- i32 (r0 * r_delta) ;;
  r <- i32 (r1' * r_delta) ;;
  (* let g = 4 * g_delta * g_delta * (1 << 8); *)
  g0 <- i32 (4 * g_delta) ;;
  g1' <- i32 (g0 * g_delta) ;;
  g <- i32 (g1' * 256) ;;
  (* let b = (2 * 767 - r_sum) * b_delta * b_delta; *)
  b0 <- i32 (1534 - r_sum) ;;
  b1' <- i32 (b0 * b_delta) ;;
  b <- i32 (b1' * b_delta) ;;
  (* (r + g + b) as u32 *)
  rg <- i32 (r + g) ;;
  rgb' <- i32 (rg + b) ;;
  Some (i32_as_u32 rgb').

(* ---- the scan loop ----------------------------------------------------------
   let mut index = best_index + 1;
   while index < TABLE.len() {
       let distance = distance(color, TABLE[index]);
       if distance < best_distance { best_index = index; best_distance = distance; }
       index += 1;
   }
   [l] is TABLE[index..]; the loop state is (index, best_index, best_distance). *)
Fixpoint scan (c : rgb) (l : list rgb) (index best_index best_distance : N) : option (N * N) :=
  match l with
  | [] => Some (best_index, best_distance)
  | e :: t =>
      d <- distance c e ;;
      if d <? best_distance
      then scan c t (index + 1) index d
      else scan c t (index + 1) best_index best_distance
  end.

(* the common text of find_xterm_match and Palette::find_match:
   let mut best_index = START;
   let mut best_distance = distance(color, TABLE[best_index]);
   <scan from best_index + 1>
   best_index *)
Definition find_best (c : rgb) (table : list rgb) (start : N) : option N :=
  e <- aget table start ;;
  d0 <- distance c e ;;
  '(bi, _) <- scan c (skipn (N.to_nat (start + 1)) table) (start + 1) start d0 ;;
  Some bi.

(* ---- anstyle::Ansi256Color::{into_ansi, from_ansi} (generated arms) -------- *)

Fixpoint assoc (k : N) (l : list (N * N)) : option N :=
  match l with
  | [] => None
  | (k', v) :: t => if k =? k' then Some v else assoc k t
  end.

(* Option<AnsiColor> *)
Definition into_ansi (i : N) : option N := assoc i into_ansi_arms.

(* total on AnsiColor; [None] only for a number that is no AnsiColor *)
Definition from_ansi (a : N) : option N := aget from_ansi_tbl a.

(* ---- palette.rs ------------------------------------------------------------ *)

Definition get_ansi256_ref (p : list rgb) (i : N) : option rgb := aget p i.

Definition palette_get (p : list rgb) (a : N) : option rgb :=
  i <- from_ansi a ;; get_ansi256_ref p i.

(* impl Index<AnsiColor> for Palette *)
Definition palette_index (p : list rgb) (a : N) : option rgb :=
  i <- from_ansi a ;; get_ansi256_ref p i.

Definition rgb_from_ansi (p : list rgb) (a : N) : option rgb := palette_get p a.

(* Option<RgbColor>: the outer option is "panics", the inner one the Rust Option *)
Definition rgb_from_index (p : list rgb) (i : N) : option (option rgb) :=
  if i <? N.of_nat (length p)
  then (e <- aget p i ;; Some (Some e))
  else Some None.

(* Palette::find_match: `best_index as u8`, into_ansi, and the deliberate
   out-of-bounds read (panic) when that is no 16-colour value *)
Definition find_match (p : list rgb) (c : rgb) : option N :=
  bi <- find_best c p 0 ;;
  match into_ansi (bi mod 256) with
  | Some a => Some a
  | None => None
  end.

(* ---- lib.rs ---------------------------------------------------------------- *)

Definition find_xterm_match (c : rgb) : option N := find_best c xterm_colors 16.

Definition rgb_to_xterm (c : rgb) : option N :=
  index <- find_xterm_match c ;; Some (index mod 256).

Definition rgb_to_ansi (c : rgb) (p : list rgb) : option N := find_match p c.

Definition ansi_to_rgb (a : N) (p : list rgb) : option rgb := rgb_from_ansi p a.

Definition xterm_to_rgb (i : N) (p : list rgb) : option rgb :=
  o <- rgb_from_index p i ;;
  match o with
  | Some c => Some c
  | None => aget xterm_colors i
  end.

Definition xterm_to_ansi (i : N) (p : list rgb) : option N :=
  match assoc i xterm_to_ansi_arms with
  | Some a => Some a
  | None => c <- aget xterm_colors i ;; find_match p c
  end.

Definition color_to_rgb (c : color) (p : list rgb) : option rgb :=
  match c with
  | Ansi a => ansi_to_rgb a p
  | Ansi256 i => xterm_to_rgb i p
  | Rgb c => Some c
  end.

Definition color_to_xterm (c : color) : option N :=
  match c with
  | Ansi a => from_ansi a
  | Ansi256 i => Some i
  | Rgb c => rgb_to_xterm c
  end.

Definition color_to_ansi (c : color) (p : list rgb) : option N :=
  match c with
  | Ansi a => Some a
  | Ansi256 i => xterm_to_ansi i p
  | Rgb c => rgb_to_ansi c p
  end.

(* ---- observations for the correspondence driver (names unique to this file, so
   that the flat extraction cannot rename them) -------------------------------- *)

Definition lossy_m_rgb_to_ansi (p : list rgb) (c : rgb) : option N := rgb_to_ansi c p.
Definition lossy_m_rgb_to_xterm (c : rgb) : option N := rgb_to_xterm c.

(* everything observable about a 256-colour index *)
Definition lossy_m_obs_index (p : list rgb) (i : N) :=
  (xterm_to_rgb i p, xterm_to_ansi i p,
   (color_to_rgb (Ansi256 i) p, color_to_xterm (Ansi256 i), color_to_ansi (Ansi256 i) p)).

(* everything observable about a 16-colour value *)
Definition lossy_m_obs_ansi (p : list rgb) (a : N) :=
  ((ansi_to_rgb a p, palette_get p a, palette_index p a),
   (color_to_rgb (Ansi a) p, color_to_xterm (Ansi a), color_to_ansi (Ansi a) p)).

(* the three generic conversions of an RGB colour *)
Definition lossy_m_obs_rgb (p : list rgb) (c : rgb) :=
  (color_to_rgb (Rgb c) p, color_to_xterm (Rgb c), color_to_ansi (Rgb c) p).

(* ---- adapters for the function translator (tools/gen_fn_lossy.py -> Generated/LossyFn.v):
   the Rust newtypes seen through the representation chosen above.  Definitions only;
   nothing above uses them. *)

(* RgbColor(pub u8, pub u8, pub u8): fields .0 .1 .2 *)
Definition rgb_f0 (c : rgb) : N := let '(r, _, _) := c in r.
Definition rgb_f1 (c : rgb) : N := let '(_, g, _) := c in g.
Definition rgb_f2 (c : rgb) : N := let '(_, _, b) := c in b.

(* Ansi256Color(pub u8): the index itself *)
Definition a256_f0 (i : N) : N := i.
Definition a256_new (i : N) : N := i.

(* Palette(pub [Rgb; 16]): the list itself *)
Definition pal_f0 (p : list rgb) : list rgb := p.
Definition pal_new (raw : list rgb) : list rgb := raw.

(* impl Default for Palette: `DEFAULT`, which off Windows is `pub use VGA as DEFAULT` (the palette Model/Roff.v and
   Model/Svg.v name as the default one); impl From<[RgbColor; 16]> for Palette wraps the array unchanged *)
Definition palette_default : list rgb := vga.
Definition palette_from (raw : list rgb) : list rgb := raw.
