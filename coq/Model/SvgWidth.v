From Coq Require Import NArith List.
