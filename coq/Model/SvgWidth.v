(* The svg model with the widths COMPUTED by the translated unicode-width (Generated/UnicodeWidthFn.v)
   instead of taken from an oracle.  Definitions only.

   [svg_oracle] (Model/Svg.v) has three components.  After this file:
   - svg_o_uw        := uw_width, the translated `<str as UnicodeWidthStr>::width` (total on chars:
                        Proofs/UnicodeWidthGen.v g_uw_str_trait_width_total);
   - svg_o_min_width := the field of the term (already so: svg_tf_oracle);
   - svg_o_ceil84    stays a parameter: `(x as f64 * 8.4).ceil() as usize` is f64 arithmetic.  The
                        candidate [svg_ceil84_exact] = ceil(42 x / 5) is what the correspondence driver
                        uses (HACKING.d/unicodewidth.md: why the two agree for every x below 2^49);
                        no theorem depends on it. *)
From Coq Require Import NArith List.
From AV Require Import Model.Base Model.UnicodeWidth Generated.UnicodeWidthFn Generated.Palette Spec.Sgr Spec.Lossy Generated.Svg Model.Svg.
Import ListNotations.
Local Open Scope N_scope.

(* UnicodeWidthStr::width(s) as a total function of the code points (0 where the translation panics: never
   on a &str) *)
Definition uw_width (s : list N) : N :=
  match g_uw_str_trait_width s with Some n => n | None => 0 end.

(* correspondence entry point: the translated function itself (None = panic) *)
Definition uw_m_width (s : list N) : option N := g_uw_str_trait_width s.
Definition uw_m_char_width (c : N) : option (option N) := g_uw_char_trait_width c.

Definition svg_ceil84_exact (x : N) : N := (42 * x + 4) / 5.

Definition svg_uw_oracle (ceil84 : N -> N) (min_width : N) : svg_oracle := mkSvgOracle uw_width ceil84 min_width.
Definition svg_tf_uw_oracle (ceil84 : N -> N) (t : svg_term_full) : svg_oracle := svg_tf_oracle uw_width ceil84 t.

(* the printer with the background fills computed, and render_svg's width attribute with the widths computed *)
Definition svg_m_print_uw (width_px : N) (d : svg_document) : list N := svg_print width_px uw_width d.
Definition svg_m_width_px_uw (ceil84 : N -> N) (min_width : N) (styled_lines : list (list (sstyle * list N))) : N :=
  svg_width_px (svg_uw_oracle ceil84 min_width) styled_lines.

(* correspondence entry point of case kind svgraw: the whole rendering with NO quantity read off the real output --
   widths from the translated unicode-width, the f64 product as ceil(42 x / 5), the minimal width as configured *)
Definition svg_m_render_uw (palette : list rgb) (fg bg : colour) (background : bool) (min_width : N)
    (input : list N) : option (list N) :=
  let t := mkSvgTerm palette fg bg background in
  styled <- svg_styled t input ;;
  d <- svg_doc t input ;;
  Some (svg_m_print_uw (svg_m_width_px_uw svg_ceil84_exact min_width (svg_split_lines styled)) d).
