(* Model/Glue.v -- vocabulary of the function translator for the anstream glue (tools/gen_fn_glue.py,
   Generated/GlueFn.v): crates/anstream/src/{buffer.rs, stream.rs, lib.rs, _macros.rs}.
   Small adapters only.  Definitions only. *)
From Coq Require Import NArith List Bool.
From AV Require Import Spec.Io Model.Base Model.Stream.
Import ListNotations.
Local Open Scope N_scope.

(* `pub struct Buffer(Vec<u8>)`: the tuple struct is its field *)
Definition buf_f0 (b : list N) : list N := b.
Definition set_buf_f0 (_ v : list N) : list N := v.
Definition buf_mk (v : list N) : list N := v.

(* what an in-memory buffer and a scripted writer (Spec/Io.v) have in common: the bytes received so far;
   [buf_rel b w]: the writer accepts everything from now on and has received exactly the buffer's content *)
Definition buf_rel (b : list N) (w : writer) : Prop := w_script w = [] /\ w_received w = b.
