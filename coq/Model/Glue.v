(* Model/Glue.v -- vocabulary of the function translator for the anstream glue (tools/gen_fn_glue.py,
   Generated/GlueFn.v): crates/anstream/src/{buffer.rs, stream.rs, lib.rs, _macros.rs}.
   Small adapters only.  Definitions only. *)
From Coq Require Import NArith List Bool.
From AV Require Import Spec.Io Model.Base Model.Stream.
Import ListNotations.
Local Open Scope N_scope.

(* `pub struct Buffer(Vec<u8>)`: the tuple struct is its field *)
Definition buf_f0 (b : list N) : list N := b.
Definition set_buf_f0 (_ v : list N) : list N := v.
Definition buf_mk (v : list N) : list N := v.

(* what an in-memory buffer and a scripted writer (Spec/Io.v) have in common: the bytes received so far;
   [buf_rel b w]: the writer accepts everything from now on and has received exactly the buffer's content *)
Definition buf_rel (b : list N) (w : writer) : Prop := w_script w = [] /\ w_received w = b.

(* ---- vocabulary of tools/gen_fn_macros.py (Generated/MacrosFn.v): crates/anstream/src/_macros.rs ----
   What ONE call of print! / println! / eprint! / eprintln! / panic! does to the process, as a list of events
   (threaded through the translated arm like every `&mut`).  Definitions only. *)

(* `e.kind() != ErrorKind::BrokenPipe`: the error kinds the scripted writers of Spec/Io.v answer, plus BrokenPipe *)
Inductive ekindx : Set := EKBrokenPipe | EKOf (k : ekind).
Definition ekindx_eqb (a b : ekindx) : bool :=
  match a, b with
  | EKBrokenPipe, EKBrokenPipe => true
  | EKOf Interrupted, EKOf Interrupted | EKOf WouldBlock, EKOf WouldBlock
  | EKOf Other, EKOf Other | EKOf WriteZero, EKOf WriteZero => true
  | _, _ => false
  end.

Inductive mevent : Set :=
  (* `::std::write!(&mut s, ..)` / `writeln!`: ONE `AutoStream::write_fmt` on s; the stream AFTER the call, its answer *)
  | MWriteFmt (after : astream) (r : unit + ekind)
  (* `::std::print!("{}", text)` (err = false, nl = false), println (nl), eprint (err), eprintln: std's own macros *)
  | MStdPrint (err nl : bool) (text : list N)
  (* `::std::panic!("{}", msg)`, `::std::panic!("<prefix>{e}")` with an io::Error e, `::std::panic!()`: the thread unwinds *)
  | MPanic (msg : list N)
  | MPanicIo (prefix : list N) (e : ekind)
  | MPanicExplicit.

(* the mode of a stream made by AutoStream::auto / AutoStream::new(_, choice(&raw)) when `choice(&raw)` answers [d] *)
Definition mac_mode (d : cchoice) : amode := auto_mode CAuto d.

(* hand model of to_adapted_string: a fresh stream over an empty Vec in the mode the TARGET's choice [d] names, one
   write_fmt of the fragments (its io::Result is ignored), the Vec's content through String::from_utf8_lossy [lossy];
   [wv] = the Vec has real vectored writes (irrelevant for write_fmt) *)
Definition mac_adapted (lossy : list N -> list N) (wv : bool) (d : cchoice) (frags : list (list N)) : option (list N) :=
  match auto_op wv (mac_mode d) sb_new (writer_of []) (OWriteFmt frags) with
  | Some (_, w1, _) => Some (lossy (w_received w1))
  | None => None
  end.

(* hand model of a print macro outside tests (what ocaml/drv_stream.ml `pm` runs): a FRESH stream over the std handle [h] in
   the mode the handle's own answers decide, ONE write_fmt of the fragments; an error that is not BrokenPipe is a panic
   whose message starts with [prefix] (none of the scripted writers' error kinds is BrokenPipe) *)
Definition mac_emit (cf : acfg) (h : writer) (prefix : list N) (frags : list (list N)) (world : list mevent)
  : option (list mevent) :=
  match auto_op (ac_wv_all cf) (mac_mode (ac_decided cf)) sb_new h (OWriteFmt frags) with
  | Some (s1, w1, r) =>
      let a1 := as_of (mac_mode (ac_decided cf)) s1 w1 in
      Some (match r with
            | RErr e => world ++ [MWriteFmt a1 (inr e); MPanicIo prefix e]
            | _ => world ++ [MWriteFmt a1 (inl tt)]
            end)
  | None => None
  end.

(* ... and under test (`cfg!(test)` or the feature "test"): the adapted text goes to std's own macro, which the test
   harness captures *)
Definition mac_captured (lossy : list N -> list N) (wv : bool) (d : cchoice) (err nl : bool) (frags : list (list N))
           (world : list mevent) : option (list mevent) :=
  match mac_adapted lossy wv d frags with
  | Some t => Some (world ++ [MStdPrint err nl t])
  | None => None
  end.

(* "failed printing to stdout: " / "failed printing to stderr: " *)
Definition mac_msg_stdout : list N :=
  [102; 97; 105; 108; 101; 100; 32; 112; 114; 105; 110; 116; 105; 110; 103; 32; 116; 111; 32; 115; 116; 100; 111; 117; 116; 58; 32].
Definition mac_msg_stderr : list N :=
  [102; 97; 105; 108; 101; 100; 32; 112; 114; 105; 110; 116; 105; 110; 103; 32; 116; 111; 32; 115; 116; 100; 101; 114; 114; 58; 32].

(* ---- vocabulary of tools/gen_fn_htmlescape.py, generator IsTerminalFn (Generated/IsTerminalFn.v): the third-party crates
   is_terminal_polyfill (src/lib.rs) and is-terminal (src/lib.rs, unix configuration).  Definitions only. ----
   The operating system as far as `is_terminal` consults it: which descriptor a std handle (File, Stdin, Stdout, Stderr
   and their locks: the raw streams of the stream area, [writer]) holds -- `AsFd::as_fd` / `as_raw_fd` --, and what
   `libc::isatty` answers for a descriptor (a C int: non-zero = a terminal). *)
From Coq Require Import ZArith.
Definition pf_fd : Set := N.
Record pf_os : Set := mkPfOs { pf_as_fd : writer -> pf_fd; pf_isatty : pf_fd -> Z }.

(* "isatty of the handle's OWN descriptor answered non-zero" *)
Definition pf_tty (os : pf_os) (w : writer) : bool := negb (Z.eqb (pf_isatty os (pf_as_fd os w)) 0%Z).

(* the answers [cf] of the stream area (Model/Stream.v [acfg]: `raw.is_terminal()` = [ac_tty cf]) describe the raw stream
   [w] under the operating system [os] *)
Definition pf_os_agrees (os : pf_os) (cf : acfg) (w : writer) : Prop := pf_tty os w = ac_tty cf.
