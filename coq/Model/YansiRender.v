(* Model/YansiRender.v -- the value types of the third-party crate yansi 1.0.1 and the std plumbing its
   RENDERING path uses, as vocabulary of the function translator (tools/gen_fn_yansi.py ->
   Generated/YansiFn.v; proofs in Proofs/YansiFnGen.v; property C16).  Definitions only.

   yansi::Color, Attribute, Quirk are the Rust enums constructor for constructor; a `Set<T>` is its u16;
   a `Condition` (a `fn() -> bool`) is the answer its call gives during the one rendering that is
   modelled (every condition is called at most once per `Painted::fmt`); a `&mut dyn fmt::Write` /
   `&mut fmt::Formatter` over a String is the text written so far, its `write_str` appends and
   answers Ok(()) (what `to_string()` uses: String's fmt::Write never fails). *)
From Coq Require Import NArith List Bool.
Import ListNotations.
Local Open Scope N_scope.

Inductive ya_color : Set :=
  | YaPrimary | YaFixed (n : N) | YaRgb (r g b : N)
  | YaBlack | YaRed | YaGreen | YaYellow | YaBlue | YaMagenta | YaCyan | YaWhite
  | YaBrightBlack | YaBrightRed | YaBrightGreen | YaBrightYellow | YaBrightBlue | YaBrightMagenta
  | YaBrightCyan | YaBrightWhite.

Inductive ya_variant : Set := YaFg | YaBg.

Inductive ya_attr : Set :=
  | YaBold | YaDim | YaItalic | YaUnderline | YaBlink | YaRapidBlink | YaInvert | YaConceal | YaStrike.

Inductive ya_quirk : Set :=
  | YaMask | YaWrap | YaLinger | YaClear | YaResetting | YaBright | YaOnBright.

(* `self as u16` / `as u8`: the discriminant = the position of the variant (no explicit discriminants;
   the plug-in checks the variant order on every run) *)
Definition ya_attr_disc (a : ya_attr) : N :=
  match a with
  | YaBold => 0 | YaDim => 1 | YaItalic => 2 | YaUnderline => 3 | YaBlink => 4 | YaRapidBlink => 5
  | YaInvert => 6 | YaConceal => 7 | YaStrike => 8
  end.
Definition ya_quirk_disc (q : ya_quirk) : N :=
  match q with
  | YaMask => 0 | YaWrap => 1 | YaLinger => 2 | YaClear => 3 | YaResetting => 4 | YaBright => 5 | YaOnBright => 6
  end.

(* #[derive(PartialEq)] on Color *)
Definition ya_color_eqb (a b : ya_color) : bool :=
  match a, b with
  | YaPrimary, YaPrimary => true
  | YaFixed x, YaFixed y => x =? y
  | YaRgb r g b0, YaRgb r' g' b' => (r =? r') && (g =? g') && (b0 =? b')
  | YaBlack, YaBlack | YaRed, YaRed | YaGreen, YaGreen | YaYellow, YaYellow | YaBlue, YaBlue
  | YaMagenta, YaMagenta | YaCyan, YaCyan | YaWhite, YaWhite
  | YaBrightBlack, YaBrightBlack | YaBrightRed, YaBrightRed | YaBrightGreen, YaBrightGreen
  | YaBrightYellow, YaBrightYellow | YaBrightBlue, YaBrightBlue | YaBrightMagenta, YaBrightMagenta
  | YaBrightCyan, YaBrightCyan | YaBrightWhite, YaBrightWhite => true
  | _, _ => false
  end.

(* Set<T>(PhantomData<T>, u16): the set is its bits *)
Definition ya_set_f0 (s : N) : unit := tt.
Definition ya_set_f1 (s : N) : N := s.
Definition ya_set_set_f1 (s v : N) : N := v.
Definition ya_set_new (_ : unit) (bits : N) : N := bits.
Definition ya_phantom : unit := tt.

(* set::Iter<T> { index: u8, set: Set<T> } *)
Record ya_iter : Set := mkYaIter { yi_index : N; yi_set : N }.
Definition set_yi_index (i : ya_iter) (v : N) : ya_iter := mkYaIter v (yi_set i).
Definition set_yi_set (i : ya_iter) (v : N) : ya_iter := mkYaIter (yi_index i) v.

(* yansi::Style *)
Record ya_style : Set := mkYaStyle {
  ya_fg : option ya_color;
  ya_bg : option ya_color;
  ya_attrs : N;
  ya_quirks : N;
  ya_cond : option bool
}.
Definition set_ya_fg (s : ya_style) (v : option ya_color) := mkYaStyle v (ya_bg s) (ya_attrs s) (ya_quirks s) (ya_cond s).
Definition set_ya_bg (s : ya_style) (v : option ya_color) := mkYaStyle (ya_fg s) v (ya_attrs s) (ya_quirks s) (ya_cond s).
Definition set_ya_attrs (s : ya_style) (v : N) := mkYaStyle (ya_fg s) (ya_bg s) v (ya_quirks s) (ya_cond s).
Definition set_ya_quirks (s : ya_style) (v : N) := mkYaStyle (ya_fg s) (ya_bg s) (ya_attrs s) v (ya_cond s).
Definition set_ya_cond (s : ya_style) (v : option bool) := mkYaStyle (ya_fg s) (ya_bg s) (ya_attrs s) (ya_quirks s) v.

(* Condition(pub fn() -> bool): the answer of the call; `c()` *)
Definition ya_cond_f0 (c : bool) : bool := c.
Definition ya_cond_new (answer : bool) : bool := answer.
Definition ya_cond_call (c : bool) : bool := c.
(* AtomicCondition (an AtomicPtr holding the fn pointer): a register holding a condition.
   `store` / `read` (pointer casts, `unsafe { transmute }`) are hand-modelled and token-pinned. *)
Definition ya_atomic_store (reg : bool) (c : bool) : bool := c.
Definition ya_atomic_read (reg : bool) : bool := ya_cond_call reg.

(* a String-backed `dyn fmt::Write` / `fmt::Formatter`: the text so far; fmt::Result = unit + unit *)
Definition ya_w_write_str (w : list N) (s : list N) : list N * (unit + unit) := (w ++ s, inl tt).
Definition ya_w_write_char (w : list N) (c : N) : list N * (unit + unit) := (w ++ [c], inl tt).

(* style::AnsiSplicer<'a> { f: &'a mut dyn fmt::Write, splice: bool }: while the splicer lives it owns the
   text of the writer it borrows; the text goes back to the borrowed parameter when the function returns *)
Record ya_splicer : Set := mkYaSplicer { asp_f : list N; asp_splice : bool }.
Definition set_asp_f (p : ya_splicer) (v : list N) : ya_splicer := mkYaSplicer v (asp_splice p).
Definition set_asp_splice (p : ya_splicer) (v : bool) : ya_splicer := mkYaSplicer (asp_f p) v.

(* paint::Painted<T> { value: T, style: Style } for T = &str (its UTF-8 bytes) *)
Record ya_painted : Set := mkYaPainted { yp_value : list N; yp_style : ya_style }.
Definition set_yp_value (p : ya_painted) (v : list N) : ya_painted := mkYaPainted v (yp_style p).
Definition set_yp_style (p : ya_painted) (v : ya_style) : ya_painted := mkYaPainted (yp_value p) v.

(* `{}` of an unsigned integer (core::fmt::Display under default formatting options): the decimal digits
   without leading zeros (exact below 10^20, i.e. for every Rust integer up to u64), handed to the writer in
   ONE write_str *)
Fixpoint ya_dec_go (fuel : nat) (n : N) (acc : list N) : list N :=
  match fuel with
  | O => acc
  | S f => let acc' := (48 + n mod 10) :: acc in if n <? 10 then acc' else ya_dec_go f (n / 10) acc'
  end.
Definition ya_dec (n : N) : list N := ya_dec_go 20 n [].

(* `<str as Display>::fmt` under `{}` (no width / precision): Formatter::pad = one write_str *)
Definition ya_str_display (s : list N) (f : list N) : option (list N * (unit + unit)) := Some (ya_w_write_str f s).

(* the two `Quirk::Wrap` paths of Painted::fmt_args (Cow / fmt::Arguments / str::replace with a closure
   pattern) are not translated: an oracle answers for them.  The theorems hold for EVERY oracle: the
   adapter never sets a quirk, so the paths are not reached. *)
Record ya_oracle : Type := mkYaOracle {
  yo_color_wrap : ya_painted -> list N -> option (list N * (unit + unit));
  yo_reset : ya_painted -> list N -> option (list N * (unit + unit))
}.

(* `a << i` at width w: a debug build panics when i >= w *)
Definition ya_cshl (w a i : N) : option N := if i <? w then Some (N.shiftl a i mod 2 ^ w) else None.

(* #[derive(PartialEq)] of Option<T>, over T's equality *)
Definition opt_eqb {A : Type} (eqb : A -> A -> bool) (a b : option A) : bool :=
  match a, b with
  | None, None => true
  | Some x, Some y => eqb x y
  | _, _ => false
  end.
