(* drv_choice.ml -- C09: colour auto-detection.
   Case kinds (names and values of environment variables are hex byte strings, `-`
   for the empty string; a variable that is not listed is unset):
     c09 <global> <tty 0|1> [<name>=<value>]...     AutoStream::choice on stdout and stderr
     c09s <type> <fdtty 0|1> <global> [<name>=<value>]...   AutoStream::<type>::choice
     c09p <probe> [<name>=<value>]...               one anstyle_query probe
     c09g <choice>                                  write_global then global
     c09f <word>                                    --color <word> then as_choice
     c09init                                        the global before any write
   Parsing / printing only. *)
open Extracted
open Util

let choice_name = function ChAuto -> "Auto" | ChAlwaysAnsi -> "AlwaysAnsi" | ChAlways -> "Always" | ChNever -> "Never"

let choice_of_name = function
  | "Auto" -> ChAuto
  | "AlwaysAnsi" -> ChAlwaysAnsi
  | "Always" -> ChAlways
  | "Never" -> ChNever
  | s -> failwith ("choice " ^ s)

let bool_of_field = function "0" -> false | "1" -> true | s -> failwith ("bool " ^ s)

let bindings (fs : string list) =
  List.map
    (fun f ->
      match String.index_opt f '=' with
      | None -> failwith ("binding " ^ f)
      | Some i -> (nlist (unhex (String.sub f 0 i)), nlist (unhex (String.sub f (i + 1) (String.length f - i - 1)))))
    fs

let env_of fs = env_of_list (bindings fs)

let c09 side f =
  match f with
  | g :: tty :: rest ->
      let g = choice_of_name g and tty = bool_of_field tty and e = env_of rest in
      let c = match side with `Model -> choice_model g e tty | `Spec -> choice_spec g e tty in
      Printf.sprintf "stdout=%s stderr=%s" (choice_name c) (choice_name c)
  | _ -> failwith "c09"

let c09s side f =
  match f with
  | ty :: tty :: g :: rest -> (
      let ty = nlist (unhex ty) and g = choice_of_name g and tty = bool_of_field tty and e = env_of rest in
      match side with
      | `Model -> (match ch_choice_on ty tty g e with Some c -> choice_name c | None -> "NO-IMPL")
      | `Spec -> choice_name (choice_spec g e tty))
  | _ -> failwith "c09s"

let c09p side f =
  match f with
  | probe :: rest -> (
      let e = env_of rest in
      let pick m s = b01 (match side with `Model -> m e | `Spec -> s e) in
      match probe with
      | "no_color" -> pick ch_no_color spec_no_color
      | "clicolor_force" -> pick ch_clicolor_force spec_clicolor_force
      | "term_supports_color" -> pick ch_term_supports_color spec_term_color
      | "term_supports_ansi_color" -> pick ch_term_supports_ansi_color spec_term_color
      | "truecolor" -> pick ch_truecolor spec_truecolor
      | "is_ci" -> pick ch_is_ci spec_is_ci
      | "clicolor" -> (
          match (match side with `Model -> ch_clicolor e | `Spec -> spec_clicolor e) with
          | None -> "none"
          | Some b -> "some" ^ b01 b)
      | s -> "UNKNOWN-PROBE " ^ s)
  | _ -> failwith "c09p"

let c09g side f =
  let c = choice_of_name (List.nth f 0) in
  match side with
  | `Model -> (match ch_global_after_write c with Some d -> choice_name d | None -> raise Model_panic)
  | `Spec -> choice_name c

let c09f side f =
  let w = nlist (unhex (List.nth f 0)) in
  let r =
    match side with
    | `Model -> ch_flag_choice w
    | `Spec -> (match flag_of_word w with Some fl -> Some (flag_choice_spec fl) | None -> None)
  in
  match r with Some c -> choice_name c | None -> "ERR"

let c09init side _f = match side with `Model -> choice_name ch_global_initial | `Spec -> "N/A"

(* c09m <macro> <stdout tty> <stderr tty> <payload> <global> [<name>=<value>]...: one print macro / panic! on the real
   streams, each of its own kind; the stream the macro writes to decides (stdout for print / println, stderr for
   eprint / eprintln / panic), the text is stripped exactly when the decision is Never *)
let hexo l = if l = [] then "-" else hexn l

let c09m side f =
  match f with
  | mac :: ot :: et :: payload :: g :: rest ->
      let tty = bool_of_field (if mac = "print" || mac = "println" then ot else et) in
      let g = choice_of_name g and e = env_of rest in
      let c = match side with `Model -> choice_model g e tty | `Spec -> choice_spec g e tty in
      let data = nlist (unhex payload) in
      let strip = (c = ChNever) in
      (match side with
       | `Spec -> hexo (if strip then spec_strip data else data)
       | `Model ->
           let (_, w), _ = unopt (run_ops true (if strip then MStrip else MPass) sb_new (writer_of []) [ OWriteFmt [ data ] ]) in
           hexo w.w_received)
  | _ -> failwith "c09m"

let () =
  register "c09m" c09m;
  register "c09" c09;
  register "c09s" c09s;
  register "c09p" c09p;
  register "c09g" c09g;
  register "c09f" c09f;
  register "c09init" c09init
