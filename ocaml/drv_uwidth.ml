(* drv_uwidth.ml -- C14: the third-party crate unicode-width, TRANSLATED (Generated/UnicodeWidthFn.v); the model side
   is the extracted translation itself (Model/SvgWidth.v uw_m_width / uw_m_char_width), there is no hand model.
     uwidth  <text hex>      UnicodeWidthStr::width of the text, decimal (PANIC when the translation answers None)
     uwchars <lo> <count>    UnicodeWidthChar::width of `count` code points from `lo`: one character each -- the
                             width digit, `-` for None, `s` for a number that is no char *)
open Extracted
open Util

(* the code points of a byte string that is UTF-8 (checked by the caller with Spec/Utf8 valid_utf8) *)
let code_points (b : int list) : n list =
  let rec go acc = function
    | [] -> List.rev acc
    | x :: t when x < 0x80 -> go (n_of_int x :: acc) t
    | x :: a :: t when x < 0xE0 -> go (n_of_int (((x land 0x1F) lsl 6) lor (a land 0x3F)) :: acc) t
    | x :: a :: b :: t when x < 0xF0 -> go (n_of_int (((x land 0x0F) lsl 12) lor ((a land 0x3F) lsl 6) lor (b land 0x3F)) :: acc) t
    | x :: a :: b :: c :: t ->
        go (n_of_int (((x land 0x07) lsl 18) lor ((a land 0x3F) lsl 12) lor ((b land 0x3F) lsl 6) lor (c land 0x3F)) :: acc) t
    | _ -> failwith "utf8"
  in
  go [] b

let () =
  register "uwidth" (fun side f ->
      match (side, f) with
      | `Spec, _ -> "N/A"
      | `Model, [ text ] ->
          let b = unhex text in
          if not (valid_utf8 (nlist b)) then "INVALID-UTF8"
          else string_of_int (int_of_n (unopt (uw_m_width (code_points b))))
      | _ -> "BADCASE");
  register "uwchars" (fun side f ->
      match (side, f) with
      | `Spec, _ -> "N/A"
      | `Model, [ lo; count ] ->
          let lo = int_of_string lo and count = int_of_string count in
          let b = Buffer.create count in
          for cp = lo to lo + count - 1 do
            let c = n_of_int cp in
            if not (uw_is_char c) then Buffer.add_char b 's'
            else
              match unopt (uw_m_char_width c) with
              | None -> Buffer.add_char b '-'
              | Some w -> Buffer.add_string b (string_of_int (int_of_n w))
          done;
          Buffer.contents b
      | _ -> "BADCASE")
