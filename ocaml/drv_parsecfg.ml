(* drv_parsecfg.ml -- C20: the parser model at a build configuration.
     pc <label> <hex>   model: callback trace of [advance] at the configuration of
                        the feature set <label> (default | core | core-utf8 | none);
                        spec : the expected trace by Spec/ParseCfg (N/A outside
                        the property's domain: input not 7-bit)
     pcfit <hex>        "<7-bit> <fits MAX_OSC_RAW>": model = [pc_fitb] on the model
                        run of the default configuration, spec = [pc_spec_fits]
     pctrunc <hex>      the input with oversize OSC payloads cut: model =
                        [pc_trunc], spec = [pc_spec_trunc] *)
open Extracted
open Util

let label_bytes (s : string) : n list = List.init (String.length s) (fun i -> nb (Char.code s.[i]))

let show_events (evs : event list) : string = String.concat " " (List.map Drv_core.show_event evs)

let pc side f =
  let label = List.nth f 0 and bytes = unhex (List.nth f 1) in
  match side with
  | `Model ->
      let cfg = match pc_cfg_of_label (label_bytes label) with Some c -> c | None -> failwith ("pc: unknown label " ^ label) in
      let buf = Buffer.create 256 and count = ref 0 in
      ignore (Drv_core.model_feed cfg parser_new bytes buf count);
      Buffer.contents buf
  | `Spec -> (
      match pc_spec_answer (label_bytes label) (nlist bytes) with
      | Some evs -> show_events evs
      | None -> "N/A")

let pcfit side f =
  let bs = nlist (unhex (List.nth f 0)) in
  let seven = pc_spec_seven_bit bs in
  let fits =
    match side with
    | `Model -> pc_fitb pc_max_osc_raw true parser_new bs
    | `Spec -> pc_spec_fits pc_spec_limit vt_init bs
  in
  b01 seven ^ " " ^ b01 fits

let pctrunc side f =
  let bs = nlist (unhex (List.nth f 0)) in
  match side with
  | `Model -> hexn (pc_trunc pc_max_osc_raw true parser_new bs)
  | `Spec -> hexn (pc_spec_trunc pc_spec_limit vt_init bs)

let () =
  register "pc" pc;
  register "pcfit" pcfit;
  register "pctrunc" pctrunc
