(* drv_adapters.ml -- C16: the adapter crates (see harness/h-adapters/src/c16.rs for the
   field syntax).  <lib> is ansi_term | crossterm | owo | termcolor | yansi.

     adl <lib>                                 (prepare step only) the constructor / attribute names:
                                               model = the ones the model conversion can produce,
                                               spec  = the ones the meaning tables of Spec/Targets list
     adm <lib> fg|bg|ul <tcolour> <bytes>      meaning-table validation.  <bytes> is the real library's
     adm <lib> at <attribute> <bytes>          rendering of "x" in a style holding only that constructor
                                               (put there by the prepare step of vlib/props/c16.py).  A
                                               rendering is accepted by the specification iff its
                                               interpretation (Spec/Vt + Spec/Sgr) is the table's meaning:
                                               spec = <bytes> if accepted, else MISMATCH ...;
                                               model = <bytes> if they are one SGR-styled "x" at all (no
                                               adapter is involved in these cases)
     adv <lib> <fg> <bg> <ul> <eff>            model = Model/Adapters conversion as a canonical value; spec N/A
     adr <lib> <fg> <bg> <ul> <eff> <bytes>    <bytes> = the library's rendering of "x" in the adapter's result:
                                               spec  = <bytes> iff they interpret as Spec/Targets.ad_project
                                                       (N/A for two underline kinds at once);
                                               model = <bytes> iff they interpret as ad_meaning (ad_convert s)
     ads <fg rrggbbaa> <bg rrggbbaa> <bits>    syntect -> anstyle: model ad_from_syntect, spec ad_syntect_expected
   The implementation side always prints freshly rendered bytes, so "spec = impl" means: the bytes the
   library produces now are the ones on the case line and the specification accepts them. *)
open Extracted
open Util

exception Bad

let lib_of = function
  | "ansi_term" -> AdAnsiTerm
  | "crossterm" -> AdCrossterm
  | "owo" -> AdOwo
  | "termcolor" -> AdTermcolor
  | "yansi" -> AdYansi
  | _ -> raise Bad

let name_of (s : string) : n list = List.init (String.length s) (fun i -> nb (Char.code s.[i]))
let str_of (l : n list) : string = String.concat "" (List.map (fun c -> String.make 1 (Char.chr (int_of_n c))) l)

let num s = match int_of_string_opt s with Some i when i >= 0 -> i | _ -> raise Bad
let rgb3 s = match String.split_on_char '.' s with [ r; g; b ] -> (n_of_int (num r), n_of_int (num g), n_of_int (num b)) | _ -> raise Bad
let tail s k = String.sub s k (String.length s - k)

(* anstyle colour: - | a<i> | x<n> | r<r>.<g>.<b> *)
let src_colour (s : string) : colour option =
  if s = "-" then None
  else if s = "" then raise Bad
  else
    match s.[0] with
    | 'a' -> Some (CAnsi (n_of_int (num (tail s 1))))
    | 'x' -> Some (CIdx (n_of_int (num (tail s 1))))
    | 'r' -> let r, g, b = rgb3 (tail s 1) in Some (CRgb (r, g, b))
    | _ -> raise Bad

let src_style fg bg ul eff = { s_fg = src_colour fg; s_bg = src_colour bg; s_ul = src_colour ul; s_eff = n_of_int (num eff) }

(* target colour: n:<Name> | x:<n> | r:<r>.<g>.<b> *)
let tcolour (s : string) : ad_tcolor =
  if String.length s < 2 then raise Bad
  else
    match String.sub s 0 2 with
    | "n:" -> AdNamed (name_of (tail s 2))
    | "x:" -> AdFixed (n_of_int (num (tail s 2)))
    | "r:" -> let r, g, b = rgb3 (tail s 2) in AdRgb (r, g, b)
    | _ -> raise Bad

let show_tcolour = function
  | None -> "-"
  | Some (AdNamed nm) -> "n:" ^ str_of nm
  | Some (AdFixed i) -> Printf.sprintf "x:%d" (int_of_n i)
  | Some (AdRgb (r, g, b)) -> Printf.sprintf "r:%d.%d.%d" (int_of_n r) (int_of_n g) (int_of_n b)

(* the canonical form of a target value: attribute names as a sorted set *)
let show_tstyle (t : ad_tstyle) : string =
  let at = List.sort_uniq compare (List.map str_of t.ad_t_attrs) in
  Printf.sprintf "fg=%s bg=%s ul=%s at=%s" (show_tcolour t.ad_t_fg) (show_tcolour t.ad_t_bg) (show_tcolour t.ad_t_ul)
    (if at = [] then "-" else String.concat "," at)

(* an anstyle style / a rendition, as in drv_wincon.ml *)
let show_colour (c : colour option) : string =
  match c with
  | None -> "-"
  | Some (CAnsi i) -> Printf.sprintf "a%d" (int_of_n i)
  | Some (CIdx i) -> Printf.sprintf "x%d" (int_of_n i)
  | Some (CRgb (r, g, b)) -> Printf.sprintf "r%d.%d.%d" (int_of_n r) (int_of_n g) (int_of_n b)

let show_style (s : sstyle) : string =
  Printf.sprintf "%s,%s,%s,%d" (show_colour s.s_fg) (show_colour s.s_bg) (show_colour s.s_ul) (int_of_n s.s_eff)

let show_ostyle = function None -> "uninterpretable" | Some s -> show_style s

let guard f = try f () with Bad | Failure _ | Invalid_argument _ -> "BADCASE"

let empty_t = { ad_t_fg = None; ad_t_bg = None; ad_t_ul = None; ad_t_attrs = [] }

let adm side f =
  guard (fun () ->
      match f with
      | [ lib; slot; what; bytes ] -> (
          let l = lib_of lib in
          let bs = nlist (unhex bytes) in
          match side with
          | `Model -> ( match ad_interp_x bs with Some _ -> bytes | None -> "UNINTERPRETABLE")
          | `Spec -> (
              let t =
                match slot with
                | "fg" -> { empty_t with ad_t_fg = Some (tcolour what) }
                | "bg" -> { empty_t with ad_t_bg = Some (tcolour what) }
                | "ul" -> { empty_t with ad_t_ul = Some (tcolour what) }
                | "at" -> { empty_t with ad_t_attrs = [ name_of what ] }
                | _ -> raise Bad
              in
              match ad_meaning l t with
              | None -> "NO-MEANING the tables of Spec/Targets have no such constructor"
              | Some want ->
                  if ad_render_ok want bs then bytes
                  else Printf.sprintf "MISMATCH table=%s rendered=%s" (show_style want) (show_ostyle (ad_interp_x bs))))
      | _ -> "NEED-BYTES")

let adv side f =
  guard (fun () ->
      match f with
      | lib :: fg :: bg :: ul :: eff :: _ -> (
          match side with `Spec -> "N/A" | `Model -> show_tstyle (ad_convert (lib_of lib) (src_style fg bg ul eff)))
      | _ -> raise Bad)

let adr side f =
  guard (fun () ->
      match f with
      | [ lib; fg; bg; ul; eff; bytes ] -> (
          let l = lib_of lib in
          let s = src_style fg bg ul eff in
          let bs = nlist (unhex bytes) in
          let one = ad_one_underline s.s_eff || not (ad_has_ul l) in
          match side with
          | `Spec ->
              if not one then "N/A"
              else
                let want = ad_project l s in
                if ad_render_ok want bs then bytes
                else Printf.sprintf "MISMATCH expected=%s rendered=%s" (show_style want) (show_ostyle (ad_interp_x bs))
          | `Model -> (
              match ad_meaning l (ad_convert l s) with
              | None -> "NO-MEANING " ^ show_tstyle (ad_convert l s)
              | Some want ->
                  if (if one then ad_render_ok want bs else ad_render_ok_but_underline want bs) then bytes
                  else Printf.sprintf "MISMATCH meaning=%s rendered=%s" (show_style want) (show_ostyle (ad_interp_x bs))))
      | _ -> "NEED-BYTES")

let ads side f =
  guard (fun () ->
      match f with
      | [ fg; bg; bits ] ->
          let col s = match unhex s with [ r; g; b; a ] -> (((nb r, nb g), nb b), nb a) | _ -> raise Bad in
          let font = n_of_int (num bits) in
          show_style
            (match side with `Model -> ad_from_syntect (col fg) (col bg) font | `Spec -> ad_syntect_expected (col fg) (col bg) font)
      | _ -> raise Bad)

(* names, for building the case lists *)
let adl side f =
  guard (fun () ->
      match f with
      | [ lib ] -> (
          let l = lib_of lib in
          match side with
          | `Spec ->
              Printf.sprintf "c:%s a:%s"
                (String.concat "," (List.map (fun (nm, _) -> str_of nm) (ad_colour_table l)))
                (String.concat "," (List.map (fun (nm, _) -> str_of nm) (ad_attr_table l)))
          | `Model ->
              let cols = None :: List.init 16 (fun i -> Some (CAnsi (n_of_int i))) in
              let named = function Some (AdNamed nm) -> [ str_of nm ] | _ -> [] in
              let cs =
                List.concat_map
                  (fun c ->
                    let t = ad_convert l { s_fg = c; s_bg = c; s_ul = c; s_eff = N0 } in
                    named t.ad_t_fg @ named t.ad_t_bg @ named t.ad_t_ul)
                  cols
              in
              let ats =
                List.concat_map (fun c -> List.map str_of (ad_convert l { s_fg = c; s_bg = c; s_ul = c; s_eff = n_of_int 4095 }).ad_t_attrs) cols
              in
              Printf.sprintf "c:%s a:%s" (String.concat "," (List.sort_uniq compare cs)) (String.concat "," (List.sort_uniq compare ats)))
      | _ -> raise Bad)

let () =
  register "adm" adm;
  register "adv" adv;
  register "adr" adr;
  register "ads" ads;
  register "adl" adl
