(* drv_style.ml -- C13: effect sets, styles, 16-colour tables.
   Model side: Model/Style.v over Generated/Style.v.  Spec side: the set-theoretic
   definitions of Spec/Algebra.v on characteristic vectors (colours of a style
   are opaque tokens for the specification).  Parsing / printing only; the digest
   of [effrow] is the same FNV-1a fold as in harness/h-core/src/c13.rs. *)
open Extracted
open Util

let nn (i : int) : n = n_of_int i
let ni = int_of_n

(* the 4096 sets by mask: as the model builds them from the translated constants,
   and as characteristic vectors for the specification *)
let model_tab : n array Lazy.t = lazy (Array.init 4096 (fun m -> e_of_mask (nn m)))
let chi_tab : bool list array Lazy.t = lazy (Array.init 4096 (fun m -> chi (nn m)))

let mask (s : string) : int =
  let m = int_of_string s in
  if m < 0 || m >= 4096 then raise Model_panic else m

(* ins rem con set1 set0 or sub ora suba *)
let binops_model (a : n) (b : n) : int array =
  [| ni (e_insert a b); ni (e_remove a b); (if e_contains a b then 1 else 0);
     ni (e_set a b true); ni (e_set a b false); ni (e_bitor a b); ni (e_sub a b);
     ni (e_bitor_assign a b); ni (e_sub_assign a b) |]

let binops_spec (a : bool list) (b : bool list) : int array =
  let u = ni (of_chi (v_union a b)) and d = ni (of_chi (v_diff a b)) in
  [| u; d; (if v_subset b a then 1 else 0); u; d; u; d; u; d |]

let binops side (a : int) (b : int) : int array =
  match side with
  | `Model -> let t = Lazy.force model_tab in binops_model t.(a) t.(b)
  | `Spec -> let t = Lazy.force chi_tab in binops_spec t.(a) t.(b)

let ops = [| "ins"; "rem"; "con"; "set1"; "set0"; "or"; "sub"; "ora"; "suba" |]

let effx side f =
  let a = mask (List.nth f 0) in
  let bs = List.map mask (String.split_on_char ',' (List.nth f 1)) in
  String.concat ";"
    (List.map (fun b -> String.concat "," (Array.to_list (Array.map string_of_int (binops side a b)))) bs)

let effrow side f =
  let a = mask (List.nth f 0) in
  let b0 = int_of_string (List.nth f 1) and cnt = int_of_string (List.nth f 2) in
  if b0 < 0 || cnt < 0 || b0 + cnt > 4096 then raise Model_panic;
  let h = Array.make 9 2166136261 in
  for b = b0 to b0 + cnt - 1 do
    let r = binops side a b in
    for k = 0 to 8 do
      h.(k) <- ((h.(k) lxor r.(k)) * 16777619) land 0xffffffff
    done
  done;
  String.concat " " (List.init 9 (fun k -> Printf.sprintf "%s=%08x" ops.(k) h.(k)))

let show_list (l : n list) : string =
  if l = [] then "-" else String.concat "," (List.map (fun x -> string_of_int (ni x)) l)

let eff1 side f =
  let a = mask (List.nth f 0) in
  match side with
  | `Model ->
      let e = (Lazy.force model_tab).(a) in
      let cmask = ref 0 in
      let t = Lazy.force model_tab in
      List.iteri (fun j _ -> if e_contains e t.(1 lsl j) then cmask := !cmask lor (1 lsl j)) effect_consts;
      Printf.sprintf "bits=%d cmask=%d plain=%s clear=%d new=%d dflt=%d self=%s iter=%s dbg=%s" (ni e) !cmask
        (b01 (e_is_plain e)) (ni (e_clear e)) (ni e_new) (ni e_new) (b01 (e_contains e e))
        (show_list (unopt (e_iter e))) (hexn (unopt (e_debug e)))
  | `Spec ->
      let x = (Lazy.force chi_tab).(a) in
      Printf.sprintf "bits=%d cmask=%d plain=%s clear=0 new=0 dflt=0 self=%s iter=%s dbg=%s" a a
        (b01 (v_empty x)) (b01 (v_subset x x)) (show_list (sp_iter_chi x)) (hexn (sp_debug (nn a)))

(* ---- colours -------------------------------------------------------------- *)

let ansi_of_index (i : int) : ansi_color =
  match List.nth_opt all_ansi i with Some c -> c | None -> raise Model_panic

let opt_n (o : n option) : string = match o with Some k -> string_of_int (ni k) | None -> "-"

let col16 side f =
  let i = int_of_string (List.nth f 0) in
  match side with
  | `Model ->
      let c = ansi_of_index i in
      Printf.sprintf "disc=%d on=%d off=%d isb=%s from=%d from256=%d into=%s" (ni (ansi_disc c))
        (ni (ansi_disc (ansi_bright c true))) (ni (ansi_disc (ansi_bright c false))) (b01 (ansi_is_bright c))
        (ni (ansi256_from_ansi c)) (ni (ansi256_from c))
        (opt_n (match ansi256_into_ansi (ansi256_from_ansi c) with Some d -> Some (ansi_disc d) | None -> None))
  | `Spec ->
      if i < 0 || i > 15 then raise Model_panic;
      let c = nn i in
      Printf.sprintf "disc=%d on=%d off=%d isb=%s from=%d from256=%d into=%s" i (ni (with_bright c true))
        (ni (with_bright c false)) (b01 (is_bright_ix c)) (ni (sp_from_ansi c)) (ni (sp_from_ansi c))
        (opt_n (sp_into_ansi (sp_from_ansi c)))

let colstr side f =
  match side with
  | `Spec -> "N/A"
  | `Model ->
      let c = ansi_of_index (int_of_string (List.nth f 0)) in
      Printf.sprintf "fg=%s bg=%s" (hexn (ansi_fg_str c)) (hexn (ansi_bg_str c))

let col256 side f =
  let i = int_of_string (List.nth f 0) in
  if i < 0 || i > 255 then raise Model_panic;
  match side with
  | `Model ->
      let c = ansi256_into_ansi (nn i) in
      Printf.sprintf "index=%d into=%s back=%s" i
        (opt_n (match c with Some d -> Some (ansi_disc d) | None -> None))
        (opt_n (match c with Some d -> Some (ansi256_from_ansi d) | None -> None))
  | `Spec ->
      let c = sp_into_ansi (nn i) in
      Printf.sprintf "index=%d into=%s back=%s" i (opt_n c)
        (opt_n (match c with Some d -> Some (sp_from_ansi d) | None -> None))

(* ---- styles --------------------------------------------------------------- *)

let parse_color (s : string) =
  if s = "-" then None
  else begin
    let rest = String.sub s 1 (String.length s - 1) in
    let z = nn 0 in
    let c =
      match s.[0] with
      | 'a' -> color_of_repr (nn 0) (nn (int_of_string rest)) z z
      | 'i' -> color_of_repr (nn 1) (nn (int_of_string rest)) z z
      | 'r' ->
          let v = int_of_string ("0x" ^ rest) in
          color_of_repr (nn 2) (nn ((v lsr 16) land 255)) (nn ((v lsr 8) land 255)) (nn (v land 255))
      | _ -> None
    in
    match c with Some c -> Some c | None -> raise Model_panic
  end

let show_color c =
  match c with
  | None -> "-"
  | Some c -> (
      let tag, (x, (y, z)) = color_repr c in
      match ni tag with
      | 0 -> Printf.sprintf "a%d" (ni x)
      | 1 -> Printf.sprintf "i%d" (ni x)
      | _ -> Printf.sprintf "r%02x%02x%02x" (ni x) (ni y) (ni z))

let show_style s =
  Printf.sprintf "%s/%s/%s/%d" (show_color (st_get_fg_color s)) (show_color (st_get_bg_color s))
    (show_color (st_get_underline_color s)) (ni (st_get_effects s))

let tok (s : string) : string option = if s = "-" then None else Some s
let show_tok = function None -> "-" | Some (s : string) -> s

let show_sstyle s =
  Printf.sprintf "%s/%s/%s/%d" (show_tok (sp_get FFg s)) (show_tok (sp_get FBg s)) (show_tok (sp_get FUl s)) (ni (sp_eff s))

let ascii (l : n list) : string = String.concat "" (List.map (fun b -> String.make 1 (Char.chr (ni b))) l)

let sty side f =
  let g k = List.nth f k in
  let em = mask (g 3) and ee = mask (g 5) in
  match side with
  | `Model ->
      let t = Lazy.force model_tab in
      let s = st_effects (st_underline_color (st_bg_color (st_fg_color st_new (parse_color (g 0))) (parse_color (g 1))) (parse_color (g 2))) t.(em) in
      let v = parse_color (g 4) and e = t.(ee) in
      String.concat ";"
        ([ "self=" ^ show_style s; "fg=" ^ show_style (st_fg_color s v); "bg=" ^ show_style (st_bg_color s v);
           "ul=" ^ show_style (st_underline_color s v); "eff=" ^ show_style (st_effects s e) ]
        @ List.map (fun m -> ascii (conv_name m) ^ "=" ^ show_style (st_conv m s)) all_conv
        @ [ "or=" ^ show_style (st_bitor s e); "sub=" ^ show_style (st_sub s e);
            "ora=" ^ show_style (st_bitor_assign s e); "suba=" ^ show_style (st_sub_assign s e);
            "eq=" ^ b01 (st_eq_effects s e); "from=" ^ show_style (st_from_effects e);
            "fromeq=" ^ b01 (st_eq_effects (st_from_effects e) e); "plain=" ^ b01 (st_is_plain s);
            "new=" ^ show_style st_new; "dflt=" ^ show_style st_new ])
  | `Spec ->
      let union a b = of_chi (v_union (chi a) (chi b)) and diff a b = of_chi (v_diff (chi a) (chi b)) in
      let s = sp_set_eff (nn em) (sp_setc FUl (tok (g 2)) (sp_setc FBg (tok (g 1)) (sp_setc FFg (tok (g 0)) sp_plain))) in
      let v = tok (g 4) and e = nn ee in
      let with_eff x = sp_set_eff x s in
      let from_e = sp_set_eff e sp_plain in
      String.concat ";"
        ([ "self=" ^ show_sstyle s; "fg=" ^ show_sstyle (sp_setc FFg v s); "bg=" ^ show_sstyle (sp_setc FBg v s);
           "ul=" ^ show_sstyle (sp_setc FUl v s); "eff=" ^ show_sstyle (sp_set_eff e s) ]
        @ List.map (fun nm -> ascii nm ^ "=" ^ show_sstyle (with_eff (union (sp_eff s) (sp_named_effect nm)))) conv_names
        @ [ "or=" ^ show_sstyle (with_eff (union (sp_eff s) e)); "sub=" ^ show_sstyle (with_eff (diff (sp_eff s) e));
            "ora=" ^ show_sstyle (with_eff (union (sp_eff s) e)); "suba=" ^ show_sstyle (with_eff (diff (sp_eff s) e));
            "eq=" ^ b01 (sp_eq_effects s e); "from=" ^ show_sstyle from_e; "fromeq=" ^ b01 (sp_eq_effects from_e e);
            "plain=" ^ b01 (sp_style_is_plain s); "new=" ^ show_sstyle sp_plain; "dflt=" ^ show_sstyle sp_plain ])

let () =
  register "eff1" eff1;
  register "effx" effx;
  register "effrow" effrow;
  register "col16" col16;
  register "colstr" colstr;
  register "col256" col256;
  register "sty" sty
