(* drv_wincon.ml -- C07 / C03: styled-run extraction *)
open Extracted
open Util

let show_colour (c : colour option) : string =
  match c with
  | None -> "-"
  | Some (CAnsi i) -> Printf.sprintf "a%d" (int_of_n i)
  | Some (CIdx i) -> Printf.sprintf "x%d" (int_of_n i)
  | Some (CRgb (r, g, b)) -> Printf.sprintf "r%d.%d.%d" (int_of_n r) (int_of_n g) (int_of_n b)

let show_style (s : sstyle) : string =
  Printf.sprintf "%s,%s,%s,%d" (show_colour s.s_fg) (show_colour s.s_bg) (show_colour s.s_ul) (int_of_n s.s_eff)

let show_item ((s, t) : sstyle * n list) : string =
  Printf.sprintf "%s=%s" (show_style s) (String.concat "." (List.map (fun c -> string_of_int (int_of_n c)) t))

let show_items its = String.concat " " (List.map show_item its)

let wx merged side f =
  let data = unhex (List.nth f 0) in
  let cuts = Drv_core.parse_cuts (List.nth f 1) (List.length data) in
  match side with
  | `Spec -> if merged then show_items (spec_runs (nlist data)) else "N/A"
  | `Model ->
      let chunks = List.map nlist (Drv_core.chunks_of data cuts) in
      let (itss, _), _ = unopt (extract_chunks chunks parser_new capture_default) in
      if merged then show_items (merge_runs (List.concat itss))
      else String.concat " | " (List.map show_items itss)

let () =
  register "wx" (wx false);
  register "wxm" (wx true)
