(* drv_wincon_ansi.ml -- C17: coloured write through the ANSI fallback.

   case:   wc <sink> <fg|-> <bg|-> <pre hex> <data hex> <script>
     sink    box | send | sync | ref | fn   scripted inner writer behind the named impl
             vec | file                     accept-all writers (script must be `-` / `all`)
             out | err                      the real std::io::Stdout / Stderr of a child process (accept-all)
             full | ro                      std::fs::File whose every write fails (/dev/full, read-only)
     fg, bg  colour number 0..15 or `-`
     pre     what the writer holds already
     script  comma-separated: a<n> accept n, eI|eW|eO|eZ fail Interrupted / WouldBlock /
             Other / WriteZero, `all` (only as last entry) / exhausted = accept everything
   result: ok:<k>|err:<I|W|O|Z> <received hex> <calls>     (scripted sinks)
           ok:<k>|err:<..> <received hex>                   (vec, file)
     calls = comma-separated <buf hex>=a<n>|e<K> in order, `-` when there is none

   model side: Model.WinconAnsi.wa_write_colored
   spec side:  Spec.AnsiFrame.sa_write_colored for the answer and the call history;
               for an Ok(k) answer the received bytes are NOT taken from that run but
               computed from the framing formula pre ++ sa_frame fg bg (firstn k data) *)
open Extracted
open Util

let kind_letter (k : ekind) : string =
  match k with Interrupted -> "I" | WouldBlock -> "W" | Other -> "O" | WriteZero -> "Z"

let parse_script (s : string) : resp list =
  if s = "-" then []
  else
    List.concat_map
      (fun tok ->
        if tok = "all" then []
        else if tok = "eI" then [ Fail Interrupted ]
        else if tok = "eW" then [ Fail WouldBlock ]
        else if tok = "eO" then [ Fail Other ]
        else if tok = "eZ" then [ Fail WriteZero ]
        else if String.length tok > 1 && tok.[0] = 'a' then
          [ Accept (n_of_int (int_of_string (String.sub tok 1 (String.length tok - 1)))) ]
        else failwith ("script token " ^ tok))
      (String.split_on_char ',' s)

let colour_ix (s : string) : int option = if s = "-" then None else Some (int_of_string s)

let show_res (r : (n, ekind) sum) : string =
  match r with Inl k -> Printf.sprintf "ok:%d" (int_of_n k) | Inr e -> "err:" ^ kind_letter e

let show_call (c : wcall) : string =
  match c with
  | CFlush -> "flush"
  | CWrite (buf, r) ->
      (match buf with [] -> "-" | _ -> hexn buf)
      ^ "="
      ^ (match r with Inl k -> Printf.sprintf "a%d" (int_of_n k) | Inr e -> "e" ^ kind_letter e)

let show_calls (cs : wcall list) : string =
  match cs with [] -> "-" | _ -> String.concat "," (List.map show_call cs)

let show_bytes (l : n list) : string = match l with [] -> "-" | _ -> hexn l

let rec take (k : int) (l : 'a list) : 'a list =
  if k <= 0 then [] else match l with [] -> [] | x :: t -> x :: take (k - 1) t

let wc side f =
  let sink = List.nth f 0 in
  let fg = colour_ix (List.nth f 1) and bg = colour_ix (List.nth f 2) in
  let pre = nlist (unhex (List.nth f 3)) in
  let data = nlist (unhex (List.nth f 4)) in
  let script = parse_script (List.nth f 5) in
  (* `full` / `ro`: a File whose every write fails *)
  let failing = sink = "full" || sink = "ro" in
  let script = if failing then List.init 16 (fun _ -> Fail Other) else script in
  let plain_sink = sink = "vec" || sink = "file" || sink = "out" || sink = "err" || failing in
  let script_given = if failing then [] else script in
  if plain_sink && script_given <> [] then failwith "vec/file need an accept-all script";
  let w0 = { w_script = script; w_received = pre; w_calls = [] } in
  let w', r =
    match side with
    | `Model ->
        let col o = match o with None -> None | Some i -> Some (List.nth all_ansi i) in
        wa_write_colored (col fg) (col bg) data w0
    | `Spec ->
        let ix o = match o with None -> None | Some i -> Some (n_of_int i) in
        let w', r = sa_write_colored (ix fg) (ix bg) data w0 in
        (match r with
         | Inl k ->
             (* the framing formula, not the run, says what must have been received *)
             ({ w' with w_received = pre @ sa_frame (ix fg) (ix bg) (take (int_of_n k) data) }, r)
         | Inr _ -> (w', r))
  in
  if plain_sink then Printf.sprintf "%s %s" (show_res r) (show_bytes w'.w_received)
  else Printf.sprintf "%s %s %s" (show_res r) (show_bytes w'.w_received) (show_calls w'.w_calls)

(* wchuge <fg|-> <bg|-> <log2> <extra>: 2^log2 + extra data bytes into an accept-all writer.  The framing and the
   count are known from the model / specification run on ONE data byte (the codes hold no zero byte): what is written
   before and after the data does not depend on the data, the count is the data length *)
let wchuge side f =
  let fg = colour_ix (List.nth f 0) and bg = colour_ix (List.nth f 1) in
  let n = (1 lsl int_of_string (List.nth f 2)) + int_of_string (List.nth f 3) in
  let w0 = { w_script = []; w_received = []; w_calls = [] } in
  let w', r =
    match side with
    | `Model ->
        let col o = match o with None -> None | Some i -> Some (List.nth all_ansi i) in
        wa_write_colored (col fg) (col bg) [ n_of_int 0 ] w0
    | `Spec ->
        let ix o = match o with None -> None | Some i -> Some (n_of_int i) in
        let w', r = sa_write_colored (ix fg) (ix bg) [ n_of_int 0 ] w0 in
        ({ w' with w_received = sa_frame (ix fg) (ix bg) [ n_of_int 0 ] }, r)
  in
  let rec split acc = function [] -> (List.rev acc, []) | x :: t -> if int_of_n x = 0 then (List.rev acc, t) else split (x :: acc) t in
  let pre, post = split [] w'.w_received in
  match r with
  | Inl k when int_of_n k = 1 -> Printf.sprintf "ok:%d %s|D%d|%s" n (show_bytes pre) n (show_bytes post)
  | _ -> "UNEXPECTED " ^ show_res r

let () = register "wc" wc; register "wchuge" wchuge
