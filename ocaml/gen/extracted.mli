
val implb : bool -> bool -> bool

val negb : bool -> bool

type nat =
| O
| S of nat

val fst : ('a1 * 'a2) -> 'a1

val snd : ('a1 * 'a2) -> 'a2

val length : 'a1 list -> nat

val app : 'a1 list -> 'a1 list -> 'a1 list

type comparison =
| Eq
| Lt
| Gt

val add : nat -> nat -> nat

val sub : nat -> nat -> nat

val eqb : nat -> nat -> bool

type positive =
| XI of positive
| XO of positive
| XH

type n =
| N0
| Npos of positive

module Pos :
 sig
  type mask =
  | IsNul
  | IsPos of positive
  | IsNeg
 end

module Coq_Pos :
 sig
  val succ : positive -> positive

  val add : positive -> positive -> positive

  val add_carry : positive -> positive -> positive

  val pred_double : positive -> positive

  val pred_N : positive -> n

  type mask = Pos.mask =
  | IsNul
  | IsPos of positive
  | IsNeg

  val succ_double_mask : mask -> mask

  val double_mask : mask -> mask

  val double_pred_mask : positive -> mask

  val sub_mask : positive -> positive -> mask

  val sub_mask_carry : positive -> positive -> mask

  val mul : positive -> positive -> positive

  val iter : ('a1 -> 'a1) -> 'a1 -> positive -> 'a1

  val pow : positive -> positive -> positive

  val compare_cont : comparison -> positive -> positive -> comparison

  val compare : positive -> positive -> comparison

  val eqb : positive -> positive -> bool

  val coq_Nsucc_double : n -> n

  val coq_Ndouble : n -> n

  val coq_lor : positive -> positive -> positive

  val coq_land : positive -> positive -> n

  val coq_lxor : positive -> positive -> n

  val shiftl : positive -> n -> positive

  val testbit : positive -> n -> bool

  val iter_op : ('a1 -> 'a1 -> 'a1) -> positive -> 'a1 -> 'a1

  val to_nat : positive -> nat

  val of_succ_nat : nat -> positive
 end

module N :
 sig
  val succ_double : n -> n

  val double : n -> n

  val pred : n -> n

  val add : n -> n -> n

  val sub : n -> n -> n

  val mul : n -> n -> n

  val compare : n -> n -> comparison

  val eqb : n -> n -> bool

  val leb : n -> n -> bool

  val ltb : n -> n -> bool

  val min : n -> n -> n

  val div2 : n -> n

  val pow : n -> n -> n

  val pos_div_eucl : positive -> n -> n * n

  val div_eucl : n -> n -> n * n

  val modulo : n -> n -> n

  val coq_lor : n -> n -> n

  val coq_land : n -> n -> n

  val coq_lxor : n -> n -> n

  val shiftl : n -> n -> n

  val shiftr : n -> n -> n

  val testbit : n -> n -> bool

  val to_nat : n -> nat

  val of_nat : nat -> n

  val b2n : bool -> n

  val ones : n -> n

  val lnot : n -> n -> n
 end

val nth : nat -> 'a1 list -> 'a1 -> 'a1

val nth_error : 'a1 list -> nat -> 'a1 option

val concat : 'a1 list list -> 'a1 list

val map : ('a1 -> 'a2) -> 'a1 list -> 'a2 list

val forallb : ('a1 -> bool) -> 'a1 list -> bool

val filter : ('a1 -> bool) -> 'a1 list -> 'a1 list

val combine : 'a1 list -> 'a2 list -> ('a1 * 'a2) list

val firstn : nat -> 'a1 list -> 'a1 list

val skipn : nat -> 'a1 list -> 'a1 list

val seq : nat -> nat -> nat list

val repeat : 'a1 -> nat -> 'a1 list

type state =
| Anywhere
| CsiEntry
| CsiIgnore
| CsiIntermediate
| CsiParam
| DcsEntry
| DcsIgnore
| DcsIntermediate
| DcsParam
| DcsPassthrough
| Escape
| EscapeIntermediate
| Ground
| OscString
| SosPmApcString
| Utf8

type action =
| ANop
| AClear
| ACollect
| ACsiDispatch
| AEscDispatch
| AExecute
| AHook
| AIgnore
| AOscEnd
| AOscPut
| AOscStart
| AParam
| APrint
| APut
| AUnhook
| ABeginUtf8

val state_disc : state -> n

val action_disc : action -> n

val state_of_disc : n -> state option

val action_of_disc : n -> action option

val all_states : state list

val default_state : state

val state_changes : n list list

val mAX_INTERMEDIATES : n

val mAX_OSC_PARAMS : n

val mAX_PARAMS : n

val in_range : n -> n -> n -> bool

type ustate =
| UTail1
| UTail2
| UTail3
| UE0
| UED
| UF0
| UF4

val utf8_lead : n -> ustate option

type ucont =
| UMore of ustate
| UDone
| UBad

val utf8_cont : ustate -> n -> ucont

val valid_from : ustate option -> n list -> bool

val valid_utf8 : n list -> bool

val utf8_decode : n list -> n

val replacement : n

type vstate =
| VGround
| VEscape
| VEscInt
| VCsiEntry
| VCsiParam
| VCsiInt
| VCsiIgnore
| VDcsEntry
| VDcsParam
| VDcsInt
| VDcsPass
| VDcsIgnore
| VOsc
| VSos

type vact =
| TNone
| TIgnore
| TPrint
| TExecute
| TCollect
| TParam
| TEscDispatch
| TCsiDispatch
| TPut
| TOscPut
| TUtf8

type event =
| EPrint of n
| EExecute of n
| EHook of n list list * n list * bool * n
| EPut of n
| EUnhook
| EOsc of n list list * bool
| ECsi of n list list * n list * bool * n
| EEsc of n list * bool * n

val c0 : n -> bool

val vt_trans : vstate -> n -> vstate option * vact

val max_values : nat

val max_ints : nat

val max_osc_fields : nat

val max_value : n

type vt = { vs : vstate; ints : n list; ign : bool; closed : n list list;
            cur : n list; pend : n; osc : n list;
            uni : (ustate * n list) option }

val vt_init : vt

val count_values : vt -> nat

val set_vs : vt -> vstate -> vt

val clear : vt -> vt

val collect : vt -> n -> vt

val param : vt -> n -> vt

val final_params : vt -> n list list * bool

val split_on : n -> n list -> n list -> n list list

val osc_fields : n list -> n list list

val osc_put : vt -> n -> vt

val osc_start : vt -> vt

val exit_events : vt -> n -> event list

val do_action : vt -> vact -> n -> vt * event list

val enter : vt -> vstate -> n -> vt * event list

val set_uni : vt -> (ustate * n list) option -> vt

val vt_step : vt -> n -> vt * event list

val is_ws_control : n -> bool

val keeps : vact -> n -> bool

type sstate = { sv : vstate; su : ustate option }

val s_init : sstate

val plain_step : vstate -> n -> sstate * bool

val strip_step : sstate -> n -> sstate * bool

val strip_run : sstate -> n list -> sstate * n list

val spec_strip : n list -> n list

val aget : 'a1 list -> n -> 'a1 option

val aset_nat : 'a1 list -> nat -> 'a1 -> 'a1 list option

val aset : 'a1 list -> n -> 'a1 -> 'a1 list option

val slice : 'a1 list -> n -> n -> 'a1 list option

val csub : n -> n -> n option

val cadd : n -> n -> n -> n option

val u16_sat_mul : n -> n -> n

val u16_sat_add : n -> n -> n

type u8state =
| U8Ground
| U8Tail3
| U8Tail2
| U8Tail1
| U8_3_2_e0
| U8_3_2_ed
| U8_4_3_f0
| U8_4_3_f4

type u8action =
| InvalidSequence
| EmitByte
| SetByte1
| SetByte2
| SetByte2Top
| SetByte3
| SetByte3Top
| SetByte4

val rng : n -> n -> n -> bool

val u8_advance : u8state -> n -> u8state * u8action

type u8parser = { u8point : n; u8st : u8state }

val u8_new : u8parser

type u8out =
| U8None
| U8Codepoint of n
| U8Invalid

val cONTINUATION_MASK : n

val u8_parser_advance : u8parser -> n -> u8parser * u8out

val state_change_ : state -> n -> n option

val unpack : n -> (state * action) option

val state_change : state -> n -> (state * action) option

val state_eqb : state -> state -> bool

val action_eqb : action -> action -> bool

type params = { subparams : n list; pvals : n list; current_subparams : 
                n; plen : n }

val params_default : params

val params_is_full : params -> bool

val params_clear : params -> params

val params_push : params -> n -> params option

val params_extend : params -> n -> params option

val params_iter : nat -> params -> n -> n list list option

val params_groups : params -> n list list option

type cfg = { osc_cap : n option; utf8_on : bool }

val cfg_default : cfg

type parser0 = { pstate : state; intermediates : n list;
                 intermediate_idx : n; pparams : params; pparam : n;
                 osc_raw : n list; osc_params : (n * n) list;
                 osc_num_params : n; ignoring : bool; utf8_parser : u8parser }

val parser_new : parser0

val set_state : parser0 -> state -> parser0

val set_params : parser0 -> params -> parser0

val set_param : parser0 -> n -> parser0

val set_ignoring : parser0 -> bool -> parser0

val set_osc : parser0 -> n list -> (n * n) list -> n -> parser0

val set_inter : parser0 -> n list -> n -> parser0

val set_utf8 : parser0 -> u8parser -> parser0

val intermediates_of : parser0 -> n list option

val char_add : cfg -> u8parser -> n -> (u8parser * n option) option

val process_utf8 : cfg -> parser0 -> n -> (parser0 * event list) option

val osc_slices : nat -> parser0 -> n -> n list list option

val osc_dispatch : parser0 -> n -> event list option

val finish_params : parser0 -> parser0 option

val osc_full : cfg -> parser0 -> bool

val perform_action :
  cfg -> parser0 -> action -> n -> (parser0 * event list) option

val perform_state_change :
  cfg -> parser0 -> state -> action -> n -> (parser0 * event list) option

val advance : cfg -> parser0 -> n -> (parser0 * event list) option

val is_ascii_whitespace : n -> bool

val is_printable_bytes : action -> n -> bool

val is_utf8_continuation : n -> bool

val is_ascii : n -> bool

val utf8_add : u8parser -> n -> u8parser * bool

val nb_skip :
  n list -> state -> u8parser -> ((n list * state) * u8parser) option

val nb_take :
  n list -> state -> u8parser -> (((n list * n list) * state) * u8parser)
  option

type piece = { p_off : n; p_bytes : n list }

val next_bytes :
  n list -> n -> state -> u8parser -> ((((piece option * n
  list) * n) * state) * u8parser) option

val bytes_iter :
  nat -> n list -> n -> state -> u8parser -> (((piece list * n
  list) * state) * u8parser) option

val strip_next_bytes :
  n list -> state -> u8parser -> (((piece list * n list) * state) * u8parser)
  option

val strip_bytes_pieces : n list -> piece list option

val strip_bytes_chunks :
  n list list -> state -> u8parser -> ((piece list list * state) * u8parser)
  option

val ns_skip : n list -> state -> (n list * state) option

val ns_take : n list -> state -> (n list * n list) option

val next_str :
  n list -> n -> state -> (((piece option * n list) * n) * state) option

val str_iter :
  nat -> n list -> n -> state -> ((piece list * n list) * state) option

val strip_next_str : n list -> state -> ((piece list * n list) * state) option

val strip_str_pieces : n list -> piece list option

val strip_str_chunks :
  n list list -> state -> (piece list list * state) option

val effect_plain : n

val eff_bold : n

val eff_dimmed : n

val eff_italic : n

val eff_underline : n

val eff_blink : n

val eff_invert : n

val eff_hidden : n

val eff_strikethrough : n

val effect_consts : (n list * n) list

val metadata : (n list * n list) list

type ansi_color =
| Black
| Red
| Green
| Yellow
| Blue
| Magenta
| Cyan
| White
| BrightBlack
| BrightRed
| BrightGreen
| BrightYellow
| BrightBlue
| BrightMagenta
| BrightCyan
| BrightWhite

val all_ansi : ansi_color list

val ansi_disc : ansi_color -> n

val ansi_fg_str : ansi_color -> n list

val ansi_bg_str : ansi_color -> n list

val ansi_bright_on : ansi_color -> ansi_color

val ansi_bright_off : ansi_color -> ansi_color

val ansi_is_bright : ansi_color -> bool

val ansi256_into_ansi : n -> ansi_color option

val ansi256_from_ansi : ansi_color -> n

type conv_method =
| Conv_bold
| Conv_dimmed
| Conv_italic
| Conv_underline
| Conv_blink
| Conv_invert
| Conv_hidden
| Conv_strikethrough

val all_conv : conv_method list

val conv_name : conv_method -> n list

val conv_effect : conv_method -> n

val nEFF : nat

val idxs : n list

val mem : n -> n -> bool

val singleton : n -> n

val members : n -> n list

val chi : n -> bool list

val of_chi : bool list -> n

val zipb : (bool -> bool -> bool) -> bool list -> bool list -> bool list

val v_union : bool list -> bool list -> bool list

val v_diff : bool list -> bool list -> bool list

val v_subset : bool list -> bool list -> bool

val v_empty : bool list -> bool

val v_members : bool list -> n list

val sp_is_plain : n -> bool

val sp_iter_chi : bool list -> n list

val effect_names : n list list

val effect_name : n -> n list

val join : n list -> n list list -> n list

val txt_open : n list

val txt_bar : n list

val txt_close : n list

val sp_debug : n -> n list

val upper : n -> n

val bytes_eqb : n list -> n list -> bool

val index_of : n list -> n list list -> n -> n option

val conv_names : n list list

val sp_named_effect : n list -> n

val hue : n -> n

val is_bright_ix : n -> bool

val with_bright : n -> bool -> n

val sp_into_ansi : n -> n option

val sp_from_ansi : n -> n

type 'c sstyle = { sp_fg : 'c option; sp_bg : 'c option; sp_ul : 'c option;
                   sp_eff : n }

val sp_eff : 'a1 sstyle -> n

type cfield =
| FFg
| FBg
| FUl

val sp_get : cfield -> 'a1 sstyle -> 'a1 option

val sp_setc : cfield -> 'a1 option -> 'a1 sstyle -> 'a1 sstyle

val sp_set_eff : n -> 'a1 sstyle -> 'a1 sstyle

val sp_plain : 'a1 sstyle

val is_none : 'a1 option -> bool

val sp_no_colours : 'a1 sstyle -> bool

val sp_eq_effects : 'a1 sstyle -> n -> bool

val sp_style_is_plain : 'a1 sstyle -> bool

val e_new : n

val e_is_plain : n -> bool

val e_contains : n -> n -> bool

val e_insert : n -> n -> n

val u16_not : n -> n

val e_remove : n -> n -> n

val e_clear : n -> n

val e_set : n -> n -> bool -> n

val e_bitor : n -> n -> n

val e_bitor_assign : n -> n -> n

val e_sub : n -> n -> n

val e_sub_assign : n -> n -> n

val shl1_u16 : n -> n option

val iter_loop : (n -> n -> 'a1) -> nat -> n -> n -> 'a1 list option

val e_iter : n -> n list option

val e_index_iter : n -> n list option

val str_effects_open : n list

val str_bar : n list

val str_close : n list

val debug_body : nat -> n list -> n list option

val e_debug : n -> n list option

val e_of_mask_from : n -> (n list * n) list -> n -> n

val e_of_mask : n -> n

type color =
| CoAnsi of ansi_color
| CoAnsi256 of n
| CoRgb of n * n * n

val ansi_bright : ansi_color -> bool -> ansi_color

val ansi_eqb : ansi_color -> ansi_color -> bool

val color_eqb : color -> color -> bool

val ocolor_eqb : color option -> color option -> bool

val ansi256_from : ansi_color -> n

val color_repr : color -> n * (n * (n * n))

val color_of_repr : n -> n -> n -> n -> color option

type style = { st_fg : color option; st_bg : color option;
               st_ul : color option; st_eff : n }

val st_new : style

val st_fg_color : style -> color option -> style

val st_bg_color : style -> color option -> style

val st_underline_color : style -> color option -> style

val st_effects : style -> n -> style

val st_get_fg_color : style -> color option

val st_get_bg_color : style -> color option

val st_get_underline_color : style -> color option

val st_get_effects : style -> n

val st_conv : conv_method -> style -> style

val o_is_none : 'a1 option -> bool

val st_is_plain : style -> bool

val st_from_effects : n -> style

val st_bitor : style -> n -> style

val st_bitor_assign : style -> n -> style

val st_sub : style -> n -> style

val st_sub_assign : style -> n -> style

val style_eqb : style -> style -> bool

val st_eq_effects : style -> n -> bool
