
val negb : bool -> bool

type nat =
| O
| S of nat

val fst : ('a1 * 'a2) -> 'a1

val snd : ('a1 * 'a2) -> 'a2

val length : 'a1 list -> nat

val app : 'a1 list -> 'a1 list -> 'a1 list

type comparison =
| Eq
| Lt
| Gt

val compOpp : comparison -> comparison

val add : nat -> nat -> nat

val sub : nat -> nat -> nat

val eqb : nat -> nat -> bool

type positive =
| XI of positive
| XO of positive
| XH

type n =
| N0
| Npos of positive

type z =
| Z0
| Zpos of positive
| Zneg of positive

module Pos :
 sig
  type mask =
  | IsNul
  | IsPos of positive
  | IsNeg
 end

module Coq_Pos :
 sig
  val succ : positive -> positive

  val add : positive -> positive -> positive

  val add_carry : positive -> positive -> positive

  val pred_double : positive -> positive

  type mask = Pos.mask =
  | IsNul
  | IsPos of positive
  | IsNeg

  val succ_double_mask : mask -> mask

  val double_mask : mask -> mask

  val double_pred_mask : positive -> mask

  val sub_mask : positive -> positive -> mask

  val sub_mask_carry : positive -> positive -> mask

  val mul : positive -> positive -> positive

  val iter : ('a1 -> 'a1) -> 'a1 -> positive -> 'a1

  val pow : positive -> positive -> positive

  val compare_cont : comparison -> positive -> positive -> comparison

  val compare : positive -> positive -> comparison

  val eqb : positive -> positive -> bool

  val coq_Nsucc_double : n -> n

  val coq_Ndouble : n -> n

  val coq_lor : positive -> positive -> positive

  val coq_land : positive -> positive -> n

  val shiftl : positive -> n -> positive

  val iter_op : ('a1 -> 'a1 -> 'a1) -> positive -> 'a1 -> 'a1

  val to_nat : positive -> nat

  val of_succ_nat : nat -> positive
 end

module N :
 sig
  val succ_double : n -> n

  val double : n -> n

  val succ : n -> n

  val add : n -> n -> n

  val sub : n -> n -> n

  val mul : n -> n -> n

  val compare : n -> n -> comparison

  val eqb : n -> n -> bool

  val leb : n -> n -> bool

  val ltb : n -> n -> bool

  val min : n -> n -> n

  val div2 : n -> n

  val pow : n -> n -> n

  val pos_div_eucl : positive -> n -> n * n

  val div_eucl : n -> n -> n * n

  val div : n -> n -> n

  val modulo : n -> n -> n

  val coq_lor : n -> n -> n

  val coq_land : n -> n -> n

  val shiftl : n -> n -> n

  val shiftr : n -> n -> n

  val to_nat : n -> nat

  val of_nat : nat -> n
 end

val nth_error : 'a1 list -> nat -> 'a1 option

val concat : 'a1 list list -> 'a1 list

val map : ('a1 -> 'a2) -> 'a1 list -> 'a2 list

val fold_left : ('a1 -> 'a2 -> 'a1) -> 'a2 list -> 'a1 -> 'a1

val firstn : nat -> 'a1 list -> 'a1 list

val skipn : nat -> 'a1 list -> 'a1 list

val repeat : 'a1 -> nat -> 'a1 list

module Z :
 sig
  val double : z -> z

  val succ_double : z -> z

  val pred_double : z -> z

  val pos_sub : positive -> positive -> z

  val add : z -> z -> z

  val opp : z -> z

  val sub : z -> z -> z

  val mul : z -> z -> z

  val compare : z -> z -> comparison

  val leb : z -> z -> bool

  val ltb : z -> z -> bool

  val eqb : z -> z -> bool

  val min : z -> z -> z

  val to_N : z -> n

  val of_N : n -> z
 end

type state =
| Anywhere
| CsiEntry
| CsiIgnore
| CsiIntermediate
| CsiParam
| DcsEntry
| DcsIgnore
| DcsIntermediate
| DcsParam
| DcsPassthrough
| Escape
| EscapeIntermediate
| Ground
| OscString
| SosPmApcString
| Utf8

type action =
| ANop
| AClear
| ACollect
| ACsiDispatch
| AEscDispatch
| AExecute
| AHook
| AIgnore
| AOscEnd
| AOscPut
| AOscStart
| AParam
| APrint
| APut
| AUnhook
| ABeginUtf8

val state_disc : state -> n

val action_disc : action -> n

val state_of_disc : n -> state option

val action_of_disc : n -> action option

val all_states : state list

val default_state : state

val state_changes : n list list

val mAX_INTERMEDIATES : n

val mAX_OSC_PARAMS : n

val mAX_PARAMS : n

val in_range : n -> n -> n -> bool

type ustate =
| UTail1
| UTail2
| UTail3
| UE0
| UED
| UF0
| UF4

val utf8_lead : n -> ustate option

type ucont =
| UMore of ustate
| UDone
| UBad

val utf8_cont : ustate -> n -> ucont

val valid_from : ustate option -> n list -> bool

val valid_utf8 : n list -> bool

val utf8_decode : n list -> n

val replacement : n

type vstate =
| VGround
| VEscape
| VEscInt
| VCsiEntry
| VCsiParam
| VCsiInt
| VCsiIgnore
| VDcsEntry
| VDcsParam
| VDcsInt
| VDcsPass
| VDcsIgnore
| VOsc
| VSos

type vact =
| TNone
| TIgnore
| TPrint
| TExecute
| TCollect
| TParam
| TEscDispatch
| TCsiDispatch
| TPut
| TOscPut
| TUtf8

type event =
| EPrint of n
| EExecute of n
| EHook of n list list * n list * bool * n
| EPut of n
| EUnhook
| EOsc of n list list * bool
| ECsi of n list list * n list * bool * n
| EEsc of n list * bool * n

val c0 : n -> bool

val vt_trans : vstate -> n -> vstate option * vact

val max_values : nat

val max_ints : nat

val max_osc_fields : nat

val max_value : n

type vt = { vs : vstate; ints : n list; ign : bool; closed : n list list;
            cur : n list; pend : n; osc : n list;
            uni : (ustate * n list) option }

val vt_init : vt

val count_values : vt -> nat

val set_vs : vt -> vstate -> vt

val clear : vt -> vt

val collect : vt -> n -> vt

val param : vt -> n -> vt

val final_params : vt -> n list list * bool

val split_on : n -> n list -> n list -> n list list

val osc_fields : n list -> n list list

val osc_put : vt -> n -> vt

val osc_start : vt -> vt

val exit_events : vt -> n -> event list

val do_action : vt -> vact -> n -> vt * event list

val enter : vt -> vstate -> n -> vt * event list

val set_uni : vt -> (ustate * n list) option -> vt

val vt_step : vt -> n -> vt * event list

val is_ws_control : n -> bool

val keeps : vact -> n -> bool

type sstate = { sv : vstate; su : ustate option }

val s_init : sstate

val plain_step : vstate -> n -> sstate * bool

val strip_step : sstate -> n -> sstate * bool

val strip_run : sstate -> n list -> sstate * n list

val spec_strip : n list -> n list

val aget : 'a1 list -> n -> 'a1 option

val aset_nat : 'a1 list -> nat -> 'a1 -> 'a1 list option

val aset : 'a1 list -> n -> 'a1 -> 'a1 list option

val slice : 'a1 list -> n -> n -> 'a1 list option

val csub : n -> n -> n option

val cadd : n -> n -> n -> n option

val u16_sat_mul : n -> n -> n

val u16_sat_add : n -> n -> n

type u8state =
| U8Ground
| U8Tail3
| U8Tail2
| U8Tail1
| U8_3_2_e0
| U8_3_2_ed
| U8_4_3_f0
| U8_4_3_f4

type u8action =
| InvalidSequence
| EmitByte
| SetByte1
| SetByte2
| SetByte2Top
| SetByte3
| SetByte3Top
| SetByte4

val rng : n -> n -> n -> bool

val u8_advance : u8state -> n -> u8state * u8action

type u8parser = { u8point : n; u8st : u8state }

val u8_new : u8parser

type u8out =
| U8None
| U8Codepoint of n
| U8Invalid

val cONTINUATION_MASK : n

val u8_parser_advance : u8parser -> n -> u8parser * u8out

val state_change_ : state -> n -> n option

val unpack : n -> (state * action) option

val state_change : state -> n -> (state * action) option

val state_eqb : state -> state -> bool

val action_eqb : action -> action -> bool

type params = { subparams : n list; pvals : n list; current_subparams : 
                n; plen : n }

val params_default : params

val params_is_full : params -> bool

val params_clear : params -> params

val params_push : params -> n -> params option

val params_extend : params -> n -> params option

val params_iter : nat -> params -> n -> n list list option

val params_groups : params -> n list list option

type cfg = { osc_cap : n option; utf8_on : bool }

val cfg_default : cfg

type parser0 = { pstate : state; intermediates : n list;
                 intermediate_idx : n; pparams : params; pparam : n;
                 osc_raw : n list; osc_params : (n * n) list;
                 osc_num_params : n; ignoring : bool; utf8_parser : u8parser }

val parser_new : parser0

val set_state : parser0 -> state -> parser0

val set_params : parser0 -> params -> parser0

val set_param : parser0 -> n -> parser0

val set_ignoring : parser0 -> bool -> parser0

val set_osc : parser0 -> n list -> (n * n) list -> n -> parser0

val set_inter : parser0 -> n list -> n -> parser0

val set_utf8 : parser0 -> u8parser -> parser0

val intermediates_of : parser0 -> n list option

val char_add : cfg -> u8parser -> n -> (u8parser * n option) option

val process_utf8 : cfg -> parser0 -> n -> (parser0 * event list) option

val osc_slices : nat -> parser0 -> n -> n list list option

val osc_dispatch : parser0 -> n -> event list option

val finish_params : parser0 -> parser0 option

val osc_full : cfg -> parser0 -> bool

val perform_action :
  cfg -> parser0 -> action -> n -> (parser0 * event list) option

val perform_state_change :
  cfg -> parser0 -> state -> action -> n -> (parser0 * event list) option

val advance : cfg -> parser0 -> n -> (parser0 * event list) option

val is_ascii_whitespace : n -> bool

val is_printable_bytes : action -> n -> bool

val is_utf8_continuation : n -> bool

val is_ascii : n -> bool

val utf8_add : u8parser -> n -> u8parser * bool

val nb_skip :
  n list -> state -> u8parser -> ((n list * state) * u8parser) option

val nb_take :
  n list -> state -> u8parser -> (((n list * n list) * state) * u8parser)
  option

type piece = { p_off : n; p_bytes : n list }

val next_bytes :
  n list -> n -> state -> u8parser -> ((((piece option * n
  list) * n) * state) * u8parser) option

val bytes_iter :
  nat -> n list -> n -> state -> u8parser -> (((piece list * n
  list) * state) * u8parser) option

val strip_next_bytes :
  n list -> state -> u8parser -> (((piece list * n list) * state) * u8parser)
  option

val strip_bytes_pieces : n list -> piece list option

val strip_bytes_chunks :
  n list list -> state -> u8parser -> ((piece list list * state) * u8parser)
  option

val ns_skip : n list -> state -> (n list * state) option

val ns_take : n list -> state -> (n list * n list) option

val next_str :
  n list -> n -> state -> (((piece option * n list) * n) * state) option

val str_iter :
  nat -> n list -> n -> state -> ((piece list * n list) * state) option

val strip_next_str : n list -> state -> ((piece list * n list) * state) option

val strip_str_pieces : n list -> piece list option

val strip_str_chunks :
  n list list -> state -> (piece list list * state) option

val xterm_colors : ((n * n) * n) list

val xterm_to_ansi_arms : (n * n) list

val into_ansi_arms : (n * n) list

val from_ansi_tbl : n list

type rgb = (n * n) * n

type color =
| Ansi of n
| Ansi256 of n
| Rgb of rgb

val redmean_distance : rgb -> rgb -> z

val list_min : z list -> z option

val first_index : z -> z list -> n -> n option

val argmin_lowest : ('a1 -> z) -> 'a1 list -> n option

val cube_level : n -> n

val xterm_fixed : n -> rgb

val n_range : n -> nat -> n list

val xterm240 : rgb list

val spec_rgb_to_ansi : rgb list -> rgb -> n option

val spec_rgb_to_xterm : rgb -> n option

val spec_index_rgb : rgb list -> n -> rgb option

val spec_to_rgb : rgb list -> color -> rgb option

val spec_to_xterm : color -> n option

val spec_to_ansi : rgb list -> color -> n option

val lossy_s_rgb_to_ansi : rgb list -> rgb -> n option

val lossy_s_rgb_to_xterm : rgb -> n option

val lossy_s_obs_index :
  rgb list -> n -> (rgb option * n option) * ((rgb option * n option) * n
  option)

val lossy_s_obs_ansi :
  rgb list -> n -> ((rgb option * rgb option) * rgb option) * ((rgb
  option * n option) * n option)

val lossy_s_obs_rgb : rgb list -> rgb -> (rgb option * n option) * n option

val i32 : z -> z option

val i32_as_u32 : z -> n

val distance : rgb -> rgb -> n option

val scan : rgb -> rgb list -> n -> n -> n -> (n * n) option

val find_best : rgb -> rgb list -> n -> n option

val assoc : n -> (n * n) list -> n option

val into_ansi : n -> n option

val from_ansi : n -> n option

val get_ansi256_ref : rgb list -> n -> rgb option

val palette_get : rgb list -> n -> rgb option

val palette_index : rgb list -> n -> rgb option

val rgb_from_ansi : rgb list -> n -> rgb option

val rgb_from_index : rgb list -> n -> rgb option option

val find_match : rgb list -> rgb -> n option

val find_xterm_match : rgb -> n option

val rgb_to_xterm : rgb -> n option

val rgb_to_ansi : rgb -> rgb list -> n option

val ansi_to_rgb : n -> rgb list -> rgb option

val xterm_to_rgb : n -> rgb list -> rgb option

val xterm_to_ansi : n -> rgb list -> n option

val color_to_rgb : color -> rgb list -> rgb option

val color_to_xterm : color -> n option

val color_to_ansi : color -> rgb list -> n option

val lossy_m_rgb_to_ansi : rgb list -> rgb -> n option

val lossy_m_rgb_to_xterm : rgb -> n option

val lossy_m_obs_index :
  rgb list -> n -> (rgb option * n option) * ((rgb option * n option) * n
  option)

val lossy_m_obs_ansi :
  rgb list -> n -> ((rgb option * rgb option) * rgb option) * ((rgb
  option * n option) * n option)

val lossy_m_obs_rgb : rgb list -> rgb -> (rgb option * n option) * n option
