
(** val negb : bool -> bool **)

let negb = function
| true -> false
| false -> true

type nat =
| O
| S of nat

(** val fst : ('a1 * 'a2) -> 'a1 **)

let fst = function
| (x, _) -> x

(** val snd : ('a1 * 'a2) -> 'a2 **)

let snd = function
| (_, y) -> y

(** val length : 'a1 list -> nat **)

let rec length = function
| [] -> O
| _ :: l' -> S (length l')

(** val app : 'a1 list -> 'a1 list -> 'a1 list **)

let rec app l m =
  match l with
  | [] -> m
  | a :: l1 -> a :: (app l1 m)

type comparison =
| Eq
| Lt
| Gt

(** val compOpp : comparison -> comparison **)

let compOpp = function
| Eq -> Eq
| Lt -> Gt
| Gt -> Lt

module Coq__1 = struct
 (** val add : nat -> nat -> nat **)
 let rec add n0 m =
   match n0 with
   | O -> m
   | S p -> S (add p m)
end
include Coq__1

(** val sub : nat -> nat -> nat **)

let rec sub n0 m =
  match n0 with
  | O -> n0
  | S k -> (match m with
            | O -> n0
            | S l -> sub k l)

(** val eqb : nat -> nat -> bool **)

let rec eqb n0 m =
  match n0 with
  | O -> (match m with
          | O -> true
          | S _ -> false)
  | S n' -> (match m with
             | O -> false
             | S m' -> eqb n' m')

type positive =
| XI of positive
| XO of positive
| XH

type n =
| N0
| Npos of positive

type z =
| Z0
| Zpos of positive
| Zneg of positive

module Pos =
 struct
  type mask =
  | IsNul
  | IsPos of positive
  | IsNeg
 end

module Coq_Pos =
 struct
  (** val succ : positive -> positive **)

  let rec succ = function
  | XI p -> XO (succ p)
  | XO p -> XI p
  | XH -> XO XH

  (** val add : positive -> positive -> positive **)

  let rec add x y =
    match x with
    | XI p ->
      (match y with
       | XI q -> XO (add_carry p q)
       | XO q -> XI (add p q)
       | XH -> XO (succ p))
    | XO p ->
      (match y with
       | XI q -> XI (add p q)
       | XO q -> XO (add p q)
       | XH -> XI p)
    | XH -> (match y with
             | XI q -> XO (succ q)
             | XO q -> XI q
             | XH -> XO XH)

  (** val add_carry : positive -> positive -> positive **)

  and add_carry x y =
    match x with
    | XI p ->
      (match y with
       | XI q -> XI (add_carry p q)
       | XO q -> XO (add_carry p q)
       | XH -> XI (succ p))
    | XO p ->
      (match y with
       | XI q -> XO (add_carry p q)
       | XO q -> XI (add p q)
       | XH -> XO (succ p))
    | XH ->
      (match y with
       | XI q -> XI (succ q)
       | XO q -> XO (succ q)
       | XH -> XI XH)

  (** val pred_double : positive -> positive **)

  let rec pred_double = function
  | XI p -> XI (XO p)
  | XO p -> XI (pred_double p)
  | XH -> XH

  type mask = Pos.mask =
  | IsNul
  | IsPos of positive
  | IsNeg

  (** val succ_double_mask : mask -> mask **)

  let succ_double_mask = function
  | IsNul -> IsPos XH
  | IsPos p -> IsPos (XI p)
  | IsNeg -> IsNeg

  (** val double_mask : mask -> mask **)

  let double_mask = function
  | IsPos p -> IsPos (XO p)
  | x0 -> x0

  (** val double_pred_mask : positive -> mask **)

  let double_pred_mask = function
  | XI p -> IsPos (XO (XO p))
  | XO p -> IsPos (XO (pred_double p))
  | XH -> IsNul

  (** val sub_mask : positive -> positive -> mask **)

  let rec sub_mask x y =
    match x with
    | XI p ->
      (match y with
       | XI q -> double_mask (sub_mask p q)
       | XO q -> succ_double_mask (sub_mask p q)
       | XH -> IsPos (XO p))
    | XO p ->
      (match y with
       | XI q -> succ_double_mask (sub_mask_carry p q)
       | XO q -> double_mask (sub_mask p q)
       | XH -> IsPos (pred_double p))
    | XH -> (match y with
             | XH -> IsNul
             | _ -> IsNeg)

  (** val sub_mask_carry : positive -> positive -> mask **)

  and sub_mask_carry x y =
    match x with
    | XI p ->
      (match y with
       | XI q -> succ_double_mask (sub_mask_carry p q)
       | XO q -> double_mask (sub_mask p q)
       | XH -> IsPos (pred_double p))
    | XO p ->
      (match y with
       | XI q -> double_mask (sub_mask_carry p q)
       | XO q -> succ_double_mask (sub_mask_carry p q)
       | XH -> double_pred_mask p)
    | XH -> IsNeg

  (** val mul : positive -> positive -> positive **)

  let rec mul x y =
    match x with
    | XI p -> add y (XO (mul p y))
    | XO p -> XO (mul p y)
    | XH -> y

  (** val iter : ('a1 -> 'a1) -> 'a1 -> positive -> 'a1 **)

  let rec iter f x = function
  | XI n' -> f (iter f (iter f x n') n')
  | XO n' -> iter f (iter f x n') n'
  | XH -> f x

  (** val pow : positive -> positive -> positive **)

  let pow x =
    iter (mul x) XH

  (** val compare_cont : comparison -> positive -> positive -> comparison **)

  let rec compare_cont r x y =
    match x with
    | XI p ->
      (match y with
       | XI q -> compare_cont r p q
       | XO q -> compare_cont Gt p q
       | XH -> Gt)
    | XO p ->
      (match y with
       | XI q -> compare_cont Lt p q
       | XO q -> compare_cont r p q
       | XH -> Gt)
    | XH -> (match y with
             | XH -> r
             | _ -> Lt)

  (** val compare : positive -> positive -> comparison **)

  let compare =
    compare_cont Eq

  (** val eqb : positive -> positive -> bool **)

  let rec eqb p q =
    match p with
    | XI p0 -> (match q with
                | XI q0 -> eqb p0 q0
                | _ -> false)
    | XO p0 -> (match q with
                | XO q0 -> eqb p0 q0
                | _ -> false)
    | XH -> (match q with
             | XH -> true
             | _ -> false)

  (** val coq_Nsucc_double : n -> n **)

  let coq_Nsucc_double = function
  | N0 -> Npos XH
  | Npos p -> Npos (XI p)

  (** val coq_Ndouble : n -> n **)

  let coq_Ndouble = function
  | N0 -> N0
  | Npos p -> Npos (XO p)

  (** val coq_lor : positive -> positive -> positive **)

  let rec coq_lor p q =
    match p with
    | XI p0 ->
      (match q with
       | XI q0 -> XI (coq_lor p0 q0)
       | XO q0 -> XI (coq_lor p0 q0)
       | XH -> p)
    | XO p0 ->
      (match q with
       | XI q0 -> XI (coq_lor p0 q0)
       | XO q0 -> XO (coq_lor p0 q0)
       | XH -> XI p0)
    | XH -> (match q with
             | XO q0 -> XI q0
             | _ -> q)

  (** val coq_land : positive -> positive -> n **)

  let rec coq_land p q =
    match p with
    | XI p0 ->
      (match q with
       | XI q0 -> coq_Nsucc_double (coq_land p0 q0)
       | XO q0 -> coq_Ndouble (coq_land p0 q0)
       | XH -> Npos XH)
    | XO p0 ->
      (match q with
       | XI q0 -> coq_Ndouble (coq_land p0 q0)
       | XO q0 -> coq_Ndouble (coq_land p0 q0)
       | XH -> N0)
    | XH -> (match q with
             | XO _ -> N0
             | _ -> Npos XH)

  (** val shiftl : positive -> n -> positive **)

  let shiftl p = function
  | N0 -> p
  | Npos n1 -> iter (fun x -> XO x) p n1

  (** val iter_op : ('a1 -> 'a1 -> 'a1) -> positive -> 'a1 -> 'a1 **)

  let rec iter_op op p a =
    match p with
    | XI p0 -> op a (iter_op op p0 (op a a))
    | XO p0 -> iter_op op p0 (op a a)
    | XH -> a

  (** val to_nat : positive -> nat **)

  let to_nat x =
    iter_op Coq__1.add x (S O)

  (** val of_succ_nat : nat -> positive **)

  let rec of_succ_nat = function
  | O -> XH
  | S x -> succ (of_succ_nat x)
 end

module N =
 struct
  (** val succ_double : n -> n **)

  let succ_double = function
  | N0 -> Npos XH
  | Npos p -> Npos (XI p)

  (** val double : n -> n **)

  let double = function
  | N0 -> N0
  | Npos p -> Npos (XO p)

  (** val succ : n -> n **)

  let succ = function
  | N0 -> Npos XH
  | Npos p -> Npos (Coq_Pos.succ p)

  (** val add : n -> n -> n **)

  let add n0 m =
    match n0 with
    | N0 -> m
    | Npos p -> (match m with
                 | N0 -> n0
                 | Npos q -> Npos (Coq_Pos.add p q))

  (** val sub : n -> n -> n **)

  let sub n0 m =
    match n0 with
    | N0 -> N0
    | Npos n' ->
      (match m with
       | N0 -> n0
       | Npos m' ->
         (match Coq_Pos.sub_mask n' m' with
          | Coq_Pos.IsPos p -> Npos p
          | _ -> N0))

  (** val mul : n -> n -> n **)

  let mul n0 m =
    match n0 with
    | N0 -> N0
    | Npos p -> (match m with
                 | N0 -> N0
                 | Npos q -> Npos (Coq_Pos.mul p q))

  (** val compare : n -> n -> comparison **)

  let compare n0 m =
    match n0 with
    | N0 -> (match m with
             | N0 -> Eq
             | Npos _ -> Lt)
    | Npos n' -> (match m with
                  | N0 -> Gt
                  | Npos m' -> Coq_Pos.compare n' m')

  (** val eqb : n -> n -> bool **)

  let eqb n0 m =
    match n0 with
    | N0 -> (match m with
             | N0 -> true
             | Npos _ -> false)
    | Npos p -> (match m with
                 | N0 -> false
                 | Npos q -> Coq_Pos.eqb p q)

  (** val leb : n -> n -> bool **)

  let leb x y =
    match compare x y with
    | Gt -> false
    | _ -> true

  (** val ltb : n -> n -> bool **)

  let ltb x y =
    match compare x y with
    | Lt -> true
    | _ -> false

  (** val min : n -> n -> n **)

  let min n0 n' =
    match compare n0 n' with
    | Gt -> n'
    | _ -> n0

  (** val div2 : n -> n **)

  let div2 = function
  | N0 -> N0
  | Npos p0 -> (match p0 with
                | XI p -> Npos p
                | XO p -> Npos p
                | XH -> N0)

  (** val pow : n -> n -> n **)

  let pow n0 = function
  | N0 -> Npos XH
  | Npos p0 -> (match n0 with
                | N0 -> N0
                | Npos q -> Npos (Coq_Pos.pow q p0))

  (** val pos_div_eucl : positive -> n -> n * n **)

  let rec pos_div_eucl a b =
    match a with
    | XI a' ->
      let (q, r) = pos_div_eucl a' b in
      let r' = succ_double r in
      if leb b r' then ((succ_double q), (sub r' b)) else ((double q), r')
    | XO a' ->
      let (q, r) = pos_div_eucl a' b in
      let r' = double r in
      if leb b r' then ((succ_double q), (sub r' b)) else ((double q), r')
    | XH ->
      (match b with
       | N0 -> (N0, (Npos XH))
       | Npos p -> (match p with
                    | XH -> ((Npos XH), N0)
                    | _ -> (N0, (Npos XH))))

  (** val div_eucl : n -> n -> n * n **)

  let div_eucl a b =
    match a with
    | N0 -> (N0, N0)
    | Npos na -> (match b with
                  | N0 -> (N0, a)
                  | Npos _ -> pos_div_eucl na b)

  (** val div : n -> n -> n **)

  let div a b =
    fst (div_eucl a b)

  (** val modulo : n -> n -> n **)

  let modulo a b =
    snd (div_eucl a b)

  (** val coq_lor : n -> n -> n **)

  let coq_lor n0 m =
    match n0 with
    | N0 -> m
    | Npos p -> (match m with
                 | N0 -> n0
                 | Npos q -> Npos (Coq_Pos.coq_lor p q))

  (** val coq_land : n -> n -> n **)

  let coq_land n0 m =
    match n0 with
    | N0 -> N0
    | Npos p -> (match m with
                 | N0 -> N0
                 | Npos q -> Coq_Pos.coq_land p q)

  (** val shiftl : n -> n -> n **)

  let shiftl a n0 =
    match a with
    | N0 -> N0
    | Npos a0 -> Npos (Coq_Pos.shiftl a0 n0)

  (** val shiftr : n -> n -> n **)

  let shiftr a = function
  | N0 -> a
  | Npos p -> Coq_Pos.iter div2 a p

  (** val to_nat : n -> nat **)

  let to_nat = function
  | N0 -> O
  | Npos p -> Coq_Pos.to_nat p

  (** val of_nat : nat -> n **)

  let of_nat = function
  | O -> N0
  | S n' -> Npos (Coq_Pos.of_succ_nat n')
 end

(** val nth_error : 'a1 list -> nat -> 'a1 option **)

let rec nth_error l = function
| O -> (match l with
        | [] -> None
        | x :: _ -> Some x)
| S n1 -> (match l with
           | [] -> None
           | _ :: l0 -> nth_error l0 n1)

(** val concat : 'a1 list list -> 'a1 list **)

let rec concat = function
| [] -> []
| x :: l0 -> app x (concat l0)

(** val map : ('a1 -> 'a2) -> 'a1 list -> 'a2 list **)

let rec map f = function
| [] -> []
| a :: t -> (f a) :: (map f t)

(** val fold_left : ('a1 -> 'a2 -> 'a1) -> 'a2 list -> 'a1 -> 'a1 **)

let rec fold_left f l a0 =
  match l with
  | [] -> a0
  | b :: t -> fold_left f t (f a0 b)

(** val firstn : nat -> 'a1 list -> 'a1 list **)

let rec firstn n0 l =
  match n0 with
  | O -> []
  | S n1 -> (match l with
             | [] -> []
             | a :: l0 -> a :: (firstn n1 l0))

(** val skipn : nat -> 'a1 list -> 'a1 list **)

let rec skipn n0 l =
  match n0 with
  | O -> l
  | S n1 -> (match l with
             | [] -> []
             | _ :: l0 -> skipn n1 l0)

(** val repeat : 'a1 -> nat -> 'a1 list **)

let rec repeat x = function
| O -> []
| S k -> x :: (repeat x k)

module Z =
 struct
  (** val double : z -> z **)

  let double = function
  | Z0 -> Z0
  | Zpos p -> Zpos (XO p)
  | Zneg p -> Zneg (XO p)

  (** val succ_double : z -> z **)

  let succ_double = function
  | Z0 -> Zpos XH
  | Zpos p -> Zpos (XI p)
  | Zneg p -> Zneg (Coq_Pos.pred_double p)

  (** val pred_double : z -> z **)

  let pred_double = function
  | Z0 -> Zneg XH
  | Zpos p -> Zpos (Coq_Pos.pred_double p)
  | Zneg p -> Zneg (XI p)

  (** val pos_sub : positive -> positive -> z **)

  let rec pos_sub x y =
    match x with
    | XI p ->
      (match y with
       | XI q -> double (pos_sub p q)
       | XO q -> succ_double (pos_sub p q)
       | XH -> Zpos (XO p))
    | XO p ->
      (match y with
       | XI q -> pred_double (pos_sub p q)
       | XO q -> double (pos_sub p q)
       | XH -> Zpos (Coq_Pos.pred_double p))
    | XH ->
      (match y with
       | XI q -> Zneg (XO q)
       | XO q -> Zneg (Coq_Pos.pred_double q)
       | XH -> Z0)

  (** val add : z -> z -> z **)

  let add x y =
    match x with
    | Z0 -> y
    | Zpos x' ->
      (match y with
       | Z0 -> x
       | Zpos y' -> Zpos (Coq_Pos.add x' y')
       | Zneg y' -> pos_sub x' y')
    | Zneg x' ->
      (match y with
       | Z0 -> x
       | Zpos y' -> pos_sub y' x'
       | Zneg y' -> Zneg (Coq_Pos.add x' y'))

  (** val opp : z -> z **)

  let opp = function
  | Z0 -> Z0
  | Zpos x0 -> Zneg x0
  | Zneg x0 -> Zpos x0

  (** val sub : z -> z -> z **)

  let sub m n0 =
    add m (opp n0)

  (** val mul : z -> z -> z **)

  let mul x y =
    match x with
    | Z0 -> Z0
    | Zpos x' ->
      (match y with
       | Z0 -> Z0
       | Zpos y' -> Zpos (Coq_Pos.mul x' y')
       | Zneg y' -> Zneg (Coq_Pos.mul x' y'))
    | Zneg x' ->
      (match y with
       | Z0 -> Z0
       | Zpos y' -> Zneg (Coq_Pos.mul x' y')
       | Zneg y' -> Zpos (Coq_Pos.mul x' y'))

  (** val compare : z -> z -> comparison **)

  let compare x y =
    match x with
    | Z0 -> (match y with
             | Z0 -> Eq
             | Zpos _ -> Lt
             | Zneg _ -> Gt)
    | Zpos x' -> (match y with
                  | Zpos y' -> Coq_Pos.compare x' y'
                  | _ -> Gt)
    | Zneg x' ->
      (match y with
       | Zneg y' -> compOpp (Coq_Pos.compare x' y')
       | _ -> Lt)

  (** val leb : z -> z -> bool **)

  let leb x y =
    match compare x y with
    | Gt -> false
    | _ -> true

  (** val ltb : z -> z -> bool **)

  let ltb x y =
    match compare x y with
    | Lt -> true
    | _ -> false

  (** val eqb : z -> z -> bool **)

  let eqb x y =
    match x with
    | Z0 -> (match y with
             | Z0 -> true
             | _ -> false)
    | Zpos p -> (match y with
                 | Zpos q -> Coq_Pos.eqb p q
                 | _ -> false)
    | Zneg p -> (match y with
                 | Zneg q -> Coq_Pos.eqb p q
                 | _ -> false)

  (** val min : z -> z -> z **)

  let min n0 m =
    match compare n0 m with
    | Gt -> m
    | _ -> n0

  (** val to_N : z -> n **)

  let to_N = function
  | Zpos p -> Npos p
  | _ -> N0

  (** val of_N : n -> z **)

  let of_N = function
  | N0 -> Z0
  | Npos p -> Zpos p
 end

type state =
| Anywhere
| CsiEntry
| CsiIgnore
| CsiIntermediate
| CsiParam
| DcsEntry
| DcsIgnore
| DcsIntermediate
| DcsParam
| DcsPassthrough
| Escape
| EscapeIntermediate
| Ground
| OscString
| SosPmApcString
| Utf8

type action =
| ANop
| AClear
| ACollect
| ACsiDispatch
| AEscDispatch
| AExecute
| AHook
| AIgnore
| AOscEnd
| AOscPut
| AOscStart
| AParam
| APrint
| APut
| AUnhook
| ABeginUtf8

(** val state_disc : state -> n **)

let state_disc = function
| Anywhere -> N0
| CsiEntry -> Npos XH
| CsiIgnore -> Npos (XO XH)
| CsiIntermediate -> Npos (XI XH)
| CsiParam -> Npos (XO (XO XH))
| DcsEntry -> Npos (XI (XO XH))
| DcsIgnore -> Npos (XO (XI XH))
| DcsIntermediate -> Npos (XI (XI XH))
| DcsParam -> Npos (XO (XO (XO XH)))
| DcsPassthrough -> Npos (XI (XO (XO XH)))
| Escape -> Npos (XO (XI (XO XH)))
| EscapeIntermediate -> Npos (XI (XI (XO XH)))
| Ground -> Npos (XO (XO (XI XH)))
| OscString -> Npos (XI (XO (XI XH)))
| SosPmApcString -> Npos (XO (XI (XI XH)))
| Utf8 -> Npos (XI (XI (XI XH)))

(** val action_disc : action -> n **)

let action_disc = function
| ANop -> N0
| AClear -> Npos XH
| ACollect -> Npos (XO XH)
| ACsiDispatch -> Npos (XI XH)
| AEscDispatch -> Npos (XO (XO XH))
| AExecute -> Npos (XI (XO XH))
| AHook -> Npos (XO (XI XH))
| AIgnore -> Npos (XI (XI XH))
| AOscEnd -> Npos (XO (XO (XO XH)))
| AOscPut -> Npos (XI (XO (XO XH)))
| AOscStart -> Npos (XO (XI (XO XH)))
| AParam -> Npos (XI (XI (XO XH)))
| APrint -> Npos (XO (XO (XI XH)))
| APut -> Npos (XI (XO (XI XH)))
| AUnhook -> Npos (XO (XI (XI XH)))
| ABeginUtf8 -> Npos (XI (XI (XI XH)))

(** val state_of_disc : n -> state option **)

let state_of_disc = function
| N0 -> Some Anywhere
| Npos p ->
  (match p with
   | XI p0 ->
     (match p0 with
      | XI p1 ->
        (match p1 with
         | XI p2 -> (match p2 with
                     | XH -> Some Utf8
                     | _ -> None)
         | XO p2 -> (match p2 with
                     | XH -> Some EscapeIntermediate
                     | _ -> None)
         | XH -> Some DcsIntermediate)
      | XO p1 ->
        (match p1 with
         | XI p2 -> (match p2 with
                     | XH -> Some OscString
                     | _ -> None)
         | XO p2 -> (match p2 with
                     | XH -> Some DcsPassthrough
                     | _ -> None)
         | XH -> Some DcsEntry)
      | XH -> Some CsiIntermediate)
   | XO p0 ->
     (match p0 with
      | XI p1 ->
        (match p1 with
         | XI p2 -> (match p2 with
                     | XH -> Some SosPmApcString
                     | _ -> None)
         | XO p2 -> (match p2 with
                     | XH -> Some Escape
                     | _ -> None)
         | XH -> Some DcsIgnore)
      | XO p1 ->
        (match p1 with
         | XI p2 -> (match p2 with
                     | XH -> Some Ground
                     | _ -> None)
         | XO p2 -> (match p2 with
                     | XH -> Some DcsParam
                     | _ -> None)
         | XH -> Some CsiParam)
      | XH -> Some CsiIgnore)
   | XH -> Some CsiEntry)

(** val action_of_disc : n -> action option **)

let action_of_disc = function
| N0 -> Some ANop
| Npos p ->
  (match p with
   | XI p0 ->
     (match p0 with
      | XI p1 ->
        (match p1 with
         | XI p2 -> (match p2 with
                     | XH -> Some ABeginUtf8
                     | _ -> None)
         | XO p2 -> (match p2 with
                     | XH -> Some AParam
                     | _ -> None)
         | XH -> Some AIgnore)
      | XO p1 ->
        (match p1 with
         | XI p2 -> (match p2 with
                     | XH -> Some APut
                     | _ -> None)
         | XO p2 -> (match p2 with
                     | XH -> Some AOscPut
                     | _ -> None)
         | XH -> Some AExecute)
      | XH -> Some ACsiDispatch)
   | XO p0 ->
     (match p0 with
      | XI p1 ->
        (match p1 with
         | XI p2 -> (match p2 with
                     | XH -> Some AUnhook
                     | _ -> None)
         | XO p2 -> (match p2 with
                     | XH -> Some AOscStart
                     | _ -> None)
         | XH -> Some AHook)
      | XO p1 ->
        (match p1 with
         | XI p2 -> (match p2 with
                     | XH -> Some APrint
                     | _ -> None)
         | XO p2 -> (match p2 with
                     | XH -> Some AOscEnd
                     | _ -> None)
         | XH -> Some AEscDispatch)
      | XH -> Some ACollect)
   | XH -> Some AClear)

(** val all_states : state list **)

let all_states =
  Anywhere :: (CsiEntry :: (CsiIgnore :: (CsiIntermediate :: (CsiParam :: (DcsEntry :: (DcsIgnore :: (DcsIntermediate :: (DcsParam :: (DcsPassthrough :: (Escape :: (EscapeIntermediate :: (Ground :: (OscString :: (SosPmApcString :: (Utf8 :: [])))))))))))))))

(** val default_state : state **)

let default_state =
  Ground

(** val state_changes : n list list **)

let state_changes =
  (N0 :: (N0 :: (N0 :: (N0 :: (N0 :: (N0 :: (N0 :: (N0 :: (N0 :: (N0 :: (N0 :: (N0 :: (N0 :: (N0 :: (N0 :: (N0 :: (N0 :: (N0 :: (N0 :: (N0 :: (N0 :: (N0 :: (N0 :: (N0 :: ((Npos
    (XO (XO (XI (XI (XI (XO XH))))))) :: (N0 :: ((Npos (XO (XO (XI (XI (XI
    (XO XH))))))) :: ((Npos (XO (XI (XO
    XH)))) :: (N0 :: (N0 :: (N0 :: (N0 :: (N0 :: (N0 :: (N0 :: (N0 :: (N0 :: (N0 :: (N0 :: (N0 :: (N0 :: (N0 :: (N0 :: (N0 :: (N0 :: (N0 :: (N0 :: (N0 :: (N0 :: (N0 :: (N0 :: (N0 :: (N0 :: (N0 :: (N0 :: (N0 :: (N0 :: (N0 :: (N0 :: (N0 :: (N0 :: (N0 :: (N0 :: (N0 :: (N0 :: (N0 :: (N0 :: (N0 :: (N0 :: (N0 :: (N0 :: (N0 :: (N0 :: (N0 :: (N0 :: (N0 :: (N0 :: (N0 :: (N0 :: (N0 :: (N0 :: (N0 :: (N0 :: (N0 :: (N0 :: (N0 :: (N0 :: (N0 :: (N0 :: (N0 :: (N0 :: (N0 :: (N0 :: (N0 :: (N0 :: (N0 :: (N0 :: (N0 :: (N0 :: (N0 :: (N0 :: (N0 :: (N0 :: (N0 :: (N0 :: (N0 :: (N0 :: (N0 :: (N0 :: (N0 :: (N0 :: (N0 :: (N0 :: (N0 :: (N0 :: (N0 :: (N0 :: (N0 :: (N0 :: (N0 :: (N0 :: (N0 :: (N0 :: (N0 :: (N0 :: (N0 :: (N0 :: (N0 :: (N0 :: (N0 :: (N0 :: (N0 :: (N0 :: (N0 :: (N0 :: (N0 :: (N0 :: (N0 :: (N0 :: (N0 :: (N0 :: (N0 :: (N0 :: (N0 :: (N0 :: (N0 :: (N0 :: (N0 :: (N0 :: (N0 :: (N0 :: (N0 :: (N0 :: (N0 :: (N0 :: (N0 :: (N0 :: (N0 :: (N0 :: (N0 :: (N0 :: (N0 :: (N0 :: (N0 :: (N0 :: (N0 :: (N0 :: (N0 :: (N0 :: (N0 :: (N0 :: (N0 :: (N0 :: (N0 :: (N0 :: (N0 :: (N0 :: (N0 :: (N0 :: (N0 :: (N0 :: (N0 :: (N0 :: (N0 :: (N0 :: (N0 :: (N0 :: (N0 :: (N0 :: (N0 :: (N0 :: (N0 :: (N0 :: (N0 :: (N0 :: (N0 :: (N0 :: (N0 :: (N0 :: (N0 :: (N0 :: (N0 :: (N0 :: (N0 :: (N0 :: (N0 :: (N0 :: (N0 :: (N0 :: (N0 :: (N0 :: (N0 :: (N0 :: (N0 :: (N0 :: (N0 :: (N0 :: (N0 :: (N0 :: (N0 :: (N0 :: (N0 :: (N0 :: (N0 :: (N0 :: (N0 :: (N0 :: (N0 :: (N0 :: (N0 :: (N0 :: (N0 :: (N0 :: (N0 :: (N0 :: (N0 :: (N0 :: (N0 :: (N0 :: (N0 :: (N0 :: (N0 :: (N0 :: (N0 :: (N0 :: (N0 :: (N0 :: (N0 :: (N0 :: (N0 :: (N0 :: (N0 :: (N0 :: (N0 :: (N0 :: (N0 :: [])))))))))))))))))))))))))))))))))))))))))))))))))))))))))))))))))))))))))))))))))))))))))))))))))))))))))))))))))))))))))))))))))))))))))))))))))))))))))))))))))))))))))))))))))))))))))))))))))))))))))))))))))))))))))))))))))))))))))))))))))))))))))))))))) :: (((Npos
    (XO (XO (XO (XO (XI (XO XH))))))) :: ((Npos (XO (XO (XO (XO (XI (XO
    XH))))))) :: ((Npos (XO (XO (XO (XO (XI (XO XH))))))) :: ((Npos (XO (XO
    (XO (XO (XI (XO XH))))))) :: ((Npos (XO (XO (XO (XO (XI (XO
    XH))))))) :: ((Npos (XO (XO (XO (XO (XI (XO XH))))))) :: ((Npos (XO (XO
    (XO (XO (XI (XO XH))))))) :: ((Npos (XO (XO (XO (XO (XI (XO
    XH))))))) :: ((Npos (XO (XO (XO (XO (XI (XO XH))))))) :: ((Npos (XO (XO
    (XO (XO (XI (XO XH))))))) :: ((Npos (XO (XO (XO (XO (XI (XO
    XH))))))) :: ((Npos (XO (XO (XO (XO (XI (XO XH))))))) :: ((Npos (XO (XO
    (XO (XO (XI (XO XH))))))) :: ((Npos (XO (XO (XO (XO (XI (XO
    XH))))))) :: ((Npos (XO (XO (XO (XO (XI (XO XH))))))) :: ((Npos (XO (XO
    (XO (XO (XI (XO XH))))))) :: ((Npos (XO (XO (XO (XO (XI (XO
    XH))))))) :: ((Npos (XO (XO (XO (XO (XI (XO XH))))))) :: ((Npos (XO (XO
    (XO (XO (XI (XO XH))))))) :: ((Npos (XO (XO (XO (XO (XI (XO
    XH))))))) :: ((Npos (XO (XO (XO (XO (XI (XO XH))))))) :: ((Npos (XO (XO
    (XO (XO (XI (XO XH))))))) :: ((Npos (XO (XO (XO (XO (XI (XO
    XH))))))) :: ((Npos (XO (XO (XO (XO (XI (XO XH))))))) :: (N0 :: ((Npos
    (XO (XO (XO (XO (XI (XO XH))))))) :: (N0 :: (N0 :: ((Npos (XO (XO (XO (XO
    (XI (XO XH))))))) :: ((Npos (XO (XO (XO (XO (XI (XO XH))))))) :: ((Npos
    (XO (XO (XO (XO (XI (XO XH))))))) :: ((Npos (XO (XO (XO (XO (XI (XO
    XH))))))) :: ((Npos (XI (XI (XO (XO (XO XH)))))) :: ((Npos (XI (XI (XO
    (XO (XO XH)))))) :: ((Npos (XI (XI (XO (XO (XO XH)))))) :: ((Npos (XI (XI
    (XO (XO (XO XH)))))) :: ((Npos (XI (XI (XO (XO (XO XH)))))) :: ((Npos (XI
    (XI (XO (XO (XO XH)))))) :: ((Npos (XI (XI (XO (XO (XO XH)))))) :: ((Npos
    (XI (XI (XO (XO (XO XH)))))) :: ((Npos (XI (XI (XO (XO (XO
    XH)))))) :: ((Npos (XI (XI (XO (XO (XO XH)))))) :: ((Npos (XI (XI (XO (XO
    (XO XH)))))) :: ((Npos (XI (XI (XO (XO (XO XH)))))) :: ((Npos (XI (XI (XO
    (XO (XO XH)))))) :: ((Npos (XI (XI (XO (XO (XO XH)))))) :: ((Npos (XI (XI
    (XO (XO (XO XH)))))) :: ((Npos (XI (XI (XO (XO (XO XH)))))) :: ((Npos (XO
    (XO (XI (XO (XI (XI (XO XH)))))))) :: ((Npos (XO (XO (XI (XO (XI (XI (XO
    XH)))))))) :: ((Npos (XO (XO (XI (XO (XI (XI (XO XH)))))))) :: ((Npos (XO
    (XO (XI (XO (XI (XI (XO XH)))))))) :: ((Npos (XO (XO (XI (XO (XI (XI (XO
    XH)))))))) :: ((Npos (XO (XO (XI (XO (XI (XI (XO XH)))))))) :: ((Npos (XO
    (XO (XI (XO (XI (XI (XO XH)))))))) :: ((Npos (XO (XO (XI (XO (XI (XI (XO
    XH)))))))) :: ((Npos (XO (XO (XI (XO (XI (XI (XO XH)))))))) :: ((Npos (XO
    (XO (XI (XO (XI (XI (XO XH)))))))) :: ((Npos (XO (XO (XI (XO (XI (XI (XO
    XH)))))))) :: ((Npos (XO (XO (XI (XO (XI (XI (XO XH)))))))) :: ((Npos (XO
    (XO (XI (XO (XO XH)))))) :: ((Npos (XO (XO (XI (XO (XO XH)))))) :: ((Npos
    (XO (XO (XI (XO (XO XH)))))) :: ((Npos (XO (XO (XI (XO (XO
    XH)))))) :: ((Npos (XO (XO (XI (XI (XI XH)))))) :: ((Npos (XO (XO (XI (XI
    (XI XH)))))) :: ((Npos (XO (XO (XI (XI (XI XH)))))) :: ((Npos (XO (XO (XI
    (XI (XI XH)))))) :: ((Npos (XO (XO (XI (XI (XI XH)))))) :: ((Npos (XO (XO
    (XI (XI (XI XH)))))) :: ((Npos (XO (XO (XI (XI (XI XH)))))) :: ((Npos (XO
    (XO (XI (XI (XI XH)))))) :: ((Npos (XO (XO (XI (XI (XI XH)))))) :: ((Npos
    (XO (XO (XI (XI (XI XH)))))) :: ((Npos (XO (XO (XI (XI (XI
    XH)))))) :: ((Npos (XO (XO (XI (XI (XI XH)))))) :: ((Npos (XO (XO (XI (XI
    (XI XH)))))) :: ((Npos (XO (XO (XI (XI (XI XH)))))) :: ((Npos (XO (XO (XI
    (XI (XI XH)))))) :: ((Npos (XO (XO (XI (XI (XI XH)))))) :: ((Npos (XO (XO
    (XI (XI (XI XH)))))) :: ((Npos (XO (XO (XI (XI (XI XH)))))) :: ((Npos (XO
    (XO (XI (XI (XI XH)))))) :: ((Npos (XO (XO (XI (XI (XI XH)))))) :: ((Npos
    (XO (XO (XI (XI (XI XH)))))) :: ((Npos (XO (XO (XI (XI (XI
    XH)))))) :: ((Npos (XO (XO (XI (XI (XI XH)))))) :: ((Npos (XO (XO (XI (XI
    (XI XH)))))) :: ((Npos (XO (XO (XI (XI (XI XH)))))) :: ((Npos (XO (XO (XI
    (XI (XI XH)))))) :: ((Npos (XO (XO (XI (XI (XI XH)))))) :: ((Npos (XO (XO
    (XI (XI (XI XH)))))) :: ((Npos (XO (XO (XI (XI (XI XH)))))) :: ((Npos (XO
    (XO (XI (XI (XI XH)))))) :: ((Npos (XO (XO (XI (XI (XI XH)))))) :: ((Npos
    (XO (XO (XI (XI (XI XH)))))) :: ((Npos (XO (XO (XI (XI (XI
    XH)))))) :: ((Npos (XO (XO (XI (XI (XI XH)))))) :: ((Npos (XO (XO (XI (XI
    (XI XH)))))) :: ((Npos (XO (XO (XI (XI (XI XH)))))) :: ((Npos (XO (XO (XI
    (XI (XI XH)))))) :: ((Npos (XO (XO (XI (XI (XI XH)))))) :: ((Npos (XO (XO
    (XI (XI (XI XH)))))) :: ((Npos (XO (XO (XI (XI (XI XH)))))) :: ((Npos (XO
    (XO (XI (XI (XI XH)))))) :: ((Npos (XO (XO (XI (XI (XI XH)))))) :: ((Npos
    (XO (XO (XI (XI (XI XH)))))) :: ((Npos (XO (XO (XI (XI (XI
    XH)))))) :: ((Npos (XO (XO (XI (XI (XI XH)))))) :: ((Npos (XO (XO (XI (XI
    (XI XH)))))) :: ((Npos (XO (XO (XI (XI (XI XH)))))) :: ((Npos (XO (XO (XI
    (XI (XI XH)))))) :: ((Npos (XO (XO (XI (XI (XI XH)))))) :: ((Npos (XO (XO
    (XI (XI (XI XH)))))) :: ((Npos (XO (XO (XI (XI (XI XH)))))) :: ((Npos (XO
    (XO (XI (XI (XI XH)))))) :: ((Npos (XO (XO (XI (XI (XI XH)))))) :: ((Npos
    (XO (XO (XI (XI (XI XH)))))) :: ((Npos (XO (XO (XI (XI (XI
    XH)))))) :: ((Npos (XO (XO (XI (XI (XI XH)))))) :: ((Npos (XO (XO (XI (XI
    (XI XH)))))) :: ((Npos (XO (XO (XI (XI (XI XH)))))) :: ((Npos (XO (XO (XI
    (XI (XI XH)))))) :: ((Npos (XO (XO (XI (XI (XI XH)))))) :: ((Npos (XO (XO
    (XI (XI (XI XH)))))) :: ((Npos (XO (XO (XI (XI (XI XH)))))) :: ((Npos (XO
    (XO (XI (XI (XI XH)))))) :: ((Npos (XO (XO (XO (XO (XI (XI
    XH))))))) :: (N0 :: (N0 :: (N0 :: (N0 :: (N0 :: (N0 :: (N0 :: (N0 :: (N0 :: (N0 :: (N0 :: (N0 :: (N0 :: (N0 :: (N0 :: (N0 :: (N0 :: (N0 :: (N0 :: (N0 :: (N0 :: (N0 :: (N0 :: (N0 :: (N0 :: (N0 :: (N0 :: (N0 :: (N0 :: (N0 :: (N0 :: (N0 :: (N0 :: (N0 :: (N0 :: (N0 :: (N0 :: (N0 :: (N0 :: (N0 :: (N0 :: (N0 :: (N0 :: (N0 :: (N0 :: (N0 :: (N0 :: (N0 :: (N0 :: (N0 :: (N0 :: (N0 :: (N0 :: (N0 :: (N0 :: (N0 :: (N0 :: (N0 :: (N0 :: (N0 :: (N0 :: (N0 :: (N0 :: (N0 :: (N0 :: (N0 :: (N0 :: (N0 :: (N0 :: (N0 :: (N0 :: (N0 :: (N0 :: (N0 :: (N0 :: (N0 :: (N0 :: (N0 :: (N0 :: (N0 :: (N0 :: (N0 :: (N0 :: (N0 :: (N0 :: (N0 :: (N0 :: (N0 :: (N0 :: (N0 :: (N0 :: (N0 :: (N0 :: (N0 :: (N0 :: (N0 :: (N0 :: (N0 :: (N0 :: (N0 :: (N0 :: (N0 :: (N0 :: (N0 :: (N0 :: (N0 :: (N0 :: (N0 :: (N0 :: (N0 :: (N0 :: (N0 :: (N0 :: (N0 :: (N0 :: (N0 :: (N0 :: (N0 :: (N0 :: (N0 :: (N0 :: (N0 :: (N0 :: (N0 :: (N0 :: (N0 :: (N0 :: (N0 :: [])))))))))))))))))))))))))))))))))))))))))))))))))))))))))))))))))))))))))))))))))))))))))))))))))))))))))))))))))))))))))))))))))))))))))))))))))))))))))))))))))))))))))))))))))))))))))))))))))))))))))))))))))))))))))))))))))))))))))))))))))))))))))))))))) :: (((Npos
    (XO (XO (XO (XO (XI (XO XH))))))) :: ((Npos (XO (XO (XO (XO (XI (XO
    XH))))))) :: ((Npos (XO (XO (XO (XO (XI (XO XH))))))) :: ((Npos (XO (XO
    (XO (XO (XI (XO XH))))))) :: ((Npos (XO (XO (XO (XO (XI (XO
    XH))))))) :: ((Npos (XO (XO (XO (XO (XI (XO XH))))))) :: ((Npos (XO (XO
    (XO (XO (XI (XO XH))))))) :: ((Npos (XO (XO (XO (XO (XI (XO
    XH))))))) :: ((Npos (XO (XO (XO (XO (XI (XO XH))))))) :: ((Npos (XO (XO
    (XO (XO (XI (XO XH))))))) :: ((Npos (XO (XO (XO (XO (XI (XO
    XH))))))) :: ((Npos (XO (XO (XO (XO (XI (XO XH))))))) :: ((Npos (XO (XO
    (XO (XO (XI (XO XH))))))) :: ((Npos (XO (XO (XO (XO (XI (XO
    XH))))))) :: ((Npos (XO (XO (XO (XO (XI (XO XH))))))) :: ((Npos (XO (XO
    (XO (XO (XI (XO XH))))))) :: ((Npos (XO (XO (XO (XO (XI (XO
    XH))))))) :: ((Npos (XO (XO (XO (XO (XI (XO XH))))))) :: ((Npos (XO (XO
    (XO (XO (XI (XO XH))))))) :: ((Npos (XO (XO (XO (XO (XI (XO
    XH))))))) :: ((Npos (XO (XO (XO (XO (XI (XO XH))))))) :: ((Npos (XO (XO
    (XO (XO (XI (XO XH))))))) :: ((Npos (XO (XO (XO (XO (XI (XO
    XH))))))) :: ((Npos (XO (XO (XO (XO (XI (XO XH))))))) :: (N0 :: ((Npos
    (XO (XO (XO (XO (XI (XO XH))))))) :: (N0 :: (N0 :: ((Npos (XO (XO (XO (XO
    (XI (XO XH))))))) :: ((Npos (XO (XO (XO (XO (XI (XO XH))))))) :: ((Npos
    (XO (XO (XO (XO (XI (XO XH))))))) :: ((Npos (XO (XO (XO (XO (XI (XO
    XH))))))) :: ((Npos (XO (XO (XO (XO (XI (XI XH))))))) :: ((Npos (XO (XO
    (XO (XO (XI (XI XH))))))) :: ((Npos (XO (XO (XO (XO (XI (XI
    XH))))))) :: ((Npos (XO (XO (XO (XO (XI (XI XH))))))) :: ((Npos (XO (XO
    (XO (XO (XI (XI XH))))))) :: ((Npos (XO (XO (XO (XO (XI (XI
    XH))))))) :: ((Npos (XO (XO (XO (XO (XI (XI XH))))))) :: ((Npos (XO (XO
    (XO (XO (XI (XI XH))))))) :: ((Npos (XO (XO (XO (XO (XI (XI
    XH))))))) :: ((Npos (XO (XO (XO (XO (XI (XI XH))))))) :: ((Npos (XO (XO
    (XO (XO (XI (XI XH))))))) :: ((Npos (XO (XO (XO (XO (XI (XI
    XH))))))) :: ((Npos (XO (XO (XO (XO (XI (XI XH))))))) :: ((Npos (XO (XO
    (XO (XO (XI (XI XH))))))) :: ((Npos (XO (XO (XO (XO (XI (XI
    XH))))))) :: ((Npos (XO (XO (XO (XO (XI (XI XH))))))) :: ((Npos (XO (XO
    (XO (XO (XI (XI XH))))))) :: ((Npos (XO (XO (XO (XO (XI (XI
    XH))))))) :: ((Npos (XO (XO (XO (XO (XI (XI XH))))))) :: ((Npos (XO (XO
    (XO (XO (XI (XI XH))))))) :: ((Npos (XO (XO (XO (XO (XI (XI
    XH))))))) :: ((Npos (XO (XO (XO (XO (XI (XI XH))))))) :: ((Npos (XO (XO
    (XO (XO (XI (XI XH))))))) :: ((Npos (XO (XO (XO (XO (XI (XI
    XH))))))) :: ((Npos (XO (XO (XO (XO (XI (XI XH))))))) :: ((Npos (XO (XO
    (XO (XO (XI (XI XH))))))) :: ((Npos (XO (XO (XO (XO (XI (XI
    XH))))))) :: ((Npos (XO (XO (XO (XO (XI (XI XH))))))) :: ((Npos (XO (XO
    (XO (XO (XI (XI XH))))))) :: ((Npos (XO (XO (XO (XO (XI (XI
    XH))))))) :: ((Npos (XO (XO (XO (XO (XI (XI XH))))))) :: ((Npos (XO (XO
    (XO (XO (XI (XI XH))))))) :: ((Npos (XO (XO (XI XH)))) :: ((Npos (XO (XO
    (XI XH)))) :: ((Npos (XO (XO (XI XH)))) :: ((Npos (XO (XO (XI
    XH)))) :: ((Npos (XO (XO (XI XH)))) :: ((Npos (XO (XO (XI
    XH)))) :: ((Npos (XO (XO (XI XH)))) :: ((Npos (XO (XO (XI
    XH)))) :: ((Npos (XO (XO (XI XH)))) :: ((Npos (XO (XO (XI
    XH)))) :: ((Npos (XO (XO (XI XH)))) :: ((Npos (XO (XO (XI
    XH)))) :: ((Npos (XO (XO (XI XH)))) :: ((Npos (XO (XO (XI
    XH)))) :: ((Npos (XO (XO (XI XH)))) :: ((Npos (XO (XO (XI
    XH)))) :: ((Npos (XO (XO (XI XH)))) :: ((Npos (XO (XO (XI
    XH)))) :: ((Npos (XO (XO (XI XH)))) :: ((Npos (XO (XO (XI
    XH)))) :: ((Npos (XO (XO (XI XH)))) :: ((Npos (XO (XO (XI
    XH)))) :: ((Npos (XO (XO (XI XH)))) :: ((Npos (XO (XO (XI
    XH)))) :: ((Npos (XO (XO (XI XH)))) :: ((Npos (XO (XO (XI
    XH)))) :: ((Npos (XO (XO (XI XH)))) :: ((Npos (XO (XO (XI
    XH)))) :: ((Npos (XO (XO (XI XH)))) :: ((Npos (XO (XO (XI
    XH)))) :: ((Npos (XO (XO (XI XH)))) :: ((Npos (XO (XO (XI
    XH)))) :: ((Npos (XO (XO (XI XH)))) :: ((Npos (XO (XO (XI
    XH)))) :: ((Npos (XO (XO (XI XH)))) :: ((Npos (XO (XO (XI
    XH)))) :: ((Npos (XO (XO (XI XH)))) :: ((Npos (XO (XO (XI
    XH)))) :: ((Npos (XO (XO (XI XH)))) :: ((Npos (XO (XO (XI
    XH)))) :: ((Npos (XO (XO (XI XH)))) :: ((Npos (XO (XO (XI
    XH)))) :: ((Npos (XO (XO (XI XH)))) :: ((Npos (XO (XO (XI
    XH)))) :: ((Npos (XO (XO (XI XH)))) :: ((Npos (XO (XO (XI
    XH)))) :: ((Npos (XO (XO (XI XH)))) :: ((Npos (XO (XO (XI
    XH)))) :: ((Npos (XO (XO (XI XH)))) :: ((Npos (XO (XO (XI
    XH)))) :: ((Npos (XO (XO (XI XH)))) :: ((Npos (XO (XO (XI
    XH)))) :: ((Npos (XO (XO (XI XH)))) :: ((Npos (XO (XO (XI
    XH)))) :: ((Npos (XO (XO (XI XH)))) :: ((Npos (XO (XO (XI
    XH)))) :: ((Npos (XO (XO (XI XH)))) :: ((Npos (XO (XO (XI
    XH)))) :: ((Npos (XO (XO (XI XH)))) :: ((Npos (XO (XO (XI
    XH)))) :: ((Npos (XO (XO (XI XH)))) :: ((Npos (XO (XO (XI
    XH)))) :: ((Npos (XO (XO (XI XH)))) :: ((Npos (XO (XO (XO (XO (XI (XI
    XH))))))) :: (N0 :: (N0 :: (N0 :: (N0 :: (N0 :: (N0 :: (N0 :: (N0 :: (N0 :: (N0 :: (N0 :: (N0 :: (N0 :: (N0 :: (N0 :: (N0 :: (N0 :: (N0 :: (N0 :: (N0 :: (N0 :: (N0 :: (N0 :: (N0 :: (N0 :: (N0 :: (N0 :: (N0 :: (N0 :: (N0 :: (N0 :: (N0 :: (N0 :: (N0 :: (N0 :: (N0 :: (N0 :: (N0 :: (N0 :: (N0 :: (N0 :: (N0 :: (N0 :: (N0 :: (N0 :: (N0 :: (N0 :: (N0 :: (N0 :: (N0 :: (N0 :: (N0 :: (N0 :: (N0 :: (N0 :: (N0 :: (N0 :: (N0 :: (N0 :: (N0 :: (N0 :: (N0 :: (N0 :: (N0 :: (N0 :: (N0 :: (N0 :: (N0 :: (N0 :: (N0 :: (N0 :: (N0 :: (N0 :: (N0 :: (N0 :: (N0 :: (N0 :: (N0 :: (N0 :: (N0 :: (N0 :: (N0 :: (N0 :: (N0 :: (N0 :: (N0 :: (N0 :: (N0 :: (N0 :: (N0 :: (N0 :: (N0 :: (N0 :: (N0 :: (N0 :: (N0 :: (N0 :: (N0 :: (N0 :: (N0 :: (N0 :: (N0 :: (N0 :: (N0 :: (N0 :: (N0 :: (N0 :: (N0 :: (N0 :: (N0 :: (N0 :: (N0 :: (N0 :: (N0 :: (N0 :: (N0 :: (N0 :: (N0 :: (N0 :: (N0 :: (N0 :: (N0 :: (N0 :: (N0 :: (N0 :: (N0 :: (N0 :: (N0 :: [])))))))))))))))))))))))))))))))))))))))))))))))))))))))))))))))))))))))))))))))))))))))))))))))))))))))))))))))))))))))))))))))))))))))))))))))))))))))))))))))))))))))))))))))))))))))))))))))))))))))))))))))))))))))))))))))))))))))))))))))))))))))))))))))) :: (((Npos
    (XO (XO (XO (XO (XI (XO XH))))))) :: ((Npos (XO (XO (XO (XO (XI (XO
    XH))))))) :: ((Npos (XO (XO (XO (XO (XI (XO XH))))))) :: ((Npos (XO (XO
    (XO (XO (XI (XO XH))))))) :: ((Npos (XO (XO (XO (XO (XI (XO
    XH))))))) :: ((Npos (XO (XO (XO (XO (XI (XO XH))))))) :: ((Npos (XO (XO
    (XO (XO (XI (XO XH))))))) :: ((Npos (XO (XO (XO (XO (XI (XO
    XH))))))) :: ((Npos (XO (XO (XO (XO (XI (XO XH))))))) :: ((Npos (XO (XO
    (XO (XO (XI (XO XH))))))) :: ((Npos (XO (XO (XO (XO (XI (XO
    XH))))))) :: ((Npos (XO (XO (XO (XO (XI (XO XH))))))) :: ((Npos (XO (XO
    (XO (XO (XI (XO XH))))))) :: ((Npos (XO (XO (XO (XO (XI (XO
    XH))))))) :: ((Npos (XO (XO (XO (XO (XI (XO XH))))))) :: ((Npos (XO (XO
    (XO (XO (XI (XO XH))))))) :: ((Npos (XO (XO (XO (XO (XI (XO
    XH))))))) :: ((Npos (XO (XO (XO (XO (XI (XO XH))))))) :: ((Npos (XO (XO
    (XO (XO (XI (XO XH))))))) :: ((Npos (XO (XO (XO (XO (XI (XO
    XH))))))) :: ((Npos (XO (XO (XO (XO (XI (XO XH))))))) :: ((Npos (XO (XO
    (XO (XO (XI (XO XH))))))) :: ((Npos (XO (XO (XO (XO (XI (XO
    XH))))))) :: ((Npos (XO (XO (XO (XO (XI (XO XH))))))) :: (N0 :: ((Npos
    (XO (XO (XO (XO (XI (XO XH))))))) :: (N0 :: (N0 :: ((Npos (XO (XO (XO (XO
    (XI (XO XH))))))) :: ((Npos (XO (XO (XO (XO (XI (XO XH))))))) :: ((Npos
    (XO (XO (XO (XO (XI (XO XH))))))) :: ((Npos (XO (XO (XO (XO (XI (XO
    XH))))))) :: ((Npos (XO (XO (XO (XO (XO XH)))))) :: ((Npos (XO (XO (XO
    (XO (XO XH)))))) :: ((Npos (XO (XO (XO (XO (XO XH)))))) :: ((Npos (XO (XO
    (XO (XO (XO XH)))))) :: ((Npos (XO (XO (XO (XO (XO XH)))))) :: ((Npos (XO
    (XO (XO (XO (XO XH)))))) :: ((Npos (XO (XO (XO (XO (XO XH)))))) :: ((Npos
    (XO (XO (XO (XO (XO XH)))))) :: ((Npos (XO (XO (XO (XO (XO
    XH)))))) :: ((Npos (XO (XO (XO (XO (XO XH)))))) :: ((Npos (XO (XO (XO (XO
    (XO XH)))))) :: ((Npos (XO (XO (XO (XO (XO XH)))))) :: ((Npos (XO (XO (XO
    (XO (XO XH)))))) :: ((Npos (XO (XO (XO (XO (XO XH)))))) :: ((Npos (XO (XO
    (XO (XO (XO XH)))))) :: ((Npos (XO (XO (XO (XO (XO XH)))))) :: ((Npos (XO
    XH)) :: ((Npos (XO XH)) :: ((Npos (XO XH)) :: ((Npos (XO XH)) :: ((Npos
    (XO XH)) :: ((Npos (XO XH)) :: ((Npos (XO XH)) :: ((Npos (XO
    XH)) :: ((Npos (XO XH)) :: ((Npos (XO XH)) :: ((Npos (XO XH)) :: ((Npos
    (XO XH)) :: ((Npos (XO XH)) :: ((Npos (XO XH)) :: ((Npos (XO
    XH)) :: ((Npos (XO XH)) :: ((Npos (XO (XO (XI (XI (XI XH)))))) :: ((Npos
    (XO (XO (XI (XI (XI XH)))))) :: ((Npos (XO (XO (XI (XI (XI
    XH)))))) :: ((Npos (XO (XO (XI (XI (XI XH)))))) :: ((Npos (XO (XO (XI (XI
    (XI XH)))))) :: ((Npos (XO (XO (XI (XI (XI XH)))))) :: ((Npos (XO (XO (XI
    (XI (XI XH)))))) :: ((Npos (XO (XO (XI (XI (XI XH)))))) :: ((Npos (XO (XO
    (XI (XI (XI XH)))))) :: ((Npos (XO (XO (XI (XI (XI XH)))))) :: ((Npos (XO
    (XO (XI (XI (XI XH)))))) :: ((Npos (XO (XO (XI (XI (XI XH)))))) :: ((Npos
    (XO (XO (XI (XI (XI XH)))))) :: ((Npos (XO (XO (XI (XI (XI
    XH)))))) :: ((Npos (XO (XO (XI (XI (XI XH)))))) :: ((Npos (XO (XO (XI (XI
    (XI XH)))))) :: ((Npos (XO (XO (XI (XI (XI XH)))))) :: ((Npos (XO (XO (XI
    (XI (XI XH)))))) :: ((Npos (XO (XO (XI (XI (XI XH)))))) :: ((Npos (XO (XO
    (XI (XI (XI XH)))))) :: ((Npos (XO (XO (XI (XI (XI XH)))))) :: ((Npos (XO
    (XO (XI (XI (XI XH)))))) :: ((Npos (XO (XO (XI (XI (XI XH)))))) :: ((Npos
    (XO (XO (XI (XI (XI XH)))))) :: ((Npos (XO (XO (XI (XI (XI
    XH)))))) :: ((Npos (XO (XO (XI (XI (XI XH)))))) :: ((Npos (XO (XO (XI (XI
    (XI XH)))))) :: ((Npos (XO (XO (XI (XI (XI XH)))))) :: ((Npos (XO (XO (XI
    (XI (XI XH)))))) :: ((Npos (XO (XO (XI (XI (XI XH)))))) :: ((Npos (XO (XO
    (XI (XI (XI XH)))))) :: ((Npos (XO (XO (XI (XI (XI XH)))))) :: ((Npos (XO
    (XO (XI (XI (XI XH)))))) :: ((Npos (XO (XO (XI (XI (XI XH)))))) :: ((Npos
    (XO (XO (XI (XI (XI XH)))))) :: ((Npos (XO (XO (XI (XI (XI
    XH)))))) :: ((Npos (XO (XO (XI (XI (XI XH)))))) :: ((Npos (XO (XO (XI (XI
    (XI XH)))))) :: ((Npos (XO (XO (XI (XI (XI XH)))))) :: ((Npos (XO (XO (XI
    (XI (XI XH)))))) :: ((Npos (XO (XO (XI (XI (XI XH)))))) :: ((Npos (XO (XO
    (XI (XI (XI XH)))))) :: ((Npos (XO (XO (XI (XI (XI XH)))))) :: ((Npos (XO
    (XO (XI (XI (XI XH)))))) :: ((Npos (XO (XO (XI (XI (XI XH)))))) :: ((Npos
    (XO (XO (XI (XI (XI XH)))))) :: ((Npos (XO (XO (XI (XI (XI
    XH)))))) :: ((Npos (XO (XO (XI (XI (XI XH)))))) :: ((Npos (XO (XO (XI (XI
    (XI XH)))))) :: ((Npos (XO (XO (XI (XI (XI XH)))))) :: ((Npos (XO (XO (XI
    (XI (XI XH)))))) :: ((Npos (XO (XO (XI (XI (XI XH)))))) :: ((Npos (XO (XO
    (XI (XI (XI XH)))))) :: ((Npos (XO (XO (XI (XI (XI XH)))))) :: ((Npos (XO
    (XO (XI (XI (XI XH)))))) :: ((Npos (XO (XO (XI (XI (XI XH)))))) :: ((Npos
    (XO (XO (XI (XI (XI XH)))))) :: ((Npos (XO (XO (XI (XI (XI
    XH)))))) :: ((Npos (XO (XO (XI (XI (XI XH)))))) :: ((Npos (XO (XO (XI (XI
    (XI XH)))))) :: ((Npos (XO (XO (XI (XI (XI XH)))))) :: ((Npos (XO (XO (XI
    (XI (XI XH)))))) :: ((Npos (XO (XO (XI (XI (XI XH)))))) :: ((Npos (XO (XO
    (XO (XO (XI (XI
    XH))))))) :: (N0 :: (N0 :: (N0 :: (N0 :: (N0 :: (N0 :: (N0 :: (N0 :: (N0 :: (N0 :: (N0 :: (N0 :: (N0 :: (N0 :: (N0 :: (N0 :: (N0 :: (N0 :: (N0 :: (N0 :: (N0 :: (N0 :: (N0 :: (N0 :: (N0 :: (N0 :: (N0 :: (N0 :: (N0 :: (N0 :: (N0 :: (N0 :: (N0 :: (N0 :: (N0 :: (N0 :: (N0 :: (N0 :: (N0 :: (N0 :: (N0 :: (N0 :: (N0 :: (N0 :: (N0 :: (N0 :: (N0 :: (N0 :: (N0 :: (N0 :: (N0 :: (N0 :: (N0 :: (N0 :: (N0 :: (N0 :: (N0 :: (N0 :: (N0 :: (N0 :: (N0 :: (N0 :: (N0 :: (N0 :: (N0 :: (N0 :: (N0 :: (N0 :: (N0 :: (N0 :: (N0 :: (N0 :: (N0 :: (N0 :: (N0 :: (N0 :: (N0 :: (N0 :: (N0 :: (N0 :: (N0 :: (N0 :: (N0 :: (N0 :: (N0 :: (N0 :: (N0 :: (N0 :: (N0 :: (N0 :: (N0 :: (N0 :: (N0 :: (N0 :: (N0 :: (N0 :: (N0 :: (N0 :: (N0 :: (N0 :: (N0 :: (N0 :: (N0 :: (N0 :: (N0 :: (N0 :: (N0 :: (N0 :: (N0 :: (N0 :: (N0 :: (N0 :: (N0 :: (N0 :: (N0 :: (N0 :: (N0 :: (N0 :: (N0 :: (N0 :: (N0 :: (N0 :: (N0 :: (N0 :: (N0 :: (N0 :: (N0 :: (N0 :: [])))))))))))))))))))))))))))))))))))))))))))))))))))))))))))))))))))))))))))))))))))))))))))))))))))))))))))))))))))))))))))))))))))))))))))))))))))))))))))))))))))))))))))))))))))))))))))))))))))))))))))))))))))))))))))))))))))))))))))))))))))))))))))))))) :: (((Npos
    (XO (XO (XO (XO (XI (XO XH))))))) :: ((Npos (XO (XO (XO (XO (XI (XO
    XH))))))) :: ((Npos (XO (XO (XO (XO (XI (XO XH))))))) :: ((Npos (XO (XO
    (XO (XO (XI (XO XH))))))) :: ((Npos (XO (XO (XO (XO (XI (XO
    XH))))))) :: ((Npos (XO (XO (XO (XO (XI (XO XH))))))) :: ((Npos (XO (XO
    (XO (XO (XI (XO XH))))))) :: ((Npos (XO (XO (XO (XO (XI (XO
    XH))))))) :: ((Npos (XO (XO (XO (XO (XI (XO XH))))))) :: ((Npos (XO (XO
    (XO (XO (XI (XO XH))))))) :: ((Npos (XO (XO (XO (XO (XI (XO
    XH))))))) :: ((Npos (XO (XO (XO (XO (XI (XO XH))))))) :: ((Npos (XO (XO
    (XO (XO (XI (XO XH))))))) :: ((Npos (XO (XO (XO (XO (XI (XO
    XH))))))) :: ((Npos (XO (XO (XO (XO (XI (XO XH))))))) :: ((Npos (XO (XO
    (XO (XO (XI (XO XH))))))) :: ((Npos (XO (XO (XO (XO (XI (XO
    XH))))))) :: ((Npos (XO (XO (XO (XO (XI (XO XH))))))) :: ((Npos (XO (XO
    (XO (XO (XI (XO XH))))))) :: ((Npos (XO (XO (XO (XO (XI (XO
    XH))))))) :: ((Npos (XO (XO (XO (XO (XI (XO XH))))))) :: ((Npos (XO (XO
    (XO (XO (XI (XO XH))))))) :: ((Npos (XO (XO (XO (XO (XI (XO
    XH))))))) :: ((Npos (XO (XO (XO (XO (XI (XO XH))))))) :: (N0 :: ((Npos
    (XO (XO (XO (XO (XI (XO XH))))))) :: (N0 :: (N0 :: ((Npos (XO (XO (XO (XO
    (XI (XO XH))))))) :: ((Npos (XO (XO (XO (XO (XI (XO XH))))))) :: ((Npos
    (XO (XO (XO (XO (XI (XO XH))))))) :: ((Npos (XO (XO (XO (XO (XI (XO
    XH))))))) :: ((Npos (XI (XI (XO (XO (XO XH)))))) :: ((Npos (XI (XI (XO
    (XO (XO XH)))))) :: ((Npos (XI (XI (XO (XO (XO XH)))))) :: ((Npos (XI (XI
    (XO (XO (XO XH)))))) :: ((Npos (XI (XI (XO (XO (XO XH)))))) :: ((Npos (XI
    (XI (XO (XO (XO XH)))))) :: ((Npos (XI (XI (XO (XO (XO XH)))))) :: ((Npos
    (XI (XI (XO (XO (XO XH)))))) :: ((Npos (XI (XI (XO (XO (XO
    XH)))))) :: ((Npos (XI (XI (XO (XO (XO XH)))))) :: ((Npos (XI (XI (XO (XO
    (XO XH)))))) :: ((Npos (XI (XI (XO (XO (XO XH)))))) :: ((Npos (XI (XI (XO
    (XO (XO XH)))))) :: ((Npos (XI (XI (XO (XO (XO XH)))))) :: ((Npos (XI (XI
    (XO (XO (XO XH)))))) :: ((Npos (XI (XI (XO (XO (XO XH)))))) :: ((Npos (XO
    (XO (XO (XO (XI (XI (XO XH)))))))) :: ((Npos (XO (XO (XO (XO (XI (XI (XO
    XH)))))))) :: ((Npos (XO (XO (XO (XO (XI (XI (XO XH)))))))) :: ((Npos (XO
    (XO (XO (XO (XI (XI (XO XH)))))))) :: ((Npos (XO (XO (XO (XO (XI (XI (XO
    XH)))))))) :: ((Npos (XO (XO (XO (XO (XI (XI (XO XH)))))))) :: ((Npos (XO
    (XO (XO (XO (XI (XI (XO XH)))))))) :: ((Npos (XO (XO (XO (XO (XI (XI (XO
    XH)))))))) :: ((Npos (XO (XO (XO (XO (XI (XI (XO XH)))))))) :: ((Npos (XO
    (XO (XO (XO (XI (XI (XO XH)))))))) :: ((Npos (XO (XO (XO (XO (XI (XI (XO
    XH)))))))) :: ((Npos (XO (XO (XO (XO (XI (XI (XO XH)))))))) :: ((Npos (XO
    XH)) :: ((Npos (XO XH)) :: ((Npos (XO XH)) :: ((Npos (XO XH)) :: ((Npos
    (XO (XO (XI (XI (XI XH)))))) :: ((Npos (XO (XO (XI (XI (XI
    XH)))))) :: ((Npos (XO (XO (XI (XI (XI XH)))))) :: ((Npos (XO (XO (XI (XI
    (XI XH)))))) :: ((Npos (XO (XO (XI (XI (XI XH)))))) :: ((Npos (XO (XO (XI
    (XI (XI XH)))))) :: ((Npos (XO (XO (XI (XI (XI XH)))))) :: ((Npos (XO (XO
    (XI (XI (XI XH)))))) :: ((Npos (XO (XO (XI (XI (XI XH)))))) :: ((Npos (XO
    (XO (XI (XI (XI XH)))))) :: ((Npos (XO (XO (XI (XI (XI XH)))))) :: ((Npos
    (XO (XO (XI (XI (XI XH)))))) :: ((Npos (XO (XO (XI (XI (XI
    XH)))))) :: ((Npos (XO (XO (XI (XI (XI XH)))))) :: ((Npos (XO (XO (XI (XI
    (XI XH)))))) :: ((Npos (XO (XO (XI (XI (XI XH)))))) :: ((Npos (XO (XO (XI
    (XI (XI XH)))))) :: ((Npos (XO (XO (XI (XI (XI XH)))))) :: ((Npos (XO (XO
    (XI (XI (XI XH)))))) :: ((Npos (XO (XO (XI (XI (XI XH)))))) :: ((Npos (XO
    (XO (XI (XI (XI XH)))))) :: ((Npos (XO (XO (XI (XI (XI XH)))))) :: ((Npos
    (XO (XO (XI (XI (XI XH)))))) :: ((Npos (XO (XO (XI (XI (XI
    XH)))))) :: ((Npos (XO (XO (XI (XI (XI XH)))))) :: ((Npos (XO (XO (XI (XI
    (XI XH)))))) :: ((Npos (XO (XO (XI (XI (XI XH)))))) :: ((Npos (XO (XO (XI
    (XI (XI XH)))))) :: ((Npos (XO (XO (XI (XI (XI XH)))))) :: ((Npos (XO (XO
    (XI (XI (XI XH)))))) :: ((Npos (XO (XO (XI (XI (XI XH)))))) :: ((Npos (XO
    (XO (XI (XI (XI XH)))))) :: ((Npos (XO (XO (XI (XI (XI XH)))))) :: ((Npos
    (XO (XO (XI (XI (XI XH)))))) :: ((Npos (XO (XO (XI (XI (XI
    XH)))))) :: ((Npos (XO (XO (XI (XI (XI XH)))))) :: ((Npos (XO (XO (XI (XI
    (XI XH)))))) :: ((Npos (XO (XO (XI (XI (XI XH)))))) :: ((Npos (XO (XO (XI
    (XI (XI XH)))))) :: ((Npos (XO (XO (XI (XI (XI XH)))))) :: ((Npos (XO (XO
    (XI (XI (XI XH)))))) :: ((Npos (XO (XO (XI (XI (XI XH)))))) :: ((Npos (XO
    (XO (XI (XI (XI XH)))))) :: ((Npos (XO (XO (XI (XI (XI XH)))))) :: ((Npos
    (XO (XO (XI (XI (XI XH)))))) :: ((Npos (XO (XO (XI (XI (XI
    XH)))))) :: ((Npos (XO (XO (XI (XI (XI XH)))))) :: ((Npos (XO (XO (XI (XI
    (XI XH)))))) :: ((Npos (XO (XO (XI (XI (XI XH)))))) :: ((Npos (XO (XO (XI
    (XI (XI XH)))))) :: ((Npos (XO (XO (XI (XI (XI XH)))))) :: ((Npos (XO (XO
    (XI (XI (XI XH)))))) :: ((Npos (XO (XO (XI (XI (XI XH)))))) :: ((Npos (XO
    (XO (XI (XI (XI XH)))))) :: ((Npos (XO (XO (XI (XI (XI XH)))))) :: ((Npos
    (XO (XO (XI (XI (XI XH)))))) :: ((Npos (XO (XO (XI (XI (XI
    XH)))))) :: ((Npos (XO (XO (XI (XI (XI XH)))))) :: ((Npos (XO (XO (XI (XI
    (XI XH)))))) :: ((Npos (XO (XO (XI (XI (XI XH)))))) :: ((Npos (XO (XO (XI
    (XI (XI XH)))))) :: ((Npos (XO (XO (XI (XI (XI XH)))))) :: ((Npos (XO (XO
    (XI (XI (XI XH)))))) :: ((Npos (XO (XO (XO (XO (XI (XI
    XH))))))) :: (N0 :: (N0 :: (N0 :: (N0 :: (N0 :: (N0 :: (N0 :: (N0 :: (N0 :: (N0 :: (N0 :: (N0 :: (N0 :: (N0 :: (N0 :: (N0 :: (N0 :: (N0 :: (N0 :: (N0 :: (N0 :: (N0 :: (N0 :: (N0 :: (N0 :: (N0 :: (N0 :: (N0 :: (N0 :: (N0 :: (N0 :: (N0 :: (N0 :: (N0 :: (N0 :: (N0 :: (N0 :: (N0 :: (N0 :: (N0 :: (N0 :: (N0 :: (N0 :: (N0 :: (N0 :: (N0 :: (N0 :: (N0 :: (N0 :: (N0 :: (N0 :: (N0 :: (N0 :: (N0 :: (N0 :: (N0 :: (N0 :: (N0 :: (N0 :: (N0 :: (N0 :: (N0 :: (N0 :: (N0 :: (N0 :: (N0 :: (N0 :: (N0 :: (N0 :: (N0 :: (N0 :: (N0 :: (N0 :: (N0 :: (N0 :: (N0 :: (N0 :: (N0 :: (N0 :: (N0 :: (N0 :: (N0 :: (N0 :: (N0 :: (N0 :: (N0 :: (N0 :: (N0 :: (N0 :: (N0 :: (N0 :: (N0 :: (N0 :: (N0 :: (N0 :: (N0 :: (N0 :: (N0 :: (N0 :: (N0 :: (N0 :: (N0 :: (N0 :: (N0 :: (N0 :: (N0 :: (N0 :: (N0 :: (N0 :: (N0 :: (N0 :: (N0 :: (N0 :: (N0 :: (N0 :: (N0 :: (N0 :: (N0 :: (N0 :: (N0 :: (N0 :: (N0 :: (N0 :: (N0 :: (N0 :: (N0 :: (N0 :: (N0 :: [])))))))))))))))))))))))))))))))))))))))))))))))))))))))))))))))))))))))))))))))))))))))))))))))))))))))))))))))))))))))))))))))))))))))))))))))))))))))))))))))))))))))))))))))))))))))))))))))))))))))))))))))))))))))))))))))))))))))))))))))))))))))))))))))) :: (((Npos
    (XO (XO (XO (XO (XI (XI XH))))))) :: ((Npos (XO (XO (XO (XO (XI (XI
    XH))))))) :: ((Npos (XO (XO (XO (XO (XI (XI XH))))))) :: ((Npos (XO (XO
    (XO (XO (XI (XI XH))))))) :: ((Npos (XO (XO (XO (XO (XI (XI
    XH))))))) :: ((Npos (XO (XO (XO (XO (XI (XI XH))))))) :: ((Npos (XO (XO
    (XO (XO (XI (XI XH))))))) :: ((Npos (XO (XO (XO (XO (XI (XI
    XH))))))) :: ((Npos (XO (XO (XO (XO (XI (XI XH))))))) :: ((Npos (XO (XO
    (XO (XO (XI (XI XH))))))) :: ((Npos (XO (XO (XO (XO (XI (XI
    XH))))))) :: ((Npos (XO (XO (XO (XO (XI (XI XH))))))) :: ((Npos (XO (XO
    (XO (XO (XI (XI XH))))))) :: ((Npos (XO (XO (XO (XO (XI (XI
    XH))))))) :: ((Npos (XO (XO (XO (XO (XI (XI XH))))))) :: ((Npos (XO (XO
    (XO (XO (XI (XI XH))))))) :: ((Npos (XO (XO (XO (XO (XI (XI
    XH))))))) :: ((Npos (XO (XO (XO (XO (XI (XI XH))))))) :: ((Npos (XO (XO
    (XO (XO (XI (XI XH))))))) :: ((Npos (XO (XO (XO (XO (XI (XI
    XH))))))) :: ((Npos (XO (XO (XO (XO (XI (XI XH))))))) :: ((Npos (XO (XO
    (XO (XO (XI (XI XH))))))) :: ((Npos (XO (XO (XO (XO (XI (XI
    XH))))))) :: ((Npos (XO (XO (XO (XO (XI (XI XH))))))) :: (N0 :: ((Npos
    (XO (XO (XO (XO (XI (XI XH))))))) :: (N0 :: (N0 :: ((Npos (XO (XO (XO (XO
    (XI (XI XH))))))) :: ((Npos (XO (XO (XO (XO (XI (XI XH))))))) :: ((Npos
    (XO (XO (XO (XO (XI (XI XH))))))) :: ((Npos (XO (XO (XO (XO (XI (XI
    XH))))))) :: ((Npos (XI (XI (XI (XO (XO XH)))))) :: ((Npos (XI (XI (XI
    (XO (XO XH)))))) :: ((Npos (XI (XI (XI (XO (XO XH)))))) :: ((Npos (XI (XI
    (XI (XO (XO XH)))))) :: ((Npos (XI (XI (XI (XO (XO XH)))))) :: ((Npos (XI
    (XI (XI (XO (XO XH)))))) :: ((Npos (XI (XI (XI (XO (XO XH)))))) :: ((Npos
    (XI (XI (XI (XO (XO XH)))))) :: ((Npos (XI (XI (XI (XO (XO
    XH)))))) :: ((Npos (XI (XI (XI (XO (XO XH)))))) :: ((Npos (XI (XI (XI (XO
    (XO XH)))))) :: ((Npos (XI (XI (XI (XO (XO XH)))))) :: ((Npos (XI (XI (XI
    (XO (XO XH)))))) :: ((Npos (XI (XI (XI (XO (XO XH)))))) :: ((Npos (XI (XI
    (XI (XO (XO XH)))))) :: ((Npos (XI (XI (XI (XO (XO XH)))))) :: ((Npos (XO
    (XO (XO (XI (XI (XI (XO XH)))))))) :: ((Npos (XO (XO (XO (XI (XI (XI (XO
    XH)))))))) :: ((Npos (XO (XO (XO (XI (XI (XI (XO XH)))))))) :: ((Npos (XO
    (XO (XO (XI (XI (XI (XO XH)))))))) :: ((Npos (XO (XO (XO (XI (XI (XI (XO
    XH)))))))) :: ((Npos (XO (XO (XO (XI (XI (XI (XO XH)))))))) :: ((Npos (XO
    (XO (XO (XI (XI (XI (XO XH)))))))) :: ((Npos (XO (XO (XO (XI (XI (XI (XO
    XH)))))))) :: ((Npos (XO (XO (XO (XI (XI (XI (XO XH)))))))) :: ((Npos (XO
    (XO (XO (XI (XI (XI (XO XH)))))))) :: ((Npos (XO (XO (XO (XI (XI (XI (XO
    XH)))))))) :: ((Npos (XO (XO (XO (XI (XI (XI (XO XH)))))))) :: ((Npos (XO
    (XO (XO (XI (XO XH)))))) :: ((Npos (XO (XO (XO (XI (XO XH)))))) :: ((Npos
    (XO (XO (XO (XI (XO XH)))))) :: ((Npos (XO (XO (XO (XI (XO
    XH)))))) :: ((Npos (XI (XO (XO XH)))) :: ((Npos (XI (XO (XO
    XH)))) :: ((Npos (XI (XO (XO XH)))) :: ((Npos (XI (XO (XO
    XH)))) :: ((Npos (XI (XO (XO XH)))) :: ((Npos (XI (XO (XO
    XH)))) :: ((Npos (XI (XO (XO XH)))) :: ((Npos (XI (XO (XO
    XH)))) :: ((Npos (XI (XO (XO XH)))) :: ((Npos (XI (XO (XO
    XH)))) :: ((Npos (XI (XO (XO XH)))) :: ((Npos (XI (XO (XO
    XH)))) :: ((Npos (XI (XO (XO XH)))) :: ((Npos (XI (XO (XO
    XH)))) :: ((Npos (XI (XO (XO XH)))) :: ((Npos (XI (XO (XO
    XH)))) :: ((Npos (XI (XO (XO XH)))) :: ((Npos (XI (XO (XO
    XH)))) :: ((Npos (XI (XO (XO XH)))) :: ((Npos (XI (XO (XO
    XH)))) :: ((Npos (XI (XO (XO XH)))) :: ((Npos (XI (XO (XO
    XH)))) :: ((Npos (XI (XO (XO XH)))) :: ((Npos (XI (XO (XO
    XH)))) :: ((Npos (XI (XO (XO XH)))) :: ((Npos (XI (XO (XO
    XH)))) :: ((Npos (XI (XO (XO XH)))) :: ((Npos (XI (XO (XO
    XH)))) :: ((Npos (XI (XO (XO XH)))) :: ((Npos (XI (XO (XO
    XH)))) :: ((Npos (XI (XO (XO XH)))) :: ((Npos (XI (XO (XO
    XH)))) :: ((Npos (XI (XO (XO XH)))) :: ((Npos (XI (XO (XO
    XH)))) :: ((Npos (XI (XO (XO XH)))) :: ((Npos (XI (XO (XO
    XH)))) :: ((Npos (XI (XO (XO XH)))) :: ((Npos (XI (XO (XO
    XH)))) :: ((Npos (XI (XO (XO XH)))) :: ((Npos (XI (XO (XO
    XH)))) :: ((Npos (XI (XO (XO XH)))) :: ((Npos (XI (XO (XO
    XH)))) :: ((Npos (XI (XO (XO XH)))) :: ((Npos (XI (XO (XO
    XH)))) :: ((Npos (XI (XO (XO XH)))) :: ((Npos (XI (XO (XO
    XH)))) :: ((Npos (XI (XO (XO XH)))) :: ((Npos (XI (XO (XO
    XH)))) :: ((Npos (XI (XO (XO XH)))) :: ((Npos (XI (XO (XO
    XH)))) :: ((Npos (XI (XO (XO XH)))) :: ((Npos (XI (XO (XO
    XH)))) :: ((Npos (XI (XO (XO XH)))) :: ((Npos (XI (XO (XO
    XH)))) :: ((Npos (XI (XO (XO XH)))) :: ((Npos (XI (XO (XO
    XH)))) :: ((Npos (XI (XO (XO XH)))) :: ((Npos (XI (XO (XO
    XH)))) :: ((Npos (XI (XO (XO XH)))) :: ((Npos (XI (XO (XO
    XH)))) :: ((Npos (XI (XO (XO XH)))) :: ((Npos (XI (XO (XO
    XH)))) :: ((Npos (XI (XO (XO XH)))) :: ((Npos (XO (XO (XO (XO (XI (XI
    XH))))))) :: (N0 :: (N0 :: (N0 :: (N0 :: (N0 :: (N0 :: (N0 :: (N0 :: (N0 :: (N0 :: (N0 :: (N0 :: (N0 :: (N0 :: (N0 :: (N0 :: (N0 :: (N0 :: (N0 :: (N0 :: (N0 :: (N0 :: (N0 :: (N0 :: (N0 :: (N0 :: (N0 :: (N0 :: (N0 :: (N0 :: (N0 :: (N0 :: (N0 :: (N0 :: (N0 :: (N0 :: (N0 :: (N0 :: (N0 :: (N0 :: (N0 :: (N0 :: (N0 :: (N0 :: (N0 :: (N0 :: (N0 :: (N0 :: (N0 :: (N0 :: (N0 :: (N0 :: (N0 :: (N0 :: (N0 :: (N0 :: (N0 :: (N0 :: (N0 :: (N0 :: (N0 :: (N0 :: (N0 :: (N0 :: (N0 :: (N0 :: (N0 :: (N0 :: (N0 :: (N0 :: (N0 :: (N0 :: (N0 :: (N0 :: (N0 :: (N0 :: (N0 :: (N0 :: (N0 :: (N0 :: (N0 :: (N0 :: (N0 :: (N0 :: (N0 :: (N0 :: (N0 :: (N0 :: (N0 :: (N0 :: (N0 :: (N0 :: (N0 :: (N0 :: (N0 :: (N0 :: (N0 :: (N0 :: (N0 :: (N0 :: (N0 :: (N0 :: (N0 :: (N0 :: (N0 :: (N0 :: (N0 :: (N0 :: (N0 :: (N0 :: (N0 :: (N0 :: (N0 :: (N0 :: (N0 :: (N0 :: (N0 :: (N0 :: (N0 :: (N0 :: (N0 :: (N0 :: (N0 :: (N0 :: (N0 :: (N0 :: (N0 :: (N0 :: [])))))))))))))))))))))))))))))))))))))))))))))))))))))))))))))))))))))))))))))))))))))))))))))))))))))))))))))))))))))))))))))))))))))))))))))))))))))))))))))))))))))))))))))))))))))))))))))))))))))))))))))))))))))))))))))))))))))))))))))))))))))))))))))))) :: (((Npos
    (XO (XO (XO (XO (XI (XI XH))))))) :: ((Npos (XO (XO (XO (XO (XI (XI
    XH))))))) :: ((Npos (XO (XO (XO (XO (XI (XI XH))))))) :: ((Npos (XO (XO
    (XO (XO (XI (XI XH))))))) :: ((Npos (XO (XO (XO (XO (XI (XI
    XH))))))) :: ((Npos (XO (XO (XO (XO (XI (XI XH))))))) :: ((Npos (XO (XO
    (XO (XO (XI (XI XH))))))) :: ((Npos (XO (XO (XO (XO (XI (XI
    XH))))))) :: ((Npos (XO (XO (XO (XO (XI (XI XH))))))) :: ((Npos (XO (XO
    (XO (XO (XI (XI XH))))))) :: ((Npos (XO (XO (XO (XO (XI (XI
    XH))))))) :: ((Npos (XO (XO (XO (XO (XI (XI XH))))))) :: ((Npos (XO (XO
    (XO (XO (XI (XI XH))))))) :: ((Npos (XO (XO (XO (XO (XI (XI
    XH))))))) :: ((Npos (XO (XO (XO (XO (XI (XI XH))))))) :: ((Npos (XO (XO
    (XO (XO (XI (XI XH))))))) :: ((Npos (XO (XO (XO (XO (XI (XI
    XH))))))) :: ((Npos (XO (XO (XO (XO (XI (XI XH))))))) :: ((Npos (XO (XO
    (XO (XO (XI (XI XH))))))) :: ((Npos (XO (XO (XO (XO (XI (XI
    XH))))))) :: ((Npos (XO (XO (XO (XO (XI (XI XH))))))) :: ((Npos (XO (XO
    (XO (XO (XI (XI XH))))))) :: ((Npos (XO (XO (XO (XO (XI (XI
    XH))))))) :: ((Npos (XO (XO (XO (XO (XI (XI XH))))))) :: (N0 :: ((Npos
    (XO (XO (XO (XO (XI (XI XH))))))) :: (N0 :: (N0 :: ((Npos (XO (XO (XO (XO
    (XI (XI XH))))))) :: ((Npos (XO (XO (XO (XO (XI (XI XH))))))) :: ((Npos
    (XO (XO (XO (XO (XI (XI XH))))))) :: ((Npos (XO (XO (XO (XO (XI (XI
    XH))))))) :: ((Npos (XO (XO (XO (XO (XI (XI XH))))))) :: ((Npos (XO (XO
    (XO (XO (XI (XI XH))))))) :: ((Npos (XO (XO (XO (XO (XI (XI
    XH))))))) :: ((Npos (XO (XO (XO (XO (XI (XI XH))))))) :: ((Npos (XO (XO
    (XO (XO (XI (XI XH))))))) :: ((Npos (XO (XO (XO (XO (XI (XI
    XH))))))) :: ((Npos (XO (XO (XO (XO (XI (XI XH))))))) :: ((Npos (XO (XO
    (XO (XO (XI (XI XH))))))) :: ((Npos (XO (XO (XO (XO (XI (XI
    XH))))))) :: ((Npos (XO (XO (XO (XO (XI (XI XH))))))) :: ((Npos (XO (XO
    (XO (XO (XI (XI XH))))))) :: ((Npos (XO (XO (XO (XO (XI (XI
    XH))))))) :: ((Npos (XO (XO (XO (XO (XI (XI XH))))))) :: ((Npos (XO (XO
    (XO (XO (XI (XI XH))))))) :: ((Npos (XO (XO (XO (XO (XI (XI
    XH))))))) :: ((Npos (XO (XO (XO (XO (XI (XI XH))))))) :: ((Npos (XO (XO
    (XO (XO (XI (XI XH))))))) :: ((Npos (XO (XO (XO (XO (XI (XI
    XH))))))) :: ((Npos (XO (XO (XO (XO (XI (XI XH))))))) :: ((Npos (XO (XO
    (XO (XO (XI (XI XH))))))) :: ((Npos (XO (XO (XO (XO (XI (XI
    XH))))))) :: ((Npos (XO (XO (XO (XO (XI (XI XH))))))) :: ((Npos (XO (XO
    (XO (XO (XI (XI XH))))))) :: ((Npos (XO (XO (XO (XO (XI (XI
    XH))))))) :: ((Npos (XO (XO (XO (XO (XI (XI XH))))))) :: ((Npos (XO (XO
    (XO (XO (XI (XI XH))))))) :: ((Npos (XO (XO (XO (XO (XI (XI
    XH))))))) :: ((Npos (XO (XO (XO (XO (XI (XI XH))))))) :: ((Npos (XO (XO
    (XO (XO (XI (XI XH))))))) :: ((Npos (XO (XO (XO (XO (XI (XI
    XH))))))) :: ((Npos (XO (XO (XO (XO (XI (XI XH))))))) :: ((Npos (XO (XO
    (XO (XO (XI (XI XH))))))) :: ((Npos (XO (XO (XO (XO (XI (XI
    XH))))))) :: ((Npos (XO (XO (XO (XO (XI (XI XH))))))) :: ((Npos (XO (XO
    (XO (XO (XI (XI XH))))))) :: ((Npos (XO (XO (XO (XO (XI (XI
    XH))))))) :: ((Npos (XO (XO (XO (XO (XI (XI XH))))))) :: ((Npos (XO (XO
    (XO (XO (XI (XI XH))))))) :: ((Npos (XO (XO (XO (XO (XI (XI
    XH))))))) :: ((Npos (XO (XO (XO (XO (XI (XI XH))))))) :: ((Npos (XO (XO
    (XO (XO (XI (XI XH))))))) :: ((Npos (XO (XO (XO (XO (XI (XI
    XH))))))) :: ((Npos (XO (XO (XO (XO (XI (XI XH))))))) :: ((Npos (XO (XO
    (XO (XO (XI (XI XH))))))) :: ((Npos (XO (XO (XO (XO (XI (XI
    XH))))))) :: ((Npos (XO (XO (XO (XO (XI (XI XH))))))) :: ((Npos (XO (XO
    (XO (XO (XI (XI XH))))))) :: ((Npos (XO (XO (XO (XO (XI (XI
    XH))))))) :: ((Npos (XO (XO (XO (XO (XI (XI XH))))))) :: ((Npos (XO (XO
    (XO (XO (XI (XI XH))))))) :: ((Npos (XO (XO (XO (XO (XI (XI
    XH))))))) :: ((Npos (XO (XO (XO (XO (XI (XI XH))))))) :: ((Npos (XO (XO
    (XO (XO (XI (XI XH))))))) :: ((Npos (XO (XO (XO (XO (XI (XI
    XH))))))) :: ((Npos (XO (XO (XO (XO (XI (XI XH))))))) :: ((Npos (XO (XO
    (XO (XO (XI (XI XH))))))) :: ((Npos (XO (XO (XO (XO (XI (XI
    XH))))))) :: ((Npos (XO (XO (XO (XO (XI (XI XH))))))) :: ((Npos (XO (XO
    (XO (XO (XI (XI XH))))))) :: ((Npos (XO (XO (XO (XO (XI (XI
    XH))))))) :: ((Npos (XO (XO (XO (XO (XI (XI XH))))))) :: ((Npos (XO (XO
    (XO (XO (XI (XI XH))))))) :: ((Npos (XO (XO (XO (XO (XI (XI
    XH))))))) :: ((Npos (XO (XO (XO (XO (XI (XI XH))))))) :: ((Npos (XO (XO
    (XO (XO (XI (XI XH))))))) :: ((Npos (XO (XO (XO (XO (XI (XI
    XH))))))) :: ((Npos (XO (XO (XO (XO (XI (XI XH))))))) :: ((Npos (XO (XO
    (XO (XO (XI (XI XH))))))) :: ((Npos (XO (XO (XO (XO (XI (XI
    XH))))))) :: ((Npos (XO (XO (XO (XO (XI (XI XH))))))) :: ((Npos (XO (XO
    (XO (XO (XI (XI XH))))))) :: ((Npos (XO (XO (XO (XO (XI (XI
    XH))))))) :: ((Npos (XO (XO (XO (XO (XI (XI XH))))))) :: ((Npos (XO (XO
    (XO (XO (XI (XI XH))))))) :: ((Npos (XO (XO (XO (XO (XI (XI
    XH))))))) :: ((Npos (XO (XO (XO (XO (XI (XI XH))))))) :: ((Npos (XO (XO
    (XO (XO (XI (XI XH))))))) :: ((Npos (XO (XO (XO (XO (XI (XI
    XH))))))) :: ((Npos (XO (XO (XO (XO (XI (XI XH))))))) :: ((Npos (XO (XO
    (XO (XO (XI (XI XH))))))) :: ((Npos (XO (XO (XO (XO (XI (XI
    XH))))))) :: ((Npos (XO (XO (XO (XO (XI (XI XH))))))) :: ((Npos (XO (XO
    (XO (XO (XI (XI XH))))))) :: ((Npos (XO (XO (XO (XO (XI (XI
    XH))))))) :: ((Npos (XO (XO (XO (XO (XI (XI XH))))))) :: ((Npos (XO (XO
    (XO (XO (XI (XI XH))))))) :: ((Npos (XO (XO (XO (XO (XI (XI
    XH))))))) :: ((Npos (XO (XO (XO (XO (XI (XI XH))))))) :: ((Npos (XO (XO
    (XO (XO (XI (XI XH))))))) :: ((Npos (XO (XO (XO (XO (XI (XI
    XH))))))) :: ((Npos (XO (XO (XO (XO (XI (XI XH))))))) :: ((Npos (XO (XO
    (XO (XO (XI (XI XH))))))) :: ((Npos (XO (XO (XO (XO (XI (XI
    XH))))))) :: ((Npos (XO (XO (XO (XO (XI (XI XH))))))) :: ((Npos (XO (XO
    (XO (XO (XI (XI XH))))))) :: ((Npos (XO (XO (XO (XO (XI (XI
    XH))))))) :: (N0 :: (N0 :: (N0 :: (N0 :: (N0 :: (N0 :: (N0 :: (N0 :: (N0 :: (N0 :: (N0 :: (N0 :: (N0 :: (N0 :: (N0 :: (N0 :: (N0 :: (N0 :: (N0 :: (N0 :: (N0 :: (N0 :: (N0 :: (N0 :: (N0 :: (N0 :: (N0 :: (N0 :: ((Npos
    (XO (XO (XI
    XH)))) :: (N0 :: (N0 :: (N0 :: (N0 :: (N0 :: (N0 :: (N0 :: (N0 :: (N0 :: (N0 :: (N0 :: (N0 :: (N0 :: (N0 :: (N0 :: (N0 :: (N0 :: (N0 :: (N0 :: (N0 :: (N0 :: (N0 :: (N0 :: (N0 :: (N0 :: (N0 :: (N0 :: (N0 :: (N0 :: (N0 :: (N0 :: (N0 :: (N0 :: (N0 :: (N0 :: (N0 :: (N0 :: (N0 :: (N0 :: (N0 :: (N0 :: (N0 :: (N0 :: (N0 :: (N0 :: (N0 :: (N0 :: (N0 :: (N0 :: (N0 :: (N0 :: (N0 :: (N0 :: (N0 :: (N0 :: (N0 :: (N0 :: (N0 :: (N0 :: (N0 :: (N0 :: (N0 :: (N0 :: (N0 :: (N0 :: (N0 :: (N0 :: (N0 :: (N0 :: (N0 :: (N0 :: (N0 :: (N0 :: (N0 :: (N0 :: (N0 :: (N0 :: (N0 :: (N0 :: (N0 :: (N0 :: (N0 :: (N0 :: (N0 :: (N0 :: (N0 :: (N0 :: (N0 :: (N0 :: (N0 :: (N0 :: (N0 :: (N0 :: (N0 :: (N0 :: (N0 :: (N0 :: (N0 :: (N0 :: [])))))))))))))))))))))))))))))))))))))))))))))))))))))))))))))))))))))))))))))))))))))))))))))))))))))))))))))))))))))))))))))))))))))))))))))))))))))))))))))))))))))))))))))))))))))))))))))))))))))))))))))))))))))))))))))))))))))))))))))))))))))))))))))))) :: (((Npos
    (XO (XO (XO (XO (XI (XI XH))))))) :: ((Npos (XO (XO (XO (XO (XI (XI
    XH))))))) :: ((Npos (XO (XO (XO (XO (XI (XI XH))))))) :: ((Npos (XO (XO
    (XO (XO (XI (XI XH))))))) :: ((Npos (XO (XO (XO (XO (XI (XI
    XH))))))) :: ((Npos (XO (XO (XO (XO (XI (XI XH))))))) :: ((Npos (XO (XO
    (XO (XO (XI (XI XH))))))) :: ((Npos (XO (XO (XO (XO (XI (XI
    XH))))))) :: ((Npos (XO (XO (XO (XO (XI (XI XH))))))) :: ((Npos (XO (XO
    (XO (XO (XI (XI XH))))))) :: ((Npos (XO (XO (XO (XO (XI (XI
    XH))))))) :: ((Npos (XO (XO (XO (XO (XI (XI XH))))))) :: ((Npos (XO (XO
    (XO (XO (XI (XI XH))))))) :: ((Npos (XO (XO (XO (XO (XI (XI
    XH))))))) :: ((Npos (XO (XO (XO (XO (XI (XI XH))))))) :: ((Npos (XO (XO
    (XO (XO (XI (XI XH))))))) :: ((Npos (XO (XO (XO (XO (XI (XI
    XH))))))) :: ((Npos (XO (XO (XO (XO (XI (XI XH))))))) :: ((Npos (XO (XO
    (XO (XO (XI (XI XH))))))) :: ((Npos (XO (XO (XO (XO (XI (XI
    XH))))))) :: ((Npos (XO (XO (XO (XO (XI (XI XH))))))) :: ((Npos (XO (XO
    (XO (XO (XI (XI XH))))))) :: ((Npos (XO (XO (XO (XO (XI (XI
    XH))))))) :: ((Npos (XO (XO (XO (XO (XI (XI XH))))))) :: (N0 :: ((Npos
    (XO (XO (XO (XO (XI (XI XH))))))) :: (N0 :: (N0 :: ((Npos (XO (XO (XO (XO
    (XI (XI XH))))))) :: ((Npos (XO (XO (XO (XO (XI (XI XH))))))) :: ((Npos
    (XO (XO (XO (XO (XI (XI XH))))))) :: ((Npos (XO (XO (XO (XO (XI (XI
    XH))))))) :: ((Npos (XO (XO (XO (XO (XO XH)))))) :: ((Npos (XO (XO (XO
    (XO (XO XH)))))) :: ((Npos (XO (XO (XO (XO (XO XH)))))) :: ((Npos (XO (XO
    (XO (XO (XO XH)))))) :: ((Npos (XO (XO (XO (XO (XO XH)))))) :: ((Npos (XO
    (XO (XO (XO (XO XH)))))) :: ((Npos (XO (XO (XO (XO (XO XH)))))) :: ((Npos
    (XO (XO (XO (XO (XO XH)))))) :: ((Npos (XO (XO (XO (XO (XO
    XH)))))) :: ((Npos (XO (XO (XO (XO (XO XH)))))) :: ((Npos (XO (XO (XO (XO
    (XO XH)))))) :: ((Npos (XO (XO (XO (XO (XO XH)))))) :: ((Npos (XO (XO (XO
    (XO (XO XH)))))) :: ((Npos (XO (XO (XO (XO (XO XH)))))) :: ((Npos (XO (XO
    (XO (XO (XO XH)))))) :: ((Npos (XO (XO (XO (XO (XO XH)))))) :: ((Npos (XO
    (XI XH))) :: ((Npos (XO (XI XH))) :: ((Npos (XO (XI XH))) :: ((Npos (XO
    (XI XH))) :: ((Npos (XO (XI XH))) :: ((Npos (XO (XI XH))) :: ((Npos (XO
    (XI XH))) :: ((Npos (XO (XI XH))) :: ((Npos (XO (XI XH))) :: ((Npos (XO
    (XI XH))) :: ((Npos (XO (XI XH))) :: ((Npos (XO (XI XH))) :: ((Npos (XO
    (XI XH))) :: ((Npos (XO (XI XH))) :: ((Npos (XO (XI XH))) :: ((Npos (XO
    (XI XH))) :: ((Npos (XI (XO (XO XH)))) :: ((Npos (XI (XO (XO
    XH)))) :: ((Npos (XI (XO (XO XH)))) :: ((Npos (XI (XO (XO
    XH)))) :: ((Npos (XI (XO (XO XH)))) :: ((Npos (XI (XO (XO
    XH)))) :: ((Npos (XI (XO (XO XH)))) :: ((Npos (XI (XO (XO
    XH)))) :: ((Npos (XI (XO (XO XH)))) :: ((Npos (XI (XO (XO
    XH)))) :: ((Npos (XI (XO (XO XH)))) :: ((Npos (XI (XO (XO
    XH)))) :: ((Npos (XI (XO (XO XH)))) :: ((Npos (XI (XO (XO
    XH)))) :: ((Npos (XI (XO (XO XH)))) :: ((Npos (XI (XO (XO
    XH)))) :: ((Npos (XI (XO (XO XH)))) :: ((Npos (XI (XO (XO
    XH)))) :: ((Npos (XI (XO (XO XH)))) :: ((Npos (XI (XO (XO
    XH)))) :: ((Npos (XI (XO (XO XH)))) :: ((Npos (XI (XO (XO
    XH)))) :: ((Npos (XI (XO (XO XH)))) :: ((Npos (XI (XO (XO
    XH)))) :: ((Npos (XI (XO (XO XH)))) :: ((Npos (XI (XO (XO
    XH)))) :: ((Npos (XI (XO (XO XH)))) :: ((Npos (XI (XO (XO
    XH)))) :: ((Npos (XI (XO (XO XH)))) :: ((Npos (XI (XO (XO
    XH)))) :: ((Npos (XI (XO (XO XH)))) :: ((Npos (XI (XO (XO
    XH)))) :: ((Npos (XI (XO (XO XH)))) :: ((Npos (XI (XO (XO
    XH)))) :: ((Npos (XI (XO (XO XH)))) :: ((Npos (XI (XO (XO
    XH)))) :: ((Npos (XI (XO (XO XH)))) :: ((Npos (XI (XO (XO
    XH)))) :: ((Npos (XI (XO (XO XH)))) :: ((Npos (XI (XO (XO
    XH)))) :: ((Npos (XI (XO (XO XH)))) :: ((Npos (XI (XO (XO
    XH)))) :: ((Npos (XI (XO (XO XH)))) :: ((Npos (XI (XO (XO
    XH)))) :: ((Npos (XI (XO (XO XH)))) :: ((Npos (XI (XO (XO
    XH)))) :: ((Npos (XI (XO (XO XH)))) :: ((Npos (XI (XO (XO
    XH)))) :: ((Npos (XI (XO (XO XH)))) :: ((Npos (XI (XO (XO
    XH)))) :: ((Npos (XI (XO (XO XH)))) :: ((Npos (XI (XO (XO
    XH)))) :: ((Npos (XI (XO (XO XH)))) :: ((Npos (XI (XO (XO
    XH)))) :: ((Npos (XI (XO (XO XH)))) :: ((Npos (XI (XO (XO
    XH)))) :: ((Npos (XI (XO (XO XH)))) :: ((Npos (XI (XO (XO
    XH)))) :: ((Npos (XI (XO (XO XH)))) :: ((Npos (XI (XO (XO
    XH)))) :: ((Npos (XI (XO (XO XH)))) :: ((Npos (XI (XO (XO
    XH)))) :: ((Npos (XI (XO (XO XH)))) :: ((Npos (XO (XO (XO (XO (XI (XI
    XH))))))) :: (N0 :: (N0 :: (N0 :: (N0 :: (N0 :: (N0 :: (N0 :: (N0 :: (N0 :: (N0 :: (N0 :: (N0 :: (N0 :: (N0 :: (N0 :: (N0 :: (N0 :: (N0 :: (N0 :: (N0 :: (N0 :: (N0 :: (N0 :: (N0 :: (N0 :: (N0 :: (N0 :: (N0 :: (N0 :: (N0 :: (N0 :: (N0 :: (N0 :: (N0 :: (N0 :: (N0 :: (N0 :: (N0 :: (N0 :: (N0 :: (N0 :: (N0 :: (N0 :: (N0 :: (N0 :: (N0 :: (N0 :: (N0 :: (N0 :: (N0 :: (N0 :: (N0 :: (N0 :: (N0 :: (N0 :: (N0 :: (N0 :: (N0 :: (N0 :: (N0 :: (N0 :: (N0 :: (N0 :: (N0 :: (N0 :: (N0 :: (N0 :: (N0 :: (N0 :: (N0 :: (N0 :: (N0 :: (N0 :: (N0 :: (N0 :: (N0 :: (N0 :: (N0 :: (N0 :: (N0 :: (N0 :: (N0 :: (N0 :: (N0 :: (N0 :: (N0 :: (N0 :: (N0 :: (N0 :: (N0 :: (N0 :: (N0 :: (N0 :: (N0 :: (N0 :: (N0 :: (N0 :: (N0 :: (N0 :: (N0 :: (N0 :: (N0 :: (N0 :: (N0 :: (N0 :: (N0 :: (N0 :: (N0 :: (N0 :: (N0 :: (N0 :: (N0 :: (N0 :: (N0 :: (N0 :: (N0 :: (N0 :: (N0 :: (N0 :: (N0 :: (N0 :: (N0 :: (N0 :: (N0 :: (N0 :: (N0 :: (N0 :: (N0 :: [])))))))))))))))))))))))))))))))))))))))))))))))))))))))))))))))))))))))))))))))))))))))))))))))))))))))))))))))))))))))))))))))))))))))))))))))))))))))))))))))))))))))))))))))))))))))))))))))))))))))))))))))))))))))))))))))))))))))))))))))))))))))))))))))) :: (((Npos
    (XO (XO (XO (XO (XI (XI XH))))))) :: ((Npos (XO (XO (XO (XO (XI (XI
    XH))))))) :: ((Npos (XO (XO (XO (XO (XI (XI XH))))))) :: ((Npos (XO (XO
    (XO (XO (XI (XI XH))))))) :: ((Npos (XO (XO (XO (XO (XI (XI
    XH))))))) :: ((Npos (XO (XO (XO (XO (XI (XI XH))))))) :: ((Npos (XO (XO
    (XO (XO (XI (XI XH))))))) :: ((Npos (XO (XO (XO (XO (XI (XI
    XH))))))) :: ((Npos (XO (XO (XO (XO (XI (XI XH))))))) :: ((Npos (XO (XO
    (XO (XO (XI (XI XH))))))) :: ((Npos (XO (XO (XO (XO (XI (XI
    XH))))))) :: ((Npos (XO (XO (XO (XO (XI (XI XH))))))) :: ((Npos (XO (XO
    (XO (XO (XI (XI XH))))))) :: ((Npos (XO (XO (XO (XO (XI (XI
    XH))))))) :: ((Npos (XO (XO (XO (XO (XI (XI XH))))))) :: ((Npos (XO (XO
    (XO (XO (XI (XI XH))))))) :: ((Npos (XO (XO (XO (XO (XI (XI
    XH))))))) :: ((Npos (XO (XO (XO (XO (XI (XI XH))))))) :: ((Npos (XO (XO
    (XO (XO (XI (XI XH))))))) :: ((Npos (XO (XO (XO (XO (XI (XI
    XH))))))) :: ((Npos (XO (XO (XO (XO (XI (XI XH))))))) :: ((Npos (XO (XO
    (XO (XO (XI (XI XH))))))) :: ((Npos (XO (XO (XO (XO (XI (XI
    XH))))))) :: ((Npos (XO (XO (XO (XO (XI (XI XH))))))) :: (N0 :: ((Npos
    (XO (XO (XO (XO (XI (XI XH))))))) :: (N0 :: (N0 :: ((Npos (XO (XO (XO (XO
    (XI (XI XH))))))) :: ((Npos (XO (XO (XO (XO (XI (XI XH))))))) :: ((Npos
    (XO (XO (XO (XO (XI (XI XH))))))) :: ((Npos (XO (XO (XO (XO (XI (XI
    XH))))))) :: ((Npos (XI (XI (XI (XO (XO XH)))))) :: ((Npos (XI (XI (XI
    (XO (XO XH)))))) :: ((Npos (XI (XI (XI (XO (XO XH)))))) :: ((Npos (XI (XI
    (XI (XO (XO XH)))))) :: ((Npos (XI (XI (XI (XO (XO XH)))))) :: ((Npos (XI
    (XI (XI (XO (XO XH)))))) :: ((Npos (XI (XI (XI (XO (XO XH)))))) :: ((Npos
    (XI (XI (XI (XO (XO XH)))))) :: ((Npos (XI (XI (XI (XO (XO
    XH)))))) :: ((Npos (XI (XI (XI (XO (XO XH)))))) :: ((Npos (XI (XI (XI (XO
    (XO XH)))))) :: ((Npos (XI (XI (XI (XO (XO XH)))))) :: ((Npos (XI (XI (XI
    (XO (XO XH)))))) :: ((Npos (XI (XI (XI (XO (XO XH)))))) :: ((Npos (XI (XI
    (XI (XO (XO XH)))))) :: ((Npos (XI (XI (XI (XO (XO XH)))))) :: ((Npos (XO
    (XO (XO (XO (XI (XI (XO XH)))))))) :: ((Npos (XO (XO (XO (XO (XI (XI (XO
    XH)))))))) :: ((Npos (XO (XO (XO (XO (XI (XI (XO XH)))))))) :: ((Npos (XO
    (XO (XO (XO (XI (XI (XO XH)))))))) :: ((Npos (XO (XO (XO (XO (XI (XI (XO
    XH)))))))) :: ((Npos (XO (XO (XO (XO (XI (XI (XO XH)))))))) :: ((Npos (XO
    (XO (XO (XO (XI (XI (XO XH)))))))) :: ((Npos (XO (XO (XO (XO (XI (XI (XO
    XH)))))))) :: ((Npos (XO (XO (XO (XO (XI (XI (XO XH)))))))) :: ((Npos (XO
    (XO (XO (XO (XI (XI (XO XH)))))))) :: ((Npos (XO (XO (XO (XO (XI (XI (XO
    XH)))))))) :: ((Npos (XO (XO (XO (XO (XI (XI (XO XH)))))))) :: ((Npos (XO
    (XI XH))) :: ((Npos (XO (XI XH))) :: ((Npos (XO (XI XH))) :: ((Npos (XO
    (XI XH))) :: ((Npos (XI (XO (XO XH)))) :: ((Npos (XI (XO (XO
    XH)))) :: ((Npos (XI (XO (XO XH)))) :: ((Npos (XI (XO (XO
    XH)))) :: ((Npos (XI (XO (XO XH)))) :: ((Npos (XI (XO (XO
    XH)))) :: ((Npos (XI (XO (XO XH)))) :: ((Npos (XI (XO (XO
    XH)))) :: ((Npos (XI (XO (XO XH)))) :: ((Npos (XI (XO (XO
    XH)))) :: ((Npos (XI (XO (XO XH)))) :: ((Npos (XI (XO (XO
    XH)))) :: ((Npos (XI (XO (XO XH)))) :: ((Npos (XI (XO (XO
    XH)))) :: ((Npos (XI (XO (XO XH)))) :: ((Npos (XI (XO (XO
    XH)))) :: ((Npos (XI (XO (XO XH)))) :: ((Npos (XI (XO (XO
    XH)))) :: ((Npos (XI (XO (XO XH)))) :: ((Npos (XI (XO (XO
    XH)))) :: ((Npos (XI (XO (XO XH)))) :: ((Npos (XI (XO (XO
    XH)))) :: ((Npos (XI (XO (XO XH)))) :: ((Npos (XI (XO (XO
    XH)))) :: ((Npos (XI (XO (XO XH)))) :: ((Npos (XI (XO (XO
    XH)))) :: ((Npos (XI (XO (XO XH)))) :: ((Npos (XI (XO (XO
    XH)))) :: ((Npos (XI (XO (XO XH)))) :: ((Npos (XI (XO (XO
    XH)))) :: ((Npos (XI (XO (XO XH)))) :: ((Npos (XI (XO (XO
    XH)))) :: ((Npos (XI (XO (XO XH)))) :: ((Npos (XI (XO (XO
    XH)))) :: ((Npos (XI (XO (XO XH)))) :: ((Npos (XI (XO (XO
    XH)))) :: ((Npos (XI (XO (XO XH)))) :: ((Npos (XI (XO (XO
    XH)))) :: ((Npos (XI (XO (XO XH)))) :: ((Npos (XI (XO (XO
    XH)))) :: ((Npos (XI (XO (XO XH)))) :: ((Npos (XI (XO (XO
    XH)))) :: ((Npos (XI (XO (XO XH)))) :: ((Npos (XI (XO (XO
    XH)))) :: ((Npos (XI (XO (XO XH)))) :: ((Npos (XI (XO (XO
    XH)))) :: ((Npos (XI (XO (XO XH)))) :: ((Npos (XI (XO (XO
    XH)))) :: ((Npos (XI (XO (XO XH)))) :: ((Npos (XI (XO (XO
    XH)))) :: ((Npos (XI (XO (XO XH)))) :: ((Npos (XI (XO (XO
    XH)))) :: ((Npos (XI (XO (XO XH)))) :: ((Npos (XI (XO (XO
    XH)))) :: ((Npos (XI (XO (XO XH)))) :: ((Npos (XI (XO (XO
    XH)))) :: ((Npos (XI (XO (XO XH)))) :: ((Npos (XI (XO (XO
    XH)))) :: ((Npos (XI (XO (XO XH)))) :: ((Npos (XI (XO (XO
    XH)))) :: ((Npos (XI (XO (XO XH)))) :: ((Npos (XI (XO (XO
    XH)))) :: ((Npos (XI (XO (XO XH)))) :: ((Npos (XO (XO (XO (XO (XI (XI
    XH))))))) :: (N0 :: (N0 :: (N0 :: (N0 :: (N0 :: (N0 :: (N0 :: (N0 :: (N0 :: (N0 :: (N0 :: (N0 :: (N0 :: (N0 :: (N0 :: (N0 :: (N0 :: (N0 :: (N0 :: (N0 :: (N0 :: (N0 :: (N0 :: (N0 :: (N0 :: (N0 :: (N0 :: (N0 :: (N0 :: (N0 :: (N0 :: (N0 :: (N0 :: (N0 :: (N0 :: (N0 :: (N0 :: (N0 :: (N0 :: (N0 :: (N0 :: (N0 :: (N0 :: (N0 :: (N0 :: (N0 :: (N0 :: (N0 :: (N0 :: (N0 :: (N0 :: (N0 :: (N0 :: (N0 :: (N0 :: (N0 :: (N0 :: (N0 :: (N0 :: (N0 :: (N0 :: (N0 :: (N0 :: (N0 :: (N0 :: (N0 :: (N0 :: (N0 :: (N0 :: (N0 :: (N0 :: (N0 :: (N0 :: (N0 :: (N0 :: (N0 :: (N0 :: (N0 :: (N0 :: (N0 :: (N0 :: (N0 :: (N0 :: (N0 :: (N0 :: (N0 :: (N0 :: (N0 :: (N0 :: (N0 :: (N0 :: (N0 :: (N0 :: (N0 :: (N0 :: (N0 :: (N0 :: (N0 :: (N0 :: (N0 :: (N0 :: (N0 :: (N0 :: (N0 :: (N0 :: (N0 :: (N0 :: (N0 :: (N0 :: (N0 :: (N0 :: (N0 :: (N0 :: (N0 :: (N0 :: (N0 :: (N0 :: (N0 :: (N0 :: (N0 :: (N0 :: (N0 :: (N0 :: (N0 :: (N0 :: (N0 :: (N0 :: (N0 :: [])))))))))))))))))))))))))))))))))))))))))))))))))))))))))))))))))))))))))))))))))))))))))))))))))))))))))))))))))))))))))))))))))))))))))))))))))))))))))))))))))))))))))))))))))))))))))))))))))))))))))))))))))))))))))))))))))))))))))))))))))))))))))))))))) :: (((Npos
    (XO (XO (XO (XO (XI (XO (XI XH)))))))) :: ((Npos (XO (XO (XO (XO (XI (XO
    (XI XH)))))))) :: ((Npos (XO (XO (XO (XO (XI (XO (XI XH)))))))) :: ((Npos
    (XO (XO (XO (XO (XI (XO (XI XH)))))))) :: ((Npos (XO (XO (XO (XO (XI (XO
    (XI XH)))))))) :: ((Npos (XO (XO (XO (XO (XI (XO (XI XH)))))))) :: ((Npos
    (XO (XO (XO (XO (XI (XO (XI XH)))))))) :: ((Npos (XO (XO (XO (XO (XI (XO
    (XI XH)))))))) :: ((Npos (XO (XO (XO (XO (XI (XO (XI XH)))))))) :: ((Npos
    (XO (XO (XO (XO (XI (XO (XI XH)))))))) :: ((Npos (XO (XO (XO (XO (XI (XO
    (XI XH)))))))) :: ((Npos (XO (XO (XO (XO (XI (XO (XI XH)))))))) :: ((Npos
    (XO (XO (XO (XO (XI (XO (XI XH)))))))) :: ((Npos (XO (XO (XO (XO (XI (XO
    (XI XH)))))))) :: ((Npos (XO (XO (XO (XO (XI (XO (XI XH)))))))) :: ((Npos
    (XO (XO (XO (XO (XI (XO (XI XH)))))))) :: ((Npos (XO (XO (XO (XO (XI (XO
    (XI XH)))))))) :: ((Npos (XO (XO (XO (XO (XI (XO (XI XH)))))))) :: ((Npos
    (XO (XO (XO (XO (XI (XO (XI XH)))))))) :: ((Npos (XO (XO (XO (XO (XI (XO
    (XI XH)))))))) :: ((Npos (XO (XO (XO (XO (XI (XO (XI XH)))))))) :: ((Npos
    (XO (XO (XO (XO (XI (XO (XI XH)))))))) :: ((Npos (XO (XO (XO (XO (XI (XO
    (XI XH)))))))) :: ((Npos (XO (XO (XO (XO (XI (XO (XI
    XH)))))))) :: (N0 :: ((Npos (XO (XO (XO (XO (XI (XO (XI
    XH)))))))) :: (N0 :: (N0 :: ((Npos (XO (XO (XO (XO (XI (XO (XI
    XH)))))))) :: ((Npos (XO (XO (XO (XO (XI (XO (XI XH)))))))) :: ((Npos (XO
    (XO (XO (XO (XI (XO (XI XH)))))))) :: ((Npos (XO (XO (XO (XO (XI (XO (XI
    XH)))))))) :: ((Npos (XO (XO (XO (XO (XI (XO (XI XH)))))))) :: ((Npos (XO
    (XO (XO (XO (XI (XO (XI XH)))))))) :: ((Npos (XO (XO (XO (XO (XI (XO (XI
    XH)))))))) :: ((Npos (XO (XO (XO (XO (XI (XO (XI XH)))))))) :: ((Npos (XO
    (XO (XO (XO (XI (XO (XI XH)))))))) :: ((Npos (XO (XO (XO (XO (XI (XO (XI
    XH)))))))) :: ((Npos (XO (XO (XO (XO (XI (XO (XI XH)))))))) :: ((Npos (XO
    (XO (XO (XO (XI (XO (XI XH)))))))) :: ((Npos (XO (XO (XO (XO (XI (XO (XI
    XH)))))))) :: ((Npos (XO (XO (XO (XO (XI (XO (XI XH)))))))) :: ((Npos (XO
    (XO (XO (XO (XI (XO (XI XH)))))))) :: ((Npos (XO (XO (XO (XO (XI (XO (XI
    XH)))))))) :: ((Npos (XO (XO (XO (XO (XI (XO (XI XH)))))))) :: ((Npos (XO
    (XO (XO (XO (XI (XO (XI XH)))))))) :: ((Npos (XO (XO (XO (XO (XI (XO (XI
    XH)))))))) :: ((Npos (XO (XO (XO (XO (XI (XO (XI XH)))))))) :: ((Npos (XO
    (XO (XO (XO (XI (XO (XI XH)))))))) :: ((Npos (XO (XO (XO (XO (XI (XO (XI
    XH)))))))) :: ((Npos (XO (XO (XO (XO (XI (XO (XI XH)))))))) :: ((Npos (XO
    (XO (XO (XO (XI (XO (XI XH)))))))) :: ((Npos (XO (XO (XO (XO (XI (XO (XI
    XH)))))))) :: ((Npos (XO (XO (XO (XO (XI (XO (XI XH)))))))) :: ((Npos (XO
    (XO (XO (XO (XI (XO (XI XH)))))))) :: ((Npos (XO (XO (XO (XO (XI (XO (XI
    XH)))))))) :: ((Npos (XO (XO (XO (XO (XI (XO (XI XH)))))))) :: ((Npos (XO
    (XO (XO (XO (XI (XO (XI XH)))))))) :: ((Npos (XO (XO (XO (XO (XI (XO (XI
    XH)))))))) :: ((Npos (XO (XO (XO (XO (XI (XO (XI XH)))))))) :: ((Npos (XO
    (XO (XO (XO (XI (XO (XI XH)))))))) :: ((Npos (XO (XO (XO (XO (XI (XO (XI
    XH)))))))) :: ((Npos (XO (XO (XO (XO (XI (XO (XI XH)))))))) :: ((Npos (XO
    (XO (XO (XO (XI (XO (XI XH)))))))) :: ((Npos (XO (XO (XO (XO (XI (XO (XI
    XH)))))))) :: ((Npos (XO (XO (XO (XO (XI (XO (XI XH)))))))) :: ((Npos (XO
    (XO (XO (XO (XI (XO (XI XH)))))))) :: ((Npos (XO (XO (XO (XO (XI (XO (XI
    XH)))))))) :: ((Npos (XO (XO (XO (XO (XI (XO (XI XH)))))))) :: ((Npos (XO
    (XO (XO (XO (XI (XO (XI XH)))))))) :: ((Npos (XO (XO (XO (XO (XI (XO (XI
    XH)))))))) :: ((Npos (XO (XO (XO (XO (XI (XO (XI XH)))))))) :: ((Npos (XO
    (XO (XO (XO (XI (XO (XI XH)))))))) :: ((Npos (XO (XO (XO (XO (XI (XO (XI
    XH)))))))) :: ((Npos (XO (XO (XO (XO (XI (XO (XI XH)))))))) :: ((Npos (XO
    (XO (XO (XO (XI (XO (XI XH)))))))) :: ((Npos (XO (XO (XO (XO (XI (XO (XI
    XH)))))))) :: ((Npos (XO (XO (XO (XO (XI (XO (XI XH)))))))) :: ((Npos (XO
    (XO (XO (XO (XI (XO (XI XH)))))))) :: ((Npos (XO (XO (XO (XO (XI (XO (XI
    XH)))))))) :: ((Npos (XO (XO (XO (XO (XI (XO (XI XH)))))))) :: ((Npos (XO
    (XO (XO (XO (XI (XO (XI XH)))))))) :: ((Npos (XO (XO (XO (XO (XI (XO (XI
    XH)))))))) :: ((Npos (XO (XO (XO (XO (XI (XO (XI XH)))))))) :: ((Npos (XO
    (XO (XO (XO (XI (XO (XI XH)))))))) :: ((Npos (XO (XO (XO (XO (XI (XO (XI
    XH)))))))) :: ((Npos (XO (XO (XO (XO (XI (XO (XI XH)))))))) :: ((Npos (XO
    (XO (XO (XO (XI (XO (XI XH)))))))) :: ((Npos (XO (XO (XO (XO (XI (XO (XI
    XH)))))))) :: ((Npos (XO (XO (XO (XO (XI (XO (XI XH)))))))) :: ((Npos (XO
    (XO (XO (XO (XI (XO (XI XH)))))))) :: ((Npos (XO (XO (XO (XO (XI (XO (XI
    XH)))))))) :: ((Npos (XO (XO (XO (XO (XI (XO (XI XH)))))))) :: ((Npos (XO
    (XO (XO (XO (XI (XO (XI XH)))))))) :: ((Npos (XO (XO (XO (XO (XI (XO (XI
    XH)))))))) :: ((Npos (XO (XO (XO (XO (XI (XO (XI XH)))))))) :: ((Npos (XO
    (XO (XO (XO (XI (XO (XI XH)))))))) :: ((Npos (XO (XO (XO (XO (XI (XO (XI
    XH)))))))) :: ((Npos (XO (XO (XO (XO (XI (XO (XI XH)))))))) :: ((Npos (XO
    (XO (XO (XO (XI (XO (XI XH)))))))) :: ((Npos (XO (XO (XO (XO (XI (XO (XI
    XH)))))))) :: ((Npos (XO (XO (XO (XO (XI (XO (XI XH)))))))) :: ((Npos (XO
    (XO (XO (XO (XI (XO (XI XH)))))))) :: ((Npos (XO (XO (XO (XO (XI (XO (XI
    XH)))))))) :: ((Npos (XO (XO (XO (XO (XI (XO (XI XH)))))))) :: ((Npos (XO
    (XO (XO (XO (XI (XO (XI XH)))))))) :: ((Npos (XO (XO (XO (XO (XI (XO (XI
    XH)))))))) :: ((Npos (XO (XO (XO (XO (XI (XO (XI XH)))))))) :: ((Npos (XO
    (XO (XO (XO (XI (XO (XI XH)))))))) :: ((Npos (XO (XO (XO (XO (XI (XO (XI
    XH)))))))) :: ((Npos (XO (XO (XO (XO (XI (XO (XI XH)))))))) :: ((Npos (XO
    (XO (XO (XO (XI (XO (XI XH)))))))) :: ((Npos (XO (XO (XO (XO (XI (XO (XI
    XH)))))))) :: ((Npos (XO (XO (XO (XO (XI (XO (XI XH)))))))) :: ((Npos (XO
    (XO (XO (XO (XI (XO (XI XH)))))))) :: ((Npos (XO (XO (XO (XO (XI (XO (XI
    XH)))))))) :: ((Npos (XO (XO (XO (XO (XI (XO (XI XH)))))))) :: ((Npos (XO
    (XO (XO (XO (XI (XO (XI XH)))))))) :: ((Npos (XO (XO (XO (XO (XI (XO (XI
    XH)))))))) :: ((Npos (XO (XO (XO (XO (XI (XO (XI XH)))))))) :: ((Npos (XO
    (XO (XO (XO (XI (XO (XI XH)))))))) :: ((Npos (XO (XO (XO (XO (XI (XO (XI
    XH)))))))) :: ((Npos (XO (XO (XO (XO (XI (XO (XI XH)))))))) :: ((Npos (XO
    (XO (XO (XO (XI (XO (XI XH)))))))) :: ((Npos (XO (XO (XO (XO (XI (XO (XI
    XH)))))))) :: ((Npos (XO (XO (XO (XO (XI (XO (XI XH)))))))) :: ((Npos (XO
    (XO (XO (XO (XI (XO (XI XH)))))))) :: ((Npos (XO (XO (XO (XO (XI (XI
    XH))))))) :: (N0 :: (N0 :: (N0 :: (N0 :: (N0 :: (N0 :: (N0 :: (N0 :: (N0 :: (N0 :: (N0 :: (N0 :: (N0 :: (N0 :: (N0 :: (N0 :: (N0 :: (N0 :: (N0 :: (N0 :: (N0 :: (N0 :: (N0 :: (N0 :: (N0 :: (N0 :: (N0 :: (N0 :: ((Npos
    (XO (XO (XI
    XH)))) :: (N0 :: (N0 :: (N0 :: (N0 :: (N0 :: (N0 :: (N0 :: (N0 :: (N0 :: (N0 :: (N0 :: (N0 :: (N0 :: (N0 :: (N0 :: (N0 :: (N0 :: (N0 :: (N0 :: (N0 :: (N0 :: (N0 :: (N0 :: (N0 :: (N0 :: (N0 :: (N0 :: (N0 :: (N0 :: (N0 :: (N0 :: (N0 :: (N0 :: (N0 :: (N0 :: (N0 :: (N0 :: (N0 :: (N0 :: (N0 :: (N0 :: (N0 :: (N0 :: (N0 :: (N0 :: (N0 :: (N0 :: (N0 :: (N0 :: (N0 :: (N0 :: (N0 :: (N0 :: (N0 :: (N0 :: (N0 :: (N0 :: (N0 :: (N0 :: (N0 :: (N0 :: (N0 :: (N0 :: (N0 :: (N0 :: (N0 :: (N0 :: (N0 :: (N0 :: (N0 :: (N0 :: (N0 :: (N0 :: (N0 :: (N0 :: (N0 :: (N0 :: (N0 :: (N0 :: (N0 :: (N0 :: (N0 :: (N0 :: (N0 :: (N0 :: (N0 :: (N0 :: (N0 :: (N0 :: (N0 :: (N0 :: (N0 :: (N0 :: (N0 :: (N0 :: (N0 :: (N0 :: (N0 :: (N0 :: [])))))))))))))))))))))))))))))))))))))))))))))))))))))))))))))))))))))))))))))))))))))))))))))))))))))))))))))))))))))))))))))))))))))))))))))))))))))))))))))))))))))))))))))))))))))))))))))))))))))))))))))))))))))))))))))))))))))))))))))))))))))))))))))))) :: (((Npos
    (XO (XO (XO (XO (XI (XO XH))))))) :: ((Npos (XO (XO (XO (XO (XI (XO
    XH))))))) :: ((Npos (XO (XO (XO (XO (XI (XO XH))))))) :: ((Npos (XO (XO
    (XO (XO (XI (XO XH))))))) :: ((Npos (XO (XO (XO (XO (XI (XO
    XH))))))) :: ((Npos (XO (XO (XO (XO (XI (XO XH))))))) :: ((Npos (XO (XO
    (XO (XO (XI (XO XH))))))) :: ((Npos (XO (XO (XO (XO (XI (XO
    XH))))))) :: ((Npos (XO (XO (XO (XO (XI (XO XH))))))) :: ((Npos (XO (XO
    (XO (XO (XI (XO XH))))))) :: ((Npos (XO (XO (XO (XO (XI (XO
    XH))))))) :: ((Npos (XO (XO (XO (XO (XI (XO XH))))))) :: ((Npos (XO (XO
    (XO (XO (XI (XO XH))))))) :: ((Npos (XO (XO (XO (XO (XI (XO
    XH))))))) :: ((Npos (XO (XO (XO (XO (XI (XO XH))))))) :: ((Npos (XO (XO
    (XO (XO (XI (XO XH))))))) :: ((Npos (XO (XO (XO (XO (XI (XO
    XH))))))) :: ((Npos (XO (XO (XO (XO (XI (XO XH))))))) :: ((Npos (XO (XO
    (XO (XO (XI (XO XH))))))) :: ((Npos (XO (XO (XO (XO (XI (XO
    XH))))))) :: ((Npos (XO (XO (XO (XO (XI (XO XH))))))) :: ((Npos (XO (XO
    (XO (XO (XI (XO XH))))))) :: ((Npos (XO (XO (XO (XO (XI (XO
    XH))))))) :: ((Npos (XO (XO (XO (XO (XI (XO XH))))))) :: (N0 :: ((Npos
    (XO (XO (XO (XO (XI (XO XH))))))) :: (N0 :: (N0 :: ((Npos (XO (XO (XO (XO
    (XI (XO XH))))))) :: ((Npos (XO (XO (XO (XO (XI (XO XH))))))) :: ((Npos
    (XO (XO (XO (XO (XI (XO XH))))))) :: ((Npos (XO (XO (XO (XO (XI (XO
    XH))))))) :: ((Npos (XI (XI (XO (XI (XO XH)))))) :: ((Npos (XI (XI (XO
    (XI (XO XH)))))) :: ((Npos (XI (XI (XO (XI (XO XH)))))) :: ((Npos (XI (XI
    (XO (XI (XO XH)))))) :: ((Npos (XI (XI (XO (XI (XO XH)))))) :: ((Npos (XI
    (XI (XO (XI (XO XH)))))) :: ((Npos (XI (XI (XO (XI (XO XH)))))) :: ((Npos
    (XI (XI (XO (XI (XO XH)))))) :: ((Npos (XI (XI (XO (XI (XO
    XH)))))) :: ((Npos (XI (XI (XO (XI (XO XH)))))) :: ((Npos (XI (XI (XO (XI
    (XO XH)))))) :: ((Npos (XI (XI (XO (XI (XO XH)))))) :: ((Npos (XI (XI (XO
    (XI (XO XH)))))) :: ((Npos (XI (XI (XO (XI (XO XH)))))) :: ((Npos (XI (XI
    (XO (XI (XO XH)))))) :: ((Npos (XI (XI (XO (XI (XO XH)))))) :: ((Npos (XO
    (XO (XI (XI (XO (XO XH))))))) :: ((Npos (XO (XO (XI (XI (XO (XO
    XH))))))) :: ((Npos (XO (XO (XI (XI (XO (XO XH))))))) :: ((Npos (XO (XO
    (XI (XI (XO (XO XH))))))) :: ((Npos (XO (XO (XI (XI (XO (XO
    XH))))))) :: ((Npos (XO (XO (XI (XI (XO (XO XH))))))) :: ((Npos (XO (XO
    (XI (XI (XO (XO XH))))))) :: ((Npos (XO (XO (XI (XI (XO (XO
    XH))))))) :: ((Npos (XO (XO (XI (XI (XO (XO XH))))))) :: ((Npos (XO (XO
    (XI (XI (XO (XO XH))))))) :: ((Npos (XO (XO (XI (XI (XO (XO
    XH))))))) :: ((Npos (XO (XO (XI (XI (XO (XO XH))))))) :: ((Npos (XO (XO
    (XI (XI (XO (XO XH))))))) :: ((Npos (XO (XO (XI (XI (XO (XO
    XH))))))) :: ((Npos (XO (XO (XI (XI (XO (XO XH))))))) :: ((Npos (XO (XO
    (XI (XI (XO (XO XH))))))) :: ((Npos (XO (XO (XI (XI (XO (XO
    XH))))))) :: ((Npos (XO (XO (XI (XI (XO (XO XH))))))) :: ((Npos (XO (XO
    (XI (XI (XO (XO XH))))))) :: ((Npos (XO (XO (XI (XI (XO (XO
    XH))))))) :: ((Npos (XO (XO (XI (XI (XO (XO XH))))))) :: ((Npos (XO (XO
    (XI (XI (XO (XO XH))))))) :: ((Npos (XO (XO (XI (XI (XO (XO
    XH))))))) :: ((Npos (XO (XO (XI (XI (XO (XO XH))))))) :: ((Npos (XO (XO
    (XI (XI (XO (XO XH))))))) :: ((Npos (XO (XO (XI (XI (XO (XO
    XH))))))) :: ((Npos (XO (XO (XI (XI (XO (XO XH))))))) :: ((Npos (XO (XO
    (XI (XI (XO (XO XH))))))) :: ((Npos (XO (XO (XI (XI (XO (XO
    XH))))))) :: ((Npos (XO (XO (XI (XI (XO (XO XH))))))) :: ((Npos (XO (XO
    (XI (XI (XO (XO XH))))))) :: ((Npos (XO (XO (XI (XI (XO (XO
    XH))))))) :: ((Npos (XI (XO XH))) :: ((Npos (XO (XO (XI (XI (XO (XO
    XH))))))) :: ((Npos (XO (XO (XI (XI (XO (XO XH))))))) :: ((Npos (XO (XO
    (XI (XI (XO (XO XH))))))) :: ((Npos (XO (XO (XI (XI (XO (XO
    XH))))))) :: ((Npos (XO (XO (XI (XI (XO (XO XH))))))) :: ((Npos (XO (XO
    (XI (XI (XO (XO XH))))))) :: ((Npos (XO (XO (XI (XI (XO (XO
    XH))))))) :: ((Npos (XO (XI (XI XH)))) :: ((Npos (XO (XO (XI (XI (XO (XO
    XH))))))) :: ((Npos (XO (XO (XI (XI (XO (XO XH))))))) :: ((Npos
    XH) :: ((Npos (XO (XO (XI (XI (XO (XO XH))))))) :: ((Npos (XI (XO (XI
    XH)))) :: ((Npos (XO (XI (XI XH)))) :: ((Npos (XO (XI (XI
    XH)))) :: ((Npos (XO (XO (XI (XI (XO (XO XH))))))) :: ((Npos (XO (XO (XI
    (XI (XO (XO XH))))))) :: ((Npos (XO (XO (XI (XI (XO (XO
    XH))))))) :: ((Npos (XO (XO (XI (XI (XO (XO XH))))))) :: ((Npos (XO (XO
    (XI (XI (XO (XO XH))))))) :: ((Npos (XO (XO (XI (XI (XO (XO
    XH))))))) :: ((Npos (XO (XO (XI (XI (XO (XO XH))))))) :: ((Npos (XO (XO
    (XI (XI (XO (XO XH))))))) :: ((Npos (XO (XO (XI (XI (XO (XO
    XH))))))) :: ((Npos (XO (XO (XI (XI (XO (XO XH))))))) :: ((Npos (XO (XO
    (XI (XI (XO (XO XH))))))) :: ((Npos (XO (XO (XI (XI (XO (XO
    XH))))))) :: ((Npos (XO (XO (XI (XI (XO (XO XH))))))) :: ((Npos (XO (XO
    (XI (XI (XO (XO XH))))))) :: ((Npos (XO (XO (XI (XI (XO (XO
    XH))))))) :: ((Npos (XO (XO (XI (XI (XO (XO XH))))))) :: ((Npos (XO (XO
    (XI (XI (XO (XO XH))))))) :: ((Npos (XO (XO (XI (XI (XO (XO
    XH))))))) :: ((Npos (XO (XO (XI (XI (XO (XO XH))))))) :: ((Npos (XO (XO
    (XI (XI (XO (XO XH))))))) :: ((Npos (XO (XO (XI (XI (XO (XO
    XH))))))) :: ((Npos (XO (XO (XI (XI (XO (XO XH))))))) :: ((Npos (XO (XO
    (XI (XI (XO (XO XH))))))) :: ((Npos (XO (XO (XI (XI (XO (XO
    XH))))))) :: ((Npos (XO (XO (XI (XI (XO (XO XH))))))) :: ((Npos (XO (XO
    (XI (XI (XO (XO XH))))))) :: ((Npos (XO (XO (XI (XI (XO (XO
    XH))))))) :: ((Npos (XO (XO (XI (XI (XO (XO XH))))))) :: ((Npos (XO (XO
    (XI (XI (XO (XO XH))))))) :: ((Npos (XO (XO (XI (XI (XO (XO
    XH))))))) :: ((Npos (XO (XO (XI (XI (XO (XO XH))))))) :: ((Npos (XO (XO
    (XO (XO (XI (XI
    XH))))))) :: (N0 :: (N0 :: (N0 :: (N0 :: (N0 :: (N0 :: (N0 :: (N0 :: (N0 :: (N0 :: (N0 :: (N0 :: (N0 :: (N0 :: (N0 :: (N0 :: (N0 :: (N0 :: (N0 :: (N0 :: (N0 :: (N0 :: (N0 :: (N0 :: (N0 :: (N0 :: (N0 :: (N0 :: (N0 :: (N0 :: (N0 :: (N0 :: (N0 :: (N0 :: (N0 :: (N0 :: (N0 :: (N0 :: (N0 :: (N0 :: (N0 :: (N0 :: (N0 :: (N0 :: (N0 :: (N0 :: (N0 :: (N0 :: (N0 :: (N0 :: (N0 :: (N0 :: (N0 :: (N0 :: (N0 :: (N0 :: (N0 :: (N0 :: (N0 :: (N0 :: (N0 :: (N0 :: (N0 :: (N0 :: (N0 :: (N0 :: (N0 :: (N0 :: (N0 :: (N0 :: (N0 :: (N0 :: (N0 :: (N0 :: (N0 :: (N0 :: (N0 :: (N0 :: (N0 :: (N0 :: (N0 :: (N0 :: (N0 :: (N0 :: (N0 :: (N0 :: (N0 :: (N0 :: (N0 :: (N0 :: (N0 :: (N0 :: (N0 :: (N0 :: (N0 :: (N0 :: (N0 :: (N0 :: (N0 :: (N0 :: (N0 :: (N0 :: (N0 :: (N0 :: (N0 :: (N0 :: (N0 :: (N0 :: (N0 :: (N0 :: (N0 :: (N0 :: (N0 :: (N0 :: (N0 :: (N0 :: (N0 :: (N0 :: (N0 :: (N0 :: (N0 :: (N0 :: (N0 :: (N0 :: (N0 :: (N0 :: (N0 :: (N0 :: [])))))))))))))))))))))))))))))))))))))))))))))))))))))))))))))))))))))))))))))))))))))))))))))))))))))))))))))))))))))))))))))))))))))))))))))))))))))))))))))))))))))))))))))))))))))))))))))))))))))))))))))))))))))))))))))))))))))))))))))))))))))))))))))))) :: (((Npos
    (XO (XO (XO (XO (XI (XO XH))))))) :: ((Npos (XO (XO (XO (XO (XI (XO
    XH))))))) :: ((Npos (XO (XO (XO (XO (XI (XO XH))))))) :: ((Npos (XO (XO
    (XO (XO (XI (XO XH))))))) :: ((Npos (XO (XO (XO (XO (XI (XO
    XH))))))) :: ((Npos (XO (XO (XO (XO (XI (XO XH))))))) :: ((Npos (XO (XO
    (XO (XO (XI (XO XH))))))) :: ((Npos (XO (XO (XO (XO (XI (XO
    XH))))))) :: ((Npos (XO (XO (XO (XO (XI (XO XH))))))) :: ((Npos (XO (XO
    (XO (XO (XI (XO XH))))))) :: ((Npos (XO (XO (XO (XO (XI (XO
    XH))))))) :: ((Npos (XO (XO (XO (XO (XI (XO XH))))))) :: ((Npos (XO (XO
    (XO (XO (XI (XO XH))))))) :: ((Npos (XO (XO (XO (XO (XI (XO
    XH))))))) :: ((Npos (XO (XO (XO (XO (XI (XO XH))))))) :: ((Npos (XO (XO
    (XO (XO (XI (XO XH))))))) :: ((Npos (XO (XO (XO (XO (XI (XO
    XH))))))) :: ((Npos (XO (XO (XO (XO (XI (XO XH))))))) :: ((Npos (XO (XO
    (XO (XO (XI (XO XH))))))) :: ((Npos (XO (XO (XO (XO (XI (XO
    XH))))))) :: ((Npos (XO (XO (XO (XO (XI (XO XH))))))) :: ((Npos (XO (XO
    (XO (XO (XI (XO XH))))))) :: ((Npos (XO (XO (XO (XO (XI (XO
    XH))))))) :: ((Npos (XO (XO (XO (XO (XI (XO XH))))))) :: (N0 :: ((Npos
    (XO (XO (XO (XO (XI (XO XH))))))) :: (N0 :: (N0 :: ((Npos (XO (XO (XO (XO
    (XI (XO XH))))))) :: ((Npos (XO (XO (XO (XO (XI (XO XH))))))) :: ((Npos
    (XO (XO (XO (XO (XI (XO XH))))))) :: ((Npos (XO (XO (XO (XO (XI (XO
    XH))))))) :: ((Npos (XO (XO (XO (XO (XO XH)))))) :: ((Npos (XO (XO (XO
    (XO (XO XH)))))) :: ((Npos (XO (XO (XO (XO (XO XH)))))) :: ((Npos (XO (XO
    (XO (XO (XO XH)))))) :: ((Npos (XO (XO (XO (XO (XO XH)))))) :: ((Npos (XO
    (XO (XO (XO (XO XH)))))) :: ((Npos (XO (XO (XO (XO (XO XH)))))) :: ((Npos
    (XO (XO (XO (XO (XO XH)))))) :: ((Npos (XO (XO (XO (XO (XO
    XH)))))) :: ((Npos (XO (XO (XO (XO (XO XH)))))) :: ((Npos (XO (XO (XO (XO
    (XO XH)))))) :: ((Npos (XO (XO (XO (XO (XO XH)))))) :: ((Npos (XO (XO (XO
    (XO (XO XH)))))) :: ((Npos (XO (XO (XO (XO (XO XH)))))) :: ((Npos (XO (XO
    (XO (XO (XO XH)))))) :: ((Npos (XO (XO (XO (XO (XO XH)))))) :: ((Npos (XO
    (XO (XI (XI (XO (XO XH))))))) :: ((Npos (XO (XO (XI (XI (XO (XO
    XH))))))) :: ((Npos (XO (XO (XI (XI (XO (XO XH))))))) :: ((Npos (XO (XO
    (XI (XI (XO (XO XH))))))) :: ((Npos (XO (XO (XI (XI (XO (XO
    XH))))))) :: ((Npos (XO (XO (XI (XI (XO (XO XH))))))) :: ((Npos (XO (XO
    (XI (XI (XO (XO XH))))))) :: ((Npos (XO (XO (XI (XI (XO (XO
    XH))))))) :: ((Npos (XO (XO (XI (XI (XO (XO XH))))))) :: ((Npos (XO (XO
    (XI (XI (XO (XO XH))))))) :: ((Npos (XO (XO (XI (XI (XO (XO
    XH))))))) :: ((Npos (XO (XO (XI (XI (XO (XO XH))))))) :: ((Npos (XO (XO
    (XI (XI (XO (XO XH))))))) :: ((Npos (XO (XO (XI (XI (XO (XO
    XH))))))) :: ((Npos (XO (XO (XI (XI (XO (XO XH))))))) :: ((Npos (XO (XO
    (XI (XI (XO (XO XH))))))) :: ((Npos (XO (XO (XI (XI (XO (XO
    XH))))))) :: ((Npos (XO (XO (XI (XI (XO (XO XH))))))) :: ((Npos (XO (XO
    (XI (XI (XO (XO XH))))))) :: ((Npos (XO (XO (XI (XI (XO (XO
    XH))))))) :: ((Npos (XO (XO (XI (XI (XO (XO XH))))))) :: ((Npos (XO (XO
    (XI (XI (XO (XO XH))))))) :: ((Npos (XO (XO (XI (XI (XO (XO
    XH))))))) :: ((Npos (XO (XO (XI (XI (XO (XO XH))))))) :: ((Npos (XO (XO
    (XI (XI (XO (XO XH))))))) :: ((Npos (XO (XO (XI (XI (XO (XO
    XH))))))) :: ((Npos (XO (XO (XI (XI (XO (XO XH))))))) :: ((Npos (XO (XO
    (XI (XI (XO (XO XH))))))) :: ((Npos (XO (XO (XI (XI (XO (XO
    XH))))))) :: ((Npos (XO (XO (XI (XI (XO (XO XH))))))) :: ((Npos (XO (XO
    (XI (XI (XO (XO XH))))))) :: ((Npos (XO (XO (XI (XI (XO (XO
    XH))))))) :: ((Npos (XO (XO (XI (XI (XO (XO XH))))))) :: ((Npos (XO (XO
    (XI (XI (XO (XO XH))))))) :: ((Npos (XO (XO (XI (XI (XO (XO
    XH))))))) :: ((Npos (XO (XO (XI (XI (XO (XO XH))))))) :: ((Npos (XO (XO
    (XI (XI (XO (XO XH))))))) :: ((Npos (XO (XO (XI (XI (XO (XO
    XH))))))) :: ((Npos (XO (XO (XI (XI (XO (XO XH))))))) :: ((Npos (XO (XO
    (XI (XI (XO (XO XH))))))) :: ((Npos (XO (XO (XI (XI (XO (XO
    XH))))))) :: ((Npos (XO (XO (XI (XI (XO (XO XH))))))) :: ((Npos (XO (XO
    (XI (XI (XO (XO XH))))))) :: ((Npos (XO (XO (XI (XI (XO (XO
    XH))))))) :: ((Npos (XO (XO (XI (XI (XO (XO XH))))))) :: ((Npos (XO (XO
    (XI (XI (XO (XO XH))))))) :: ((Npos (XO (XO (XI (XI (XO (XO
    XH))))))) :: ((Npos (XO (XO (XI (XI (XO (XO XH))))))) :: ((Npos (XO (XO
    (XI (XI (XO (XO XH))))))) :: ((Npos (XO (XO (XI (XI (XO (XO
    XH))))))) :: ((Npos (XO (XO (XI (XI (XO (XO XH))))))) :: ((Npos (XO (XO
    (XI (XI (XO (XO XH))))))) :: ((Npos (XO (XO (XI (XI (XO (XO
    XH))))))) :: ((Npos (XO (XO (XI (XI (XO (XO XH))))))) :: ((Npos (XO (XO
    (XI (XI (XO (XO XH))))))) :: ((Npos (XO (XO (XI (XI (XO (XO
    XH))))))) :: ((Npos (XO (XO (XI (XI (XO (XO XH))))))) :: ((Npos (XO (XO
    (XI (XI (XO (XO XH))))))) :: ((Npos (XO (XO (XI (XI (XO (XO
    XH))))))) :: ((Npos (XO (XO (XI (XI (XO (XO XH))))))) :: ((Npos (XO (XO
    (XI (XI (XO (XO XH))))))) :: ((Npos (XO (XO (XI (XI (XO (XO
    XH))))))) :: ((Npos (XO (XO (XI (XI (XO (XO XH))))))) :: ((Npos (XO (XO
    (XI (XI (XO (XO XH))))))) :: ((Npos (XO (XO (XI (XI (XO (XO
    XH))))))) :: ((Npos (XO (XO (XI (XI (XO (XO XH))))))) :: ((Npos (XO (XO
    (XI (XI (XO (XO XH))))))) :: ((Npos (XO (XO (XI (XI (XO (XO
    XH))))))) :: ((Npos (XO (XO (XI (XI (XO (XO XH))))))) :: ((Npos (XO (XO
    (XI (XI (XO (XO XH))))))) :: ((Npos (XO (XO (XI (XI (XO (XO
    XH))))))) :: ((Npos (XO (XO (XI (XI (XO (XO XH))))))) :: ((Npos (XO (XO
    (XI (XI (XO (XO XH))))))) :: ((Npos (XO (XO (XI (XI (XO (XO
    XH))))))) :: ((Npos (XO (XO (XI (XI (XO (XO XH))))))) :: ((Npos (XO (XO
    (XI (XI (XO (XO XH))))))) :: ((Npos (XO (XO (XI (XI (XO (XO
    XH))))))) :: ((Npos (XO (XO (XI (XI (XO (XO XH))))))) :: ((Npos (XO (XO
    (XI (XI (XO (XO XH))))))) :: ((Npos (XO (XO (XO (XO (XI (XI
    XH))))))) :: (N0 :: (N0 :: (N0 :: (N0 :: (N0 :: (N0 :: (N0 :: (N0 :: (N0 :: (N0 :: (N0 :: (N0 :: (N0 :: (N0 :: (N0 :: (N0 :: (N0 :: (N0 :: (N0 :: (N0 :: (N0 :: (N0 :: (N0 :: (N0 :: (N0 :: (N0 :: (N0 :: (N0 :: (N0 :: (N0 :: (N0 :: (N0 :: (N0 :: (N0 :: (N0 :: (N0 :: (N0 :: (N0 :: (N0 :: (N0 :: (N0 :: (N0 :: (N0 :: (N0 :: (N0 :: (N0 :: (N0 :: (N0 :: (N0 :: (N0 :: (N0 :: (N0 :: (N0 :: (N0 :: (N0 :: (N0 :: (N0 :: (N0 :: (N0 :: (N0 :: (N0 :: (N0 :: (N0 :: (N0 :: (N0 :: (N0 :: (N0 :: (N0 :: (N0 :: (N0 :: (N0 :: (N0 :: (N0 :: (N0 :: (N0 :: (N0 :: (N0 :: (N0 :: (N0 :: (N0 :: (N0 :: (N0 :: (N0 :: (N0 :: (N0 :: (N0 :: (N0 :: (N0 :: (N0 :: (N0 :: (N0 :: (N0 :: (N0 :: (N0 :: (N0 :: (N0 :: (N0 :: (N0 :: (N0 :: (N0 :: (N0 :: (N0 :: (N0 :: (N0 :: (N0 :: (N0 :: (N0 :: (N0 :: (N0 :: (N0 :: (N0 :: (N0 :: (N0 :: (N0 :: (N0 :: (N0 :: (N0 :: (N0 :: (N0 :: (N0 :: (N0 :: (N0 :: (N0 :: (N0 :: (N0 :: (N0 :: (N0 :: (N0 :: [])))))))))))))))))))))))))))))))))))))))))))))))))))))))))))))))))))))))))))))))))))))))))))))))))))))))))))))))))))))))))))))))))))))))))))))))))))))))))))))))))))))))))))))))))))))))))))))))))))))))))))))))))))))))))))))))))))))))))))))))))))))))))))))))) :: (((Npos
    (XO (XO (XO (XO (XI (XO XH))))))) :: ((Npos (XO (XO (XO (XO (XI (XO
    XH))))))) :: ((Npos (XO (XO (XO (XO (XI (XO XH))))))) :: ((Npos (XO (XO
    (XO (XO (XI (XO XH))))))) :: ((Npos (XO (XO (XO (XO (XI (XO
    XH))))))) :: ((Npos (XO (XO (XO (XO (XI (XO XH))))))) :: ((Npos (XO (XO
    (XO (XO (XI (XO XH))))))) :: ((Npos (XO (XO (XO (XO (XI (XO
    XH))))))) :: ((Npos (XO (XO (XO (XO (XI (XO XH))))))) :: ((Npos (XO (XO
    (XO (XO (XI (XO XH))))))) :: ((Npos (XO (XO (XO (XO (XI (XO
    XH))))))) :: ((Npos (XO (XO (XO (XO (XI (XO XH))))))) :: ((Npos (XO (XO
    (XO (XO (XI (XO XH))))))) :: ((Npos (XO (XO (XO (XO (XI (XO
    XH))))))) :: ((Npos (XO (XO (XO (XO (XI (XO XH))))))) :: ((Npos (XO (XO
    (XO (XO (XI (XO XH))))))) :: ((Npos (XO (XO (XO (XO (XI (XO
    XH))))))) :: ((Npos (XO (XO (XO (XO (XI (XO XH))))))) :: ((Npos (XO (XO
    (XO (XO (XI (XO XH))))))) :: ((Npos (XO (XO (XO (XO (XI (XO
    XH))))))) :: ((Npos (XO (XO (XO (XO (XI (XO XH))))))) :: ((Npos (XO (XO
    (XO (XO (XI (XO XH))))))) :: ((Npos (XO (XO (XO (XO (XI (XO
    XH))))))) :: ((Npos (XO (XO (XO (XO (XI (XO XH))))))) :: (N0 :: ((Npos
    (XO (XO (XO (XO (XI (XO XH))))))) :: (N0 :: (N0 :: ((Npos (XO (XO (XO (XO
    (XI (XO XH))))))) :: ((Npos (XO (XO (XO (XO (XI (XO XH))))))) :: ((Npos
    (XO (XO (XO (XO (XI (XO XH))))))) :: ((Npos (XO (XO (XO (XO (XI (XO
    XH))))))) :: ((Npos (XO (XO (XO (XO (XO (XO (XI XH)))))))) :: ((Npos (XO
    (XO (XO (XO (XO (XO (XI XH)))))))) :: ((Npos (XO (XO (XO (XO (XO (XO (XI
    XH)))))))) :: ((Npos (XO (XO (XO (XO (XO (XO (XI XH)))))))) :: ((Npos (XO
    (XO (XO (XO (XO (XO (XI XH)))))))) :: ((Npos (XO (XO (XO (XO (XO (XO (XI
    XH)))))))) :: ((Npos (XO (XO (XO (XO (XO (XO (XI XH)))))))) :: ((Npos (XO
    (XO (XO (XO (XO (XO (XI XH)))))))) :: ((Npos (XO (XO (XO (XO (XO (XO (XI
    XH)))))))) :: ((Npos (XO (XO (XO (XO (XO (XO (XI XH)))))))) :: ((Npos (XO
    (XO (XO (XO (XO (XO (XI XH)))))))) :: ((Npos (XO (XO (XO (XO (XO (XO (XI
    XH)))))))) :: ((Npos (XO (XO (XO (XO (XO (XO (XI XH)))))))) :: ((Npos (XO
    (XO (XO (XO (XO (XO (XI XH)))))))) :: ((Npos (XO (XO (XO (XO (XO (XO (XI
    XH)))))))) :: ((Npos (XO (XO (XO (XO (XO (XO (XI XH)))))))) :: ((Npos (XO
    (XO (XO (XO (XO (XO (XI XH)))))))) :: ((Npos (XO (XO (XO (XO (XO (XO (XI
    XH)))))))) :: ((Npos (XO (XO (XO (XO (XO (XO (XI XH)))))))) :: ((Npos (XO
    (XO (XO (XO (XO (XO (XI XH)))))))) :: ((Npos (XO (XO (XO (XO (XO (XO (XI
    XH)))))))) :: ((Npos (XO (XO (XO (XO (XO (XO (XI XH)))))))) :: ((Npos (XO
    (XO (XO (XO (XO (XO (XI XH)))))))) :: ((Npos (XO (XO (XO (XO (XO (XO (XI
    XH)))))))) :: ((Npos (XO (XO (XO (XO (XO (XO (XI XH)))))))) :: ((Npos (XO
    (XO (XO (XO (XO (XO (XI XH)))))))) :: ((Npos (XO (XO (XO (XO (XO (XO (XI
    XH)))))))) :: ((Npos (XO (XO (XO (XO (XO (XO (XI XH)))))))) :: ((Npos (XO
    (XO (XO (XO (XO (XO (XI XH)))))))) :: ((Npos (XO (XO (XO (XO (XO (XO (XI
    XH)))))))) :: ((Npos (XO (XO (XO (XO (XO (XO (XI XH)))))))) :: ((Npos (XO
    (XO (XO (XO (XO (XO (XI XH)))))))) :: ((Npos (XO (XO (XO (XO (XO (XO (XI
    XH)))))))) :: ((Npos (XO (XO (XO (XO (XO (XO (XI XH)))))))) :: ((Npos (XO
    (XO (XO (XO (XO (XO (XI XH)))))))) :: ((Npos (XO (XO (XO (XO (XO (XO (XI
    XH)))))))) :: ((Npos (XO (XO (XO (XO (XO (XO (XI XH)))))))) :: ((Npos (XO
    (XO (XO (XO (XO (XO (XI XH)))))))) :: ((Npos (XO (XO (XO (XO (XO (XO (XI
    XH)))))))) :: ((Npos (XO (XO (XO (XO (XO (XO (XI XH)))))))) :: ((Npos (XO
    (XO (XO (XO (XO (XO (XI XH)))))))) :: ((Npos (XO (XO (XO (XO (XO (XO (XI
    XH)))))))) :: ((Npos (XO (XO (XO (XO (XO (XO (XI XH)))))))) :: ((Npos (XO
    (XO (XO (XO (XO (XO (XI XH)))))))) :: ((Npos (XO (XO (XO (XO (XO (XO (XI
    XH)))))))) :: ((Npos (XO (XO (XO (XO (XO (XO (XI XH)))))))) :: ((Npos (XO
    (XO (XO (XO (XO (XO (XI XH)))))))) :: ((Npos (XO (XO (XO (XO (XO (XO (XI
    XH)))))))) :: ((Npos (XO (XO (XO (XO (XO (XO (XI XH)))))))) :: ((Npos (XO
    (XO (XO (XO (XO (XO (XI XH)))))))) :: ((Npos (XO (XO (XO (XO (XO (XO (XI
    XH)))))))) :: ((Npos (XO (XO (XO (XO (XO (XO (XI XH)))))))) :: ((Npos (XO
    (XO (XO (XO (XO (XO (XI XH)))))))) :: ((Npos (XO (XO (XO (XO (XO (XO (XI
    XH)))))))) :: ((Npos (XO (XO (XO (XO (XO (XO (XI XH)))))))) :: ((Npos (XO
    (XO (XO (XO (XO (XO (XI XH)))))))) :: ((Npos (XO (XO (XO (XO (XO (XO (XI
    XH)))))))) :: ((Npos (XO (XO (XO (XO (XO (XO (XI XH)))))))) :: ((Npos (XO
    (XO (XO (XO (XO (XO (XI XH)))))))) :: ((Npos (XO (XO (XO (XO (XO (XO (XI
    XH)))))))) :: ((Npos (XO (XO (XO (XO (XO (XO (XI XH)))))))) :: ((Npos (XO
    (XO (XO (XO (XO (XO (XI XH)))))))) :: ((Npos (XO (XO (XO (XO (XO (XO (XI
    XH)))))))) :: ((Npos (XO (XO (XO (XO (XO (XO (XI XH)))))))) :: ((Npos (XO
    (XO (XO (XO (XO (XO (XI XH)))))))) :: ((Npos (XO (XO (XO (XO (XO (XO (XI
    XH)))))))) :: ((Npos (XO (XO (XO (XO (XO (XO (XI XH)))))))) :: ((Npos (XO
    (XO (XO (XO (XO (XO (XI XH)))))))) :: ((Npos (XO (XO (XO (XO (XO (XO (XI
    XH)))))))) :: ((Npos (XO (XO (XO (XO (XO (XO (XI XH)))))))) :: ((Npos (XO
    (XO (XO (XO (XO (XO (XI XH)))))))) :: ((Npos (XO (XO (XO (XO (XO (XO (XI
    XH)))))))) :: ((Npos (XO (XO (XO (XO (XO (XO (XI XH)))))))) :: ((Npos (XO
    (XO (XO (XO (XO (XO (XI XH)))))))) :: ((Npos (XO (XO (XO (XO (XO (XO (XI
    XH)))))))) :: ((Npos (XO (XO (XO (XO (XO (XO (XI XH)))))))) :: ((Npos (XO
    (XO (XO (XO (XO (XO (XI XH)))))))) :: ((Npos (XO (XO (XO (XO (XO (XO (XI
    XH)))))))) :: ((Npos (XO (XO (XO (XO (XO (XO (XI XH)))))))) :: ((Npos (XO
    (XO (XO (XO (XO (XO (XI XH)))))))) :: ((Npos (XO (XO (XO (XO (XO (XO (XI
    XH)))))))) :: ((Npos (XO (XO (XO (XO (XO (XO (XI XH)))))))) :: ((Npos (XO
    (XO (XO (XO (XO (XO (XI XH)))))))) :: ((Npos (XO (XO (XO (XO (XO (XO (XI
    XH)))))))) :: ((Npos (XO (XO (XO (XO (XO (XO (XI XH)))))))) :: ((Npos (XO
    (XO (XO (XO (XO (XO (XI XH)))))))) :: ((Npos (XO (XO (XO (XO (XO (XO (XI
    XH)))))))) :: ((Npos (XO (XO (XO (XO (XO (XO (XI XH)))))))) :: ((Npos (XO
    (XO (XO (XO (XO (XO (XI XH)))))))) :: ((Npos (XO (XO (XO (XO (XO (XO (XI
    XH)))))))) :: ((Npos (XO (XO (XO (XO (XO (XO (XI XH)))))))) :: ((Npos (XO
    (XO (XO (XO (XO (XO (XI XH)))))))) :: ((Npos (XO (XO (XO (XO (XO (XO (XI
    XH)))))))) :: ((Npos (XO (XO (XO (XO (XO (XO (XI XH)))))))) :: ((Npos (XO
    (XO (XO (XO (XO (XO (XI XH)))))))) :: ((Npos (XO (XO (XO (XO (XO (XO (XI
    XH)))))))) :: ((Npos (XO (XO (XO (XO (XI (XO XH))))))) :: ((Npos (XO (XO
    (XO (XO (XI (XO XH))))))) :: ((Npos (XO (XO (XO (XO (XI (XO
    XH))))))) :: ((Npos (XO (XO (XO (XO (XI (XO XH))))))) :: ((Npos (XO (XO
    (XO (XO (XI (XO XH))))))) :: ((Npos (XO (XO (XO (XO (XI (XO
    XH))))))) :: ((Npos (XO (XO (XO (XO (XI (XO XH))))))) :: ((Npos (XO (XO
    (XO (XO (XI (XO XH))))))) :: ((Npos (XO (XO (XO (XO (XI (XO
    XH))))))) :: ((Npos (XO (XO (XO (XO (XI (XO XH))))))) :: ((Npos (XO (XO
    (XO (XO (XI (XO XH))))))) :: ((Npos (XO (XO (XO (XO (XI (XO
    XH))))))) :: ((Npos (XO (XO (XO (XO (XI (XO XH))))))) :: ((Npos (XO (XO
    (XO (XO (XI (XO XH))))))) :: ((Npos (XO (XO (XO (XO (XI (XO
    XH))))))) :: ((Npos (XO (XO (XO (XO (XI (XO XH))))))) :: (N0 :: ((Npos
    (XO (XO (XO (XO (XI (XO XH))))))) :: ((Npos (XO (XO (XO (XO (XI (XO
    XH))))))) :: ((Npos (XO (XO (XO (XO (XI (XO XH))))))) :: ((Npos (XO (XO
    (XO (XO (XI (XO XH))))))) :: ((Npos (XO (XO (XO (XO (XI (XO
    XH))))))) :: ((Npos (XO (XO (XO (XO (XI (XO XH))))))) :: ((Npos (XO (XO
    (XO (XO (XI (XO XH))))))) :: ((Npos (XO (XO (XO (XO (XI (XO
    XH))))))) :: ((Npos (XO (XO (XO (XO (XI (XO XH))))))) :: ((Npos (XO (XO
    (XO (XO (XI (XO XH))))))) :: (N0 :: ((Npos (XO (XO (XO (XO (XI (XO
    XH))))))) :: (N0 :: (N0 :: (N0 :: (N0 :: (N0 :: (N0 :: (N0 :: (N0 :: (N0 :: (N0 :: (N0 :: (N0 :: (N0 :: (N0 :: (N0 :: (N0 :: (N0 :: (N0 :: (N0 :: (N0 :: (N0 :: (N0 :: (N0 :: (N0 :: (N0 :: (N0 :: (N0 :: (N0 :: (N0 :: (N0 :: (N0 :: (N0 :: (N0 :: (N0 :: (N0 :: (N0 :: (N0 :: ((Npos
    (XI (XI (XI (XI (XI (XI (XI XH)))))))) :: ((Npos (XI (XI (XI (XI (XI (XI
    (XI XH)))))))) :: ((Npos (XI (XI (XI (XI (XI (XI (XI XH)))))))) :: ((Npos
    (XI (XI (XI (XI (XI (XI (XI XH)))))))) :: ((Npos (XI (XI (XI (XI (XI (XI
    (XI XH)))))))) :: ((Npos (XI (XI (XI (XI (XI (XI (XI XH)))))))) :: ((Npos
    (XI (XI (XI (XI (XI (XI (XI XH)))))))) :: ((Npos (XI (XI (XI (XI (XI (XI
    (XI XH)))))))) :: ((Npos (XI (XI (XI (XI (XI (XI (XI XH)))))))) :: ((Npos
    (XI (XI (XI (XI (XI (XI (XI XH)))))))) :: ((Npos (XI (XI (XI (XI (XI (XI
    (XI XH)))))))) :: ((Npos (XI (XI (XI (XI (XI (XI (XI XH)))))))) :: ((Npos
    (XI (XI (XI (XI (XI (XI (XI XH)))))))) :: ((Npos (XI (XI (XI (XI (XI (XI
    (XI XH)))))))) :: ((Npos (XI (XI (XI (XI (XI (XI (XI XH)))))))) :: ((Npos
    (XI (XI (XI (XI (XI (XI (XI XH)))))))) :: ((Npos (XI (XI (XI (XI (XI (XI
    (XI XH)))))))) :: ((Npos (XI (XI (XI (XI (XI (XI (XI XH)))))))) :: ((Npos
    (XI (XI (XI (XI (XI (XI (XI XH)))))))) :: ((Npos (XI (XI (XI (XI (XI (XI
    (XI XH)))))))) :: ((Npos (XI (XI (XI (XI (XI (XI (XI XH)))))))) :: ((Npos
    (XI (XI (XI (XI (XI (XI (XI XH)))))))) :: ((Npos (XI (XI (XI (XI (XI (XI
    (XI XH)))))))) :: ((Npos (XI (XI (XI (XI (XI (XI (XI XH)))))))) :: ((Npos
    (XI (XI (XI (XI (XI (XI (XI XH)))))))) :: ((Npos (XI (XI (XI (XI (XI (XI
    (XI XH)))))))) :: ((Npos (XI (XI (XI (XI (XI (XI (XI XH)))))))) :: ((Npos
    (XI (XI (XI (XI (XI (XI (XI XH)))))))) :: ((Npos (XI (XI (XI (XI (XI (XI
    (XI XH)))))))) :: ((Npos (XI (XI (XI (XI (XI (XI (XI XH)))))))) :: ((Npos
    (XI (XI (XI (XI (XI (XI (XI XH)))))))) :: ((Npos (XI (XI (XI (XI (XI (XI
    (XI XH)))))))) :: ((Npos (XI (XI (XI (XI (XI (XI (XI XH)))))))) :: ((Npos
    (XI (XI (XI (XI (XI (XI (XI XH)))))))) :: ((Npos (XI (XI (XI (XI (XI (XI
    (XI XH)))))))) :: ((Npos (XI (XI (XI (XI (XI (XI (XI XH)))))))) :: ((Npos
    (XI (XI (XI (XI (XI (XI (XI XH)))))))) :: ((Npos (XI (XI (XI (XI (XI (XI
    (XI XH)))))))) :: ((Npos (XI (XI (XI (XI (XI (XI (XI XH)))))))) :: ((Npos
    (XI (XI (XI (XI (XI (XI (XI XH)))))))) :: ((Npos (XI (XI (XI (XI (XI (XI
    (XI XH)))))))) :: ((Npos (XI (XI (XI (XI (XI (XI (XI XH)))))))) :: ((Npos
    (XI (XI (XI (XI (XI (XI (XI XH)))))))) :: ((Npos (XI (XI (XI (XI (XI (XI
    (XI XH)))))))) :: ((Npos (XI (XI (XI (XI (XI (XI (XI XH)))))))) :: ((Npos
    (XI (XI (XI (XI (XI (XI (XI XH)))))))) :: ((Npos (XI (XI (XI (XI (XI (XI
    (XI XH)))))))) :: ((Npos (XI (XI (XI (XI (XI (XI (XI XH)))))))) :: ((Npos
    (XI (XI (XI (XI (XI (XI (XI XH)))))))) :: ((Npos (XI (XI (XI (XI (XI (XI
    (XI XH)))))))) :: ((Npos (XI (XI (XI (XI (XI (XI (XI
    XH)))))))) :: (N0 :: (N0 :: (N0 :: (N0 :: (N0 :: (N0 :: (N0 :: (N0 :: (N0 :: (N0 :: (N0 :: [])))))))))))))))))))))))))))))))))))))))))))))))))))))))))))))))))))))))))))))))))))))))))))))))))))))))))))))))))))))))))))))))))))))))))))))))))))))))))))))))))))))))))))))))))))))))))))))))))))))))))))))))))))))))))))))))))))))))))))))))))))))))))))))))) :: (((Npos
    (XO (XO (XO (XO (XI (XI XH))))))) :: ((Npos (XO (XO (XO (XO (XI (XI
    XH))))))) :: ((Npos (XO (XO (XO (XO (XI (XI XH))))))) :: ((Npos (XO (XO
    (XO (XO (XI (XI XH))))))) :: ((Npos (XO (XO (XO (XO (XI (XI
    XH))))))) :: ((Npos (XO (XO (XO (XO (XI (XI XH))))))) :: ((Npos (XO (XO
    (XO (XO (XI (XI XH))))))) :: ((Npos (XO (XO (XI XH)))) :: ((Npos (XO (XO
    (XO (XO (XI (XI XH))))))) :: ((Npos (XO (XO (XO (XO (XI (XI
    XH))))))) :: ((Npos (XO (XO (XO (XO (XI (XI XH))))))) :: ((Npos (XO (XO
    (XO (XO (XI (XI XH))))))) :: ((Npos (XO (XO (XO (XO (XI (XI
    XH))))))) :: ((Npos (XO (XO (XO (XO (XI (XI XH))))))) :: ((Npos (XO (XO
    (XO (XO (XI (XI XH))))))) :: ((Npos (XO (XO (XO (XO (XI (XI
    XH))))))) :: ((Npos (XO (XO (XO (XO (XI (XI XH))))))) :: ((Npos (XO (XO
    (XO (XO (XI (XI XH))))))) :: ((Npos (XO (XO (XO (XO (XI (XI
    XH))))))) :: ((Npos (XO (XO (XO (XO (XI (XI XH))))))) :: ((Npos (XO (XO
    (XO (XO (XI (XI XH))))))) :: ((Npos (XO (XO (XO (XO (XI (XI
    XH))))))) :: ((Npos (XO (XO (XO (XO (XI (XI XH))))))) :: ((Npos (XO (XO
    (XO (XO (XI (XI XH))))))) :: (N0 :: ((Npos (XO (XO (XO (XO (XI (XI
    XH))))))) :: (N0 :: (N0 :: ((Npos (XO (XO (XO (XO (XI (XI
    XH))))))) :: ((Npos (XO (XO (XO (XO (XI (XI XH))))))) :: ((Npos (XO (XO
    (XO (XO (XI (XI XH))))))) :: ((Npos (XO (XO (XO (XO (XI (XI
    XH))))))) :: ((Npos (XO (XO (XO (XO (XI (XO (XO XH)))))))) :: ((Npos (XO
    (XO (XO (XO (XI (XO (XO XH)))))))) :: ((Npos (XO (XO (XO (XO (XI (XO (XO
    XH)))))))) :: ((Npos (XO (XO (XO (XO (XI (XO (XO XH)))))))) :: ((Npos (XO
    (XO (XO (XO (XI (XO (XO XH)))))))) :: ((Npos (XO (XO (XO (XO (XI (XO (XO
    XH)))))))) :: ((Npos (XO (XO (XO (XO (XI (XO (XO XH)))))))) :: ((Npos (XO
    (XO (XO (XO (XI (XO (XO XH)))))))) :: ((Npos (XO (XO (XO (XO (XI (XO (XO
    XH)))))))) :: ((Npos (XO (XO (XO (XO (XI (XO (XO XH)))))))) :: ((Npos (XO
    (XO (XO (XO (XI (XO (XO XH)))))))) :: ((Npos (XO (XO (XO (XO (XI (XO (XO
    XH)))))))) :: ((Npos (XO (XO (XO (XO (XI (XO (XO XH)))))))) :: ((Npos (XO
    (XO (XO (XO (XI (XO (XO XH)))))))) :: ((Npos (XO (XO (XO (XO (XI (XO (XO
    XH)))))))) :: ((Npos (XO (XO (XO (XO (XI (XO (XO XH)))))))) :: ((Npos (XO
    (XO (XO (XO (XI (XO (XO XH)))))))) :: ((Npos (XO (XO (XO (XO (XI (XO (XO
    XH)))))))) :: ((Npos (XO (XO (XO (XO (XI (XO (XO XH)))))))) :: ((Npos (XO
    (XO (XO (XO (XI (XO (XO XH)))))))) :: ((Npos (XO (XO (XO (XO (XI (XO (XO
    XH)))))))) :: ((Npos (XO (XO (XO (XO (XI (XO (XO XH)))))))) :: ((Npos (XO
    (XO (XO (XO (XI (XO (XO XH)))))))) :: ((Npos (XO (XO (XO (XO (XI (XO (XO
    XH)))))))) :: ((Npos (XO (XO (XO (XO (XI (XO (XO XH)))))))) :: ((Npos (XO
    (XO (XO (XO (XI (XO (XO XH)))))))) :: ((Npos (XO (XO (XO (XO (XI (XO (XO
    XH)))))))) :: ((Npos (XO (XO (XO (XO (XI (XO (XO XH)))))))) :: ((Npos (XO
    (XO (XO (XO (XI (XO (XO XH)))))))) :: ((Npos (XO (XO (XO (XO (XI (XO (XO
    XH)))))))) :: ((Npos (XO (XO (XO (XO (XI (XO (XO XH)))))))) :: ((Npos (XO
    (XO (XO (XO (XI (XO (XO XH)))))))) :: ((Npos (XO (XO (XO (XO (XI (XO (XO
    XH)))))))) :: ((Npos (XO (XO (XO (XO (XI (XO (XO XH)))))))) :: ((Npos (XO
    (XO (XO (XO (XI (XO (XO XH)))))))) :: ((Npos (XO (XO (XO (XO (XI (XO (XO
    XH)))))))) :: ((Npos (XO (XO (XO (XO (XI (XO (XO XH)))))))) :: ((Npos (XO
    (XO (XO (XO (XI (XO (XO XH)))))))) :: ((Npos (XO (XO (XO (XO (XI (XO (XO
    XH)))))))) :: ((Npos (XO (XO (XO (XO (XI (XO (XO XH)))))))) :: ((Npos (XO
    (XO (XO (XO (XI (XO (XO XH)))))))) :: ((Npos (XO (XO (XO (XO (XI (XO (XO
    XH)))))))) :: ((Npos (XO (XO (XO (XO (XI (XO (XO XH)))))))) :: ((Npos (XO
    (XO (XO (XO (XI (XO (XO XH)))))))) :: ((Npos (XO (XO (XO (XO (XI (XO (XO
    XH)))))))) :: ((Npos (XO (XO (XO (XO (XI (XO (XO XH)))))))) :: ((Npos (XO
    (XO (XO (XO (XI (XO (XO XH)))))))) :: ((Npos (XO (XO (XO (XO (XI (XO (XO
    XH)))))))) :: ((Npos (XO (XO (XO (XO (XI (XO (XO XH)))))))) :: ((Npos (XO
    (XO (XO (XO (XI (XO (XO XH)))))))) :: ((Npos (XO (XO (XO (XO (XI (XO (XO
    XH)))))))) :: ((Npos (XO (XO (XO (XO (XI (XO (XO XH)))))))) :: ((Npos (XO
    (XO (XO (XO (XI (XO (XO XH)))))))) :: ((Npos (XO (XO (XO (XO (XI (XO (XO
    XH)))))))) :: ((Npos (XO (XO (XO (XO (XI (XO (XO XH)))))))) :: ((Npos (XO
    (XO (XO (XO (XI (XO (XO XH)))))))) :: ((Npos (XO (XO (XO (XO (XI (XO (XO
    XH)))))))) :: ((Npos (XO (XO (XO (XO (XI (XO (XO XH)))))))) :: ((Npos (XO
    (XO (XO (XO (XI (XO (XO XH)))))))) :: ((Npos (XO (XO (XO (XO (XI (XO (XO
    XH)))))))) :: ((Npos (XO (XO (XO (XO (XI (XO (XO XH)))))))) :: ((Npos (XO
    (XO (XO (XO (XI (XO (XO XH)))))))) :: ((Npos (XO (XO (XO (XO (XI (XO (XO
    XH)))))))) :: ((Npos (XO (XO (XO (XO (XI (XO (XO XH)))))))) :: ((Npos (XO
    (XO (XO (XO (XI (XO (XO XH)))))))) :: ((Npos (XO (XO (XO (XO (XI (XO (XO
    XH)))))))) :: ((Npos (XO (XO (XO (XO (XI (XO (XO XH)))))))) :: ((Npos (XO
    (XO (XO (XO (XI (XO (XO XH)))))))) :: ((Npos (XO (XO (XO (XO (XI (XO (XO
    XH)))))))) :: ((Npos (XO (XO (XO (XO (XI (XO (XO XH)))))))) :: ((Npos (XO
    (XO (XO (XO (XI (XO (XO XH)))))))) :: ((Npos (XO (XO (XO (XO (XI (XO (XO
    XH)))))))) :: ((Npos (XO (XO (XO (XO (XI (XO (XO XH)))))))) :: ((Npos (XO
    (XO (XO (XO (XI (XO (XO XH)))))))) :: ((Npos (XO (XO (XO (XO (XI (XO (XO
    XH)))))))) :: ((Npos (XO (XO (XO (XO (XI (XO (XO XH)))))))) :: ((Npos (XO
    (XO (XO (XO (XI (XO (XO XH)))))))) :: ((Npos (XO (XO (XO (XO (XI (XO (XO
    XH)))))))) :: ((Npos (XO (XO (XO (XO (XI (XO (XO XH)))))))) :: ((Npos (XO
    (XO (XO (XO (XI (XO (XO XH)))))))) :: ((Npos (XO (XO (XO (XO (XI (XO (XO
    XH)))))))) :: ((Npos (XO (XO (XO (XO (XI (XO (XO XH)))))))) :: ((Npos (XO
    (XO (XO (XO (XI (XO (XO XH)))))))) :: ((Npos (XO (XO (XO (XO (XI (XO (XO
    XH)))))))) :: ((Npos (XO (XO (XO (XO (XI (XO (XO XH)))))))) :: ((Npos (XO
    (XO (XO (XO (XI (XO (XO XH)))))))) :: ((Npos (XO (XO (XO (XO (XI (XO (XO
    XH)))))))) :: ((Npos (XO (XO (XO (XO (XI (XO (XO XH)))))))) :: ((Npos (XO
    (XO (XO (XO (XI (XO (XO XH)))))))) :: ((Npos (XO (XO (XO (XO (XI (XO (XO
    XH)))))))) :: ((Npos (XO (XO (XO (XO (XI (XO (XO XH)))))))) :: ((Npos (XO
    (XO (XO (XO (XI (XO (XO XH)))))))) :: ((Npos (XO (XO (XO (XO (XI (XO (XO
    XH)))))))) :: ((Npos (XO (XO (XO (XO (XI (XO (XO XH)))))))) :: ((Npos (XO
    (XO (XO (XO (XI (XO (XO XH)))))))) :: ((Npos (XO (XO (XO (XO (XI (XO (XO
    XH)))))))) :: ((Npos (XO (XO (XO (XO (XI (XO (XO XH)))))))) :: ((Npos (XO
    (XO (XO (XO (XI (XO (XO XH)))))))) :: ((Npos (XO (XO (XO (XO (XI (XO (XO
    XH)))))))) :: ((Npos (XO (XO (XO (XO (XI (XO (XO XH)))))))) :: ((Npos (XO
    (XO (XO (XO (XI (XO (XO XH)))))))) :: ((Npos (XO (XO (XO (XO (XI (XO (XO
    XH)))))))) :: ((Npos (XO (XO (XO (XO (XI (XO (XO XH)))))))) :: ((Npos (XO
    (XO (XO (XO (XI (XO (XO XH)))))))) :: ((Npos (XO (XO (XO (XO (XI (XO (XO
    XH)))))))) :: ((Npos (XO (XO (XO (XO (XI (XO (XO XH)))))))) :: ((Npos (XO
    (XO (XO (XO (XI (XO (XO XH)))))))) :: ((Npos (XO (XO (XO (XO (XI (XO (XO
    XH)))))))) :: ((Npos (XO (XO (XO (XO (XI (XO (XO XH)))))))) :: ((Npos (XO
    (XO (XO (XO (XI (XO (XO XH)))))))) :: ((Npos (XO (XO (XO (XO (XI (XO (XO
    XH)))))))) :: ((Npos (XO (XO (XO (XO (XI (XO (XO XH)))))))) :: ((Npos (XO
    (XO (XO (XO (XI (XO (XO XH)))))))) :: ((Npos (XO (XO (XO (XO (XI (XO (XO
    XH)))))))) :: ((Npos (XO (XO (XO (XO (XI (XO (XO XH)))))))) :: ((Npos (XO
    (XO (XO (XO (XI (XO (XO XH)))))))) :: ((Npos (XO (XO (XO (XO (XI (XO (XO
    XH)))))))) :: ((Npos (XO (XO (XO (XO (XI (XO (XO XH)))))))) :: ((Npos (XO
    (XO (XO (XO (XI (XO (XO XH)))))))) :: ((Npos (XO (XO (XO (XO (XI (XO (XO
    XH)))))))) :: ((Npos (XO (XO (XO (XO (XI (XO (XO XH)))))))) :: ((Npos (XO
    (XO (XO (XO (XI (XO (XO XH)))))))) :: ((Npos (XO (XO (XO (XO (XI (XO (XO
    XH)))))))) :: ((Npos (XO (XO (XO (XO (XI (XO (XO XH)))))))) :: ((Npos (XO
    (XO (XO (XO (XI (XO (XO XH)))))))) :: ((Npos (XO (XO (XO (XO (XI (XO (XO
    XH)))))))) :: ((Npos (XO (XO (XO (XO (XI (XO (XO XH)))))))) :: ((Npos (XO
    (XO (XO (XO (XI (XO (XO XH)))))))) :: ((Npos (XO (XO (XO (XO (XI (XO (XO
    XH)))))))) :: ((Npos (XO (XO (XO (XO (XI (XO (XO XH)))))))) :: ((Npos (XO
    (XO (XO (XO (XI (XO (XO XH)))))))) :: ((Npos (XO (XO (XO (XO (XI (XO (XO
    XH)))))))) :: ((Npos (XO (XO (XO (XO (XI (XO (XO XH)))))))) :: ((Npos (XO
    (XO (XO (XO (XI (XO (XO XH)))))))) :: ((Npos (XO (XO (XO (XO (XI (XO (XO
    XH)))))))) :: ((Npos (XO (XO (XO (XO (XI (XO (XO XH)))))))) :: ((Npos (XO
    (XO (XO (XO (XI (XO (XO XH)))))))) :: ((Npos (XO (XO (XO (XO (XI (XO (XO
    XH)))))))) :: ((Npos (XO (XO (XO (XO (XI (XO (XO XH)))))))) :: ((Npos (XO
    (XO (XO (XO (XI (XO (XO XH)))))))) :: ((Npos (XO (XO (XO (XO (XI (XO (XO
    XH)))))))) :: ((Npos (XO (XO (XO (XO (XI (XO (XO XH)))))))) :: ((Npos (XO
    (XO (XO (XO (XI (XO (XO XH)))))))) :: ((Npos (XO (XO (XO (XO (XI (XO (XO
    XH)))))))) :: ((Npos (XO (XO (XO (XO (XI (XO (XO XH)))))))) :: ((Npos (XO
    (XO (XO (XO (XI (XO (XO XH)))))))) :: ((Npos (XO (XO (XO (XO (XI (XO (XO
    XH)))))))) :: ((Npos (XO (XO (XO (XO (XI (XO (XO XH)))))))) :: ((Npos (XO
    (XO (XO (XO (XI (XO (XO XH)))))))) :: ((Npos (XO (XO (XO (XO (XI (XO (XO
    XH)))))))) :: ((Npos (XO (XO (XO (XO (XI (XO (XO XH)))))))) :: ((Npos (XO
    (XO (XO (XO (XI (XO (XO XH)))))))) :: ((Npos (XO (XO (XO (XO (XI (XO (XO
    XH)))))))) :: ((Npos (XO (XO (XO (XO (XI (XO (XO XH)))))))) :: ((Npos (XO
    (XO (XO (XO (XI (XO (XO XH)))))))) :: ((Npos (XO (XO (XO (XO (XI (XO (XO
    XH)))))))) :: ((Npos (XO (XO (XO (XO (XI (XO (XO XH)))))))) :: ((Npos (XO
    (XO (XO (XO (XI (XO (XO XH)))))))) :: ((Npos (XO (XO (XO (XO (XI (XO (XO
    XH)))))))) :: ((Npos (XO (XO (XO (XO (XI (XO (XO XH)))))))) :: ((Npos (XO
    (XO (XO (XO (XI (XO (XO XH)))))))) :: ((Npos (XO (XO (XO (XO (XI (XO (XO
    XH)))))))) :: ((Npos (XO (XO (XO (XO (XI (XO (XO XH)))))))) :: ((Npos (XO
    (XO (XO (XO (XI (XO (XO XH)))))))) :: ((Npos (XO (XO (XO (XO (XI (XO (XO
    XH)))))))) :: ((Npos (XO (XO (XO (XO (XI (XO (XO XH)))))))) :: ((Npos (XO
    (XO (XO (XO (XI (XO (XO XH)))))))) :: ((Npos (XO (XO (XO (XO (XI (XO (XO
    XH)))))))) :: ((Npos (XO (XO (XO (XO (XI (XO (XO XH)))))))) :: ((Npos (XO
    (XO (XO (XO (XI (XO (XO XH)))))))) :: ((Npos (XO (XO (XO (XO (XI (XO (XO
    XH)))))))) :: ((Npos (XO (XO (XO (XO (XI (XO (XO XH)))))))) :: ((Npos (XO
    (XO (XO (XO (XI (XO (XO XH)))))))) :: ((Npos (XO (XO (XO (XO (XI (XO (XO
    XH)))))))) :: ((Npos (XO (XO (XO (XO (XI (XO (XO XH)))))))) :: ((Npos (XO
    (XO (XO (XO (XI (XO (XO XH)))))))) :: ((Npos (XO (XO (XO (XO (XI (XO (XO
    XH)))))))) :: ((Npos (XO (XO (XO (XO (XI (XO (XO XH)))))))) :: ((Npos (XO
    (XO (XO (XO (XI (XO (XO XH)))))))) :: ((Npos (XO (XO (XO (XO (XI (XO (XO
    XH)))))))) :: ((Npos (XO (XO (XO (XO (XI (XO (XO XH)))))))) :: ((Npos (XO
    (XO (XO (XO (XI (XO (XO XH)))))))) :: ((Npos (XO (XO (XO (XO (XI (XO (XO
    XH)))))))) :: ((Npos (XO (XO (XO (XO (XI (XO (XO XH)))))))) :: ((Npos (XO
    (XO (XO (XO (XI (XO (XO XH)))))))) :: ((Npos (XO (XO (XO (XO (XI (XO (XO
    XH)))))))) :: ((Npos (XO (XO (XO (XO (XI (XO (XO XH)))))))) :: ((Npos (XO
    (XO (XO (XO (XI (XO (XO XH)))))))) :: ((Npos (XO (XO (XO (XO (XI (XO (XO
    XH)))))))) :: ((Npos (XO (XO (XO (XO (XI (XO (XO XH)))))))) :: ((Npos (XO
    (XO (XO (XO (XI (XO (XO XH)))))))) :: ((Npos (XO (XO (XO (XO (XI (XO (XO
    XH)))))))) :: ((Npos (XO (XO (XO (XO (XI (XO (XO XH)))))))) :: ((Npos (XO
    (XO (XO (XO (XI (XO (XO XH)))))))) :: ((Npos (XO (XO (XO (XO (XI (XO (XO
    XH)))))))) :: ((Npos (XO (XO (XO (XO (XI (XO (XO XH)))))))) :: ((Npos (XO
    (XO (XO (XO (XI (XO (XO XH)))))))) :: ((Npos (XO (XO (XO (XO (XI (XO (XO
    XH)))))))) :: ((Npos (XO (XO (XO (XO (XI (XO (XO XH)))))))) :: ((Npos (XO
    (XO (XO (XO (XI (XO (XO XH)))))))) :: ((Npos (XO (XO (XO (XO (XI (XO (XO
    XH)))))))) :: ((Npos (XO (XO (XO (XO (XI (XO (XO XH)))))))) :: ((Npos (XO
    (XO (XO (XO (XI (XO (XO XH)))))))) :: ((Npos (XO (XO (XO (XO (XI (XO (XO
    XH)))))))) :: ((Npos (XO (XO (XO (XO (XI (XO (XO XH)))))))) :: ((Npos (XO
    (XO (XO (XO (XI (XO (XO XH)))))))) :: ((Npos (XO (XO (XO (XO (XI (XO (XO
    XH)))))))) :: ((Npos (XO (XO (XO (XO (XI (XO (XO XH)))))))) :: ((Npos (XO
    (XO (XO (XO (XI (XO (XO XH)))))))) :: ((Npos (XO (XO (XO (XO (XI (XO (XO
    XH)))))))) :: ((Npos (XO (XO (XO (XO (XI (XO (XO XH)))))))) :: ((Npos (XO
    (XO (XO (XO (XI (XO (XO XH)))))))) :: ((Npos (XO (XO (XO (XO (XI (XO (XO
    XH)))))))) :: ((Npos (XO (XO (XO (XO (XI (XO (XO XH)))))))) :: ((Npos (XO
    (XO (XO (XO (XI (XO (XO XH)))))))) :: ((Npos (XO (XO (XO (XO (XI (XO (XO
    XH)))))))) :: ((Npos (XO (XO (XO (XO (XI (XO (XO XH)))))))) :: ((Npos (XO
    (XO (XO (XO (XI (XO (XO XH)))))))) :: ((Npos (XO (XO (XO (XO (XI (XO (XO
    XH)))))))) :: ((Npos (XO (XO (XO (XO (XI (XO (XO XH)))))))) :: ((Npos (XO
    (XO (XO (XO (XI (XO (XO XH)))))))) :: ((Npos (XO (XO (XO (XO (XI (XO (XO
    XH)))))))) :: ((Npos (XO (XO (XO (XO (XI (XO (XO XH)))))))) :: ((Npos (XO
    (XO (XO (XO (XI (XO (XO
    XH)))))))) :: [])))))))))))))))))))))))))))))))))))))))))))))))))))))))))))))))))))))))))))))))))))))))))))))))))))))))))))))))))))))))))))))))))))))))))))))))))))))))))))))))))))))))))))))))))))))))))))))))))))))))))))))))))))))))))))))))))))))))))))))))))))))))))))))))) :: (((Npos
    (XO (XO (XO (XO (XI (XI XH))))))) :: ((Npos (XO (XO (XO (XO (XI (XI
    XH))))))) :: ((Npos (XO (XO (XO (XO (XI (XI XH))))))) :: ((Npos (XO (XO
    (XO (XO (XI (XI XH))))))) :: ((Npos (XO (XO (XO (XO (XI (XI
    XH))))))) :: ((Npos (XO (XO (XO (XO (XI (XI XH))))))) :: ((Npos (XO (XO
    (XO (XO (XI (XI XH))))))) :: ((Npos (XO (XO (XO (XO (XI (XI
    XH))))))) :: ((Npos (XO (XO (XO (XO (XI (XI XH))))))) :: ((Npos (XO (XO
    (XO (XO (XI (XI XH))))))) :: ((Npos (XO (XO (XO (XO (XI (XI
    XH))))))) :: ((Npos (XO (XO (XO (XO (XI (XI XH))))))) :: ((Npos (XO (XO
    (XO (XO (XI (XI XH))))))) :: ((Npos (XO (XO (XO (XO (XI (XI
    XH))))))) :: ((Npos (XO (XO (XO (XO (XI (XI XH))))))) :: ((Npos (XO (XO
    (XO (XO (XI (XI XH))))))) :: ((Npos (XO (XO (XO (XO (XI (XI
    XH))))))) :: ((Npos (XO (XO (XO (XO (XI (XI XH))))))) :: ((Npos (XO (XO
    (XO (XO (XI (XI XH))))))) :: ((Npos (XO (XO (XO (XO (XI (XI
    XH))))))) :: ((Npos (XO (XO (XO (XO (XI (XI XH))))))) :: ((Npos (XO (XO
    (XO (XO (XI (XI XH))))))) :: ((Npos (XO (XO (XO (XO (XI (XI
    XH))))))) :: ((Npos (XO (XO (XO (XO (XI (XI XH))))))) :: (N0 :: ((Npos
    (XO (XO (XO (XO (XI (XI XH))))))) :: (N0 :: (N0 :: ((Npos (XO (XO (XO (XO
    (XI (XI XH))))))) :: ((Npos (XO (XO (XO (XO (XI (XI XH))))))) :: ((Npos
    (XO (XO (XO (XO (XI (XI XH))))))) :: ((Npos (XO (XO (XO (XO (XI (XI
    XH))))))) :: ((Npos (XO (XO (XO (XO (XI (XI XH))))))) :: ((Npos (XO (XO
    (XO (XO (XI (XI XH))))))) :: ((Npos (XO (XO (XO (XO (XI (XI
    XH))))))) :: ((Npos (XO (XO (XO (XO (XI (XI XH))))))) :: ((Npos (XO (XO
    (XO (XO (XI (XI XH))))))) :: ((Npos (XO (XO (XO (XO (XI (XI
    XH))))))) :: ((Npos (XO (XO (XO (XO (XI (XI XH))))))) :: ((Npos (XO (XO
    (XO (XO (XI (XI XH))))))) :: ((Npos (XO (XO (XO (XO (XI (XI
    XH))))))) :: ((Npos (XO (XO (XO (XO (XI (XI XH))))))) :: ((Npos (XO (XO
    (XO (XO (XI (XI XH))))))) :: ((Npos (XO (XO (XO (XO (XI (XI
    XH))))))) :: ((Npos (XO (XO (XO (XO (XI (XI XH))))))) :: ((Npos (XO (XO
    (XO (XO (XI (XI XH))))))) :: ((Npos (XO (XO (XO (XO (XI (XI
    XH))))))) :: ((Npos (XO (XO (XO (XO (XI (XI XH))))))) :: ((Npos (XO (XO
    (XO (XO (XI (XI XH))))))) :: ((Npos (XO (XO (XO (XO (XI (XI
    XH))))))) :: ((Npos (XO (XO (XO (XO (XI (XI XH))))))) :: ((Npos (XO (XO
    (XO (XO (XI (XI XH))))))) :: ((Npos (XO (XO (XO (XO (XI (XI
    XH))))))) :: ((Npos (XO (XO (XO (XO (XI (XI XH))))))) :: ((Npos (XO (XO
    (XO (XO (XI (XI XH))))))) :: ((Npos (XO (XO (XO (XO (XI (XI
    XH))))))) :: ((Npos (XO (XO (XO (XO (XI (XI XH))))))) :: ((Npos (XO (XO
    (XO (XO (XI (XI XH))))))) :: ((Npos (XO (XO (XO (XO (XI (XI
    XH))))))) :: ((Npos (XO (XO (XO (XO (XI (XI XH))))))) :: ((Npos (XO (XO
    (XO (XO (XI (XI XH))))))) :: ((Npos (XO (XO (XO (XO (XI (XI
    XH))))))) :: ((Npos (XO (XO (XO (XO (XI (XI XH))))))) :: ((Npos (XO (XO
    (XO (XO (XI (XI XH))))))) :: ((Npos (XO (XO (XO (XO (XI (XI
    XH))))))) :: ((Npos (XO (XO (XO (XO (XI (XI XH))))))) :: ((Npos (XO (XO
    (XO (XO (XI (XI XH))))))) :: ((Npos (XO (XO (XO (XO (XI (XI
    XH))))))) :: ((Npos (XO (XO (XO (XO (XI (XI XH))))))) :: ((Npos (XO (XO
    (XO (XO (XI (XI XH))))))) :: ((Npos (XO (XO (XO (XO (XI (XI
    XH))))))) :: ((Npos (XO (XO (XO (XO (XI (XI XH))))))) :: ((Npos (XO (XO
    (XO (XO (XI (XI XH))))))) :: ((Npos (XO (XO (XO (XO (XI (XI
    XH))))))) :: ((Npos (XO (XO (XO (XO (XI (XI XH))))))) :: ((Npos (XO (XO
    (XO (XO (XI (XI XH))))))) :: ((Npos (XO (XO (XO (XO (XI (XI
    XH))))))) :: ((Npos (XO (XO (XO (XO (XI (XI XH))))))) :: ((Npos (XO (XO
    (XO (XO (XI (XI XH))))))) :: ((Npos (XO (XO (XO (XO (XI (XI
    XH))))))) :: ((Npos (XO (XO (XO (XO (XI (XI XH))))))) :: ((Npos (XO (XO
    (XO (XO (XI (XI XH))))))) :: ((Npos (XO (XO (XO (XO (XI (XI
    XH))))))) :: ((Npos (XO (XO (XO (XO (XI (XI XH))))))) :: ((Npos (XO (XO
    (XO (XO (XI (XI XH))))))) :: ((Npos (XO (XO (XO (XO (XI (XI
    XH))))))) :: ((Npos (XO (XO (XO (XO (XI (XI XH))))))) :: ((Npos (XO (XO
    (XO (XO (XI (XI XH))))))) :: ((Npos (XO (XO (XO (XO (XI (XI
    XH))))))) :: ((Npos (XO (XO (XO (XO (XI (XI XH))))))) :: ((Npos (XO (XO
    (XO (XO (XI (XI XH))))))) :: ((Npos (XO (XO (XO (XO (XI (XI
    XH))))))) :: ((Npos (XO (XO (XO (XO (XI (XI XH))))))) :: ((Npos (XO (XO
    (XO (XO (XI (XI XH))))))) :: ((Npos (XO (XO (XO (XO (XI (XI
    XH))))))) :: ((Npos (XO (XO (XO (XO (XI (XI XH))))))) :: ((Npos (XO (XO
    (XO (XO (XI (XI XH))))))) :: ((Npos (XO (XO (XO (XO (XI (XI
    XH))))))) :: ((Npos (XO (XO (XO (XO (XI (XI XH))))))) :: ((Npos (XO (XO
    (XO (XO (XI (XI XH))))))) :: ((Npos (XO (XO (XO (XO (XI (XI
    XH))))))) :: ((Npos (XO (XO (XO (XO (XI (XI XH))))))) :: ((Npos (XO (XO
    (XO (XO (XI (XI XH))))))) :: ((Npos (XO (XO (XO (XO (XI (XI
    XH))))))) :: ((Npos (XO (XO (XO (XO (XI (XI XH))))))) :: ((Npos (XO (XO
    (XO (XO (XI (XI XH))))))) :: ((Npos (XO (XO (XO (XO (XI (XI
    XH))))))) :: ((Npos (XO (XO (XO (XO (XI (XI XH))))))) :: ((Npos (XO (XO
    (XO (XO (XI (XI XH))))))) :: ((Npos (XO (XO (XO (XO (XI (XI
    XH))))))) :: ((Npos (XO (XO (XO (XO (XI (XI XH))))))) :: ((Npos (XO (XO
    (XO (XO (XI (XI XH))))))) :: ((Npos (XO (XO (XO (XO (XI (XI
    XH))))))) :: ((Npos (XO (XO (XO (XO (XI (XI XH))))))) :: ((Npos (XO (XO
    (XO (XO (XI (XI XH))))))) :: ((Npos (XO (XO (XO (XO (XI (XI
    XH))))))) :: ((Npos (XO (XO (XO (XO (XI (XI XH))))))) :: ((Npos (XO (XO
    (XO (XO (XI (XI XH))))))) :: ((Npos (XO (XO (XO (XO (XI (XI
    XH))))))) :: ((Npos (XO (XO (XO (XO (XI (XI XH))))))) :: ((Npos (XO (XO
    (XO (XO (XI (XI XH))))))) :: ((Npos (XO (XO (XO (XO (XI (XI
    XH))))))) :: ((Npos (XO (XO (XO (XO (XI (XI XH))))))) :: ((Npos (XO (XO
    (XO (XO (XI (XI XH))))))) :: ((Npos (XO (XO (XO (XO (XI (XI
    XH))))))) :: ((Npos (XO (XO (XO (XO (XI (XI XH))))))) :: ((Npos (XO (XO
    (XO (XO (XI (XI XH))))))) :: ((Npos (XO (XO (XO (XO (XI (XI
    XH))))))) :: (N0 :: (N0 :: (N0 :: (N0 :: (N0 :: (N0 :: (N0 :: (N0 :: (N0 :: (N0 :: (N0 :: (N0 :: (N0 :: (N0 :: (N0 :: (N0 :: (N0 :: (N0 :: (N0 :: (N0 :: (N0 :: (N0 :: (N0 :: (N0 :: (N0 :: (N0 :: (N0 :: (N0 :: ((Npos
    (XO (XO (XI
    XH)))) :: (N0 :: (N0 :: (N0 :: (N0 :: (N0 :: (N0 :: (N0 :: (N0 :: (N0 :: (N0 :: (N0 :: (N0 :: (N0 :: (N0 :: (N0 :: (N0 :: (N0 :: (N0 :: (N0 :: (N0 :: (N0 :: (N0 :: (N0 :: (N0 :: (N0 :: (N0 :: (N0 :: (N0 :: (N0 :: (N0 :: (N0 :: (N0 :: (N0 :: (N0 :: (N0 :: (N0 :: (N0 :: (N0 :: (N0 :: (N0 :: (N0 :: (N0 :: (N0 :: (N0 :: (N0 :: (N0 :: (N0 :: (N0 :: (N0 :: (N0 :: (N0 :: (N0 :: (N0 :: (N0 :: (N0 :: (N0 :: (N0 :: (N0 :: (N0 :: (N0 :: (N0 :: (N0 :: (N0 :: (N0 :: (N0 :: (N0 :: (N0 :: (N0 :: (N0 :: (N0 :: (N0 :: (N0 :: (N0 :: (N0 :: (N0 :: (N0 :: (N0 :: (N0 :: (N0 :: (N0 :: (N0 :: (N0 :: (N0 :: (N0 :: (N0 :: (N0 :: (N0 :: (N0 :: (N0 :: (N0 :: (N0 :: (N0 :: (N0 :: (N0 :: (N0 :: (N0 :: (N0 :: (N0 :: (N0 :: [])))))))))))))))))))))))))))))))))))))))))))))))))))))))))))))))))))))))))))))))))))))))))))))))))))))))))))))))))))))))))))))))))))))))))))))))))))))))))))))))))))))))))))))))))))))))))))))))))))))))))))))))))))))))))))))))))))))))))))))))))))))))))))))))) :: ((N0 :: (N0 :: (N0 :: (N0 :: (N0 :: (N0 :: (N0 :: (N0 :: (N0 :: (N0 :: (N0 :: (N0 :: (N0 :: (N0 :: (N0 :: (N0 :: (N0 :: (N0 :: (N0 :: (N0 :: (N0 :: (N0 :: (N0 :: (N0 :: (N0 :: (N0 :: (N0 :: (N0 :: (N0 :: (N0 :: (N0 :: (N0 :: (N0 :: (N0 :: (N0 :: (N0 :: (N0 :: (N0 :: (N0 :: (N0 :: (N0 :: (N0 :: (N0 :: (N0 :: (N0 :: (N0 :: (N0 :: (N0 :: (N0 :: (N0 :: (N0 :: (N0 :: (N0 :: (N0 :: (N0 :: (N0 :: (N0 :: (N0 :: (N0 :: (N0 :: (N0 :: (N0 :: (N0 :: (N0 :: (N0 :: (N0 :: (N0 :: (N0 :: (N0 :: (N0 :: (N0 :: (N0 :: (N0 :: (N0 :: (N0 :: (N0 :: (N0 :: (N0 :: (N0 :: (N0 :: (N0 :: (N0 :: (N0 :: (N0 :: (N0 :: (N0 :: (N0 :: (N0 :: (N0 :: (N0 :: (N0 :: (N0 :: (N0 :: (N0 :: (N0 :: (N0 :: (N0 :: (N0 :: (N0 :: (N0 :: (N0 :: (N0 :: (N0 :: (N0 :: (N0 :: (N0 :: (N0 :: (N0 :: (N0 :: (N0 :: (N0 :: (N0 :: (N0 :: (N0 :: (N0 :: (N0 :: (N0 :: (N0 :: (N0 :: (N0 :: (N0 :: (N0 :: (N0 :: (N0 :: (N0 :: (N0 :: (N0 :: (N0 :: (N0 :: (N0 :: (N0 :: (N0 :: (N0 :: (N0 :: (N0 :: (N0 :: (N0 :: (N0 :: (N0 :: (N0 :: (N0 :: (N0 :: (N0 :: (N0 :: (N0 :: (N0 :: (N0 :: (N0 :: (N0 :: (N0 :: (N0 :: (N0 :: (N0 :: (N0 :: (N0 :: (N0 :: (N0 :: (N0 :: (N0 :: (N0 :: (N0 :: (N0 :: (N0 :: (N0 :: (N0 :: (N0 :: (N0 :: (N0 :: (N0 :: (N0 :: (N0 :: (N0 :: (N0 :: (N0 :: (N0 :: (N0 :: (N0 :: (N0 :: (N0 :: (N0 :: (N0 :: (N0 :: (N0 :: (N0 :: (N0 :: (N0 :: (N0 :: (N0 :: (N0 :: (N0 :: (N0 :: (N0 :: (N0 :: (N0 :: (N0 :: (N0 :: (N0 :: (N0 :: (N0 :: (N0 :: (N0 :: (N0 :: (N0 :: (N0 :: (N0 :: (N0 :: (N0 :: (N0 :: (N0 :: (N0 :: (N0 :: (N0 :: (N0 :: (N0 :: (N0 :: (N0 :: (N0 :: (N0 :: (N0 :: (N0 :: (N0 :: (N0 :: (N0 :: (N0 :: (N0 :: (N0 :: (N0 :: (N0 :: (N0 :: (N0 :: (N0 :: (N0 :: (N0 :: (N0 :: (N0 :: (N0 :: (N0 :: (N0 :: (N0 :: (N0 :: (N0 :: (N0 :: (N0 :: (N0 :: (N0 :: (N0 :: (N0 :: (N0 :: (N0 :: (N0 :: (N0 :: (N0 :: (N0 :: (N0 :: (N0 :: (N0 :: [])))))))))))))))))))))))))))))))))))))))))))))))))))))))))))))))))))))))))))))))))))))))))))))))))))))))))))))))))))))))))))))))))))))))))))))))))))))))))))))))))))))))))))))))))))))))))))))))))))))))))))))))))))))))))))))))))))))))))))))))))))))))))))))))) :: [])))))))))))))))

(** val mAX_INTERMEDIATES : n **)

let mAX_INTERMEDIATES =
  Npos (XO XH)

(** val mAX_OSC_PARAMS : n **)

let mAX_OSC_PARAMS =
  Npos (XO (XO (XO (XO XH))))

(** val mAX_PARAMS : n **)

let mAX_PARAMS =
  Npos (XO (XO (XO (XO (XO XH)))))

(** val in_range : n -> n -> n -> bool **)

let in_range lo hi b =
  (&&) (N.leb lo b) (N.leb b hi)

type ustate =
| UTail1
| UTail2
| UTail3
| UE0
| UED
| UF0
| UF4

(** val utf8_lead : n -> ustate option **)

let utf8_lead b =
  if in_range (Npos (XO (XI (XO (XO (XO (XO (XI XH)))))))) (Npos (XI (XI (XI
       (XI (XI (XO (XI XH)))))))) b
  then Some UTail1
  else if N.eqb b (Npos (XO (XO (XO (XO (XO (XI (XI XH))))))))
       then Some UE0
       else if in_range (Npos (XI (XO (XO (XO (XO (XI (XI XH)))))))) (Npos
                 (XO (XO (XI (XI (XO (XI (XI XH)))))))) b
            then Some UTail2
            else if N.eqb b (Npos (XI (XO (XI (XI (XO (XI (XI XH))))))))
                 then Some UED
                 else if in_range (Npos (XO (XI (XI (XI (XO (XI (XI
                           XH)))))))) (Npos (XI (XI (XI (XI (XO (XI (XI
                           XH)))))))) b
                      then Some UTail2
                      else if N.eqb b (Npos (XO (XO (XO (XO (XI (XI (XI
                                XH))))))))
                           then Some UF0
                           else if in_range (Npos (XI (XO (XO (XO (XI (XI (XI
                                     XH)))))))) (Npos (XI (XI (XO (XO (XI (XI
                                     (XI XH)))))))) b
                                then Some UTail3
                                else if N.eqb b (Npos (XO (XO (XI (XO (XI (XI
                                          (XI XH))))))))
                                     then Some UF4
                                     else None

type ucont =
| UMore of ustate
| UDone
| UBad

(** val utf8_cont : ustate -> n -> ucont **)

let utf8_cont u b =
  match u with
  | UTail1 ->
    if in_range (Npos (XO (XO (XO (XO (XO (XO (XO XH)))))))) (Npos (XI (XI
         (XI (XI (XI (XI (XO XH)))))))) b
    then UDone
    else UBad
  | UTail2 ->
    if in_range (Npos (XO (XO (XO (XO (XO (XO (XO XH)))))))) (Npos (XI (XI
         (XI (XI (XI (XI (XO XH)))))))) b
    then UMore UTail1
    else UBad
  | UTail3 ->
    if in_range (Npos (XO (XO (XO (XO (XO (XO (XO XH)))))))) (Npos (XI (XI
         (XI (XI (XI (XI (XO XH)))))))) b
    then UMore UTail2
    else UBad
  | UE0 ->
    if in_range (Npos (XO (XO (XO (XO (XO (XI (XO XH)))))))) (Npos (XI (XI
         (XI (XI (XI (XI (XO XH)))))))) b
    then UMore UTail1
    else UBad
  | UED ->
    if in_range (Npos (XO (XO (XO (XO (XO (XO (XO XH)))))))) (Npos (XI (XI
         (XI (XI (XI (XO (XO XH)))))))) b
    then UMore UTail1
    else UBad
  | UF0 ->
    if in_range (Npos (XO (XO (XO (XO (XI (XO (XO XH)))))))) (Npos (XI (XI
         (XI (XI (XI (XI (XO XH)))))))) b
    then UMore UTail2
    else UBad
  | UF4 ->
    if in_range (Npos (XO (XO (XO (XO (XO (XO (XO XH)))))))) (Npos (XI (XI
         (XI (XI (XO (XO (XO XH)))))))) b
    then UMore UTail2
    else UBad

(** val valid_from : ustate option -> n list -> bool **)

let rec valid_from u = function
| [] -> (match u with
         | Some _ -> false
         | None -> true)
| b :: rest ->
  (match u with
   | Some u0 ->
     (match utf8_cont u0 b with
      | UMore u' -> valid_from (Some u') rest
      | UDone -> valid_from None rest
      | UBad -> false)
   | None ->
     if N.ltb b (Npos (XO (XO (XO (XO (XO (XO (XO XH))))))))
     then valid_from None rest
     else (match utf8_lead b with
           | Some u' -> valid_from (Some u') rest
           | None -> false))

(** val valid_utf8 : n list -> bool **)

let valid_utf8 bs =
  valid_from None bs

(** val utf8_decode : n list -> n **)

let utf8_decode = function
| [] ->
  Npos (XI (XO (XI (XI (XI (XI (XI (XI (XI (XI (XI (XI (XI (XI (XI
    XH)))))))))))))))
| a :: l ->
  (match l with
   | [] -> a
   | b :: l0 ->
     (match l0 with
      | [] ->
        N.add
          (N.mul (N.modulo a (Npos (XO (XO (XO (XO (XO XH))))))) (Npos (XO
            (XO (XO (XO (XO (XO XH))))))))
          (N.modulo b (Npos (XO (XO (XO (XO (XO (XO XH))))))))
      | c :: l1 ->
        (match l1 with
         | [] ->
           N.add
             (N.add
               (N.mul (N.modulo a (Npos (XO (XO (XO (XO XH)))))) (Npos (XO
                 (XO (XO (XO (XO (XO (XO (XO (XO (XO (XO (XO XH))))))))))))))
               (N.mul (N.modulo b (Npos (XO (XO (XO (XO (XO (XO XH))))))))
                 (Npos (XO (XO (XO (XO (XO (XO XH)))))))))
             (N.modulo c (Npos (XO (XO (XO (XO (XO (XO XH))))))))
         | d :: l2 ->
           (match l2 with
            | [] ->
              N.add
                (N.add
                  (N.add
                    (N.mul (N.modulo a (Npos (XO (XO (XO XH))))) (Npos (XO
                      (XO (XO (XO (XO (XO (XO (XO (XO (XO (XO (XO (XO (XO (XO
                      (XO (XO (XO XH))))))))))))))))))))
                    (N.mul
                      (N.modulo b (Npos (XO (XO (XO (XO (XO (XO XH))))))))
                      (Npos (XO (XO (XO (XO (XO (XO (XO (XO (XO (XO (XO (XO
                      XH)))))))))))))))
                  (N.mul (N.modulo c (Npos (XO (XO (XO (XO (XO (XO XH))))))))
                    (Npos (XO (XO (XO (XO (XO (XO XH)))))))))
                (N.modulo d (Npos (XO (XO (XO (XO (XO (XO XH))))))))
            | _ :: _ ->
              Npos (XI (XO (XI (XI (XI (XI (XI (XI (XI (XI (XI (XI (XI (XI
                (XI XH)))))))))))))))))))

(** val replacement : n **)

let replacement =
  Npos (XI (XO (XI (XI (XI (XI (XI (XI (XI (XI (XI (XI (XI (XI (XI
    XH)))))))))))))))

type vstate =
| VGround
| VEscape
| VEscInt
| VCsiEntry
| VCsiParam
| VCsiInt
| VCsiIgnore
| VDcsEntry
| VDcsParam
| VDcsInt
| VDcsPass
| VDcsIgnore
| VOsc
| VSos

type vact =
| TNone
| TIgnore
| TPrint
| TExecute
| TCollect
| TParam
| TEscDispatch
| TCsiDispatch
| TPut
| TOscPut
| TUtf8

type event =
| EPrint of n
| EExecute of n
| EHook of n list list * n list * bool * n
| EPut of n
| EUnhook
| EOsc of n list list * bool
| ECsi of n list list * n list * bool * n
| EEsc of n list * bool * n

(** val c0 : n -> bool **)

let c0 b =
  (||)
    ((||) (in_range N0 (Npos (XI (XI (XI (XO XH))))) b)
      (N.eqb b (Npos (XI (XO (XO (XI XH)))))))
    (in_range (Npos (XO (XO (XI (XI XH))))) (Npos (XI (XI (XI (XI XH))))) b)

(** val vt_trans : vstate -> n -> vstate option * vact **)

let vt_trans s b =
  if (||) (N.eqb b (Npos (XO (XO (XO (XI XH))))))
       (N.eqb b (Npos (XO (XI (XO (XI XH))))))
  then ((Some VGround), TExecute)
  else if N.eqb b (Npos (XI (XI (XO (XI XH)))))
       then ((Some VEscape), TNone)
       else (match s with
             | VGround ->
               if c0 b
               then (None, TExecute)
               else if in_range (Npos (XO (XO (XO (XO (XO XH)))))) (Npos (XI
                         (XI (XI (XI (XI (XI XH))))))) b
                    then (None, TPrint)
                    else if (||)
                              ((||)
                                (in_range (Npos (XO (XO (XO (XO (XO (XO (XO
                                  XH)))))))) (Npos (XI (XI (XI (XI (XO (XO
                                  (XO XH)))))))) b)
                                (in_range (Npos (XI (XO (XO (XO (XI (XO (XO
                                  XH)))))))) (Npos (XO (XI (XO (XI (XI (XO
                                  (XO XH)))))))) b))
                              (N.eqb b (Npos (XO (XO (XI (XI (XI (XO (XO
                                XH)))))))))
                         then (None, TExecute)
                         else if in_range (Npos (XO (XI (XO (XO (XO (XO (XI
                                   XH)))))))) (Npos (XO (XO (XI (XO (XI (XI
                                   (XI XH)))))))) b
                              then (None, TUtf8)
                              else (None, TNone)
             | VEscape ->
               if c0 b
               then (None, TExecute)
               else if N.eqb b (Npos (XI (XI (XI (XI (XI (XI XH)))))))
                    then (None, TIgnore)
                    else if in_range (Npos (XO (XO (XO (XO (XO XH)))))) (Npos
                              (XI (XI (XI (XI (XO XH)))))) b
                         then ((Some VEscInt), TCollect)
                         else if N.eqb b (Npos (XO (XO (XO (XO (XI (XO
                                   XH)))))))
                              then ((Some VDcsEntry), TNone)
                              else if N.eqb b (Npos (XI (XI (XO (XI (XI (XO
                                        XH)))))))
                                   then ((Some VCsiEntry), TNone)
                                   else if N.eqb b (Npos (XI (XO (XI (XI (XI
                                             (XO XH)))))))
                                        then ((Some VOsc), TNone)
                                        else if (||)
                                                  ((||)
                                                    (N.eqb b (Npos (XO (XO
                                                      (XO (XI (XI (XO
                                                      XH))))))))
                                                    (N.eqb b (Npos (XO (XI
                                                      (XI (XI (XI (XO
                                                      XH)))))))))
                                                  (N.eqb b (Npos (XI (XI (XI
                                                    (XI (XI (XO XH))))))))
                                             then ((Some VSos), TNone)
                                             else if in_range (Npos (XO (XO
                                                       (XO (XO (XI XH))))))
                                                       (Npos (XO (XI (XI (XI
                                                       (XI (XI XH))))))) b
                                                  then ((Some VGround),
                                                         TEscDispatch)
                                                  else (None, TNone)
             | VEscInt ->
               if c0 b
               then (None, TExecute)
               else if N.eqb b (Npos (XI (XI (XI (XI (XI (XI XH)))))))
                    then (None, TIgnore)
                    else if in_range (Npos (XO (XO (XO (XO (XO XH)))))) (Npos
                              (XI (XI (XI (XI (XO XH)))))) b
                         then (None, TCollect)
                         else if in_range (Npos (XO (XO (XO (XO (XI XH))))))
                                   (Npos (XO (XI (XI (XI (XI (XI XH))))))) b
                              then ((Some VGround), TEscDispatch)
                              else (None, TNone)
             | VCsiEntry ->
               if c0 b
               then (None, TExecute)
               else if N.eqb b (Npos (XI (XI (XI (XI (XI (XI XH)))))))
                    then (None, TIgnore)
                    else if in_range (Npos (XO (XO (XO (XO (XO XH)))))) (Npos
                              (XI (XI (XI (XI (XO XH)))))) b
                         then ((Some VCsiInt), TCollect)
                         else if in_range (Npos (XO (XO (XO (XO (XI XH))))))
                                   (Npos (XI (XI (XO (XI (XI XH)))))) b
                              then ((Some VCsiParam), TParam)
                              else if in_range (Npos (XO (XO (XI (XI (XI
                                        XH)))))) (Npos (XI (XI (XI (XI (XI
                                        XH)))))) b
                                   then ((Some VCsiParam), TCollect)
                                   else if in_range (Npos (XO (XO (XO (XO (XO
                                             (XO XH))))))) (Npos (XO (XI (XI
                                             (XI (XI (XI XH))))))) b
                                        then ((Some VGround), TCsiDispatch)
                                        else (None, TNone)
             | VCsiParam ->
               if c0 b
               then (None, TExecute)
               else if N.eqb b (Npos (XI (XI (XI (XI (XI (XI XH)))))))
                    then (None, TIgnore)
                    else if in_range (Npos (XO (XO (XO (XO (XI XH)))))) (Npos
                              (XI (XI (XO (XI (XI XH)))))) b
                         then (None, TParam)
                         else if in_range (Npos (XO (XO (XI (XI (XI XH))))))
                                   (Npos (XI (XI (XI (XI (XI XH)))))) b
                              then ((Some VCsiIgnore), TNone)
                              else if in_range (Npos (XO (XO (XO (XO (XO
                                        XH)))))) (Npos (XI (XI (XI (XI (XO
                                        XH)))))) b
                                   then ((Some VCsiInt), TCollect)
                                   else if in_range (Npos (XO (XO (XO (XO (XO
                                             (XO XH))))))) (Npos (XO (XI (XI
                                             (XI (XI (XI XH))))))) b
                                        then ((Some VGround), TCsiDispatch)
                                        else (None, TNone)
             | VCsiInt ->
               if c0 b
               then (None, TExecute)
               else if N.eqb b (Npos (XI (XI (XI (XI (XI (XI XH)))))))
                    then (None, TIgnore)
                    else if in_range (Npos (XO (XO (XO (XO (XO XH)))))) (Npos
                              (XI (XI (XI (XI (XO XH)))))) b
                         then (None, TCollect)
                         else if in_range (Npos (XO (XO (XO (XO (XI XH))))))
                                   (Npos (XI (XI (XI (XI (XI XH)))))) b
                              then ((Some VCsiIgnore), TNone)
                              else if in_range (Npos (XO (XO (XO (XO (XO (XO
                                        XH))))))) (Npos (XO (XI (XI (XI (XI
                                        (XI XH))))))) b
                                   then ((Some VGround), TCsiDispatch)
                                   else (None, TNone)
             | VCsiIgnore ->
               if c0 b
               then (None, TExecute)
               else if (||)
                         (in_range (Npos (XO (XO (XO (XO (XO XH)))))) (Npos
                           (XI (XI (XI (XI (XI XH)))))) b)
                         (N.eqb b (Npos (XI (XI (XI (XI (XI (XI XH))))))))
                    then (None, TIgnore)
                    else if in_range (Npos (XO (XO (XO (XO (XO (XO XH)))))))
                              (Npos (XO (XI (XI (XI (XI (XI XH))))))) b
                         then ((Some VGround), TNone)
                         else (None, TNone)
             | VDcsEntry ->
               if c0 b
               then (None, TIgnore)
               else if N.eqb b (Npos (XI (XI (XI (XI (XI (XI XH)))))))
                    then (None, TIgnore)
                    else if in_range (Npos (XO (XO (XO (XO (XO XH)))))) (Npos
                              (XI (XI (XI (XI (XO XH)))))) b
                         then ((Some VDcsInt), TCollect)
                         else if in_range (Npos (XO (XO (XO (XO (XI XH))))))
                                   (Npos (XI (XI (XO (XI (XI XH)))))) b
                              then ((Some VDcsParam), TParam)
                              else if in_range (Npos (XO (XO (XI (XI (XI
                                        XH)))))) (Npos (XI (XI (XI (XI (XI
                                        XH)))))) b
                                   then ((Some VDcsParam), TCollect)
                                   else if in_range (Npos (XO (XO (XO (XO (XO
                                             (XO XH))))))) (Npos (XO (XI (XI
                                             (XI (XI (XI XH))))))) b
                                        then ((Some VDcsPass), TNone)
                                        else (None, TNone)
             | VDcsParam ->
               if c0 b
               then (None, TIgnore)
               else if N.eqb b (Npos (XI (XI (XI (XI (XI (XI XH)))))))
                    then (None, TIgnore)
                    else if in_range (Npos (XO (XO (XO (XO (XI XH)))))) (Npos
                              (XI (XI (XO (XI (XI XH)))))) b
                         then (None, TParam)
                         else if in_range (Npos (XO (XO (XI (XI (XI XH))))))
                                   (Npos (XI (XI (XI (XI (XI XH)))))) b
                              then ((Some VDcsIgnore), TNone)
                              else if in_range (Npos (XO (XO (XO (XO (XO
                                        XH)))))) (Npos (XI (XI (XI (XI (XO
                                        XH)))))) b
                                   then ((Some VDcsInt), TCollect)
                                   else if in_range (Npos (XO (XO (XO (XO (XO
                                             (XO XH))))))) (Npos (XO (XI (XI
                                             (XI (XI (XI XH))))))) b
                                        then ((Some VDcsPass), TNone)
                                        else (None, TNone)
             | VDcsInt ->
               if c0 b
               then (None, TIgnore)
               else if N.eqb b (Npos (XI (XI (XI (XI (XI (XI XH)))))))
                    then (None, TIgnore)
                    else if in_range (Npos (XO (XO (XO (XO (XO XH)))))) (Npos
                              (XI (XI (XI (XI (XO XH)))))) b
                         then (None, TCollect)
                         else if in_range (Npos (XO (XO (XO (XO (XI XH))))))
                                   (Npos (XI (XI (XI (XI (XI XH)))))) b
                              then ((Some VDcsIgnore), TNone)
                              else if in_range (Npos (XO (XO (XO (XO (XO (XO
                                        XH))))))) (Npos (XO (XI (XI (XI (XI
                                        (XI XH))))))) b
                                   then ((Some VDcsPass), TNone)
                                   else (None, TNone)
             | VDcsPass ->
               if c0 b
               then (None, TPut)
               else if in_range (Npos (XO (XO (XO (XO (XO XH)))))) (Npos (XO
                         (XI (XI (XI (XI (XI XH))))))) b
                    then (None, TPut)
                    else if N.eqb b (Npos (XI (XI (XI (XI (XI (XI XH)))))))
                         then (None, TIgnore)
                         else if N.eqb b (Npos (XO (XO (XI (XI (XI (XO (XO
                                   XH))))))))
                              then ((Some VGround), TNone)
                              else (None, TNone)
             | VOsc ->
               if N.eqb b (Npos (XI (XI XH)))
               then ((Some VGround), TNone)
               else if c0 b
                    then (None, TIgnore)
                    else if in_range (Npos (XO (XO (XO (XO (XO XH)))))) (Npos
                              (XI (XI (XI (XI (XI (XI (XI XH)))))))) b
                         then (None, TOscPut)
                         else (None, TNone)
             | _ ->
               if c0 b
               then (None, TIgnore)
               else if in_range (Npos (XO (XO (XO (XO (XO XH)))))) (Npos (XI
                         (XI (XI (XI (XI (XI XH))))))) b
                    then (None, TIgnore)
                    else if N.eqb b (Npos (XO (XO (XI (XI (XI (XO (XO
                              XH))))))))
                         then ((Some VGround), TNone)
                         else (None, TNone))

(** val max_values : nat **)

let max_values =
  S (S (S (S (S (S (S (S (S (S (S (S (S (S (S (S (S (S (S (S (S (S (S (S (S
    (S (S (S (S (S (S (S O)))))))))))))))))))))))))))))))

(** val max_ints : nat **)

let max_ints =
  S (S O)

(** val max_osc_fields : nat **)

let max_osc_fields =
  S (S (S (S (S (S (S (S (S (S (S (S (S (S (S (S O)))))))))))))))

(** val max_value : n **)

let max_value =
  Npos (XI (XI (XI (XI (XI (XI (XI (XI (XI (XI (XI (XI (XI (XI (XI
    XH)))))))))))))))

type vt = { vs : vstate; ints : n list; ign : bool; closed : n list list;
            cur : n list; pend : n; osc : n list;
            uni : (ustate * n list) option }

(** val vt_init : vt **)

let vt_init =
  { vs = VGround; ints = []; ign = false; closed = []; cur = []; pend = N0;
    osc = []; uni = None }

(** val count_values : vt -> nat **)

let count_values s =
  add (length (concat s.closed)) (length s.cur)

(** val set_vs : vt -> vstate -> vt **)

let set_vs s v =
  { vs = v; ints = s.ints; ign = s.ign; closed = s.closed; cur = s.cur;
    pend = s.pend; osc = s.osc; uni = s.uni }

(** val clear : vt -> vt **)

let clear s =
  { vs = s.vs; ints = []; ign = false; closed = []; cur = []; pend = N0;
    osc = s.osc; uni = s.uni }

(** val collect : vt -> n -> vt **)

let collect s b =
  if eqb (length s.ints) max_ints
  then { vs = s.vs; ints = s.ints; ign = true; closed = s.closed; cur =
         s.cur; pend = s.pend; osc = s.osc; uni = s.uni }
  else { vs = s.vs; ints = (app s.ints (b :: [])); ign = s.ign; closed =
         s.closed; cur = s.cur; pend = s.pend; osc = s.osc; uni = s.uni }

(** val param : vt -> n -> vt **)

let param s b =
  if eqb (count_values s) max_values
  then { vs = s.vs; ints = s.ints; ign = true; closed = s.closed; cur =
         s.cur; pend = s.pend; osc = s.osc; uni = s.uni }
  else if N.eqb b (Npos (XI (XI (XO (XI (XI XH))))))
       then { vs = s.vs; ints = s.ints; ign = s.ign; closed =
              (app s.closed ((app s.cur (s.pend :: [])) :: [])); cur = [];
              pend = N0; osc = s.osc; uni = s.uni }
       else if N.eqb b (Npos (XO (XI (XO (XI (XI XH))))))
            then { vs = s.vs; ints = s.ints; ign = s.ign; closed = s.closed;
                   cur = (app s.cur (s.pend :: [])); pend = N0; osc = s.osc;
                   uni = s.uni }
            else { vs = s.vs; ints = s.ints; ign = s.ign; closed = s.closed;
                   cur = s.cur; pend =
                   (N.min max_value
                     (N.add (N.mul (Npos (XO (XI (XO XH)))) s.pend)
                       (N.sub b (Npos (XO (XO (XO (XO (XI XH))))))))); osc =
                   s.osc; uni = s.uni }

(** val final_params : vt -> n list list * bool **)

let final_params s =
  if eqb (count_values s) max_values
  then ((app s.closed (match s.cur with
                       | [] -> []
                       | _ :: _ -> s.cur :: [])), true)
  else ((app s.closed ((app s.cur (s.pend :: [])) :: [])), s.ign)

(** val split_on : n -> n list -> n list -> n list list **)

let rec split_on sep acc = function
| [] -> acc :: []
| b :: rest ->
  if N.eqb b sep
  then acc :: (split_on sep [] rest)
  else split_on sep (app acc (b :: [])) rest

(** val osc_fields : n list -> n list list **)

let osc_fields payload =
  firstn max_osc_fields
    (split_on (Npos (XI (XI (XO (XI (XI XH)))))) [] payload)

(** val osc_put : vt -> n -> vt **)

let osc_put s b =
  { vs = s.vs; ints = s.ints; ign = s.ign; closed = s.closed; cur = s.cur;
    pend = s.pend; osc = (app s.osc (b :: [])); uni = s.uni }

(** val osc_start : vt -> vt **)

let osc_start s =
  { vs = s.vs; ints = s.ints; ign = s.ign; closed = s.closed; cur = s.cur;
    pend = s.pend; osc = []; uni = s.uni }

(** val exit_events : vt -> n -> event list **)

let exit_events s b =
  match s.vs with
  | VDcsPass -> EUnhook :: []
  | VOsc -> (EOsc ((osc_fields s.osc), (N.eqb b (Npos (XI (XI XH)))))) :: []
  | _ -> []

(** val do_action : vt -> vact -> n -> vt * event list **)

let do_action s a b =
  match a with
  | TPrint -> (s, ((EPrint b) :: []))
  | TExecute -> (s, ((EExecute b) :: []))
  | TCollect -> ((collect s b), [])
  | TParam -> ((param s b), [])
  | TEscDispatch -> (s, ((EEsc (s.ints, s.ign, b)) :: []))
  | TCsiDispatch ->
    let (ps, ig) = final_params s in (s, ((ECsi (ps, s.ints, ig, b)) :: []))
  | TPut -> (s, ((EPut b) :: []))
  | TOscPut -> ((osc_put s b), [])
  | TUtf8 ->
    (match utf8_lead b with
     | Some u ->
       ({ vs = s.vs; ints = s.ints; ign = s.ign; closed = s.closed; cur =
         s.cur; pend = s.pend; osc = s.osc; uni = (Some (u, (b :: []))) }, [])
     | None -> (s, []))
  | _ -> (s, [])

(** val enter : vt -> vstate -> n -> vt * event list **)

let enter s t b =
  match t with
  | VEscape -> ((set_vs (clear s) t), [])
  | VCsiEntry -> ((set_vs (clear s) t), [])
  | VDcsEntry -> ((set_vs (clear s) t), [])
  | VDcsPass ->
    let (ps, ig) = final_params s in
    ((set_vs s t), ((EHook (ps, s.ints, ig, b)) :: []))
  | VOsc -> ((set_vs (osc_start s) t), [])
  | _ -> ((set_vs s t), [])

(** val set_uni : vt -> (ustate * n list) option -> vt **)

let set_uni s u =
  { vs = s.vs; ints = s.ints; ign = s.ign; closed = s.closed; cur = s.cur;
    pend = s.pend; osc = s.osc; uni = u }

(** val vt_step : vt -> n -> vt * event list **)

let vt_step s b =
  match s.uni with
  | Some p ->
    let (u, acc) = p in
    (match utf8_cont u b with
     | UMore u' -> ((set_uni s (Some (u', (app acc (b :: []))))), [])
     | UDone ->
       ((set_uni s None), ((EPrint (utf8_decode (app acc (b :: [])))) :: []))
     | UBad -> ((set_uni s None), ((EPrint replacement) :: [])))
  | None ->
    let (tgt, a) = vt_trans s.vs b in
    (match tgt with
     | Some t ->
       let ev_exit = exit_events s b in
       let (s1, ev_act) = do_action s a b in
       let (s2, ev_entry) = enter s1 t b in
       (s2, (app ev_exit (app ev_act ev_entry)))
     | None -> do_action s a b)

(** val is_ws_control : n -> bool **)

let is_ws_control b =
  (||)
    ((||)
      ((||) (N.eqb b (Npos (XI (XO (XO XH)))))
        (N.eqb b (Npos (XO (XI (XO XH))))))
      (N.eqb b (Npos (XO (XO (XI XH)))))) (N.eqb b (Npos (XI (XO (XI XH)))))

(** val keeps : vact -> n -> bool **)

let keeps a b =
  match a with
  | TPrint -> negb (N.eqb b (Npos (XI (XI (XI (XI (XI (XI XH))))))))
  | TExecute -> is_ws_control b
  | TUtf8 -> true
  | _ -> false

type sstate = { sv : vstate; su : ustate option }

(** val s_init : sstate **)

let s_init =
  { sv = VGround; su = None }

(** val plain_step : vstate -> n -> sstate * bool **)

let plain_step v b =
  let (tgt, a) = vt_trans v b in
  let v' = match tgt with
           | Some t -> t
           | None -> v in
  (match a with
   | TUtf8 -> ({ sv = v'; su = (utf8_lead b) }, true)
   | _ -> ({ sv = v'; su = None }, (keeps a b)))

(** val strip_step : sstate -> n -> sstate * bool **)

let strip_step s b =
  match s.su with
  | Some u ->
    if N.ltb b (Npos (XO (XO (XO (XO (XO (XO (XO XH))))))))
    then plain_step VGround b
    else (match utf8_cont u b with
          | UMore u' -> ({ sv = s.sv; su = (Some u') }, true)
          | _ -> ({ sv = s.sv; su = None }, true))
  | None -> plain_step s.sv b

(** val strip_run : sstate -> n list -> sstate * n list **)

let rec strip_run s = function
| [] -> (s, [])
| b :: rest ->
  let (s1, k) = strip_step s b in
  let (s2, out) = strip_run s1 rest in (s2, (if k then b :: out else out))

(** val spec_strip : n list -> n list **)

let spec_strip bs =
  snd (strip_run s_init bs)

(** val aget : 'a1 list -> n -> 'a1 option **)

let aget l i =
  nth_error l (N.to_nat i)

(** val aset_nat : 'a1 list -> nat -> 'a1 -> 'a1 list option **)

let rec aset_nat l i v =
  match l with
  | [] -> None
  | h :: t ->
    (match i with
     | O -> Some (v :: t)
     | S j ->
       (match aset_nat t j v with
        | Some t' -> Some (h :: t')
        | None -> None))

(** val aset : 'a1 list -> n -> 'a1 -> 'a1 list option **)

let aset l i v =
  aset_nat l (N.to_nat i) v

(** val slice : 'a1 list -> n -> n -> 'a1 list option **)

let slice l a b =
  if (&&) (N.leb a b) (N.leb b (N.of_nat (length l)))
  then Some (firstn (N.to_nat (N.sub b a)) (skipn (N.to_nat a) l))
  else None

(** val csub : n -> n -> n option **)

let csub a b =
  if N.leb b a then Some (N.sub a b) else None

(** val cadd : n -> n -> n -> n option **)

let cadd w a b =
  if N.ltb (N.add a b) (N.pow (Npos (XO XH)) w)
  then Some (N.add a b)
  else None

(** val u16_sat_mul : n -> n -> n **)

let u16_sat_mul a b =
  N.min (Npos (XI (XI (XI (XI (XI (XI (XI (XI (XI (XI (XI (XI (XI (XI (XI
    XH)))))))))))))))) (N.mul a b)

(** val u16_sat_add : n -> n -> n **)

let u16_sat_add a b =
  N.min (Npos (XI (XI (XI (XI (XI (XI (XI (XI (XI (XI (XI (XI (XI (XI (XI
    XH)))))))))))))))) (N.add a b)

type u8state =
| U8Ground
| U8Tail3
| U8Tail2
| U8Tail1
| U8_3_2_e0
| U8_3_2_ed
| U8_4_3_f0
| U8_4_3_f4

type u8action =
| InvalidSequence
| EmitByte
| SetByte1
| SetByte2
| SetByte2Top
| SetByte3
| SetByte3Top
| SetByte4

(** val rng : n -> n -> n -> bool **)

let rng lo hi b =
  (&&) (N.leb lo b) (N.leb b hi)

(** val u8_advance : u8state -> n -> u8state * u8action **)

let u8_advance s b =
  match s with
  | U8Ground ->
    if rng N0 (Npos (XI (XI (XI (XI (XI (XI XH))))))) b
    then (U8Ground, EmitByte)
    else if rng (Npos (XO (XI (XO (XO (XO (XO (XI XH)))))))) (Npos (XI (XI
              (XI (XI (XI (XO (XI XH)))))))) b
         then (U8Tail1, SetByte2Top)
         else if N.eqb b (Npos (XO (XO (XO (XO (XO (XI (XI XH))))))))
              then (U8_3_2_e0, SetByte3Top)
              else if rng (Npos (XI (XO (XO (XO (XO (XI (XI XH)))))))) (Npos
                        (XO (XO (XI (XI (XO (XI (XI XH)))))))) b
                   then (U8Tail2, SetByte3Top)
                   else if N.eqb b (Npos (XI (XO (XI (XI (XO (XI (XI
                             XH))))))))
                        then (U8_3_2_ed, SetByte3Top)
                        else if rng (Npos (XO (XI (XI (XI (XO (XI (XI
                                  XH)))))))) (Npos (XI (XI (XI (XI (XO (XI
                                  (XI XH)))))))) b
                             then (U8Tail2, SetByte3Top)
                             else if N.eqb b (Npos (XO (XO (XO (XO (XI (XI
                                       (XI XH))))))))
                                  then (U8_4_3_f0, SetByte4)
                                  else if rng (Npos (XI (XO (XO (XO (XI (XI
                                            (XI XH)))))))) (Npos (XI (XI (XO
                                            (XO (XI (XI (XI XH)))))))) b
                                       then (U8Tail3, SetByte4)
                                       else if N.eqb b (Npos (XO (XO (XI (XO
                                                 (XI (XI (XI XH))))))))
                                            then (U8_4_3_f4, SetByte4)
                                            else (U8Ground, InvalidSequence)
  | U8Tail3 ->
    if rng (Npos (XO (XO (XO (XO (XO (XO (XO XH)))))))) (Npos (XI (XI (XI (XI
         (XI (XI (XO XH)))))))) b
    then (U8Tail2, SetByte3)
    else (U8Ground, InvalidSequence)
  | U8Tail2 ->
    if rng (Npos (XO (XO (XO (XO (XO (XO (XO XH)))))))) (Npos (XI (XI (XI (XI
         (XI (XI (XO XH)))))))) b
    then (U8Tail1, SetByte2)
    else (U8Ground, InvalidSequence)
  | U8Tail1 ->
    if rng (Npos (XO (XO (XO (XO (XO (XO (XO XH)))))))) (Npos (XI (XI (XI (XI
         (XI (XI (XO XH)))))))) b
    then (U8Ground, SetByte1)
    else (U8Ground, InvalidSequence)
  | U8_3_2_e0 ->
    if rng (Npos (XO (XO (XO (XO (XO (XI (XO XH)))))))) (Npos (XI (XI (XI (XI
         (XI (XI (XO XH)))))))) b
    then (U8Tail1, SetByte2)
    else (U8Ground, InvalidSequence)
  | U8_3_2_ed ->
    if rng (Npos (XO (XO (XO (XO (XO (XO (XO XH)))))))) (Npos (XI (XI (XI (XI
         (XI (XO (XO XH)))))))) b
    then (U8Tail1, SetByte2)
    else (U8Ground, InvalidSequence)
  | U8_4_3_f0 ->
    if rng (Npos (XO (XO (XO (XO (XI (XO (XO XH)))))))) (Npos (XI (XI (XI (XI
         (XI (XI (XO XH)))))))) b
    then (U8Tail2, SetByte3)
    else (U8Ground, InvalidSequence)
  | U8_4_3_f4 ->
    if rng (Npos (XO (XO (XO (XO (XO (XO (XO XH)))))))) (Npos (XI (XI (XI (XI
         (XO (XO (XO XH)))))))) b
    then (U8Tail2, SetByte3)
    else (U8Ground, InvalidSequence)

type u8parser = { u8point : n; u8st : u8state }

(** val u8_new : u8parser **)

let u8_new =
  { u8point = N0; u8st = U8Ground }

type u8out =
| U8None
| U8Codepoint of n
| U8Invalid

(** val cONTINUATION_MASK : n **)

let cONTINUATION_MASK =
  Npos (XI (XI (XI (XI (XI XH)))))

(** val u8_parser_advance : u8parser -> n -> u8parser * u8out **)

let u8_parser_advance p b =
  let (st, a) = u8_advance p.u8st b in
  (match a with
   | InvalidSequence -> ({ u8point = N0; u8st = st }, U8Invalid)
   | EmitByte -> ({ u8point = p.u8point; u8st = st }, (U8Codepoint b))
   | SetByte1 ->
     let point = N.coq_lor p.u8point (N.coq_land b cONTINUATION_MASK) in
     ({ u8point = N0; u8st = st }, (U8Codepoint point))
   | SetByte2 ->
     ({ u8point =
       (N.coq_lor p.u8point
         (N.shiftl (N.coq_land b cONTINUATION_MASK) (Npos (XO (XI XH)))));
       u8st = st }, U8None)
   | SetByte2Top ->
     ({ u8point =
       (N.coq_lor p.u8point
         (N.shiftl (N.coq_land b (Npos (XI (XI (XI (XI XH)))))) (Npos (XO (XI
           XH))))); u8st = st }, U8None)
   | SetByte3 ->
     ({ u8point =
       (N.coq_lor p.u8point
         (N.shiftl (N.coq_land b cONTINUATION_MASK) (Npos (XO (XO (XI XH))))));
       u8st = st }, U8None)
   | SetByte3Top ->
     ({ u8point =
       (N.coq_lor p.u8point
         (N.shiftl (N.coq_land b (Npos (XI (XI (XI XH))))) (Npos (XO (XO (XI
           XH)))))); u8st = st }, U8None)
   | SetByte4 ->
     ({ u8point =
       (N.coq_lor p.u8point
         (N.shiftl (N.coq_land b (Npos (XI (XI XH)))) (Npos (XO (XI (XO (XO
           XH))))))); u8st = st }, U8None))

(** val state_change_ : state -> n -> n option **)

let state_change_ s b =
  match aget state_changes (state_disc s) with
  | Some row -> aget row b
  | None -> None

(** val unpack : n -> (state * action) option **)

let unpack delta =
  match state_of_disc (N.coq_land delta (Npos (XI (XI (XI XH))))) with
  | Some s ->
    (match action_of_disc (N.shiftr delta (Npos (XO (XO XH)))) with
     | Some a -> Some (s, a)
     | None -> None)
  | None -> None

(** val state_change : state -> n -> (state * action) option **)

let state_change s b =
  match state_change_ Anywhere b with
  | Some c1 ->
    (match if N.eqb c1 N0 then state_change_ s b else Some c1 with
     | Some c -> unpack c
     | None -> None)
  | None -> None

(** val state_eqb : state -> state -> bool **)

let state_eqb a b =
  N.eqb (state_disc a) (state_disc b)

(** val action_eqb : action -> action -> bool **)

let action_eqb a b =
  N.eqb (action_disc a) (action_disc b)

type params = { subparams : n list; pvals : n list; current_subparams : 
                n; plen : n }

(** val params_default : params **)

let params_default =
  { subparams = (repeat N0 (N.to_nat mAX_PARAMS)); pvals =
    (repeat N0 (N.to_nat mAX_PARAMS)); current_subparams = N0; plen = N0 }

(** val params_is_full : params -> bool **)

let params_is_full p =
  N.eqb p.plen mAX_PARAMS

(** val params_clear : params -> params **)

let params_clear p =
  { subparams = p.subparams; pvals = p.pvals; current_subparams = N0; plen =
    N0 }

(** val params_push : params -> n -> params option **)

let params_push p item =
  match csub p.plen p.current_subparams with
  | Some i ->
    (match cadd (Npos (XO (XO (XO XH)))) p.current_subparams (Npos XH) with
     | Some c1 ->
       (match aset p.subparams i c1 with
        | Some sp ->
          (match aset p.pvals p.plen item with
           | Some pv ->
             Some { subparams = sp; pvals = pv; current_subparams = N0;
               plen = (N.add p.plen (Npos XH)) }
           | None -> None)
        | None -> None)
     | None -> None)
  | None -> None

(** val params_extend : params -> n -> params option **)

let params_extend p item =
  match csub p.plen p.current_subparams with
  | Some i ->
    (match cadd (Npos (XO (XO (XO XH)))) p.current_subparams (Npos XH) with
     | Some c1 ->
       (match aset p.subparams i c1 with
        | Some sp ->
          (match aset p.pvals p.plen item with
           | Some pv ->
             Some { subparams = sp; pvals = pv; current_subparams = c1;
               plen = (N.add p.plen (Npos XH)) }
           | None -> None)
        | None -> None)
     | None -> None)
  | None -> None

(** val params_iter : nat -> params -> n -> n list list option **)

let rec params_iter fuel p index =
  if N.leb p.plen index
  then Some []
  else (match fuel with
        | O -> None
        | S f ->
          (match aget p.subparams index with
           | Some num ->
             (match slice p.pvals index (N.add index num) with
              | Some g ->
                (match params_iter f p (N.add index num) with
                 | Some rest -> Some (g :: rest)
                 | None -> None)
              | None -> None)
           | None -> None))

(** val params_groups : params -> n list list option **)

let params_groups p =
  params_iter (S (N.to_nat mAX_PARAMS)) p N0

type cfg = { osc_cap : n option; utf8_on : bool }

(** val cfg_default : cfg **)

let cfg_default =
  { osc_cap = None; utf8_on = true }

type parser0 = { pstate : state; intermediates : n list;
                 intermediate_idx : n; pparams : params; pparam : n;
                 osc_raw : n list; osc_params : (n * n) list;
                 osc_num_params : n; ignoring : bool; utf8_parser : u8parser }

(** val parser_new : parser0 **)

let parser_new =
  { pstate = default_state; intermediates =
    (repeat N0 (N.to_nat mAX_INTERMEDIATES)); intermediate_idx = N0;
    pparams = params_default; pparam = N0; osc_raw = []; osc_params =
    (repeat (N0, N0) (N.to_nat mAX_OSC_PARAMS)); osc_num_params = N0;
    ignoring = false; utf8_parser = u8_new }

(** val set_state : parser0 -> state -> parser0 **)

let set_state p s =
  { pstate = s; intermediates = p.intermediates; intermediate_idx =
    p.intermediate_idx; pparams = p.pparams; pparam = p.pparam; osc_raw =
    p.osc_raw; osc_params = p.osc_params; osc_num_params = p.osc_num_params;
    ignoring = p.ignoring; utf8_parser = p.utf8_parser }

(** val set_params : parser0 -> params -> parser0 **)

let set_params p ps =
  { pstate = p.pstate; intermediates = p.intermediates; intermediate_idx =
    p.intermediate_idx; pparams = ps; pparam = p.pparam; osc_raw = p.osc_raw;
    osc_params = p.osc_params; osc_num_params = p.osc_num_params; ignoring =
    p.ignoring; utf8_parser = p.utf8_parser }

(** val set_param : parser0 -> n -> parser0 **)

let set_param p v =
  { pstate = p.pstate; intermediates = p.intermediates; intermediate_idx =
    p.intermediate_idx; pparams = p.pparams; pparam = v; osc_raw = p.osc_raw;
    osc_params = p.osc_params; osc_num_params = p.osc_num_params; ignoring =
    p.ignoring; utf8_parser = p.utf8_parser }

(** val set_ignoring : parser0 -> bool -> parser0 **)

let set_ignoring p b =
  { pstate = p.pstate; intermediates = p.intermediates; intermediate_idx =
    p.intermediate_idx; pparams = p.pparams; pparam = p.pparam; osc_raw =
    p.osc_raw; osc_params = p.osc_params; osc_num_params = p.osc_num_params;
    ignoring = b; utf8_parser = p.utf8_parser }

(** val set_osc : parser0 -> n list -> (n * n) list -> n -> parser0 **)

let set_osc p raw ops n0 =
  { pstate = p.pstate; intermediates = p.intermediates; intermediate_idx =
    p.intermediate_idx; pparams = p.pparams; pparam = p.pparam; osc_raw =
    raw; osc_params = ops; osc_num_params = n0; ignoring = p.ignoring;
    utf8_parser = p.utf8_parser }

(** val set_inter : parser0 -> n list -> n -> parser0 **)

let set_inter p i idx =
  { pstate = p.pstate; intermediates = i; intermediate_idx = idx; pparams =
    p.pparams; pparam = p.pparam; osc_raw = p.osc_raw; osc_params =
    p.osc_params; osc_num_params = p.osc_num_params; ignoring = p.ignoring;
    utf8_parser = p.utf8_parser }

(** val set_utf8 : parser0 -> u8parser -> parser0 **)

let set_utf8 p u =
  { pstate = p.pstate; intermediates = p.intermediates; intermediate_idx =
    p.intermediate_idx; pparams = p.pparams; pparam = p.pparam; osc_raw =
    p.osc_raw; osc_params = p.osc_params; osc_num_params = p.osc_num_params;
    ignoring = p.ignoring; utf8_parser = u }

(** val intermediates_of : parser0 -> n list option **)

let intermediates_of p =
  slice p.intermediates N0 p.intermediate_idx

(** val char_add : cfg -> u8parser -> n -> (u8parser * n option) option **)

let char_add c u b =
  if c.utf8_on
  then let (u', o) = u8_parser_advance u b in
       Some (u',
       (match o with
        | U8None -> None
        | U8Codepoint cp -> Some cp
        | U8Invalid ->
          Some (Npos (XI (XO (XI (XI (XI (XI (XI (XI (XI (XI (XI (XI (XI (XI
            (XI XH))))))))))))))))))
  else None

(** val process_utf8 :
    cfg -> parser0 -> n -> (parser0 * event list) option **)

let process_utf8 c p b =
  match char_add c p.utf8_parser b with
  | Some p0 ->
    let (u', o) = p0 in
    let p1 = set_utf8 p u' in
    (match o with
     | Some cp -> Some ((set_state p1 Ground), ((EPrint cp) :: []))
     | None -> Some (p1, []))
  | None -> None

(** val osc_slices : nat -> parser0 -> n -> n list list option **)

let rec osc_slices fuel p i =
  match fuel with
  | O -> Some []
  | S f ->
    if N.leb p.osc_num_params i
    then Some []
    else (match aget p.osc_params i with
          | Some p0 ->
            let (a, b) = p0 in
            (match slice p.osc_raw a b with
             | Some s ->
               (match osc_slices f p (N.add i (Npos XH)) with
                | Some rest -> Some (s :: rest)
                | None -> None)
             | None -> None)
          | None -> None)

(** val osc_dispatch : parser0 -> n -> event list option **)

let osc_dispatch p b =
  if N.ltb mAX_OSC_PARAMS p.osc_num_params
  then None
  else (match osc_slices (N.to_nat mAX_OSC_PARAMS) p N0 with
        | Some fields ->
          Some ((EOsc (fields, (N.eqb b (Npos (XI (XI XH)))))) :: [])
        | None -> None)

(** val finish_params : parser0 -> parser0 option **)

let finish_params p =
  if params_is_full p.pparams
  then Some (set_ignoring p true)
  else (match params_push p.pparams p.pparam with
        | Some ps -> Some (set_params p ps)
        | None -> None)

(** val osc_full : cfg -> parser0 -> bool **)

let osc_full c p =
  match c.osc_cap with
  | Some cap -> N.eqb (N.of_nat (length p.osc_raw)) cap
  | None -> false

(** val perform_action :
    cfg -> parser0 -> action -> n -> (parser0 * event list) option **)

let perform_action c p a b =
  match a with
  | AClear ->
    Some
      ((set_params
         (set_param (set_ignoring (set_inter p p.intermediates N0) false) N0)
         (params_clear p.pparams)), [])
  | ACollect ->
    if N.eqb p.intermediate_idx mAX_INTERMEDIATES
    then Some ((set_ignoring p true), [])
    else (match aset p.intermediates p.intermediate_idx b with
          | Some i ->
            Some ((set_inter p i (N.add p.intermediate_idx (Npos XH))), [])
          | None -> None)
  | ACsiDispatch ->
    (match finish_params p with
     | Some p1 ->
       (match params_groups p1.pparams with
        | Some ps ->
          (match intermediates_of p1 with
           | Some is -> Some (p1, ((ECsi (ps, is, p1.ignoring, b)) :: []))
           | None -> None)
        | None -> None)
     | None -> None)
  | AEscDispatch ->
    (match intermediates_of p with
     | Some is -> Some (p, ((EEsc (is, p.ignoring, b)) :: []))
     | None -> None)
  | AExecute -> Some (p, ((EExecute b) :: []))
  | AHook ->
    (match finish_params p with
     | Some p1 ->
       (match params_groups p1.pparams with
        | Some ps ->
          (match intermediates_of p1 with
           | Some is -> Some (p1, ((EHook (ps, is, p1.ignoring, b)) :: []))
           | None -> None)
        | None -> None)
     | None -> None)
  | AOscEnd ->
    let param_idx = p.osc_num_params in
    let idx = N.of_nat (length p.osc_raw) in
    if N.eqb param_idx mAX_OSC_PARAMS
    then (match osc_dispatch p b with
          | Some ev -> Some (p, ev)
          | None -> None)
    else if N.eqb param_idx N0
         then (match aset p.osc_params param_idx (N0, idx) with
               | Some ops ->
                 let p1 = set_osc p p.osc_raw ops (N.add param_idx (Npos XH))
                 in
                 (match osc_dispatch p1 b with
                  | Some ev -> Some (p1, ev)
                  | None -> None)
               | None -> None)
         else (match csub param_idx (Npos XH) with
               | Some pi ->
                 (match aget p.osc_params pi with
                  | Some p0 ->
                    let (_, begin0) = p0 in
                    (match aset p.osc_params param_idx (begin0, idx) with
                     | Some ops ->
                       let p1 =
                         set_osc p p.osc_raw ops (N.add param_idx (Npos XH))
                       in
                       (match osc_dispatch p1 b with
                        | Some ev -> Some (p1, ev)
                        | None -> None)
                     | None -> None)
                  | None -> None)
               | None -> None)
  | AOscPut ->
    if osc_full c p
    then Some (p, [])
    else let idx = N.of_nat (length p.osc_raw) in
         if N.eqb b (Npos (XI (XI (XO (XI (XI XH))))))
         then let param_idx = p.osc_num_params in
              if N.eqb param_idx mAX_OSC_PARAMS
              then Some (p, [])
              else if N.eqb param_idx N0
                   then (match aset p.osc_params param_idx (N0, idx) with
                         | Some ops ->
                           Some
                             ((set_osc p p.osc_raw ops
                                (N.add param_idx (Npos XH))), [])
                         | None -> None)
                   else (match csub param_idx (Npos XH) with
                         | Some pi ->
                           (match aget p.osc_params pi with
                            | Some p0 ->
                              let (_, begin0) = p0 in
                              (match aset p.osc_params param_idx (begin0, idx) with
                               | Some ops ->
                                 Some
                                   ((set_osc p p.osc_raw ops
                                      (N.add param_idx (Npos XH))), [])
                               | None -> None)
                            | None -> None)
                         | None -> None)
         else Some
                ((set_osc p (app p.osc_raw (b :: [])) p.osc_params
                   p.osc_num_params), [])
  | AOscStart -> Some ((set_osc p [] p.osc_params N0), [])
  | AParam ->
    if params_is_full p.pparams
    then Some ((set_ignoring p true), [])
    else if N.eqb b (Npos (XI (XI (XO (XI (XI XH))))))
         then (match params_push p.pparams p.pparam with
               | Some ps -> Some ((set_param (set_params p ps) N0), [])
               | None -> None)
         else if N.eqb b (Npos (XO (XI (XO (XI (XI XH))))))
              then (match params_extend p.pparams p.pparam with
                    | Some ps -> Some ((set_param (set_params p ps) N0), [])
                    | None -> None)
              else (match csub b (Npos (XO (XO (XO (XO (XI XH)))))) with
                    | Some d ->
                      Some
                        ((set_param p
                           (u16_sat_add
                             (u16_sat_mul p.pparam (Npos (XO (XI (XO XH)))))
                             d)), [])
                    | None -> None)
  | APrint -> Some (p, ((EPrint b) :: []))
  | APut -> Some (p, ((EPut b) :: []))
  | AUnhook -> Some (p, (EUnhook :: []))
  | ABeginUtf8 -> process_utf8 c p b
  | _ -> Some (p, [])

(** val perform_state_change :
    cfg -> parser0 -> state -> action -> n -> (parser0 * event list) option **)

let perform_state_change c p s a b =
  match s with
  | Anywhere -> perform_action c p a b
  | CsiEntry ->
    (match match p.pstate with
           | Anywhere -> Some (p, [])
           | CsiEntry -> Some (p, [])
           | CsiIgnore -> Some (p, [])
           | CsiIntermediate -> Some (p, [])
           | CsiParam -> Some (p, [])
           | DcsEntry -> Some (p, [])
           | DcsIgnore -> Some (p, [])
           | DcsIntermediate -> Some (p, [])
           | DcsParam -> Some (p, [])
           | DcsPassthrough -> perform_action c p AUnhook b
           | OscString -> perform_action c p AOscEnd b
           | _ -> Some (p, []) with
     | Some p0 ->
       let (p1, e1) = p0 in
       (match match a with
              | ANop -> Some (p1, [])
              | _ -> perform_action c p1 a b with
        | Some p2 ->
          let (p3, e2) = p2 in
          (match match s with
                 | Anywhere -> Some (p3, [])
                 | CsiEntry -> perform_action c p3 AClear b
                 | DcsEntry -> perform_action c p3 AClear b
                 | DcsPassthrough -> perform_action c p3 AHook b
                 | Escape -> perform_action c p3 AClear b
                 | OscString -> perform_action c p3 AOscStart b
                 | _ -> Some (p3, []) with
           | Some p4 ->
             let (p5, e3) = p4 in
             Some ((set_state p5 s), (app e1 (app e2 e3)))
           | None -> None)
        | None -> None)
     | None -> None)
  | CsiIgnore ->
    (match match p.pstate with
           | Anywhere -> Some (p, [])
           | CsiEntry -> Some (p, [])
           | CsiIgnore -> Some (p, [])
           | CsiIntermediate -> Some (p, [])
           | CsiParam -> Some (p, [])
           | DcsEntry -> Some (p, [])
           | DcsIgnore -> Some (p, [])
           | DcsIntermediate -> Some (p, [])
           | DcsParam -> Some (p, [])
           | DcsPassthrough -> perform_action c p AUnhook b
           | OscString -> perform_action c p AOscEnd b
           | _ -> Some (p, []) with
     | Some p0 ->
       let (p1, e1) = p0 in
       (match match a with
              | ANop -> Some (p1, [])
              | _ -> perform_action c p1 a b with
        | Some p2 ->
          let (p3, e2) = p2 in
          (match match s with
                 | Anywhere -> Some (p3, [])
                 | CsiEntry -> perform_action c p3 AClear b
                 | DcsEntry -> perform_action c p3 AClear b
                 | DcsPassthrough -> perform_action c p3 AHook b
                 | Escape -> perform_action c p3 AClear b
                 | OscString -> perform_action c p3 AOscStart b
                 | _ -> Some (p3, []) with
           | Some p4 ->
             let (p5, e3) = p4 in
             Some ((set_state p5 s), (app e1 (app e2 e3)))
           | None -> None)
        | None -> None)
     | None -> None)
  | CsiIntermediate ->
    (match match p.pstate with
           | Anywhere -> Some (p, [])
           | CsiEntry -> Some (p, [])
           | CsiIgnore -> Some (p, [])
           | CsiIntermediate -> Some (p, [])
           | CsiParam -> Some (p, [])
           | DcsEntry -> Some (p, [])
           | DcsIgnore -> Some (p, [])
           | DcsIntermediate -> Some (p, [])
           | DcsParam -> Some (p, [])
           | DcsPassthrough -> perform_action c p AUnhook b
           | OscString -> perform_action c p AOscEnd b
           | _ -> Some (p, []) with
     | Some p0 ->
       let (p1, e1) = p0 in
       (match match a with
              | ANop -> Some (p1, [])
              | _ -> perform_action c p1 a b with
        | Some p2 ->
          let (p3, e2) = p2 in
          (match match s with
                 | Anywhere -> Some (p3, [])
                 | CsiEntry -> perform_action c p3 AClear b
                 | DcsEntry -> perform_action c p3 AClear b
                 | DcsPassthrough -> perform_action c p3 AHook b
                 | Escape -> perform_action c p3 AClear b
                 | OscString -> perform_action c p3 AOscStart b
                 | _ -> Some (p3, []) with
           | Some p4 ->
             let (p5, e3) = p4 in
             Some ((set_state p5 s), (app e1 (app e2 e3)))
           | None -> None)
        | None -> None)
     | None -> None)
  | CsiParam ->
    (match match p.pstate with
           | Anywhere -> Some (p, [])
           | CsiEntry -> Some (p, [])
           | CsiIgnore -> Some (p, [])
           | CsiIntermediate -> Some (p, [])
           | CsiParam -> Some (p, [])
           | DcsEntry -> Some (p, [])
           | DcsIgnore -> Some (p, [])
           | DcsIntermediate -> Some (p, [])
           | DcsParam -> Some (p, [])
           | DcsPassthrough -> perform_action c p AUnhook b
           | OscString -> perform_action c p AOscEnd b
           | _ -> Some (p, []) with
     | Some p0 ->
       let (p1, e1) = p0 in
       (match match a with
              | ANop -> Some (p1, [])
              | _ -> perform_action c p1 a b with
        | Some p2 ->
          let (p3, e2) = p2 in
          (match match s with
                 | Anywhere -> Some (p3, [])
                 | CsiEntry -> perform_action c p3 AClear b
                 | DcsEntry -> perform_action c p3 AClear b
                 | DcsPassthrough -> perform_action c p3 AHook b
                 | Escape -> perform_action c p3 AClear b
                 | OscString -> perform_action c p3 AOscStart b
                 | _ -> Some (p3, []) with
           | Some p4 ->
             let (p5, e3) = p4 in
             Some ((set_state p5 s), (app e1 (app e2 e3)))
           | None -> None)
        | None -> None)
     | None -> None)
  | DcsEntry ->
    (match match p.pstate with
           | Anywhere -> Some (p, [])
           | CsiEntry -> Some (p, [])
           | CsiIgnore -> Some (p, [])
           | CsiIntermediate -> Some (p, [])
           | CsiParam -> Some (p, [])
           | DcsEntry -> Some (p, [])
           | DcsIgnore -> Some (p, [])
           | DcsIntermediate -> Some (p, [])
           | DcsParam -> Some (p, [])
           | DcsPassthrough -> perform_action c p AUnhook b
           | OscString -> perform_action c p AOscEnd b
           | _ -> Some (p, []) with
     | Some p0 ->
       let (p1, e1) = p0 in
       (match match a with
              | ANop -> Some (p1, [])
              | _ -> perform_action c p1 a b with
        | Some p2 ->
          let (p3, e2) = p2 in
          (match match s with
                 | Anywhere -> Some (p3, [])
                 | CsiEntry -> perform_action c p3 AClear b
                 | DcsEntry -> perform_action c p3 AClear b
                 | DcsPassthrough -> perform_action c p3 AHook b
                 | Escape -> perform_action c p3 AClear b
                 | OscString -> perform_action c p3 AOscStart b
                 | _ -> Some (p3, []) with
           | Some p4 ->
             let (p5, e3) = p4 in
             Some ((set_state p5 s), (app e1 (app e2 e3)))
           | None -> None)
        | None -> None)
     | None -> None)
  | DcsIgnore ->
    (match match p.pstate with
           | Anywhere -> Some (p, [])
           | CsiEntry -> Some (p, [])
           | CsiIgnore -> Some (p, [])
           | CsiIntermediate -> Some (p, [])
           | CsiParam -> Some (p, [])
           | DcsEntry -> Some (p, [])
           | DcsIgnore -> Some (p, [])
           | DcsIntermediate -> Some (p, [])
           | DcsParam -> Some (p, [])
           | DcsPassthrough -> perform_action c p AUnhook b
           | OscString -> perform_action c p AOscEnd b
           | _ -> Some (p, []) with
     | Some p0 ->
       let (p1, e1) = p0 in
       (match match a with
              | ANop -> Some (p1, [])
              | _ -> perform_action c p1 a b with
        | Some p2 ->
          let (p3, e2) = p2 in
          (match match s with
                 | Anywhere -> Some (p3, [])
                 | CsiEntry -> perform_action c p3 AClear b
                 | DcsEntry -> perform_action c p3 AClear b
                 | DcsPassthrough -> perform_action c p3 AHook b
                 | Escape -> perform_action c p3 AClear b
                 | OscString -> perform_action c p3 AOscStart b
                 | _ -> Some (p3, []) with
           | Some p4 ->
             let (p5, e3) = p4 in
             Some ((set_state p5 s), (app e1 (app e2 e3)))
           | None -> None)
        | None -> None)
     | None -> None)
  | DcsIntermediate ->
    (match match p.pstate with
           | Anywhere -> Some (p, [])
           | CsiEntry -> Some (p, [])
           | CsiIgnore -> Some (p, [])
           | CsiIntermediate -> Some (p, [])
           | CsiParam -> Some (p, [])
           | DcsEntry -> Some (p, [])
           | DcsIgnore -> Some (p, [])
           | DcsIntermediate -> Some (p, [])
           | DcsParam -> Some (p, [])
           | DcsPassthrough -> perform_action c p AUnhook b
           | OscString -> perform_action c p AOscEnd b
           | _ -> Some (p, []) with
     | Some p0 ->
       let (p1, e1) = p0 in
       (match match a with
              | ANop -> Some (p1, [])
              | _ -> perform_action c p1 a b with
        | Some p2 ->
          let (p3, e2) = p2 in
          (match match s with
                 | Anywhere -> Some (p3, [])
                 | CsiEntry -> perform_action c p3 AClear b
                 | DcsEntry -> perform_action c p3 AClear b
                 | DcsPassthrough -> perform_action c p3 AHook b
                 | Escape -> perform_action c p3 AClear b
                 | OscString -> perform_action c p3 AOscStart b
                 | _ -> Some (p3, []) with
           | Some p4 ->
             let (p5, e3) = p4 in
             Some ((set_state p5 s), (app e1 (app e2 e3)))
           | None -> None)
        | None -> None)
     | None -> None)
  | DcsParam ->
    (match match p.pstate with
           | Anywhere -> Some (p, [])
           | CsiEntry -> Some (p, [])
           | CsiIgnore -> Some (p, [])
           | CsiIntermediate -> Some (p, [])
           | CsiParam -> Some (p, [])
           | DcsEntry -> Some (p, [])
           | DcsIgnore -> Some (p, [])
           | DcsIntermediate -> Some (p, [])
           | DcsParam -> Some (p, [])
           | DcsPassthrough -> perform_action c p AUnhook b
           | OscString -> perform_action c p AOscEnd b
           | _ -> Some (p, []) with
     | Some p0 ->
       let (p1, e1) = p0 in
       (match match a with
              | ANop -> Some (p1, [])
              | _ -> perform_action c p1 a b with
        | Some p2 ->
          let (p3, e2) = p2 in
          (match match s with
                 | Anywhere -> Some (p3, [])
                 | CsiEntry -> perform_action c p3 AClear b
                 | DcsEntry -> perform_action c p3 AClear b
                 | DcsPassthrough -> perform_action c p3 AHook b
                 | Escape -> perform_action c p3 AClear b
                 | OscString -> perform_action c p3 AOscStart b
                 | _ -> Some (p3, []) with
           | Some p4 ->
             let (p5, e3) = p4 in
             Some ((set_state p5 s), (app e1 (app e2 e3)))
           | None -> None)
        | None -> None)
     | None -> None)
  | DcsPassthrough ->
    (match match p.pstate with
           | Anywhere -> Some (p, [])
           | CsiEntry -> Some (p, [])
           | CsiIgnore -> Some (p, [])
           | CsiIntermediate -> Some (p, [])
           | CsiParam -> Some (p, [])
           | DcsEntry -> Some (p, [])
           | DcsIgnore -> Some (p, [])
           | DcsIntermediate -> Some (p, [])
           | DcsParam -> Some (p, [])
           | DcsPassthrough -> perform_action c p AUnhook b
           | OscString -> perform_action c p AOscEnd b
           | _ -> Some (p, []) with
     | Some p0 ->
       let (p1, e1) = p0 in
       (match match a with
              | ANop -> Some (p1, [])
              | _ -> perform_action c p1 a b with
        | Some p2 ->
          let (p3, e2) = p2 in
          (match match s with
                 | Anywhere -> Some (p3, [])
                 | CsiEntry -> perform_action c p3 AClear b
                 | DcsEntry -> perform_action c p3 AClear b
                 | DcsPassthrough -> perform_action c p3 AHook b
                 | Escape -> perform_action c p3 AClear b
                 | OscString -> perform_action c p3 AOscStart b
                 | _ -> Some (p3, []) with
           | Some p4 ->
             let (p5, e3) = p4 in
             Some ((set_state p5 s), (app e1 (app e2 e3)))
           | None -> None)
        | None -> None)
     | None -> None)
  | Escape ->
    (match match p.pstate with
           | Anywhere -> Some (p, [])
           | CsiEntry -> Some (p, [])
           | CsiIgnore -> Some (p, [])
           | CsiIntermediate -> Some (p, [])
           | CsiParam -> Some (p, [])
           | DcsEntry -> Some (p, [])
           | DcsIgnore -> Some (p, [])
           | DcsIntermediate -> Some (p, [])
           | DcsParam -> Some (p, [])
           | DcsPassthrough -> perform_action c p AUnhook b
           | OscString -> perform_action c p AOscEnd b
           | _ -> Some (p, []) with
     | Some p0 ->
       let (p1, e1) = p0 in
       (match match a with
              | ANop -> Some (p1, [])
              | _ -> perform_action c p1 a b with
        | Some p2 ->
          let (p3, e2) = p2 in
          (match match s with
                 | Anywhere -> Some (p3, [])
                 | CsiEntry -> perform_action c p3 AClear b
                 | DcsEntry -> perform_action c p3 AClear b
                 | DcsPassthrough -> perform_action c p3 AHook b
                 | Escape -> perform_action c p3 AClear b
                 | OscString -> perform_action c p3 AOscStart b
                 | _ -> Some (p3, []) with
           | Some p4 ->
             let (p5, e3) = p4 in
             Some ((set_state p5 s), (app e1 (app e2 e3)))
           | None -> None)
        | None -> None)
     | None -> None)
  | EscapeIntermediate ->
    (match match p.pstate with
           | Anywhere -> Some (p, [])
           | CsiEntry -> Some (p, [])
           | CsiIgnore -> Some (p, [])
           | CsiIntermediate -> Some (p, [])
           | CsiParam -> Some (p, [])
           | DcsEntry -> Some (p, [])
           | DcsIgnore -> Some (p, [])
           | DcsIntermediate -> Some (p, [])
           | DcsParam -> Some (p, [])
           | DcsPassthrough -> perform_action c p AUnhook b
           | OscString -> perform_action c p AOscEnd b
           | _ -> Some (p, []) with
     | Some p0 ->
       let (p1, e1) = p0 in
       (match match a with
              | ANop -> Some (p1, [])
              | _ -> perform_action c p1 a b with
        | Some p2 ->
          let (p3, e2) = p2 in
          (match match s with
                 | Anywhere -> Some (p3, [])
                 | CsiEntry -> perform_action c p3 AClear b
                 | DcsEntry -> perform_action c p3 AClear b
                 | DcsPassthrough -> perform_action c p3 AHook b
                 | Escape -> perform_action c p3 AClear b
                 | OscString -> perform_action c p3 AOscStart b
                 | _ -> Some (p3, []) with
           | Some p4 ->
             let (p5, e3) = p4 in
             Some ((set_state p5 s), (app e1 (app e2 e3)))
           | None -> None)
        | None -> None)
     | None -> None)
  | Ground ->
    (match match p.pstate with
           | Anywhere -> Some (p, [])
           | CsiEntry -> Some (p, [])
           | CsiIgnore -> Some (p, [])
           | CsiIntermediate -> Some (p, [])
           | CsiParam -> Some (p, [])
           | DcsEntry -> Some (p, [])
           | DcsIgnore -> Some (p, [])
           | DcsIntermediate -> Some (p, [])
           | DcsParam -> Some (p, [])
           | DcsPassthrough -> perform_action c p AUnhook b
           | OscString -> perform_action c p AOscEnd b
           | _ -> Some (p, []) with
     | Some p0 ->
       let (p1, e1) = p0 in
       (match match a with
              | ANop -> Some (p1, [])
              | _ -> perform_action c p1 a b with
        | Some p2 ->
          let (p3, e2) = p2 in
          (match match s with
                 | Anywhere -> Some (p3, [])
                 | CsiEntry -> perform_action c p3 AClear b
                 | DcsEntry -> perform_action c p3 AClear b
                 | DcsPassthrough -> perform_action c p3 AHook b
                 | Escape -> perform_action c p3 AClear b
                 | OscString -> perform_action c p3 AOscStart b
                 | _ -> Some (p3, []) with
           | Some p4 ->
             let (p5, e3) = p4 in
             Some ((set_state p5 s), (app e1 (app e2 e3)))
           | None -> None)
        | None -> None)
     | None -> None)
  | OscString ->
    (match match p.pstate with
           | Anywhere -> Some (p, [])
           | CsiEntry -> Some (p, [])
           | CsiIgnore -> Some (p, [])
           | CsiIntermediate -> Some (p, [])
           | CsiParam -> Some (p, [])
           | DcsEntry -> Some (p, [])
           | DcsIgnore -> Some (p, [])
           | DcsIntermediate -> Some (p, [])
           | DcsParam -> Some (p, [])
           | DcsPassthrough -> perform_action c p AUnhook b
           | OscString -> perform_action c p AOscEnd b
           | _ -> Some (p, []) with
     | Some p0 ->
       let (p1, e1) = p0 in
       (match match a with
              | ANop -> Some (p1, [])
              | _ -> perform_action c p1 a b with
        | Some p2 ->
          let (p3, e2) = p2 in
          (match match s with
                 | Anywhere -> Some (p3, [])
                 | CsiEntry -> perform_action c p3 AClear b
                 | DcsEntry -> perform_action c p3 AClear b
                 | DcsPassthrough -> perform_action c p3 AHook b
                 | Escape -> perform_action c p3 AClear b
                 | OscString -> perform_action c p3 AOscStart b
                 | _ -> Some (p3, []) with
           | Some p4 ->
             let (p5, e3) = p4 in
             Some ((set_state p5 s), (app e1 (app e2 e3)))
           | None -> None)
        | None -> None)
     | None -> None)
  | SosPmApcString ->
    (match match p.pstate with
           | Anywhere -> Some (p, [])
           | CsiEntry -> Some (p, [])
           | CsiIgnore -> Some (p, [])
           | CsiIntermediate -> Some (p, [])
           | CsiParam -> Some (p, [])
           | DcsEntry -> Some (p, [])
           | DcsIgnore -> Some (p, [])
           | DcsIntermediate -> Some (p, [])
           | DcsParam -> Some (p, [])
           | DcsPassthrough -> perform_action c p AUnhook b
           | OscString -> perform_action c p AOscEnd b
           | _ -> Some (p, []) with
     | Some p0 ->
       let (p1, e1) = p0 in
       (match match a with
              | ANop -> Some (p1, [])
              | _ -> perform_action c p1 a b with
        | Some p2 ->
          let (p3, e2) = p2 in
          (match match s with
                 | Anywhere -> Some (p3, [])
                 | CsiEntry -> perform_action c p3 AClear b
                 | DcsEntry -> perform_action c p3 AClear b
                 | DcsPassthrough -> perform_action c p3 AHook b
                 | Escape -> perform_action c p3 AClear b
                 | OscString -> perform_action c p3 AOscStart b
                 | _ -> Some (p3, []) with
           | Some p4 ->
             let (p5, e3) = p4 in
             Some ((set_state p5 s), (app e1 (app e2 e3)))
           | None -> None)
        | None -> None)
     | None -> None)
  | Utf8 ->
    (match match p.pstate with
           | Anywhere -> Some (p, [])
           | CsiEntry -> Some (p, [])
           | CsiIgnore -> Some (p, [])
           | CsiIntermediate -> Some (p, [])
           | CsiParam -> Some (p, [])
           | DcsEntry -> Some (p, [])
           | DcsIgnore -> Some (p, [])
           | DcsIntermediate -> Some (p, [])
           | DcsParam -> Some (p, [])
           | DcsPassthrough -> perform_action c p AUnhook b
           | OscString -> perform_action c p AOscEnd b
           | _ -> Some (p, []) with
     | Some p0 ->
       let (p1, e1) = p0 in
       (match match a with
              | ANop -> Some (p1, [])
              | _ -> perform_action c p1 a b with
        | Some p2 ->
          let (p3, e2) = p2 in
          (match match s with
                 | Anywhere -> Some (p3, [])
                 | CsiEntry -> perform_action c p3 AClear b
                 | DcsEntry -> perform_action c p3 AClear b
                 | DcsPassthrough -> perform_action c p3 AHook b
                 | Escape -> perform_action c p3 AClear b
                 | OscString -> perform_action c p3 AOscStart b
                 | _ -> Some (p3, []) with
           | Some p4 ->
             let (p5, e3) = p4 in
             Some ((set_state p5 s), (app e1 (app e2 e3)))
           | None -> None)
        | None -> None)
     | None -> None)

(** val advance : cfg -> parser0 -> n -> (parser0 * event list) option **)

let advance c p b =
  match p.pstate with
  | Utf8 -> process_utf8 c p b
  | _ ->
    (match state_change p.pstate b with
     | Some p0 -> let (s, a) = p0 in perform_state_change c p s a b
     | None -> None)

(** val is_ascii_whitespace : n -> bool **)

let is_ascii_whitespace b =
  (||)
    ((||)
      ((||)
        ((||) (N.eqb b (Npos (XI (XO (XO XH)))))
          (N.eqb b (Npos (XO (XI (XO XH))))))
        (N.eqb b (Npos (XO (XO (XI XH))))))
      (N.eqb b (Npos (XI (XO (XI XH))))))
    (N.eqb b (Npos (XO (XO (XO (XO (XO XH)))))))

(** val is_printable_bytes : action -> n -> bool **)

let is_printable_bytes a b =
  (||)
    ((||)
      ((&&) (action_eqb a APrint)
        (negb (N.eqb b (Npos (XI (XI (XI (XI (XI (XI XH))))))))))
      (action_eqb a ABeginUtf8))
    ((&&) (action_eqb a AExecute) (is_ascii_whitespace b))

(** val is_utf8_continuation : n -> bool **)

let is_utf8_continuation b =
  (&&) (N.leb (Npos (XO (XO (XO (XO (XO (XO (XO XH)))))))) b)
    (N.leb b (Npos (XI (XI (XI (XI (XI (XI (XO XH)))))))))

(** val is_ascii : n -> bool **)

let is_ascii b =
  N.ltb b (Npos (XO (XO (XO (XO (XO (XO (XO XH))))))))

(** val utf8_add : u8parser -> n -> u8parser * bool **)

let utf8_add u b =
  let (u', o) = u8_parser_advance u b in
  (u', (match o with
        | U8None -> false
        | _ -> true))

(** val nb_skip :
    n list -> state -> u8parser -> ((n list * state) * u8parser) option **)

let rec nb_skip bs st u =
  match bs with
  | [] -> Some (([], st), u)
  | b :: rest ->
    if (&&) (state_eqb st Utf8) (negb (is_ascii b))
    then Some ((bs, st), u)
    else if state_eqb st Utf8
         then let st0 = Ground in
              (match state_change st0 b with
               | Some p ->
                 let (ns, a) = p in
                 let st1 = if state_eqb ns Anywhere then st0 else ns in
                 if is_printable_bytes a b
                 then Some ((bs, st1), u8_new)
                 else nb_skip rest st1 u8_new
               | None -> None)
         else (match state_change st b with
               | Some p ->
                 let (ns, a) = p in
                 let st1 = if state_eqb ns Anywhere then st else ns in
                 if is_printable_bytes a b
                 then Some ((bs, st1), u)
                 else nb_skip rest st1 u
               | None -> None)

(** val nb_take :
    n list -> state -> u8parser -> (((n list * n list) * state) * u8parser)
    option **)

let rec nb_take bs st u =
  match bs with
  | [] -> Some ((([], []), st), u)
  | b :: rest ->
    if (&&) (state_eqb st Utf8) (negb (is_ascii b))
    then let (u1, done0) = utf8_add u b in
         (match nb_take rest (if done0 then Ground else st) u1 with
          | Some p ->
            let (p0, u') = p in
            let (p1, st') = p0 in
            let (t, r) = p1 in Some ((((b :: t), r), st'), u')
          | None -> None)
    else if state_eqb st Utf8
         then let st0 = Ground in
              (match state_change st0 b with
               | Some p ->
                 let (ns, a) = p in
                 if negb (is_printable_bytes a b)
                 then Some ((([], bs), st0), u8_new)
                 else if state_eqb ns Utf8
                      then let (u1, _) = utf8_add u8_new b in
                           (match nb_take rest ns u1 with
                            | Some p0 ->
                              let (p1, u') = p0 in
                              let (p2, st') = p1 in
                              let (t, r) = p2 in
                              Some ((((b :: t), r), st'), u')
                            | None -> None)
                      else (match nb_take rest st0 u8_new with
                            | Some p0 ->
                              let (p1, u') = p0 in
                              let (p2, st') = p1 in
                              let (t, r) = p2 in
                              Some ((((b :: t), r), st'), u')
                            | None -> None)
               | None -> None)
         else (match state_change st b with
               | Some p ->
                 let (ns, a) = p in
                 if negb (is_printable_bytes a b)
                 then Some ((([], bs), st), u)
                 else if state_eqb ns Utf8
                      then let (u1, _) = utf8_add u b in
                           (match nb_take rest ns u1 with
                            | Some p0 ->
                              let (p1, u') = p0 in
                              let (p2, st') = p1 in
                              let (t, r) = p2 in
                              Some ((((b :: t), r), st'), u')
                            | None -> None)
                      else (match nb_take rest st u with
                            | Some p0 ->
                              let (p1, u') = p0 in
                              let (p2, st') = p1 in
                              let (t, r) = p2 in
                              Some ((((b :: t), r), st'), u')
                            | None -> None)
               | None -> None)

type piece = { p_off : n; p_bytes : n list }

(** val next_bytes :
    n list -> n -> state -> u8parser -> ((((piece option * n
    list) * n) * state) * u8parser) option **)

let next_bytes bs off st u =
  match nb_skip bs st u with
  | Some p ->
    let (p0, u1) = p in
    let (bs1, st1) = p0 in
    let off1 = N.add off (N.of_nat (sub (length bs) (length bs1))) in
    (match nb_take bs1 st1 u1 with
     | Some p1 ->
       let (p2, u2) = p1 in
       let (p3, st2) = p2 in
       let (t, bs2) = p3 in
       let off2 = N.add off1 (N.of_nat (length t)) in
       (match t with
        | [] -> Some ((((None, bs2), off2), st2), u2)
        | _ :: _ ->
          Some (((((Some { p_off = off1; p_bytes = t }), bs2), off2), st2),
            u2))
     | None -> None)
  | None -> None

(** val bytes_iter :
    nat -> n list -> n -> state -> u8parser -> (((piece list * n
    list) * state) * u8parser) option **)

let rec bytes_iter fuel bs off st u =
  match fuel with
  | O -> None
  | S f ->
    (match next_bytes bs off st u with
     | Some p ->
       let (p0, u') = p in
       let (p1, st') = p0 in
       let (p2, off') = p1 in
       let (p3, bs') = p2 in
       (match p3 with
        | Some pc ->
          (match bytes_iter f bs' off' st' u' with
           | Some p4 ->
             let (p5, u'') = p4 in
             let (p6, st'') = p5 in
             let (ps, bs'') = p6 in Some ((((pc :: ps), bs''), st''), u'')
           | None -> None)
        | None -> Some ((([], bs'), st'), u'))
     | None -> None)

(** val strip_next_bytes :
    n list -> state -> u8parser -> (((piece list * n
    list) * state) * u8parser) option **)

let strip_next_bytes bs st u =
  bytes_iter (S (length bs)) bs N0 st u

(** val strip_bytes_pieces : n list -> piece list option **)

let strip_bytes_pieces bs =
  match strip_next_bytes bs Ground u8_new with
  | Some p ->
    let (p0, _) = p in let (p1, _) = p0 in let (ps, _) = p1 in Some ps
  | None -> None

(** val strip_bytes_chunks :
    n list list -> state -> u8parser -> ((piece list
    list * state) * u8parser) option **)

let rec strip_bytes_chunks chunks st u =
  match chunks with
  | [] -> Some (([], st), u)
  | c :: rest ->
    (match strip_next_bytes c st u with
     | Some p ->
       let (p0, u') = p in
       let (p1, st') = p0 in
       let (ps, _) = p1 in
       (match strip_bytes_chunks rest st' u' with
        | Some p2 ->
          let (p3, u'') = p2 in
          let (pss, st'') = p3 in Some (((ps :: pss), st''), u'')
        | None -> None)
     | None -> None)

(** val ns_skip : n list -> state -> (n list * state) option **)

let rec ns_skip bs st =
  match bs with
  | [] -> Some ([], st)
  | b :: rest ->
    (match state_change st b with
     | Some p ->
       let (ns, a) = p in
       let st1 =
         if (&&) (negb (state_eqb ns Anywhere)) (negb (state_eqb ns Utf8))
         then ns
         else st
       in
       if is_printable_bytes a b then Some (bs, st1) else ns_skip rest st1
     | None -> None)

(** val ns_take : n list -> state -> (n list * n list) option **)

let rec ns_take bs st =
  match bs with
  | [] -> Some ([], [])
  | b :: rest ->
    (match state_change st b with
     | Some p ->
       let (_, a) = p in
       if negb ((||) (is_printable_bytes a b) (is_utf8_continuation b))
       then Some ([], bs)
       else (match ns_take rest st with
             | Some p0 -> let (t, r) = p0 in Some ((b :: t), r)
             | None -> None)
     | None -> None)

(** val next_str :
    n list -> n -> state -> (((piece option * n list) * n) * state) option **)

let next_str bs off st =
  match ns_skip bs st with
  | Some p ->
    let (bs1, st1) = p in
    let off1 = N.add off (N.of_nat (sub (length bs) (length bs1))) in
    (match ns_take bs1 st1 with
     | Some p0 ->
       let (t, bs2) = p0 in
       let off2 = N.add off1 (N.of_nat (length t)) in
       (match t with
        | [] -> Some (((None, bs2), off2), st1)
        | _ :: _ ->
          Some ((((Some { p_off = off1; p_bytes = t }), bs2), off2), st1))
     | None -> None)
  | None -> None

(** val str_iter :
    nat -> n list -> n -> state -> ((piece list * n list) * state) option **)

let rec str_iter fuel bs off st =
  match fuel with
  | O -> None
  | S f ->
    (match next_str bs off st with
     | Some p ->
       let (p0, st') = p in
       let (p1, off') = p0 in
       let (p2, bs') = p1 in
       (match p2 with
        | Some pc ->
          (match str_iter f bs' off' st' with
           | Some p3 ->
             let (p4, st'') = p3 in
             let (ps, bs'') = p4 in Some (((pc :: ps), bs''), st'')
           | None -> None)
        | None -> Some (([], bs'), st'))
     | None -> None)

(** val strip_next_str :
    n list -> state -> ((piece list * n list) * state) option **)

let strip_next_str bs st =
  str_iter (S (length bs)) bs N0 st

(** val strip_str_pieces : n list -> piece list option **)

let strip_str_pieces bs =
  match strip_next_str bs Ground with
  | Some p -> let (p0, _) = p in let (ps, _) = p0 in Some ps
  | None -> None

(** val strip_str_chunks :
    n list list -> state -> (piece list list * state) option **)

let rec strip_str_chunks chunks st =
  match chunks with
  | [] -> Some ([], st)
  | c :: rest ->
    (match strip_next_str c st with
     | Some p ->
       let (p0, st') = p in
       let (ps, _) = p0 in
       (match strip_str_chunks rest st' with
        | Some p1 -> let (pss, st'') = p1 in Some ((ps :: pss), st'')
        | None -> None)
     | None -> None)

(** val xterm_colors : ((n * n) * n) list **)

let xterm_colors =
  ((N0, N0), N0) :: (((N0, N0), N0) :: (((N0, N0), N0) :: (((N0, N0),
    N0) :: (((N0, N0), N0) :: (((N0, N0), N0) :: (((N0, N0), N0) :: (((N0,
    N0), N0) :: (((N0, N0), N0) :: (((N0, N0), N0) :: (((N0, N0),
    N0) :: (((N0, N0), N0) :: (((N0, N0), N0) :: (((N0, N0), N0) :: (((N0,
    N0), N0) :: (((N0, N0), N0) :: (((N0, N0), N0) :: (((N0, N0), (Npos (XI
    (XI (XI (XI (XI (XO XH)))))))) :: (((N0, N0), (Npos (XI (XI (XI (XO (XO
    (XO (XO XH))))))))) :: (((N0, N0), (Npos (XI (XI (XI (XI (XO (XI (XO
    XH))))))))) :: (((N0, N0), (Npos (XI (XI (XI (XO (XI (XO (XI
    XH))))))))) :: (((N0, N0), (Npos (XI (XI (XI (XI (XI (XI (XI
    XH))))))))) :: (((N0, (Npos (XI (XI (XI (XI (XI (XO XH)))))))),
    N0) :: (((N0, (Npos (XI (XI (XI (XI (XI (XO XH)))))))), (Npos (XI (XI (XI
    (XI (XI (XO XH)))))))) :: (((N0, (Npos (XI (XI (XI (XI (XI (XO
    XH)))))))), (Npos (XI (XI (XI (XO (XO (XO (XO XH))))))))) :: (((N0, (Npos
    (XI (XI (XI (XI (XI (XO XH)))))))), (Npos (XI (XI (XI (XI (XO (XI (XO
    XH))))))))) :: (((N0, (Npos (XI (XI (XI (XI (XI (XO XH)))))))), (Npos (XI
    (XI (XI (XO (XI (XO (XI XH))))))))) :: (((N0, (Npos (XI (XI (XI (XI (XI
    (XO XH)))))))), (Npos (XI (XI (XI (XI (XI (XI (XI XH))))))))) :: (((N0,
    (Npos (XI (XI (XI (XO (XO (XO (XO XH))))))))), N0) :: (((N0, (Npos (XI
    (XI (XI (XO (XO (XO (XO XH))))))))), (Npos (XI (XI (XI (XI (XI (XO
    XH)))))))) :: (((N0, (Npos (XI (XI (XI (XO (XO (XO (XO XH))))))))), (Npos
    (XI (XI (XI (XO (XO (XO (XO XH))))))))) :: (((N0, (Npos (XI (XI (XI (XO
    (XO (XO (XO XH))))))))), (Npos (XI (XI (XI (XI (XO (XI (XO
    XH))))))))) :: (((N0, (Npos (XI (XI (XI (XO (XO (XO (XO XH))))))))),
    (Npos (XI (XI (XI (XO (XI (XO (XI XH))))))))) :: (((N0, (Npos (XI (XI (XI
    (XO (XO (XO (XO XH))))))))), (Npos (XI (XI (XI (XI (XI (XI (XI
    XH))))))))) :: (((N0, (Npos (XI (XI (XI (XI (XO (XI (XO XH))))))))),
    N0) :: (((N0, (Npos (XI (XI (XI (XI (XO (XI (XO XH))))))))), (Npos (XI
    (XI (XI (XI (XI (XO XH)))))))) :: (((N0, (Npos (XI (XI (XI (XI (XO (XI
    (XO XH))))))))), (Npos (XI (XI (XI (XO (XO (XO (XO XH))))))))) :: (((N0,
    (Npos (XI (XI (XI (XI (XO (XI (XO XH))))))))), (Npos (XI (XI (XI (XI (XO
    (XI (XO XH))))))))) :: (((N0, (Npos (XI (XI (XI (XI (XO (XI (XO
    XH))))))))), (Npos (XI (XI (XI (XO (XI (XO (XI XH))))))))) :: (((N0,
    (Npos (XI (XI (XI (XI (XO (XI (XO XH))))))))), (Npos (XI (XI (XI (XI (XI
    (XI (XI XH))))))))) :: (((N0, (Npos (XI (XI (XI (XO (XI (XO (XI
    XH))))))))), N0) :: (((N0, (Npos (XI (XI (XI (XO (XI (XO (XI XH))))))))),
    (Npos (XI (XI (XI (XI (XI (XO XH)))))))) :: (((N0, (Npos (XI (XI (XI (XO
    (XI (XO (XI XH))))))))), (Npos (XI (XI (XI (XO (XO (XO (XO
    XH))))))))) :: (((N0, (Npos (XI (XI (XI (XO (XI (XO (XI XH))))))))),
    (Npos (XI (XI (XI (XI (XO (XI (XO XH))))))))) :: (((N0, (Npos (XI (XI (XI
    (XO (XI (XO (XI XH))))))))), (Npos (XI (XI (XI (XO (XI (XO (XI
    XH))))))))) :: (((N0, (Npos (XI (XI (XI (XO (XI (XO (XI XH))))))))),
    (Npos (XI (XI (XI (XI (XI (XI (XI XH))))))))) :: (((N0, (Npos (XI (XI (XI
    (XI (XI (XI (XI XH))))))))), N0) :: (((N0, (Npos (XI (XI (XI (XI (XI (XI
    (XI XH))))))))), (Npos (XI (XI (XI (XI (XI (XO XH)))))))) :: (((N0, (Npos
    (XI (XI (XI (XI (XI (XI (XI XH))))))))), (Npos (XI (XI (XI (XO (XO (XO
    (XO XH))))))))) :: (((N0, (Npos (XI (XI (XI (XI (XI (XI (XI XH))))))))),
    (Npos (XI (XI (XI (XI (XO (XI (XO XH))))))))) :: (((N0, (Npos (XI (XI (XI
    (XI (XI (XI (XI XH))))))))), (Npos (XI (XI (XI (XO (XI (XO (XI
    XH))))))))) :: (((N0, (Npos (XI (XI (XI (XI (XI (XI (XI XH))))))))),
    (Npos (XI (XI (XI (XI (XI (XI (XI XH))))))))) :: ((((Npos (XI (XI (XI (XI
    (XI (XO XH))))))), N0), N0) :: ((((Npos (XI (XI (XI (XI (XI (XO
    XH))))))), N0), (Npos (XI (XI (XI (XI (XI (XO XH)))))))) :: ((((Npos (XI
    (XI (XI (XI (XI (XO XH))))))), N0), (Npos (XI (XI (XI (XO (XO (XO (XO
    XH))))))))) :: ((((Npos (XI (XI (XI (XI (XI (XO XH))))))), N0), (Npos (XI
    (XI (XI (XI (XO (XI (XO XH))))))))) :: ((((Npos (XI (XI (XI (XI (XI (XO
    XH))))))), N0), (Npos (XI (XI (XI (XO (XI (XO (XI XH))))))))) :: ((((Npos
    (XI (XI (XI (XI (XI (XO XH))))))), N0), (Npos (XI (XI (XI (XI (XI (XI (XI
    XH))))))))) :: ((((Npos (XI (XI (XI (XI (XI (XO XH))))))), (Npos (XI (XI
    (XI (XI (XI (XO XH)))))))), N0) :: ((((Npos (XI (XI (XI (XI (XI (XO
    XH))))))), (Npos (XI (XI (XI (XI (XI (XO XH)))))))), (Npos (XI (XI (XI
    (XI (XI (XO XH)))))))) :: ((((Npos (XI (XI (XI (XI (XI (XO XH))))))),
    (Npos (XI (XI (XI (XI (XI (XO XH)))))))), (Npos (XI (XI (XI (XO (XO (XO
    (XO XH))))))))) :: ((((Npos (XI (XI (XI (XI (XI (XO XH))))))), (Npos (XI
    (XI (XI (XI (XI (XO XH)))))))), (Npos (XI (XI (XI (XI (XO (XI (XO
    XH))))))))) :: ((((Npos (XI (XI (XI (XI (XI (XO XH))))))), (Npos (XI (XI
    (XI (XI (XI (XO XH)))))))), (Npos (XI (XI (XI (XO (XI (XO (XI
    XH))))))))) :: ((((Npos (XI (XI (XI (XI (XI (XO XH))))))), (Npos (XI (XI
    (XI (XI (XI (XO XH)))))))), (Npos (XI (XI (XI (XI (XI (XI (XI
    XH))))))))) :: ((((Npos (XI (XI (XI (XI (XI (XO XH))))))), (Npos (XI (XI
    (XI (XO (XO (XO (XO XH))))))))), N0) :: ((((Npos (XI (XI (XI (XI (XI (XO
    XH))))))), (Npos (XI (XI (XI (XO (XO (XO (XO XH))))))))), (Npos (XI (XI
    (XI (XI (XI (XO XH)))))))) :: ((((Npos (XI (XI (XI (XI (XI (XO XH))))))),
    (Npos (XI (XI (XI (XO (XO (XO (XO XH))))))))), (Npos (XI (XI (XI (XO (XO
    (XO (XO XH))))))))) :: ((((Npos (XI (XI (XI (XI (XI (XO XH))))))), (Npos
    (XI (XI (XI (XO (XO (XO (XO XH))))))))), (Npos (XI (XI (XI (XI (XO (XI
    (XO XH))))))))) :: ((((Npos (XI (XI (XI (XI (XI (XO XH))))))), (Npos (XI
    (XI (XI (XO (XO (XO (XO XH))))))))), (Npos (XI (XI (XI (XO (XI (XO (XI
    XH))))))))) :: ((((Npos (XI (XI (XI (XI (XI (XO XH))))))), (Npos (XI (XI
    (XI (XO (XO (XO (XO XH))))))))), (Npos (XI (XI (XI (XI (XI (XI (XI
    XH))))))))) :: ((((Npos (XI (XI (XI (XI (XI (XO XH))))))), (Npos (XI (XI
    (XI (XI (XO (XI (XO XH))))))))), N0) :: ((((Npos (XI (XI (XI (XI (XI (XO
    XH))))))), (Npos (XI (XI (XI (XI (XO (XI (XO XH))))))))), (Npos (XI (XI
    (XI (XI (XI (XO XH)))))))) :: ((((Npos (XI (XI (XI (XI (XI (XO XH))))))),
    (Npos (XI (XI (XI (XI (XO (XI (XO XH))))))))), (Npos (XI (XI (XI (XO (XO
    (XO (XO XH))))))))) :: ((((Npos (XI (XI (XI (XI (XI (XO XH))))))), (Npos
    (XI (XI (XI (XI (XO (XI (XO XH))))))))), (Npos (XI (XI (XI (XI (XO (XI
    (XO XH))))))))) :: ((((Npos (XI (XI (XI (XI (XI (XO XH))))))), (Npos (XI
    (XI (XI (XI (XO (XI (XO XH))))))))), (Npos (XI (XI (XI (XO (XI (XO (XI
    XH))))))))) :: ((((Npos (XI (XI (XI (XI (XI (XO XH))))))), (Npos (XI (XI
    (XI (XI (XO (XI (XO XH))))))))), (Npos (XI (XI (XI (XI (XI (XI (XI
    XH))))))))) :: ((((Npos (XI (XI (XI (XI (XI (XO XH))))))), (Npos (XI (XI
    (XI (XO (XI (XO (XI XH))))))))), N0) :: ((((Npos (XI (XI (XI (XI (XI (XO
    XH))))))), (Npos (XI (XI (XI (XO (XI (XO (XI XH))))))))), (Npos (XI (XI
    (XI (XI (XI (XO XH)))))))) :: ((((Npos (XI (XI (XI (XI (XI (XO XH))))))),
    (Npos (XI (XI (XI (XO (XI (XO (XI XH))))))))), (Npos (XI (XI (XI (XO (XO
    (XO (XO XH))))))))) :: ((((Npos (XI (XI (XI (XI (XI (XO XH))))))), (Npos
    (XI (XI (XI (XO (XI (XO (XI XH))))))))), (Npos (XI (XI (XI (XI (XO (XI
    (XO XH))))))))) :: ((((Npos (XI (XI (XI (XI (XI (XO XH))))))), (Npos (XI
    (XI (XI (XO (XI (XO (XI XH))))))))), (Npos (XI (XI (XI (XO (XI (XO (XI
    XH))))))))) :: ((((Npos (XI (XI (XI (XI (XI (XO XH))))))), (Npos (XI (XI
    (XI (XO (XI (XO (XI XH))))))))), (Npos (XI (XI (XI (XI (XI (XI (XI
    XH))))))))) :: ((((Npos (XI (XI (XI (XI (XI (XO XH))))))), (Npos (XI (XI
    (XI (XI (XI (XI (XI XH))))))))), N0) :: ((((Npos (XI (XI (XI (XI (XI (XO
    XH))))))), (Npos (XI (XI (XI (XI (XI (XI (XI XH))))))))), (Npos (XI (XI
    (XI (XI (XI (XO XH)))))))) :: ((((Npos (XI (XI (XI (XI (XI (XO XH))))))),
    (Npos (XI (XI (XI (XI (XI (XI (XI XH))))))))), (Npos (XI (XI (XI (XO (XO
    (XO (XO XH))))))))) :: ((((Npos (XI (XI (XI (XI (XI (XO XH))))))), (Npos
    (XI (XI (XI (XI (XI (XI (XI XH))))))))), (Npos (XI (XI (XI (XI (XO (XI
    (XO XH))))))))) :: ((((Npos (XI (XI (XI (XI (XI (XO XH))))))), (Npos (XI
    (XI (XI (XI (XI (XI (XI XH))))))))), (Npos (XI (XI (XI (XO (XI (XO (XI
    XH))))))))) :: ((((Npos (XI (XI (XI (XI (XI (XO XH))))))), (Npos (XI (XI
    (XI (XI (XI (XI (XI XH))))))))), (Npos (XI (XI (XI (XI (XI (XI (XI
    XH))))))))) :: ((((Npos (XI (XI (XI (XO (XO (XO (XO XH)))))))), N0),
    N0) :: ((((Npos (XI (XI (XI (XO (XO (XO (XO XH)))))))), N0), (Npos (XI
    (XI (XI (XI (XI (XO XH)))))))) :: ((((Npos (XI (XI (XI (XO (XO (XO (XO
    XH)))))))), N0), (Npos (XI (XI (XI (XO (XO (XO (XO
    XH))))))))) :: ((((Npos (XI (XI (XI (XO (XO (XO (XO XH)))))))), N0),
    (Npos (XI (XI (XI (XI (XO (XI (XO XH))))))))) :: ((((Npos (XI (XI (XI (XO
    (XO (XO (XO XH)))))))), N0), (Npos (XI (XI (XI (XO (XI (XO (XI
    XH))))))))) :: ((((Npos (XI (XI (XI (XO (XO (XO (XO XH)))))))), N0),
    (Npos (XI (XI (XI (XI (XI (XI (XI XH))))))))) :: ((((Npos (XI (XI (XI (XO
    (XO (XO (XO XH)))))))), (Npos (XI (XI (XI (XI (XI (XO XH)))))))),
    N0) :: ((((Npos (XI (XI (XI (XO (XO (XO (XO XH)))))))), (Npos (XI (XI (XI
    (XI (XI (XO XH)))))))), (Npos (XI (XI (XI (XI (XI (XO
    XH)))))))) :: ((((Npos (XI (XI (XI (XO (XO (XO (XO XH)))))))), (Npos (XI
    (XI (XI (XI (XI (XO XH)))))))), (Npos (XI (XI (XI (XO (XO (XO (XO
    XH))))))))) :: ((((Npos (XI (XI (XI (XO (XO (XO (XO XH)))))))), (Npos (XI
    (XI (XI (XI (XI (XO XH)))))))), (Npos (XI (XI (XI (XI (XO (XI (XO
    XH))))))))) :: ((((Npos (XI (XI (XI (XO (XO (XO (XO XH)))))))), (Npos (XI
    (XI (XI (XI (XI (XO XH)))))))), (Npos (XI (XI (XI (XO (XI (XO (XI
    XH))))))))) :: ((((Npos (XI (XI (XI (XO (XO (XO (XO XH)))))))), (Npos (XI
    (XI (XI (XI (XI (XO XH)))))))), (Npos (XI (XI (XI (XI (XI (XI (XI
    XH))))))))) :: ((((Npos (XI (XI (XI (XO (XO (XO (XO XH)))))))), (Npos (XI
    (XI (XI (XO (XO (XO (XO XH))))))))), N0) :: ((((Npos (XI (XI (XI (XO (XO
    (XO (XO XH)))))))), (Npos (XI (XI (XI (XO (XO (XO (XO XH))))))))), (Npos
    (XI (XI (XI (XI (XI (XO XH)))))))) :: ((((Npos (XI (XI (XI (XO (XO (XO
    (XO XH)))))))), (Npos (XI (XI (XI (XO (XO (XO (XO XH))))))))), (Npos (XI
    (XI (XI (XO (XO (XO (XO XH))))))))) :: ((((Npos (XI (XI (XI (XO (XO (XO
    (XO XH)))))))), (Npos (XI (XI (XI (XO (XO (XO (XO XH))))))))), (Npos (XI
    (XI (XI (XI (XO (XI (XO XH))))))))) :: ((((Npos (XI (XI (XI (XO (XO (XO
    (XO XH)))))))), (Npos (XI (XI (XI (XO (XO (XO (XO XH))))))))), (Npos (XI
    (XI (XI (XO (XI (XO (XI XH))))))))) :: ((((Npos (XI (XI (XI (XO (XO (XO
    (XO XH)))))))), (Npos (XI (XI (XI (XO (XO (XO (XO XH))))))))), (Npos (XI
    (XI (XI (XI (XI (XI (XI XH))))))))) :: ((((Npos (XI (XI (XI (XO (XO (XO
    (XO XH)))))))), (Npos (XI (XI (XI (XI (XO (XI (XO XH))))))))),
    N0) :: ((((Npos (XI (XI (XI (XO (XO (XO (XO XH)))))))), (Npos (XI (XI (XI
    (XI (XO (XI (XO XH))))))))), (Npos (XI (XI (XI (XI (XI (XO
    XH)))))))) :: ((((Npos (XI (XI (XI (XO (XO (XO (XO XH)))))))), (Npos (XI
    (XI (XI (XI (XO (XI (XO XH))))))))), (Npos (XI (XI (XI (XO (XO (XO (XO
    XH))))))))) :: ((((Npos (XI (XI (XI (XO (XO (XO (XO XH)))))))), (Npos (XI
    (XI (XI (XI (XO (XI (XO XH))))))))), (Npos (XI (XI (XI (XI (XO (XI (XO
    XH))))))))) :: ((((Npos (XI (XI (XI (XO (XO (XO (XO XH)))))))), (Npos (XI
    (XI (XI (XI (XO (XI (XO XH))))))))), (Npos (XI (XI (XI (XO (XI (XO (XI
    XH))))))))) :: ((((Npos (XI (XI (XI (XO (XO (XO (XO XH)))))))), (Npos (XI
    (XI (XI (XI (XO (XI (XO XH))))))))), (Npos (XI (XI (XI (XI (XI (XI (XI
    XH))))))))) :: ((((Npos (XI (XI (XI (XO (XO (XO (XO XH)))))))), (Npos (XI
    (XI (XI (XO (XI (XO (XI XH))))))))), N0) :: ((((Npos (XI (XI (XI (XO (XO
    (XO (XO XH)))))))), (Npos (XI (XI (XI (XO (XI (XO (XI XH))))))))), (Npos
    (XI (XI (XI (XI (XI (XO XH)))))))) :: ((((Npos (XI (XI (XI (XO (XO (XO
    (XO XH)))))))), (Npos (XI (XI (XI (XO (XI (XO (XI XH))))))))), (Npos (XI
    (XI (XI (XO (XO (XO (XO XH))))))))) :: ((((Npos (XI (XI (XI (XO (XO (XO
    (XO XH)))))))), (Npos (XI (XI (XI (XO (XI (XO (XI XH))))))))), (Npos (XI
    (XI (XI (XI (XO (XI (XO XH))))))))) :: ((((Npos (XI (XI (XI (XO (XO (XO
    (XO XH)))))))), (Npos (XI (XI (XI (XO (XI (XO (XI XH))))))))), (Npos (XI
    (XI (XI (XO (XI (XO (XI XH))))))))) :: ((((Npos (XI (XI (XI (XO (XO (XO
    (XO XH)))))))), (Npos (XI (XI (XI (XO (XI (XO (XI XH))))))))), (Npos (XI
    (XI (XI (XI (XI (XI (XI XH))))))))) :: ((((Npos (XI (XI (XI (XO (XO (XO
    (XO XH)))))))), (Npos (XI (XI (XI (XI (XI (XI (XI XH))))))))),
    N0) :: ((((Npos (XI (XI (XI (XO (XO (XO (XO XH)))))))), (Npos (XI (XI (XI
    (XI (XI (XI (XI XH))))))))), (Npos (XI (XI (XI (XI (XI (XO
    XH)))))))) :: ((((Npos (XI (XI (XI (XO (XO (XO (XO XH)))))))), (Npos (XI
    (XI (XI (XI (XI (XI (XI XH))))))))), (Npos (XI (XI (XI (XO (XO (XO (XO
    XH))))))))) :: ((((Npos (XI (XI (XI (XO (XO (XO (XO XH)))))))), (Npos (XI
    (XI (XI (XI (XI (XI (XI XH))))))))), (Npos (XI (XI (XI (XI (XO (XI (XO
    XH))))))))) :: ((((Npos (XI (XI (XI (XO (XO (XO (XO XH)))))))), (Npos (XI
    (XI (XI (XI (XI (XI (XI XH))))))))), (Npos (XI (XI (XI (XO (XI (XO (XI
    XH))))))))) :: ((((Npos (XI (XI (XI (XO (XO (XO (XO XH)))))))), (Npos (XI
    (XI (XI (XI (XI (XI (XI XH))))))))), (Npos (XI (XI (XI (XI (XI (XI (XI
    XH))))))))) :: ((((Npos (XI (XI (XI (XI (XO (XI (XO XH)))))))), N0),
    N0) :: ((((Npos (XI (XI (XI (XI (XO (XI (XO XH)))))))), N0), (Npos (XI
    (XI (XI (XI (XI (XO XH)))))))) :: ((((Npos (XI (XI (XI (XI (XO (XI (XO
    XH)))))))), N0), (Npos (XI (XI (XI (XO (XO (XO (XO
    XH))))))))) :: ((((Npos (XI (XI (XI (XI (XO (XI (XO XH)))))))), N0),
    (Npos (XI (XI (XI (XI (XO (XI (XO XH))))))))) :: ((((Npos (XI (XI (XI (XI
    (XO (XI (XO XH)))))))), N0), (Npos (XI (XI (XI (XO (XI (XO (XI
    XH))))))))) :: ((((Npos (XI (XI (XI (XI (XO (XI (XO XH)))))))), N0),
    (Npos (XI (XI (XI (XI (XI (XI (XI XH))))))))) :: ((((Npos (XI (XI (XI (XI
    (XO (XI (XO XH)))))))), (Npos (XI (XI (XI (XI (XI (XO XH)))))))),
    N0) :: ((((Npos (XI (XI (XI (XI (XO (XI (XO XH)))))))), (Npos (XI (XI (XI
    (XI (XI (XO XH)))))))), (Npos (XI (XI (XI (XI (XI (XO
    XH)))))))) :: ((((Npos (XI (XI (XI (XI (XO (XI (XO XH)))))))), (Npos (XI
    (XI (XI (XI (XI (XO XH)))))))), (Npos (XI (XI (XI (XO (XO (XO (XO
    XH))))))))) :: ((((Npos (XI (XI (XI (XI (XO (XI (XO XH)))))))), (Npos (XI
    (XI (XI (XI (XI (XO XH)))))))), (Npos (XI (XI (XI (XI (XO (XI (XO
    XH))))))))) :: ((((Npos (XI (XI (XI (XI (XO (XI (XO XH)))))))), (Npos (XI
    (XI (XI (XI (XI (XO XH)))))))), (Npos (XI (XI (XI (XO (XI (XO (XI
    XH))))))))) :: ((((Npos (XI (XI (XI (XI (XO (XI (XO XH)))))))), (Npos (XI
    (XI (XI (XI (XI (XO XH)))))))), (Npos (XI (XI (XI (XI (XI (XI (XI
    XH))))))))) :: ((((Npos (XI (XI (XI (XI (XO (XI (XO XH)))))))), (Npos (XI
    (XI (XI (XO (XO (XO (XO XH))))))))), N0) :: ((((Npos (XI (XI (XI (XI (XO
    (XI (XO XH)))))))), (Npos (XI (XI (XI (XO (XO (XO (XO XH))))))))), (Npos
    (XI (XI (XI (XI (XI (XO XH)))))))) :: ((((Npos (XI (XI (XI (XI (XO (XI
    (XO XH)))))))), (Npos (XI (XI (XI (XO (XO (XO (XO XH))))))))), (Npos (XI
    (XI (XI (XO (XO (XO (XO XH))))))))) :: ((((Npos (XI (XI (XI (XI (XO (XI
    (XO XH)))))))), (Npos (XI (XI (XI (XO (XO (XO (XO XH))))))))), (Npos (XI
    (XI (XI (XI (XO (XI (XO XH))))))))) :: ((((Npos (XI (XI (XI (XI (XO (XI
    (XO XH)))))))), (Npos (XI (XI (XI (XO (XO (XO (XO XH))))))))), (Npos (XI
    (XI (XI (XO (XI (XO (XI XH))))))))) :: ((((Npos (XI (XI (XI (XI (XO (XI
    (XO XH)))))))), (Npos (XI (XI (XI (XO (XO (XO (XO XH))))))))), (Npos (XI
    (XI (XI (XI (XI (XI (XI XH))))))))) :: ((((Npos (XI (XI (XI (XI (XO (XI
    (XO XH)))))))), (Npos (XI (XI (XI (XI (XO (XI (XO XH))))))))),
    N0) :: ((((Npos (XI (XI (XI (XI (XO (XI (XO XH)))))))), (Npos (XI (XI (XI
    (XI (XO (XI (XO XH))))))))), (Npos (XI (XI (XI (XI (XI (XO
    XH)))))))) :: ((((Npos (XI (XI (XI (XI (XO (XI (XO XH)))))))), (Npos (XI
    (XI (XI (XI (XO (XI (XO XH))))))))), (Npos (XI (XI (XI (XO (XO (XO (XO
    XH))))))))) :: ((((Npos (XI (XI (XI (XI (XO (XI (XO XH)))))))), (Npos (XI
    (XI (XI (XI (XO (XI (XO XH))))))))), (Npos (XI (XI (XI (XI (XO (XI (XO
    XH))))))))) :: ((((Npos (XI (XI (XI (XI (XO (XI (XO XH)))))))), (Npos (XI
    (XI (XI (XI (XO (XI (XO XH))))))))), (Npos (XI (XI (XI (XO (XI (XO (XI
    XH))))))))) :: ((((Npos (XI (XI (XI (XI (XO (XI (XO XH)))))))), (Npos (XI
    (XI (XI (XI (XO (XI (XO XH))))))))), (Npos (XI (XI (XI (XI (XI (XI (XI
    XH))))))))) :: ((((Npos (XI (XI (XI (XI (XO (XI (XO XH)))))))), (Npos (XI
    (XI (XI (XO (XI (XO (XI XH))))))))), N0) :: ((((Npos (XI (XI (XI (XI (XO
    (XI (XO XH)))))))), (Npos (XI (XI (XI (XO (XI (XO (XI XH))))))))), (Npos
    (XI (XI (XI (XI (XI (XO XH)))))))) :: ((((Npos (XI (XI (XI (XI (XO (XI
    (XO XH)))))))), (Npos (XI (XI (XI (XO (XI (XO (XI XH))))))))), (Npos (XI
    (XI (XI (XO (XO (XO (XO XH))))))))) :: ((((Npos (XI (XI (XI (XI (XO (XI
    (XO XH)))))))), (Npos (XI (XI (XI (XO (XI (XO (XI XH))))))))), (Npos (XI
    (XI (XI (XI (XO (XI (XO XH))))))))) :: ((((Npos (XI (XI (XI (XI (XO (XI
    (XO XH)))))))), (Npos (XI (XI (XI (XO (XI (XO (XI XH))))))))), (Npos (XI
    (XI (XI (XO (XI (XO (XI XH))))))))) :: ((((Npos (XI (XI (XI (XI (XO (XI
    (XO XH)))))))), (Npos (XI (XI (XI (XO (XI (XO (XI XH))))))))), (Npos (XI
    (XI (XI (XI (XI (XI (XI XH))))))))) :: ((((Npos (XI (XI (XI (XI (XO (XI
    (XO XH)))))))), (Npos (XI (XI (XI (XI (XI (XI (XI XH))))))))),
    N0) :: ((((Npos (XI (XI (XI (XI (XO (XI (XO XH)))))))), (Npos (XI (XI (XI
    (XI (XI (XI (XI XH))))))))), (Npos (XI (XI (XI (XI (XI (XO
    XH)))))))) :: ((((Npos (XI (XI (XI (XI (XO (XI (XO XH)))))))), (Npos (XI
    (XI (XI (XI (XI (XI (XI XH))))))))), (Npos (XI (XI (XI (XO (XO (XO (XO
    XH))))))))) :: ((((Npos (XI (XI (XI (XI (XO (XI (XO XH)))))))), (Npos (XI
    (XI (XI (XI (XI (XI (XI XH))))))))), (Npos (XI (XI (XI (XI (XO (XI (XO
    XH))))))))) :: ((((Npos (XI (XI (XI (XI (XO (XI (XO XH)))))))), (Npos (XI
    (XI (XI (XI (XI (XI (XI XH))))))))), (Npos (XI (XI (XI (XO (XI (XO (XI
    XH))))))))) :: ((((Npos (XI (XI (XI (XI (XO (XI (XO XH)))))))), (Npos (XI
    (XI (XI (XI (XI (XI (XI XH))))))))), (Npos (XI (XI (XI (XI (XI (XI (XI
    XH))))))))) :: ((((Npos (XI (XI (XI (XO (XI (XO (XI XH)))))))), N0),
    N0) :: ((((Npos (XI (XI (XI (XO (XI (XO (XI XH)))))))), N0), (Npos (XI
    (XI (XI (XI (XI (XO XH)))))))) :: ((((Npos (XI (XI (XI (XO (XI (XO (XI
    XH)))))))), N0), (Npos (XI (XI (XI (XO (XO (XO (XO
    XH))))))))) :: ((((Npos (XI (XI (XI (XO (XI (XO (XI XH)))))))), N0),
    (Npos (XI (XI (XI (XI (XO (XI (XO XH))))))))) :: ((((Npos (XI (XI (XI (XO
    (XI (XO (XI XH)))))))), N0), (Npos (XI (XI (XI (XO (XI (XO (XI
    XH))))))))) :: ((((Npos (XI (XI (XI (XO (XI (XO (XI XH)))))))), N0),
    (Npos (XI (XI (XI (XI (XI (XI (XI XH))))))))) :: ((((Npos (XI (XI (XI (XO
    (XI (XO (XI XH)))))))), (Npos (XI (XI (XI (XI (XI (XO XH)))))))),
    N0) :: ((((Npos (XI (XI (XI (XO (XI (XO (XI XH)))))))), (Npos (XI (XI (XI
    (XI (XI (XO XH)))))))), (Npos (XI (XI (XI (XI (XI (XO
    XH)))))))) :: ((((Npos (XI (XI (XI (XO (XI (XO (XI XH)))))))), (Npos (XI
    (XI (XI (XI (XI (XO XH)))))))), (Npos (XI (XI (XI (XO (XO (XO (XO
    XH))))))))) :: ((((Npos (XI (XI (XI (XO (XI (XO (XI XH)))))))), (Npos (XI
    (XI (XI (XI (XI (XO XH)))))))), (Npos (XI (XI (XI (XI (XO (XI (XO
    XH))))))))) :: ((((Npos (XI (XI (XI (XO (XI (XO (XI XH)))))))), (Npos (XI
    (XI (XI (XI (XI (XO XH)))))))), (Npos (XI (XI (XI (XO (XI (XO (XI
    XH))))))))) :: ((((Npos (XI (XI (XI (XO (XI (XO (XI XH)))))))), (Npos (XI
    (XI (XI (XI (XI (XO XH)))))))), (Npos (XI (XI (XI (XI (XI (XI (XI
    XH))))))))) :: ((((Npos (XI (XI (XI (XO (XI (XO (XI XH)))))))), (Npos (XI
    (XI (XI (XO (XO (XO (XO XH))))))))), N0) :: ((((Npos (XI (XI (XI (XO (XI
    (XO (XI XH)))))))), (Npos (XI (XI (XI (XO (XO (XO (XO XH))))))))), (Npos
    (XI (XI (XI (XI (XI (XO XH)))))))) :: ((((Npos (XI (XI (XI (XO (XI (XO
    (XI XH)))))))), (Npos (XI (XI (XI (XO (XO (XO (XO XH))))))))), (Npos (XI
    (XI (XI (XO (XO (XO (XO XH))))))))) :: ((((Npos (XI (XI (XI (XO (XI (XO
    (XI XH)))))))), (Npos (XI (XI (XI (XO (XO (XO (XO XH))))))))), (Npos (XI
    (XI (XI (XI (XO (XI (XO XH))))))))) :: ((((Npos (XI (XI (XI (XO (XI (XO
    (XI XH)))))))), (Npos (XI (XI (XI (XO (XO (XO (XO XH))))))))), (Npos (XI
    (XI (XI (XO (XI (XO (XI XH))))))))) :: ((((Npos (XI (XI (XI (XO (XI (XO
    (XI XH)))))))), (Npos (XI (XI (XI (XO (XO (XO (XO XH))))))))), (Npos (XI
    (XI (XI (XI (XI (XI (XI XH))))))))) :: ((((Npos (XI (XI (XI (XO (XI (XO
    (XI XH)))))))), (Npos (XI (XI (XI (XI (XO (XI (XO XH))))))))),
    N0) :: ((((Npos (XI (XI (XI (XO (XI (XO (XI XH)))))))), (Npos (XI (XI (XI
    (XI (XO (XI (XO XH))))))))), (Npos (XI (XI (XI (XI (XI (XO
    XH)))))))) :: ((((Npos (XI (XI (XI (XO (XI (XO (XI XH)))))))), (Npos (XI
    (XI (XI (XI (XO (XI (XO XH))))))))), (Npos (XI (XI (XI (XO (XO (XO (XO
    XH))))))))) :: ((((Npos (XI (XI (XI (XO (XI (XO (XI XH)))))))), (Npos (XI
    (XI (XI (XI (XO (XI (XO XH))))))))), (Npos (XI (XI (XI (XI (XO (XI (XO
    XH))))))))) :: ((((Npos (XI (XI (XI (XO (XI (XO (XI XH)))))))), (Npos (XI
    (XI (XI (XI (XO (XI (XO XH))))))))), (Npos (XI (XI (XI (XO (XI (XO (XI
    XH))))))))) :: ((((Npos (XI (XI (XI (XO (XI (XO (XI XH)))))))), (Npos (XI
    (XI (XI (XI (XO (XI (XO XH))))))))), (Npos (XI (XI (XI (XI (XI (XI (XI
    XH))))))))) :: ((((Npos (XI (XI (XI (XO (XI (XO (XI XH)))))))), (Npos (XI
    (XI (XI (XO (XI (XO (XI XH))))))))), N0) :: ((((Npos (XI (XI (XI (XO (XI
    (XO (XI XH)))))))), (Npos (XI (XI (XI (XO (XI (XO (XI XH))))))))), (Npos
    (XI (XI (XI (XI (XI (XO XH)))))))) :: ((((Npos (XI (XI (XI (XO (XI (XO
    (XI XH)))))))), (Npos (XI (XI (XI (XO (XI (XO (XI XH))))))))), (Npos (XI
    (XI (XI (XO (XO (XO (XO XH))))))))) :: ((((Npos (XI (XI (XI (XO (XI (XO
    (XI XH)))))))), (Npos (XI (XI (XI (XO (XI (XO (XI XH))))))))), (Npos (XI
    (XI (XI (XI (XO (XI (XO XH))))))))) :: ((((Npos (XI (XI (XI (XO (XI (XO
    (XI XH)))))))), (Npos (XI (XI (XI (XO (XI (XO (XI XH))))))))), (Npos (XI
    (XI (XI (XO (XI (XO (XI XH))))))))) :: ((((Npos (XI (XI (XI (XO (XI (XO
    (XI XH)))))))), (Npos (XI (XI (XI (XO (XI (XO (XI XH))))))))), (Npos (XI
    (XI (XI (XI (XI (XI (XI XH))))))))) :: ((((Npos (XI (XI (XI (XO (XI (XO
    (XI XH)))))))), (Npos (XI (XI (XI (XI (XI (XI (XI XH))))))))),
    N0) :: ((((Npos (XI (XI (XI (XO (XI (XO (XI XH)))))))), (Npos (XI (XI (XI
    (XI (XI (XI (XI XH))))))))), (Npos (XI (XI (XI (XI (XI (XO
    XH)))))))) :: ((((Npos (XI (XI (XI (XO (XI (XO (XI XH)))))))), (Npos (XI
    (XI (XI (XI (XI (XI (XI XH))))))))), (Npos (XI (XI (XI (XO (XO (XO (XO
    XH))))))))) :: ((((Npos (XI (XI (XI (XO (XI (XO (XI XH)))))))), (Npos (XI
    (XI (XI (XI (XI (XI (XI XH))))))))), (Npos (XI (XI (XI (XI (XO (XI (XO
    XH))))))))) :: ((((Npos (XI (XI (XI (XO (XI (XO (XI XH)))))))), (Npos (XI
    (XI (XI (XI (XI (XI (XI XH))))))))), (Npos (XI (XI (XI (XO (XI (XO (XI
    XH))))))))) :: ((((Npos (XI (XI (XI (XO (XI (XO (XI XH)))))))), (Npos (XI
    (XI (XI (XI (XI (XI (XI XH))))))))), (Npos (XI (XI (XI (XI (XI (XI (XI
    XH))))))))) :: ((((Npos (XI (XI (XI (XI (XI (XI (XI XH)))))))), N0),
    N0) :: ((((Npos (XI (XI (XI (XI (XI (XI (XI XH)))))))), N0), (Npos (XI
    (XI (XI (XI (XI (XO XH)))))))) :: ((((Npos (XI (XI (XI (XI (XI (XI (XI
    XH)))))))), N0), (Npos (XI (XI (XI (XO (XO (XO (XO
    XH))))))))) :: ((((Npos (XI (XI (XI (XI (XI (XI (XI XH)))))))), N0),
    (Npos (XI (XI (XI (XI (XO (XI (XO XH))))))))) :: ((((Npos (XI (XI (XI (XI
    (XI (XI (XI XH)))))))), N0), (Npos (XI (XI (XI (XO (XI (XO (XI
    XH))))))))) :: ((((Npos (XI (XI (XI (XI (XI (XI (XI XH)))))))), N0),
    (Npos (XI (XI (XI (XI (XI (XI (XI XH))))))))) :: ((((Npos (XI (XI (XI (XI
    (XI (XI (XI XH)))))))), (Npos (XI (XI (XI (XI (XI (XO XH)))))))),
    N0) :: ((((Npos (XI (XI (XI (XI (XI (XI (XI XH)))))))), (Npos (XI (XI (XI
    (XI (XI (XO XH)))))))), (Npos (XI (XI (XI (XI (XI (XO
    XH)))))))) :: ((((Npos (XI (XI (XI (XI (XI (XI (XI XH)))))))), (Npos (XI
    (XI (XI (XI (XI (XO XH)))))))), (Npos (XI (XI (XI (XO (XO (XO (XO
    XH))))))))) :: ((((Npos (XI (XI (XI (XI (XI (XI (XI XH)))))))), (Npos (XI
    (XI (XI (XI (XI (XO XH)))))))), (Npos (XI (XI (XI (XI (XO (XI (XO
    XH))))))))) :: ((((Npos (XI (XI (XI (XI (XI (XI (XI XH)))))))), (Npos (XI
    (XI (XI (XI (XI (XO XH)))))))), (Npos (XI (XI (XI (XO (XI (XO (XI
    XH))))))))) :: ((((Npos (XI (XI (XI (XI (XI (XI (XI XH)))))))), (Npos (XI
    (XI (XI (XI (XI (XO XH)))))))), (Npos (XI (XI (XI (XI (XI (XI (XI
    XH))))))))) :: ((((Npos (XI (XI (XI (XI (XI (XI (XI XH)))))))), (Npos (XI
    (XI (XI (XO (XO (XO (XO XH))))))))), N0) :: ((((Npos (XI (XI (XI (XI (XI
    (XI (XI XH)))))))), (Npos (XI (XI (XI (XO (XO (XO (XO XH))))))))), (Npos
    (XI (XI (XI (XI (XI (XO XH)))))))) :: ((((Npos (XI (XI (XI (XI (XI (XI
    (XI XH)))))))), (Npos (XI (XI (XI (XO (XO (XO (XO XH))))))))), (Npos (XI
    (XI (XI (XO (XO (XO (XO XH))))))))) :: ((((Npos (XI (XI (XI (XI (XI (XI
    (XI XH)))))))), (Npos (XI (XI (XI (XO (XO (XO (XO XH))))))))), (Npos (XI
    (XI (XI (XI (XO (XI (XO XH))))))))) :: ((((Npos (XI (XI (XI (XI (XI (XI
    (XI XH)))))))), (Npos (XI (XI (XI (XO (XO (XO (XO XH))))))))), (Npos (XI
    (XI (XI (XO (XI (XO (XI XH))))))))) :: ((((Npos (XI (XI (XI (XI (XI (XI
    (XI XH)))))))), (Npos (XI (XI (XI (XO (XO (XO (XO XH))))))))), (Npos (XI
    (XI (XI (XI (XI (XI (XI XH))))))))) :: ((((Npos (XI (XI (XI (XI (XI (XI
    (XI XH)))))))), (Npos (XI (XI (XI (XI (XO (XI (XO XH))))))))),
    N0) :: ((((Npos (XI (XI (XI (XI (XI (XI (XI XH)))))))), (Npos (XI (XI (XI
    (XI (XO (XI (XO XH))))))))), (Npos (XI (XI (XI (XI (XI (XO
    XH)))))))) :: ((((Npos (XI (XI (XI (XI (XI (XI (XI XH)))))))), (Npos (XI
    (XI (XI (XI (XO (XI (XO XH))))))))), (Npos (XI (XI (XI (XO (XO (XO (XO
    XH))))))))) :: ((((Npos (XI (XI (XI (XI (XI (XI (XI XH)))))))), (Npos (XI
    (XI (XI (XI (XO (XI (XO XH))))))))), (Npos (XI (XI (XI (XI (XO (XI (XO
    XH))))))))) :: ((((Npos (XI (XI (XI (XI (XI (XI (XI XH)))))))), (Npos (XI
    (XI (XI (XI (XO (XI (XO XH))))))))), (Npos (XI (XI (XI (XO (XI (XO (XI
    XH))))))))) :: ((((Npos (XI (XI (XI (XI (XI (XI (XI XH)))))))), (Npos (XI
    (XI (XI (XI (XO (XI (XO XH))))))))), (Npos (XI (XI (XI (XI (XI (XI (XI
    XH))))))))) :: ((((Npos (XI (XI (XI (XI (XI (XI (XI XH)))))))), (Npos (XI
    (XI (XI (XO (XI (XO (XI XH))))))))), N0) :: ((((Npos (XI (XI (XI (XI (XI
    (XI (XI XH)))))))), (Npos (XI (XI (XI (XO (XI (XO (XI XH))))))))), (Npos
    (XI (XI (XI (XI (XI (XO XH)))))))) :: ((((Npos (XI (XI (XI (XI (XI (XI
    (XI XH)))))))), (Npos (XI (XI (XI (XO (XI (XO (XI XH))))))))), (Npos (XI
    (XI (XI (XO (XO (XO (XO XH))))))))) :: ((((Npos (XI (XI (XI (XI (XI (XI
    (XI XH)))))))), (Npos (XI (XI (XI (XO (XI (XO (XI XH))))))))), (Npos (XI
    (XI (XI (XI (XO (XI (XO XH))))))))) :: ((((Npos (XI (XI (XI (XI (XI (XI
    (XI XH)))))))), (Npos (XI (XI (XI (XO (XI (XO (XI XH))))))))), (Npos (XI
    (XI (XI (XO (XI (XO (XI XH))))))))) :: ((((Npos (XI (XI (XI (XI (XI (XI
    (XI XH)))))))), (Npos (XI (XI (XI (XO (XI (XO (XI XH))))))))), (Npos (XI
    (XI (XI (XI (XI (XI (XI XH))))))))) :: ((((Npos (XI (XI (XI (XI (XI (XI
    (XI XH)))))))), (Npos (XI (XI (XI (XI (XI (XI (XI XH))))))))),
    N0) :: ((((Npos (XI (XI (XI (XI (XI (XI (XI XH)))))))), (Npos (XI (XI (XI
    (XI (XI (XI (XI XH))))))))), (Npos (XI (XI (XI (XI (XI (XO
    XH)))))))) :: ((((Npos (XI (XI (XI (XI (XI (XI (XI XH)))))))), (Npos (XI
    (XI (XI (XI (XI (XI (XI XH))))))))), (Npos (XI (XI (XI (XO (XO (XO (XO
    XH))))))))) :: ((((Npos (XI (XI (XI (XI (XI (XI (XI XH)))))))), (Npos (XI
    (XI (XI (XI (XI (XI (XI XH))))))))), (Npos (XI (XI (XI (XI (XO (XI (XO
    XH))))))))) :: ((((Npos (XI (XI (XI (XI (XI (XI (XI XH)))))))), (Npos (XI
    (XI (XI (XI (XI (XI (XI XH))))))))), (Npos (XI (XI (XI (XO (XI (XO (XI
    XH))))))))) :: ((((Npos (XI (XI (XI (XI (XI (XI (XI XH)))))))), (Npos (XI
    (XI (XI (XI (XI (XI (XI XH))))))))), (Npos (XI (XI (XI (XI (XI (XI (XI
    XH))))))))) :: ((((Npos (XO (XO (XO XH)))), (Npos (XO (XO (XO XH))))),
    (Npos (XO (XO (XO XH))))) :: ((((Npos (XO (XI (XO (XO XH))))), (Npos (XO
    (XI (XO (XO XH)))))), (Npos (XO (XI (XO (XO XH)))))) :: ((((Npos (XO (XO
    (XI (XI XH))))), (Npos (XO (XO (XI (XI XH)))))), (Npos (XO (XO (XI (XI
    XH)))))) :: ((((Npos (XO (XI (XI (XO (XO XH)))))), (Npos (XO (XI (XI (XO
    (XO XH))))))), (Npos (XO (XI (XI (XO (XO XH))))))) :: ((((Npos (XO (XO
    (XO (XO (XI XH)))))), (Npos (XO (XO (XO (XO (XI XH))))))), (Npos (XO (XO
    (XO (XO (XI XH))))))) :: ((((Npos (XO (XI (XO (XI (XI XH)))))), (Npos (XO
    (XI (XO (XI (XI XH))))))), (Npos (XO (XI (XO (XI (XI
    XH))))))) :: ((((Npos (XO (XO (XI (XO (XO (XO XH))))))), (Npos (XO (XO
    (XI (XO (XO (XO XH)))))))), (Npos (XO (XO (XI (XO (XO (XO
    XH)))))))) :: ((((Npos (XO (XI (XI (XI (XO (XO XH))))))), (Npos (XO (XI
    (XI (XI (XO (XO XH)))))))), (Npos (XO (XI (XI (XI (XO (XO
    XH)))))))) :: ((((Npos (XO (XO (XO (XI (XI (XO XH))))))), (Npos (XO (XO
    (XO (XI (XI (XO XH)))))))), (Npos (XO (XO (XO (XI (XI (XO
    XH)))))))) :: ((((Npos (XO (XI (XO (XO (XO (XI XH))))))), (Npos (XO (XI
    (XO (XO (XO (XI XH)))))))), (Npos (XO (XI (XO (XO (XO (XI
    XH)))))))) :: ((((Npos (XO (XO (XI (XI (XO (XI XH))))))), (Npos (XO (XO
    (XI (XI (XO (XI XH)))))))), (Npos (XO (XO (XI (XI (XO (XI
    XH)))))))) :: ((((Npos (XO (XI (XI (XO (XI (XI XH))))))), (Npos (XO (XI
    (XI (XO (XI (XI XH)))))))), (Npos (XO (XI (XI (XO (XI (XI
    XH)))))))) :: ((((Npos (XO (XO (XO (XO (XO (XO (XO XH)))))))), (Npos (XO
    (XO (XO (XO (XO (XO (XO XH))))))))), (Npos (XO (XO (XO (XO (XO (XO (XO
    XH))))))))) :: ((((Npos (XO (XI (XO (XI (XO (XO (XO XH)))))))), (Npos (XO
    (XI (XO (XI (XO (XO (XO XH))))))))), (Npos (XO (XI (XO (XI (XO (XO (XO
    XH))))))))) :: ((((Npos (XO (XO (XI (XO (XI (XO (XO XH)))))))), (Npos (XO
    (XO (XI (XO (XI (XO (XO XH))))))))), (Npos (XO (XO (XI (XO (XI (XO (XO
    XH))))))))) :: ((((Npos (XO (XI (XI (XI (XI (XO (XO XH)))))))), (Npos (XO
    (XI (XI (XI (XI (XO (XO XH))))))))), (Npos (XO (XI (XI (XI (XI (XO (XO
    XH))))))))) :: ((((Npos (XO (XO (XO (XI (XO (XI (XO XH)))))))), (Npos (XO
    (XO (XO (XI (XO (XI (XO XH))))))))), (Npos (XO (XO (XO (XI (XO (XI (XO
    XH))))))))) :: ((((Npos (XO (XI (XO (XO (XI (XI (XO XH)))))))), (Npos (XO
    (XI (XO (XO (XI (XI (XO XH))))))))), (Npos (XO (XI (XO (XO (XI (XI (XO
    XH))))))))) :: ((((Npos (XO (XO (XI (XI (XI (XI (XO XH)))))))), (Npos (XO
    (XO (XI (XI (XI (XI (XO XH))))))))), (Npos (XO (XO (XI (XI (XI (XI (XO
    XH))))))))) :: ((((Npos (XO (XI (XI (XO (XO (XO (XI XH)))))))), (Npos (XO
    (XI (XI (XO (XO (XO (XI XH))))))))), (Npos (XO (XI (XI (XO (XO (XO (XI
    XH))))))))) :: ((((Npos (XO (XO (XO (XO (XI (XO (XI XH)))))))), (Npos (XO
    (XO (XO (XO (XI (XO (XI XH))))))))), (Npos (XO (XO (XO (XO (XI (XO (XI
    XH))))))))) :: ((((Npos (XO (XI (XO (XI (XI (XO (XI XH)))))))), (Npos (XO
    (XI (XO (XI (XI (XO (XI XH))))))))), (Npos (XO (XI (XO (XI (XI (XO (XI
    XH))))))))) :: ((((Npos (XO (XO (XI (XO (XO (XI (XI XH)))))))), (Npos (XO
    (XO (XI (XO (XO (XI (XI XH))))))))), (Npos (XO (XO (XI (XO (XO (XI (XI
    XH))))))))) :: ((((Npos (XO (XI (XI (XI (XO (XI (XI XH)))))))), (Npos (XO
    (XI (XI (XI (XO (XI (XI XH))))))))), (Npos (XO (XI (XI (XI (XO (XI (XI
    XH))))))))) :: [])))))))))))))))))))))))))))))))))))))))))))))))))))))))))))))))))))))))))))))))))))))))))))))))))))))))))))))))))))))))))))))))))))))))))))))))))))))))))))))))))))))))))))))))))))))))))))))))))))))))))))))))))))))))))))))))))))))))))))))))))))))))))))))))

(** val xterm_to_ansi_arms : (n * n) list **)

let xterm_to_ansi_arms =
  (N0, N0) :: (((Npos XH), (Npos XH)) :: (((Npos (XO XH)), (Npos (XO
    XH))) :: (((Npos (XI XH)), (Npos (XI XH))) :: (((Npos (XO (XO XH))),
    (Npos (XO (XO XH)))) :: (((Npos (XI (XO XH))), (Npos (XI (XO
    XH)))) :: (((Npos (XO (XI XH))), (Npos (XO (XI XH)))) :: (((Npos (XI (XI
    XH))), (Npos (XI (XI XH)))) :: (((Npos (XO (XO (XO XH)))), (Npos (XO (XO
    (XO XH))))) :: (((Npos (XI (XO (XO XH)))), (Npos (XI (XO (XO
    XH))))) :: (((Npos (XO (XI (XO XH)))), (Npos (XO (XI (XO
    XH))))) :: (((Npos (XI (XI (XO XH)))), (Npos (XI (XI (XO
    XH))))) :: (((Npos (XO (XO (XI XH)))), (Npos (XO (XO (XI
    XH))))) :: (((Npos (XI (XO (XI XH)))), (Npos (XI (XO (XI
    XH))))) :: (((Npos (XO (XI (XI XH)))), (Npos (XO (XI (XI
    XH))))) :: (((Npos (XI (XI (XI XH)))), (Npos (XI (XI (XI
    XH))))) :: [])))))))))))))))

(** val into_ansi_arms : (n * n) list **)

let into_ansi_arms =
  (N0, N0) :: (((Npos XH), (Npos XH)) :: (((Npos (XO XH)), (Npos (XO
    XH))) :: (((Npos (XI XH)), (Npos (XI XH))) :: (((Npos (XO (XO XH))),
    (Npos (XO (XO XH)))) :: (((Npos (XI (XO XH))), (Npos (XI (XO
    XH)))) :: (((Npos (XO (XI XH))), (Npos (XO (XI XH)))) :: (((Npos (XI (XI
    XH))), (Npos (XI (XI XH)))) :: (((Npos (XO (XO (XO XH)))), (Npos (XO (XO
    (XO XH))))) :: (((Npos (XI (XO (XO XH)))), (Npos (XI (XO (XO
    XH))))) :: (((Npos (XO (XI (XO XH)))), (Npos (XO (XI (XO
    XH))))) :: (((Npos (XI (XI (XO XH)))), (Npos (XI (XI (XO
    XH))))) :: (((Npos (XO (XO (XI XH)))), (Npos (XO (XO (XI
    XH))))) :: (((Npos (XI (XO (XI XH)))), (Npos (XI (XO (XI
    XH))))) :: (((Npos (XO (XI (XI XH)))), (Npos (XO (XI (XI
    XH))))) :: (((Npos (XI (XI (XI XH)))), (Npos (XI (XI (XI
    XH))))) :: [])))))))))))))))

(** val from_ansi_tbl : n list **)

let from_ansi_tbl =
  N0 :: ((Npos XH) :: ((Npos (XO XH)) :: ((Npos (XI XH)) :: ((Npos (XO (XO
    XH))) :: ((Npos (XI (XO XH))) :: ((Npos (XO (XI XH))) :: ((Npos (XI (XI
    XH))) :: ((Npos (XO (XO (XO XH)))) :: ((Npos (XI (XO (XO XH)))) :: ((Npos
    (XO (XI (XO XH)))) :: ((Npos (XI (XI (XO XH)))) :: ((Npos (XO (XO (XI
    XH)))) :: ((Npos (XI (XO (XI XH)))) :: ((Npos (XO (XI (XI
    XH)))) :: ((Npos (XI (XI (XI XH)))) :: [])))))))))))))))

type rgb = (n * n) * n

type color =
| Ansi of n
| Ansi256 of n
| Rgb of rgb

(** val redmean_distance : rgb -> rgb -> z **)

let redmean_distance x y =
  let (p, b1) = x in
  let (r1, g1) = p in
  let (p0, b2) = y in
  let (r2, g2) = p0 in
  let s = Z.add (Z.of_N r1) (Z.of_N r2) in
  let dr = Z.sub (Z.of_N r1) (Z.of_N r2) in
  let dg = Z.sub (Z.of_N g1) (Z.of_N g2) in
  let db = Z.sub (Z.of_N b1) (Z.of_N b2) in
  Z.add
    (Z.add
      (Z.mul
        (Z.add (Zpos (XO (XO (XO (XO (XO (XO (XO (XO (XO (XO XH))))))))))) s)
        (Z.mul dr dr))
      (Z.mul (Zpos (XO (XO (XO (XO (XO (XO (XO (XO (XO (XO XH)))))))))))
        (Z.mul dg dg)))
    (Z.mul
      (Z.sub (Zpos (XO (XI (XI (XI (XI (XI (XI (XI (XI (XO XH))))))))))) s)
      (Z.mul db db))

(** val list_min : z list -> z option **)

let list_min = function
| [] -> None
| h :: t -> Some (fold_left Z.min t h)

(** val first_index : z -> z list -> n -> n option **)

let rec first_index m l i =
  match l with
  | [] -> None
  | h :: t -> if Z.eqb h m then Some i else first_index m t (N.succ i)

(** val argmin_lowest : ('a1 -> z) -> 'a1 list -> n option **)

let argmin_lowest d cands =
  let ds = map d cands in
  (match list_min ds with
   | Some m -> first_index m ds N0
   | None -> None)

(** val cube_level : n -> n **)

let cube_level k =
  if N.eqb k N0
  then N0
  else N.add (Npos (XI (XI (XI (XO (XI XH))))))
         (N.mul (Npos (XO (XO (XO (XI (XO XH)))))) k)

(** val xterm_fixed : n -> rgb **)

let xterm_fixed i =
  if N.ltb i (Npos (XO (XO (XO (XI (XO (XI (XI XH))))))))
  then let k = N.sub i (Npos (XO (XO (XO (XO XH))))) in
       (((cube_level (N.div k (Npos (XO (XO (XI (XO (XO XH)))))))),
       (cube_level
         (N.modulo (N.div k (Npos (XO (XI XH)))) (Npos (XO (XI XH)))))),
       (cube_level (N.modulo k (Npos (XO (XI XH))))))
  else let v =
         N.add (Npos (XO (XO (XO XH))))
           (N.mul (Npos (XO (XI (XO XH))))
             (N.sub i (Npos (XO (XO (XO (XI (XO (XI (XI XH))))))))))
       in
       ((v, v), v)

(** val n_range : n -> nat -> n list **)

let rec n_range a = function
| O -> []
| S k -> a :: (n_range (N.add a (Npos XH)) k)

(** val xterm240 : rgb list **)

let xterm240 =
  map xterm_fixed
    (n_range (Npos (XO (XO (XO (XO XH))))) (S (S (S (S (S (S (S (S (S (S (S
      (S (S (S (S (S (S (S (S (S (S (S (S (S (S (S (S (S (S (S (S (S (S (S (S
      (S (S (S (S (S (S (S (S (S (S (S (S (S (S (S (S (S (S (S (S (S (S (S (S
      (S (S (S (S (S (S (S (S (S (S (S (S (S (S (S (S (S (S (S (S (S (S (S (S
      (S (S (S (S (S (S (S (S (S (S (S (S (S (S (S (S (S (S (S (S (S (S (S (S
      (S (S (S (S (S (S (S (S (S (S (S (S (S (S (S (S (S (S (S (S (S (S (S (S
      (S (S (S (S (S (S (S (S (S (S (S (S (S (S (S (S (S (S (S (S (S (S (S (S
      (S (S (S (S (S (S (S (S (S (S (S (S (S (S (S (S (S (S (S (S (S (S (S (S
      (S (S (S (S (S (S (S (S (S (S (S (S (S (S (S (S (S (S (S (S (S (S (S (S
      (S (S (S (S (S (S (S (S (S (S (S (S (S (S (S (S (S (S (S (S (S (S (S (S
      (S (S (S (S (S (S (S (S (S (S (S (S (S
      O)))))))))))))))))))))))))))))))))))))))))))))))))))))))))))))))))))))))))))))))))))))))))))))))))))))))))))))))))))))))))))))))))))))))))))))))))))))))))))))))))))))))))))))))))))))))))))))))))))))))))))))))))))))))))))))))))))))))))))))))))

(** val spec_rgb_to_ansi : rgb list -> rgb -> n option **)

let spec_rgb_to_ansi p c =
  argmin_lowest (redmean_distance c) p

(** val spec_rgb_to_xterm : rgb -> n option **)

let spec_rgb_to_xterm c =
  match argmin_lowest (redmean_distance c) xterm240 with
  | Some k -> Some (N.add (Npos (XO (XO (XO (XO XH))))) k)
  | None -> None

(** val spec_index_rgb : rgb list -> n -> rgb option **)

let spec_index_rgb p i =
  if N.ltb i (Npos (XO (XO (XO (XO XH)))))
  then nth_error p (N.to_nat i)
  else if N.ltb i (Npos (XO (XO (XO (XO (XO (XO (XO (XO XH)))))))))
       then Some (xterm_fixed i)
       else None

(** val spec_to_rgb : rgb list -> color -> rgb option **)

let spec_to_rgb p = function
| Ansi a ->
  if N.ltb a (Npos (XO (XO (XO (XO XH)))))
  then nth_error p (N.to_nat a)
  else None
| Ansi256 i -> spec_index_rgb p i
| Rgb c1 -> Some c1

(** val spec_to_xterm : color -> n option **)

let spec_to_xterm = function
| Ansi a -> if N.ltb a (Npos (XO (XO (XO (XO XH))))) then Some a else None
| Ansi256 i -> Some i
| Rgb c1 -> spec_rgb_to_xterm c1

(** val spec_to_ansi : rgb list -> color -> n option **)

let spec_to_ansi p = function
| Ansi a -> Some a
| Ansi256 i ->
  if N.ltb i (Npos (XO (XO (XO (XO XH)))))
  then Some i
  else if N.ltb i (Npos (XO (XO (XO (XO (XO (XO (XO (XO XH)))))))))
       then spec_rgb_to_ansi p (xterm_fixed i)
       else None
| Rgb c1 -> spec_rgb_to_ansi p c1

(** val lossy_s_rgb_to_ansi : rgb list -> rgb -> n option **)

let lossy_s_rgb_to_ansi =
  spec_rgb_to_ansi

(** val lossy_s_rgb_to_xterm : rgb -> n option **)

let lossy_s_rgb_to_xterm =
  spec_rgb_to_xterm

(** val lossy_s_obs_index :
    rgb list -> n -> (rgb option * n option) * ((rgb option * n option) * n
    option) **)

let lossy_s_obs_index p i =
  (((spec_index_rgb p i), (spec_to_ansi p (Ansi256 i))),
    (((spec_to_rgb p (Ansi256 i)), (spec_to_xterm (Ansi256 i))),
    (spec_to_ansi p (Ansi256 i))))

(** val lossy_s_obs_ansi :
    rgb list -> n -> ((rgb option * rgb option) * rgb option) * ((rgb
    option * n option) * n option) **)

let lossy_s_obs_ansi p a =
  let e = spec_to_rgb p (Ansi a) in
  (((e, e), e), (((spec_to_rgb p (Ansi a)), (spec_to_xterm (Ansi a))),
  (spec_to_ansi p (Ansi a))))

(** val lossy_s_obs_rgb :
    rgb list -> rgb -> (rgb option * n option) * n option **)

let lossy_s_obs_rgb p c =
  (((spec_to_rgb p (Rgb c)), (spec_to_xterm (Rgb c))),
    (spec_to_ansi p (Rgb c)))

(** val i32 : z -> z option **)

let i32 z0 =
  if (&&)
       (Z.leb (Zneg (XO (XO (XO (XO (XO (XO (XO (XO (XO (XO (XO (XO (XO (XO
         (XO (XO (XO (XO (XO (XO (XO (XO (XO (XO (XO (XO (XO (XO (XO (XO (XO
         XH)))))))))))))))))))))))))))))))) z0)
       (Z.ltb z0 (Zpos (XO (XO (XO (XO (XO (XO (XO (XO (XO (XO (XO (XO (XO
         (XO (XO (XO (XO (XO (XO (XO (XO (XO (XO (XO (XO (XO (XO (XO (XO (XO
         (XO XH)))))))))))))))))))))))))))))))))
  then Some z0
  else None

(** val i32_as_u32 : z -> n **)

let i32_as_u32 z0 =
  if Z.leb Z0 z0
  then Z.to_N z0
  else Z.to_N
         (Z.add z0 (Zpos (XO (XO (XO (XO (XO (XO (XO (XO (XO (XO (XO (XO (XO
           (XO (XO (XO (XO (XO (XO (XO (XO (XO (XO (XO (XO (XO (XO (XO (XO
           (XO (XO (XO XH))))))))))))))))))))))))))))))))))

(** val distance : rgb -> rgb -> n option **)

let distance c1 c2 =
  let (p, b1) = c1 in
  let (r1, g1) = p in
  let (p0, b2) = c2 in
  let (r2, g2) = p0 in
  let c1_r = Z.of_N r1 in
  let c1_g = Z.of_N g1 in
  let c1_b = Z.of_N b1 in
  let c2_r = Z.of_N r2 in
  let c2_g = Z.of_N g2 in
  let c2_b = Z.of_N b2 in
  (match i32 (Z.add c1_r c2_r) with
   | Some r_sum ->
     (match i32 (Z.sub c1_r c2_r) with
      | Some r_delta ->
        (match i32 (Z.sub c1_g c2_g) with
         | Some g_delta ->
           (match i32 (Z.sub c1_b c2_b) with
            | Some b_delta ->
              (match i32
                       (Z.add (Zpos (XO (XO (XO (XO (XO (XO (XO (XO (XO (XO
                         XH))))))))))) r_sum) with
               | Some r0 ->
                 (match i32 (Z.mul r0 r_delta) with
                  | Some r1' ->
                    (match i32 (Z.mul r1' r_delta) with
                     | Some r ->
                       (match i32 (Z.mul (Zpos (XO (XO XH))) g_delta) with
                        | Some g0 ->
                          (match i32 (Z.mul g0 g_delta) with
                           | Some g1' ->
                             (match i32
                                      (Z.mul g1' (Zpos (XO (XO (XO (XO (XO
                                        (XO (XO (XO XH)))))))))) with
                              | Some g ->
                                (match i32
                                         (Z.sub (Zpos (XO (XI (XI (XI (XI (XI
                                           (XI (XI (XI (XO XH)))))))))))
                                           r_sum) with
                                 | Some b0 ->
                                   (match i32 (Z.mul b0 b_delta) with
                                    | Some b1' ->
                                      (match i32 (Z.mul b1' b_delta) with
                                       | Some b ->
                                         (match i32 (Z.add r g) with
                                          | Some rg ->
                                            (match i32 (Z.add rg b) with
                                             | Some rgb' ->
                                               Some (i32_as_u32 rgb')
                                             | None -> None)
                                          | None -> None)
                                       | None -> None)
                                    | None -> None)
                                 | None -> None)
                              | None -> None)
                           | None -> None)
                        | None -> None)
                     | None -> None)
                  | None -> None)
               | None -> None)
            | None -> None)
         | None -> None)
      | None -> None)
   | None -> None)

(** val scan : rgb -> rgb list -> n -> n -> n -> (n * n) option **)

let rec scan c l index best_index best_distance =
  match l with
  | [] -> Some (best_index, best_distance)
  | e :: t ->
    (match distance c e with
     | Some d ->
       if N.ltb d best_distance
       then scan c t (N.add index (Npos XH)) index d
       else scan c t (N.add index (Npos XH)) best_index best_distance
     | None -> None)

(** val find_best : rgb -> rgb list -> n -> n option **)

let find_best c table start =
  match aget table start with
  | Some e ->
    (match distance c e with
     | Some d0 ->
       (match scan c (skipn (N.to_nat (N.add start (Npos XH))) table)
                (N.add start (Npos XH)) start d0 with
        | Some p -> let (bi, _) = p in Some bi
        | None -> None)
     | None -> None)
  | None -> None

(** val assoc : n -> (n * n) list -> n option **)

let rec assoc k = function
| [] -> None
| p :: t -> let (k', v) = p in if N.eqb k k' then Some v else assoc k t

(** val into_ansi : n -> n option **)

let into_ansi i =
  assoc i into_ansi_arms

(** val from_ansi : n -> n option **)

let from_ansi a =
  aget from_ansi_tbl a

(** val get_ansi256_ref : rgb list -> n -> rgb option **)

let get_ansi256_ref =
  aget

(** val palette_get : rgb list -> n -> rgb option **)

let palette_get p a =
  match from_ansi a with
  | Some i -> get_ansi256_ref p i
  | None -> None

(** val palette_index : rgb list -> n -> rgb option **)

let palette_index p a =
  match from_ansi a with
  | Some i -> get_ansi256_ref p i
  | None -> None

(** val rgb_from_ansi : rgb list -> n -> rgb option **)

let rgb_from_ansi =
  palette_get

(** val rgb_from_index : rgb list -> n -> rgb option option **)

let rgb_from_index p i =
  if N.ltb i (N.of_nat (length p))
  then (match aget p i with
        | Some e -> Some (Some e)
        | None -> None)
  else Some None

(** val find_match : rgb list -> rgb -> n option **)

let find_match p c =
  match find_best c p N0 with
  | Some bi ->
    into_ansi (N.modulo bi (Npos (XO (XO (XO (XO (XO (XO (XO (XO XH))))))))))
  | None -> None

(** val find_xterm_match : rgb -> n option **)

let find_xterm_match c =
  find_best c xterm_colors (Npos (XO (XO (XO (XO XH)))))

(** val rgb_to_xterm : rgb -> n option **)

let rgb_to_xterm c =
  match find_xterm_match c with
  | Some index ->
    Some (N.modulo index (Npos (XO (XO (XO (XO (XO (XO (XO (XO XH))))))))))
  | None -> None

(** val rgb_to_ansi : rgb -> rgb list -> n option **)

let rgb_to_ansi c p =
  find_match p c

(** val ansi_to_rgb : n -> rgb list -> rgb option **)

let ansi_to_rgb a p =
  rgb_from_ansi p a

(** val xterm_to_rgb : n -> rgb list -> rgb option **)

let xterm_to_rgb i p =
  match rgb_from_index p i with
  | Some o -> (match o with
               | Some c -> Some c
               | None -> aget xterm_colors i)
  | None -> None

(** val xterm_to_ansi : n -> rgb list -> n option **)

let xterm_to_ansi i p =
  match assoc i xterm_to_ansi_arms with
  | Some a -> Some a
  | None ->
    (match aget xterm_colors i with
     | Some c -> find_match p c
     | None -> None)

(** val color_to_rgb : color -> rgb list -> rgb option **)

let color_to_rgb c p =
  match c with
  | Ansi a -> ansi_to_rgb a p
  | Ansi256 i -> xterm_to_rgb i p
  | Rgb c1 -> Some c1

(** val color_to_xterm : color -> n option **)

let color_to_xterm = function
| Ansi a -> from_ansi a
| Ansi256 i -> Some i
| Rgb c1 -> rgb_to_xterm c1

(** val color_to_ansi : color -> rgb list -> n option **)

let color_to_ansi c p =
  match c with
  | Ansi a -> Some a
  | Ansi256 i -> xterm_to_ansi i p
  | Rgb c1 -> rgb_to_ansi c1 p

(** val lossy_m_rgb_to_ansi : rgb list -> rgb -> n option **)

let lossy_m_rgb_to_ansi p c =
  rgb_to_ansi c p

(** val lossy_m_rgb_to_xterm : rgb -> n option **)

let lossy_m_rgb_to_xterm =
  rgb_to_xterm

(** val lossy_m_obs_index :
    rgb list -> n -> (rgb option * n option) * ((rgb option * n option) * n
    option) **)

let lossy_m_obs_index p i =
  (((xterm_to_rgb i p), (xterm_to_ansi i p)), (((color_to_rgb (Ansi256 i) p),
    (color_to_xterm (Ansi256 i))), (color_to_ansi (Ansi256 i) p)))

(** val lossy_m_obs_ansi :
    rgb list -> n -> ((rgb option * rgb option) * rgb option) * ((rgb
    option * n option) * n option) **)

let lossy_m_obs_ansi p a =
  ((((ansi_to_rgb a p), (palette_get p a)), (palette_index p a)),
    (((color_to_rgb (Ansi a) p), (color_to_xterm (Ansi a))),
    (color_to_ansi (Ansi a) p)))

(** val lossy_m_obs_rgb :
    rgb list -> rgb -> (rgb option * n option) * n option **)

let lossy_m_obs_rgb p c =
  (((color_to_rgb (Rgb c) p), (color_to_xterm (Rgb c))),
    (color_to_ansi (Rgb c) p))
