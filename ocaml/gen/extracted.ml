
(** val negb : bool -> bool **)

let negb = function
| true -> false
| false -> true

type nat =
| O
| S of nat

(** val fst : ('a1 * 'a2) -> 'a1 **)

let fst = function
| (x, _) -> x

(** val snd : ('a1 * 'a2) -> 'a2 **)

let snd = function
| (_, y) -> y

(** val length : 'a1 list -> nat **)

let rec length = function
| [] -> O
| _ :: l' -> S (length l')

(** val app : 'a1 list -> 'a1 list -> 'a1 list **)

let rec app l m =
  match l with
  | [] -> m
  | a :: l1 -> a :: (app l1 m)

type comparison =
| Eq
| Lt
| Gt

module Coq__1 = struct
 (** val add : nat -> nat -> nat **)
 let rec add n0 m =
   match n0 with
   | O -> m
   | S p -> S (add p m)
end
include Coq__1

(** val sub : nat -> nat -> nat **)

let rec sub n0 m =
  match n0 with
  | O -> n0
  | S k -> (match m with
            | O -> n0
            | S l -> sub k l)

(** val eqb : nat -> nat -> bool **)

let rec eqb n0 m =
  match n0 with
  | O -> (match m with
          | O -> true
          | S _ -> false)
  | S n' -> (match m with
             | O -> false
             | S m' -> eqb n' m')

type positive =
| XI of positive
| XO of positive
| XH

type n =
| N0
| Npos of positive

module Pos =
 struct
  type mask =
  | IsNul
  | IsPos of positive
  | IsNeg
 end

module Coq_Pos =
 struct
  (** val succ : positive -> positive **)

  let rec succ = function
  | XI p -> XO (succ p)
  | XO p -> XI p
  | XH -> XO XH

  (** val add : positive -> positive -> positive **)

  let rec add x y =
    match x with
    | XI p ->
      (match y with
       | XI q -> XO (add_carry p q)
       | XO q -> XI (add p q)
       | XH -> XO (succ p))
    | XO p ->
      (match y with
       | XI q -> XI (add p q)
       | XO q -> XO (add p q)
       | XH -> XI p)
    | XH -> (match y with
             | XI q -> XO (succ q)
             | XO q -> XI q
             | XH -> XO XH)

  (** val add_carry : positive -> positive -> positive **)

  and add_carry x y =
    match x with
    | XI p ->
      (match y with
       | XI q -> XI (add_carry p q)
       | XO q -> XO (add_carry p q)
       | XH -> XI (succ p))
    | XO p ->
      (match y with
       | XI q -> XO (add_carry p q)
       | XO q -> XI (add p q)
       | XH -> XO (succ p))
    | XH ->
      (match y with
       | XI q -> XI (succ q)
       | XO q -> XO (succ q)
       | XH -> XI XH)

  (** val pred_double : positive -> positive **)

  let rec pred_double = function
  | XI p -> XI (XO p)
  | XO p -> XI (pred_double p)
  | XH -> XH

  type mask = Pos.mask =
  | IsNul
  | IsPos of positive
  | IsNeg

  (** val succ_double_mask : mask -> mask **)

  let succ_double_mask = function
  | IsNul -> IsPos XH
  | IsPos p -> IsPos (XI p)
  | IsNeg -> IsNeg

  (** val double_mask : mask -> mask **)

  let double_mask = function
  | IsPos p -> IsPos (XO p)
  | x0 -> x0

  (** val double_pred_mask : positive -> mask **)

  let double_pred_mask = function
  | XI p -> IsPos (XO (XO p))
  | XO p -> IsPos (XO (pred_double p))
  | XH -> IsNul

  (** val sub_mask : positive -> positive -> mask **)

  let rec sub_mask x y =
    match x with
    | XI p ->
      (match y with
       | XI q -> double_mask (sub_mask p q)
       | XO q -> succ_double_mask (sub_mask p q)
       | XH -> IsPos (XO p))
    | XO p ->
      (match y with
       | XI q -> succ_double_mask (sub_mask_carry p q)
       | XO q -> double_mask (sub_mask p q)
       | XH -> IsPos (pred_double p))
    | XH -> (match y with
             | XH -> IsNul
             | _ -> IsNeg)

  (** val sub_mask_carry : positive -> positive -> mask **)

  and sub_mask_carry x y =
    match x with
    | XI p ->
      (match y with
       | XI q -> succ_double_mask (sub_mask_carry p q)
       | XO q -> double_mask (sub_mask p q)
       | XH -> IsPos (pred_double p))
    | XO p ->
      (match y with
       | XI q -> double_mask (sub_mask_carry p q)
       | XO q -> succ_double_mask (sub_mask_carry p q)
       | XH -> double_pred_mask p)
    | XH -> IsNeg

  (** val mul : positive -> positive -> positive **)

  let rec mul x y =
    match x with
    | XI p -> add y (XO (mul p y))
    | XO p -> XO (mul p y)
    | XH -> y

  (** val iter : ('a1 -> 'a1) -> 'a1 -> positive -> 'a1 **)

  let rec iter f x = function
  | XI n' -> f (iter f (iter f x n') n')
  | XO n' -> iter f (iter f x n') n'
  | XH -> f x

  (** val pow : positive -> positive -> positive **)

  let pow x =
    iter (mul x) XH

  (** val compare_cont : comparison -> positive -> positive -> comparison **)

  let rec compare_cont r x y =
    match x with
    | XI p ->
      (match y with
       | XI q -> compare_cont r p q
       | XO q -> compare_cont Gt p q
       | XH -> Gt)
    | XO p ->
      (match y with
       | XI q -> compare_cont Lt p q
       | XO q -> compare_cont r p q
       | XH -> Gt)
    | XH -> (match y with
             | XH -> r
             | _ -> Lt)

  (** val compare : positive -> positive -> comparison **)

  let compare =
    compare_cont Eq

  (** val eqb : positive -> positive -> bool **)

  let rec eqb p q =
    match p with
    | XI p0 -> (match q with
                | XI q0 -> eqb p0 q0
                | _ -> false)
    | XO p0 -> (match q with
                | XO q0 -> eqb p0 q0
                | _ -> false)
    | XH -> (match q with
             | XH -> true
             | _ -> false)

  (** val coq_Nsucc_double : n -> n **)

  let coq_Nsucc_double = function
  | N0 -> Npos XH
  | Npos p -> Npos (XI p)

  (** val coq_Ndouble : n -> n **)

  let coq_Ndouble = function
  | N0 -> N0
  | Npos p -> Npos (XO p)

  (** val coq_lor : positive -> positive -> positive **)

  let rec coq_lor p q =
    match p with
    | XI p0 ->
      (match q with
       | XI q0 -> XI (coq_lor p0 q0)
       | XO q0 -> XI (coq_lor p0 q0)
       | XH -> p)
    | XO p0 ->
      (match q with
       | XI q0 -> XI (coq_lor p0 q0)
       | XO q0 -> XO (coq_lor p0 q0)
       | XH -> XI p0)
    | XH -> (match q with
             | XO q0 -> XI q0
             | _ -> q)

  (** val coq_land : positive -> positive -> n **)

  let rec coq_land p q =
    match p with
    | XI p0 ->
      (match q with
       | XI q0 -> coq_Nsucc_double (coq_land p0 q0)
       | XO q0 -> coq_Ndouble (coq_land p0 q0)
       | XH -> Npos XH)
    | XO p0 ->
      (match q with
       | XI q0 -> coq_Ndouble (coq_land p0 q0)
       | XO q0 -> coq_Ndouble (coq_land p0 q0)
       | XH -> N0)
    | XH -> (match q with
             | XO _ -> N0
             | _ -> Npos XH)

  (** val ldiff : positive -> positive -> n **)

  let rec ldiff p q =
    match p with
    | XI p0 ->
      (match q with
       | XI q0 -> coq_Ndouble (ldiff p0 q0)
       | XO q0 -> coq_Nsucc_double (ldiff p0 q0)
       | XH -> Npos (XO p0))
    | XO p0 ->
      (match q with
       | XI q0 -> coq_Ndouble (ldiff p0 q0)
       | XO q0 -> coq_Ndouble (ldiff p0 q0)
       | XH -> Npos p)
    | XH -> (match q with
             | XO _ -> Npos XH
             | _ -> N0)

  (** val shiftl : positive -> n -> positive **)

  let shiftl p = function
  | N0 -> p
  | Npos n1 -> iter (fun x -> XO x) p n1

  (** val iter_op : ('a1 -> 'a1 -> 'a1) -> positive -> 'a1 -> 'a1 **)

  let rec iter_op op p a =
    match p with
    | XI p0 -> op a (iter_op op p0 (op a a))
    | XO p0 -> iter_op op p0 (op a a)
    | XH -> a

  (** val to_nat : positive -> nat **)

  let to_nat x =
    iter_op Coq__1.add x (S O)

  (** val of_succ_nat : nat -> positive **)

  let rec of_succ_nat = function
  | O -> XH
  | S x -> succ (of_succ_nat x)
 end

module N =
 struct
  (** val succ_double : n -> n **)

  let succ_double = function
  | N0 -> Npos XH
  | Npos p -> Npos (XI p)

  (** val double : n -> n **)

  let double = function
  | N0 -> N0
  | Npos p -> Npos (XO p)

  (** val add : n -> n -> n **)

  let add n0 m =
    match n0 with
    | N0 -> m
    | Npos p -> (match m with
                 | N0 -> n0
                 | Npos q -> Npos (Coq_Pos.add p q))

  (** val sub : n -> n -> n **)

  let sub n0 m =
    match n0 with
    | N0 -> N0
    | Npos n' ->
      (match m with
       | N0 -> n0
       | Npos m' ->
         (match Coq_Pos.sub_mask n' m' with
          | Coq_Pos.IsPos p -> Npos p
          | _ -> N0))

  (** val mul : n -> n -> n **)

  let mul n0 m =
    match n0 with
    | N0 -> N0
    | Npos p -> (match m with
                 | N0 -> N0
                 | Npos q -> Npos (Coq_Pos.mul p q))

  (** val compare : n -> n -> comparison **)

  let compare n0 m =
    match n0 with
    | N0 -> (match m with
             | N0 -> Eq
             | Npos _ -> Lt)
    | Npos n' -> (match m with
                  | N0 -> Gt
                  | Npos m' -> Coq_Pos.compare n' m')

  (** val eqb : n -> n -> bool **)

  let eqb n0 m =
    match n0 with
    | N0 -> (match m with
             | N0 -> true
             | Npos _ -> false)
    | Npos p -> (match m with
                 | N0 -> false
                 | Npos q -> Coq_Pos.eqb p q)

  (** val leb : n -> n -> bool **)

  let leb x y =
    match compare x y with
    | Gt -> false
    | _ -> true

  (** val ltb : n -> n -> bool **)

  let ltb x y =
    match compare x y with
    | Lt -> true
    | _ -> false

  (** val min : n -> n -> n **)

  let min n0 n' =
    match compare n0 n' with
    | Gt -> n'
    | _ -> n0

  (** val div2 : n -> n **)

  let div2 = function
  | N0 -> N0
  | Npos p0 -> (match p0 with
                | XI p -> Npos p
                | XO p -> Npos p
                | XH -> N0)

  (** val pow : n -> n -> n **)

  let pow n0 = function
  | N0 -> Npos XH
  | Npos p0 -> (match n0 with
                | N0 -> N0
                | Npos q -> Npos (Coq_Pos.pow q p0))

  (** val pos_div_eucl : positive -> n -> n * n **)

  let rec pos_div_eucl a b =
    match a with
    | XI a' ->
      let (q, r) = pos_div_eucl a' b in
      let r' = succ_double r in
      if leb b r' then ((succ_double q), (sub r' b)) else ((double q), r')
    | XO a' ->
      let (q, r) = pos_div_eucl a' b in
      let r' = double r in
      if leb b r' then ((succ_double q), (sub r' b)) else ((double q), r')
    | XH ->
      (match b with
       | N0 -> (N0, (Npos XH))
       | Npos p -> (match p with
                    | XH -> ((Npos XH), N0)
                    | _ -> (N0, (Npos XH))))

  (** val div_eucl : n -> n -> n * n **)

  let div_eucl a b =
    match a with
    | N0 -> (N0, N0)
    | Npos na -> (match b with
                  | N0 -> (N0, a)
                  | Npos _ -> pos_div_eucl na b)

  (** val modulo : n -> n -> n **)

  let modulo a b =
    snd (div_eucl a b)

  (** val coq_lor : n -> n -> n **)

  let coq_lor n0 m =
    match n0 with
    | N0 -> m
    | Npos p -> (match m with
                 | N0 -> n0
                 | Npos q -> Npos (Coq_Pos.coq_lor p q))

  (** val coq_land : n -> n -> n **)

  let coq_land n0 m =
    match n0 with
    | N0 -> N0
    | Npos p -> (match m with
                 | N0 -> N0
                 | Npos q -> Coq_Pos.coq_land p q)

  (** val ldiff : n -> n -> n **)

  let ldiff n0 m =
    match n0 with
    | N0 -> N0
    | Npos p -> (match m with
                 | N0 -> n0
                 | Npos q -> Coq_Pos.ldiff p q)

  (** val shiftl : n -> n -> n **)

  let shiftl a n0 =
    match a with
    | N0 -> N0
    | Npos a0 -> Npos (Coq_Pos.shiftl a0 n0)

  (** val shiftr : n -> n -> n **)

  let shiftr a = function
  | N0 -> a
  | Npos p -> Coq_Pos.iter div2 a p

  (** val to_nat : n -> nat **)

  let to_nat = function
  | N0 -> O
  | Npos p -> Coq_Pos.to_nat p

  (** val of_nat : nat -> n **)

  let of_nat = function
  | O -> N0
  | S n' -> Npos (Coq_Pos.of_succ_nat n')
 end

(** val nth_error : 'a1 list -> nat -> 'a1 option **)

let rec nth_error l = function
| O -> (match l with
        | [] -> None
        | x :: _ -> Some x)
| S n1 -> (match l with
           | [] -> None
           | _ :: l0 -> nth_error l0 n1)

(** val concat : 'a1 list list -> 'a1 list **)

let rec concat = function
| [] -> []
| x :: l0 -> app x (concat l0)

(** val firstn : nat -> 'a1 list -> 'a1 list **)

let rec firstn n0 l =
  match n0 with
  | O -> []
  | S n1 -> (match l with
             | [] -> []
             | a :: l0 -> a :: (firstn n1 l0))

(** val skipn : nat -> 'a1 list -> 'a1 list **)

let rec skipn n0 l =
  match n0 with
  | O -> l
  | S n1 -> (match l with
             | [] -> []
             | _ :: l0 -> skipn n1 l0)

(** val repeat : 'a1 -> nat -> 'a1 list **)

let rec repeat x = function
| O -> []
| S k -> x :: (repeat x k)

type state =
| Anywhere
| CsiEntry
| CsiIgnore
| CsiIntermediate
| CsiParam
| DcsEntry
| DcsIgnore
| DcsIntermediate
| DcsParam
| DcsPassthrough
| Escape
| EscapeIntermediate
| Ground
| OscString
| SosPmApcString
| Utf8

type action =
| ANop
| AClear
| ACollect
| ACsiDispatch
| AEscDispatch
| AExecute
| AHook
| AIgnore
| AOscEnd
| AOscPut
| AOscStart
| AParam
| APrint
| APut
| AUnhook
| ABeginUtf8

(** val state_disc : state -> n **)

let state_disc = function
| Anywhere -> N0
| CsiEntry -> Npos XH
| CsiIgnore -> Npos (XO XH)
| CsiIntermediate -> Npos (XI XH)
| CsiParam -> Npos (XO (XO XH))
| DcsEntry -> Npos (XI (XO XH))
| DcsIgnore -> Npos (XO (XI XH))
| DcsIntermediate -> Npos (XI (XI XH))
| DcsParam -> Npos (XO (XO (XO XH)))
| DcsPassthrough -> Npos (XI (XO (XO XH)))
| Escape -> Npos (XO (XI (XO XH)))
| EscapeIntermediate -> Npos (XI (XI (XO XH)))
| Ground -> Npos (XO (XO (XI XH)))
| OscString -> Npos (XI (XO (XI XH)))
| SosPmApcString -> Npos (XO (XI (XI XH)))
| Utf8 -> Npos (XI (XI (XI XH)))

(** val action_disc : action -> n **)

let action_disc = function
| ANop -> N0
| AClear -> Npos XH
| ACollect -> Npos (XO XH)
| ACsiDispatch -> Npos (XI XH)
| AEscDispatch -> Npos (XO (XO XH))
| AExecute -> Npos (XI (XO XH))
| AHook -> Npos (XO (XI XH))
| AIgnore -> Npos (XI (XI XH))
| AOscEnd -> Npos (XO (XO (XO XH)))
| AOscPut -> Npos (XI (XO (XO XH)))
| AOscStart -> Npos (XO (XI (XO XH)))
| AParam -> Npos (XI (XI (XO XH)))
| APrint -> Npos (XO (XO (XI XH)))
| APut -> Npos (XI (XO (XI XH)))
| AUnhook -> Npos (XO (XI (XI XH)))
| ABeginUtf8 -> Npos (XI (XI (XI XH)))

(** val state_of_disc : n -> state option **)

let state_of_disc = function
| N0 -> Some Anywhere
| Npos p ->
  (match p with
   | XI p0 ->
     (match p0 with
      | XI p1 ->
        (match p1 with
         | XI p2 -> (match p2 with
                     | XH -> Some Utf8
                     | _ -> None)
         | XO p2 -> (match p2 with
                     | XH -> Some EscapeIntermediate
                     | _ -> None)
         | XH -> Some DcsIntermediate)
      | XO p1 ->
        (match p1 with
         | XI p2 -> (match p2 with
                     | XH -> Some OscString
                     | _ -> None)
         | XO p2 -> (match p2 with
                     | XH -> Some DcsPassthrough
                     | _ -> None)
         | XH -> Some DcsEntry)
      | XH -> Some CsiIntermediate)
   | XO p0 ->
     (match p0 with
      | XI p1 ->
        (match p1 with
         | XI p2 -> (match p2 with
                     | XH -> Some SosPmApcString
                     | _ -> None)
         | XO p2 -> (match p2 with
                     | XH -> Some Escape
                     | _ -> None)
         | XH -> Some DcsIgnore)
      | XO p1 ->
        (match p1 with
         | XI p2 -> (match p2 with
                     | XH -> Some Ground
                     | _ -> None)
         | XO p2 -> (match p2 with
                     | XH -> Some DcsParam
                     | _ -> None)
         | XH -> Some CsiParam)
      | XH -> Some CsiIgnore)
   | XH -> Some CsiEntry)

(** val action_of_disc : n -> action option **)

let action_of_disc = function
| N0 -> Some ANop
| Npos p ->
  (match p with
   | XI p0 ->
     (match p0 with
      | XI p1 ->
        (match p1 with
         | XI p2 -> (match p2 with
                     | XH -> Some ABeginUtf8
                     | _ -> None)
         | XO p2 -> (match p2 with
                     | XH -> Some AParam
                     | _ -> None)
         | XH -> Some AIgnore)
      | XO p1 ->
        (match p1 with
         | XI p2 -> (match p2 with
                     | XH -> Some APut
                     | _ -> None)
         | XO p2 -> (match p2 with
                     | XH -> Some AOscPut
                     | _ -> None)
         | XH -> Some AExecute)
      | XH -> Some ACsiDispatch)
   | XO p0 ->
     (match p0 with
      | XI p1 ->
        (match p1 with
         | XI p2 -> (match p2 with
                     | XH -> Some AUnhook
                     | _ -> None)
         | XO p2 -> (match p2 with
                     | XH -> Some AOscStart
                     | _ -> None)
         | XH -> Some AHook)
      | XO p1 ->
        (match p1 with
         | XI p2 -> (match p2 with
                     | XH -> Some APrint
                     | _ -> None)
         | XO p2 -> (match p2 with
                     | XH -> Some AOscEnd
                     | _ -> None)
         | XH -> Some AEscDispatch)
      | XH -> Some ACollect)
   | XH -> Some AClear)

(** val all_states : state list **)

let all_states =
  Anywhere :: (CsiEntry :: (CsiIgnore :: (CsiIntermediate :: (CsiParam :: (DcsEntry :: (DcsIgnore :: (DcsIntermediate :: (DcsParam :: (DcsPassthrough :: (Escape :: (EscapeIntermediate :: (Ground :: (OscString :: (SosPmApcString :: (Utf8 :: [])))))))))))))))

(** val default_state : state **)

let default_state =
  Ground

(** val state_changes : n list list **)

let state_changes =
  (N0 :: (N0 :: (N0 :: (N0 :: (N0 :: (N0 :: (N0 :: (N0 :: (N0 :: (N0 :: (N0 :: (N0 :: (N0 :: (N0 :: (N0 :: (N0 :: (N0 :: (N0 :: (N0 :: (N0 :: (N0 :: (N0 :: (N0 :: (N0 :: ((Npos
    (XO (XO (XI (XI (XI (XO XH))))))) :: (N0 :: ((Npos (XO (XO (XI (XI (XI
    (XO XH))))))) :: ((Npos (XO (XI (XO
    XH)))) :: (N0 :: (N0 :: (N0 :: (N0 :: (N0 :: (N0 :: (N0 :: (N0 :: (N0 :: (N0 :: (N0 :: (N0 :: (N0 :: (N0 :: (N0 :: (N0 :: (N0 :: (N0 :: (N0 :: (N0 :: (N0 :: (N0 :: (N0 :: (N0 :: (N0 :: (N0 :: (N0 :: (N0 :: (N0 :: (N0 :: (N0 :: (N0 :: (N0 :: (N0 :: (N0 :: (N0 :: (N0 :: (N0 :: (N0 :: (N0 :: (N0 :: (N0 :: (N0 :: (N0 :: (N0 :: (N0 :: (N0 :: (N0 :: (N0 :: (N0 :: (N0 :: (N0 :: (N0 :: (N0 :: (N0 :: (N0 :: (N0 :: (N0 :: (N0 :: (N0 :: (N0 :: (N0 :: (N0 :: (N0 :: (N0 :: (N0 :: (N0 :: (N0 :: (N0 :: (N0 :: (N0 :: (N0 :: (N0 :: (N0 :: (N0 :: (N0 :: (N0 :: (N0 :: (N0 :: (N0 :: (N0 :: (N0 :: (N0 :: (N0 :: (N0 :: (N0 :: (N0 :: (N0 :: (N0 :: (N0 :: (N0 :: (N0 :: (N0 :: (N0 :: (N0 :: (N0 :: (N0 :: (N0 :: (N0 :: (N0 :: (N0 :: (N0 :: (N0 :: (N0 :: (N0 :: (N0 :: (N0 :: (N0 :: (N0 :: (N0 :: (N0 :: (N0 :: (N0 :: (N0 :: (N0 :: (N0 :: (N0 :: (N0 :: (N0 :: (N0 :: (N0 :: (N0 :: (N0 :: (N0 :: (N0 :: (N0 :: (N0 :: (N0 :: (N0 :: (N0 :: (N0 :: (N0 :: (N0 :: (N0 :: (N0 :: (N0 :: (N0 :: (N0 :: (N0 :: (N0 :: (N0 :: (N0 :: (N0 :: (N0 :: (N0 :: (N0 :: (N0 :: (N0 :: (N0 :: (N0 :: (N0 :: (N0 :: (N0 :: (N0 :: (N0 :: (N0 :: (N0 :: (N0 :: (N0 :: (N0 :: (N0 :: (N0 :: (N0 :: (N0 :: (N0 :: (N0 :: (N0 :: (N0 :: (N0 :: (N0 :: (N0 :: (N0 :: (N0 :: (N0 :: (N0 :: (N0 :: (N0 :: (N0 :: (N0 :: (N0 :: (N0 :: (N0 :: (N0 :: (N0 :: (N0 :: (N0 :: (N0 :: (N0 :: (N0 :: (N0 :: (N0 :: (N0 :: (N0 :: (N0 :: (N0 :: (N0 :: (N0 :: (N0 :: (N0 :: (N0 :: (N0 :: (N0 :: (N0 :: (N0 :: (N0 :: (N0 :: (N0 :: (N0 :: (N0 :: (N0 :: (N0 :: (N0 :: (N0 :: (N0 :: (N0 :: (N0 :: (N0 :: (N0 :: (N0 :: (N0 :: (N0 :: (N0 :: (N0 :: (N0 :: (N0 :: (N0 :: (N0 :: (N0 :: [])))))))))))))))))))))))))))))))))))))))))))))))))))))))))))))))))))))))))))))))))))))))))))))))))))))))))))))))))))))))))))))))))))))))))))))))))))))))))))))))))))))))))))))))))))))))))))))))))))))))))))))))))))))))))))))))))))))))))))))))))))))))))))))))) :: (((Npos
    (XO (XO (XO (XO (XI (XO XH))))))) :: ((Npos (XO (XO (XO (XO (XI (XO
    XH))))))) :: ((Npos (XO (XO (XO (XO (XI (XO XH))))))) :: ((Npos (XO (XO
    (XO (XO (XI (XO XH))))))) :: ((Npos (XO (XO (XO (XO (XI (XO
    XH))))))) :: ((Npos (XO (XO (XO (XO (XI (XO XH))))))) :: ((Npos (XO (XO
    (XO (XO (XI (XO XH))))))) :: ((Npos (XO (XO (XO (XO (XI (XO
    XH))))))) :: ((Npos (XO (XO (XO (XO (XI (XO XH))))))) :: ((Npos (XO (XO
    (XO (XO (XI (XO XH))))))) :: ((Npos (XO (XO (XO (XO (XI (XO
    XH))))))) :: ((Npos (XO (XO (XO (XO (XI (XO XH))))))) :: ((Npos (XO (XO
    (XO (XO (XI (XO XH))))))) :: ((Npos (XO (XO (XO (XO (XI (XO
    XH))))))) :: ((Npos (XO (XO (XO (XO (XI (XO XH))))))) :: ((Npos (XO (XO
    (XO (XO (XI (XO XH))))))) :: ((Npos (XO (XO (XO (XO (XI (XO
    XH))))))) :: ((Npos (XO (XO (XO (XO (XI (XO XH))))))) :: ((Npos (XO (XO
    (XO (XO (XI (XO XH))))))) :: ((Npos (XO (XO (XO (XO (XI (XO
    XH))))))) :: ((Npos (XO (XO (XO (XO (XI (XO XH))))))) :: ((Npos (XO (XO
    (XO (XO (XI (XO XH))))))) :: ((Npos (XO (XO (XO (XO (XI (XO
    XH))))))) :: ((Npos (XO (XO (XO (XO (XI (XO XH))))))) :: (N0 :: ((Npos
    (XO (XO (XO (XO (XI (XO XH))))))) :: (N0 :: (N0 :: ((Npos (XO (XO (XO (XO
    (XI (XO XH))))))) :: ((Npos (XO (XO (XO (XO (XI (XO XH))))))) :: ((Npos
    (XO (XO (XO (XO (XI (XO XH))))))) :: ((Npos (XO (XO (XO (XO (XI (XO
    XH))))))) :: ((Npos (XI (XI (XO (XO (XO XH)))))) :: ((Npos (XI (XI (XO
    (XO (XO XH)))))) :: ((Npos (XI (XI (XO (XO (XO XH)))))) :: ((Npos (XI (XI
    (XO (XO (XO XH)))))) :: ((Npos (XI (XI (XO (XO (XO XH)))))) :: ((Npos (XI
    (XI (XO (XO (XO XH)))))) :: ((Npos (XI (XI (XO (XO (XO XH)))))) :: ((Npos
    (XI (XI (XO (XO (XO XH)))))) :: ((Npos (XI (XI (XO (XO (XO
    XH)))))) :: ((Npos (XI (XI (XO (XO (XO XH)))))) :: ((Npos (XI (XI (XO (XO
    (XO XH)))))) :: ((Npos (XI (XI (XO (XO (XO XH)))))) :: ((Npos (XI (XI (XO
    (XO (XO XH)))))) :: ((Npos (XI (XI (XO (XO (XO XH)))))) :: ((Npos (XI (XI
    (XO (XO (XO XH)))))) :: ((Npos (XI (XI (XO (XO (XO XH)))))) :: ((Npos (XO
    (XO (XI (XO (XI (XI (XO XH)))))))) :: ((Npos (XO (XO (XI (XO (XI (XI (XO
    XH)))))))) :: ((Npos (XO (XO (XI (XO (XI (XI (XO XH)))))))) :: ((Npos (XO
    (XO (XI (XO (XI (XI (XO XH)))))))) :: ((Npos (XO (XO (XI (XO (XI (XI (XO
    XH)))))))) :: ((Npos (XO (XO (XI (XO (XI (XI (XO XH)))))))) :: ((Npos (XO
    (XO (XI (XO (XI (XI (XO XH)))))))) :: ((Npos (XO (XO (XI (XO (XI (XI (XO
    XH)))))))) :: ((Npos (XO (XO (XI (XO (XI (XI (XO XH)))))))) :: ((Npos (XO
    (XO (XI (XO (XI (XI (XO XH)))))))) :: ((Npos (XO (XO (XI (XO (XI (XI (XO
    XH)))))))) :: ((Npos (XO (XO (XI (XO (XI (XI (XO XH)))))))) :: ((Npos (XO
    (XO (XI (XO (XO XH)))))) :: ((Npos (XO (XO (XI (XO (XO XH)))))) :: ((Npos
    (XO (XO (XI (XO (XO XH)))))) :: ((Npos (XO (XO (XI (XO (XO
    XH)))))) :: ((Npos (XO (XO (XI (XI (XI XH)))))) :: ((Npos (XO (XO (XI (XI
    (XI XH)))))) :: ((Npos (XO (XO (XI (XI (XI XH)))))) :: ((Npos (XO (XO (XI
    (XI (XI XH)))))) :: ((Npos (XO (XO (XI (XI (XI XH)))))) :: ((Npos (XO (XO
    (XI (XI (XI XH)))))) :: ((Npos (XO (XO (XI (XI (XI XH)))))) :: ((Npos (XO
    (XO (XI (XI (XI XH)))))) :: ((Npos (XO (XO (XI (XI (XI XH)))))) :: ((Npos
    (XO (XO (XI (XI (XI XH)))))) :: ((Npos (XO (XO (XI (XI (XI
    XH)))))) :: ((Npos (XO (XO (XI (XI (XI XH)))))) :: ((Npos (XO (XO (XI (XI
    (XI XH)))))) :: ((Npos (XO (XO (XI (XI (XI XH)))))) :: ((Npos (XO (XO (XI
    (XI (XI XH)))))) :: ((Npos (XO (XO (XI (XI (XI XH)))))) :: ((Npos (XO (XO
    (XI (XI (XI XH)))))) :: ((Npos (XO (XO (XI (XI (XI XH)))))) :: ((Npos (XO
    (XO (XI (XI (XI XH)))))) :: ((Npos (XO (XO (XI (XI (XI XH)))))) :: ((Npos
    (XO (XO (XI (XI (XI XH)))))) :: ((Npos (XO (XO (XI (XI (XI
    XH)))))) :: ((Npos (XO (XO (XI (XI (XI XH)))))) :: ((Npos (XO (XO (XI (XI
    (XI XH)))))) :: ((Npos (XO (XO (XI (XI (XI XH)))))) :: ((Npos (XO (XO (XI
    (XI (XI XH)))))) :: ((Npos (XO (XO (XI (XI (XI XH)))))) :: ((Npos (XO (XO
    (XI (XI (XI XH)))))) :: ((Npos (XO (XO (XI (XI (XI XH)))))) :: ((Npos (XO
    (XO (XI (XI (XI XH)))))) :: ((Npos (XO (XO (XI (XI (XI XH)))))) :: ((Npos
    (XO (XO (XI (XI (XI XH)))))) :: ((Npos (XO (XO (XI (XI (XI
    XH)))))) :: ((Npos (XO (XO (XI (XI (XI XH)))))) :: ((Npos (XO (XO (XI (XI
    (XI XH)))))) :: ((Npos (XO (XO (XI (XI (XI XH)))))) :: ((Npos (XO (XO (XI
    (XI (XI XH)))))) :: ((Npos (XO (XO (XI (XI (XI XH)))))) :: ((Npos (XO (XO
    (XI (XI (XI XH)))))) :: ((Npos (XO (XO (XI (XI (XI XH)))))) :: ((Npos (XO
    (XO (XI (XI (XI XH)))))) :: ((Npos (XO (XO (XI (XI (XI XH)))))) :: ((Npos
    (XO (XO (XI (XI (XI XH)))))) :: ((Npos (XO (XO (XI (XI (XI
    XH)))))) :: ((Npos (XO (XO (XI (XI (XI XH)))))) :: ((Npos (XO (XO (XI (XI
    (XI XH)))))) :: ((Npos (XO (XO (XI (XI (XI XH)))))) :: ((Npos (XO (XO (XI
    (XI (XI XH)))))) :: ((Npos (XO (XO (XI (XI (XI XH)))))) :: ((Npos (XO (XO
    (XI (XI (XI XH)))))) :: ((Npos (XO (XO (XI (XI (XI XH)))))) :: ((Npos (XO
    (XO (XI (XI (XI XH)))))) :: ((Npos (XO (XO (XI (XI (XI XH)))))) :: ((Npos
    (XO (XO (XI (XI (XI XH)))))) :: ((Npos (XO (XO (XI (XI (XI
    XH)))))) :: ((Npos (XO (XO (XI (XI (XI XH)))))) :: ((Npos (XO (XO (XI (XI
    (XI XH)))))) :: ((Npos (XO (XO (XI (XI (XI XH)))))) :: ((Npos (XO (XO (XI
    (XI (XI XH)))))) :: ((Npos (XO (XO (XI (XI (XI XH)))))) :: ((Npos (XO (XO
    (XI (XI (XI XH)))))) :: ((Npos (XO (XO (XI (XI (XI XH)))))) :: ((Npos (XO
    (XO (XI (XI (XI XH)))))) :: ((Npos (XO (XO (XO (XO (XI (XI
    XH))))))) :: (N0 :: (N0 :: (N0 :: (N0 :: (N0 :: (N0 :: (N0 :: (N0 :: (N0 :: (N0 :: (N0 :: (N0 :: (N0 :: (N0 :: (N0 :: (N0 :: (N0 :: (N0 :: (N0 :: (N0 :: (N0 :: (N0 :: (N0 :: (N0 :: (N0 :: (N0 :: (N0 :: (N0 :: (N0 :: (N0 :: (N0 :: (N0 :: (N0 :: (N0 :: (N0 :: (N0 :: (N0 :: (N0 :: (N0 :: (N0 :: (N0 :: (N0 :: (N0 :: (N0 :: (N0 :: (N0 :: (N0 :: (N0 :: (N0 :: (N0 :: (N0 :: (N0 :: (N0 :: (N0 :: (N0 :: (N0 :: (N0 :: (N0 :: (N0 :: (N0 :: (N0 :: (N0 :: (N0 :: (N0 :: (N0 :: (N0 :: (N0 :: (N0 :: (N0 :: (N0 :: (N0 :: (N0 :: (N0 :: (N0 :: (N0 :: (N0 :: (N0 :: (N0 :: (N0 :: (N0 :: (N0 :: (N0 :: (N0 :: (N0 :: (N0 :: (N0 :: (N0 :: (N0 :: (N0 :: (N0 :: (N0 :: (N0 :: (N0 :: (N0 :: (N0 :: (N0 :: (N0 :: (N0 :: (N0 :: (N0 :: (N0 :: (N0 :: (N0 :: (N0 :: (N0 :: (N0 :: (N0 :: (N0 :: (N0 :: (N0 :: (N0 :: (N0 :: (N0 :: (N0 :: (N0 :: (N0 :: (N0 :: (N0 :: (N0 :: (N0 :: (N0 :: (N0 :: (N0 :: (N0 :: (N0 :: (N0 :: (N0 :: (N0 :: [])))))))))))))))))))))))))))))))))))))))))))))))))))))))))))))))))))))))))))))))))))))))))))))))))))))))))))))))))))))))))))))))))))))))))))))))))))))))))))))))))))))))))))))))))))))))))))))))))))))))))))))))))))))))))))))))))))))))))))))))))))))))))))))))) :: (((Npos
    (XO (XO (XO (XO (XI (XO XH))))))) :: ((Npos (XO (XO (XO (XO (XI (XO
    XH))))))) :: ((Npos (XO (XO (XO (XO (XI (XO XH))))))) :: ((Npos (XO (XO
    (XO (XO (XI (XO XH))))))) :: ((Npos (XO (XO (XO (XO (XI (XO
    XH))))))) :: ((Npos (XO (XO (XO (XO (XI (XO XH))))))) :: ((Npos (XO (XO
    (XO (XO (XI (XO XH))))))) :: ((Npos (XO (XO (XO (XO (XI (XO
    XH))))))) :: ((Npos (XO (XO (XO (XO (XI (XO XH))))))) :: ((Npos (XO (XO
    (XO (XO (XI (XO XH))))))) :: ((Npos (XO (XO (XO (XO (XI (XO
    XH))))))) :: ((Npos (XO (XO (XO (XO (XI (XO XH))))))) :: ((Npos (XO (XO
    (XO (XO (XI (XO XH))))))) :: ((Npos (XO (XO (XO (XO (XI (XO
    XH))))))) :: ((Npos (XO (XO (XO (XO (XI (XO XH))))))) :: ((Npos (XO (XO
    (XO (XO (XI (XO XH))))))) :: ((Npos (XO (XO (XO (XO (XI (XO
    XH))))))) :: ((Npos (XO (XO (XO (XO (XI (XO XH))))))) :: ((Npos (XO (XO
    (XO (XO (XI (XO XH))))))) :: ((Npos (XO (XO (XO (XO (XI (XO
    XH))))))) :: ((Npos (XO (XO (XO (XO (XI (XO XH))))))) :: ((Npos (XO (XO
    (XO (XO (XI (XO XH))))))) :: ((Npos (XO (XO (XO (XO (XI (XO
    XH))))))) :: ((Npos (XO (XO (XO (XO (XI (XO XH))))))) :: (N0 :: ((Npos
    (XO (XO (XO (XO (XI (XO XH))))))) :: (N0 :: (N0 :: ((Npos (XO (XO (XO (XO
    (XI (XO XH))))))) :: ((Npos (XO (XO (XO (XO (XI (XO XH))))))) :: ((Npos
    (XO (XO (XO (XO (XI (XO XH))))))) :: ((Npos (XO (XO (XO (XO (XI (XO
    XH))))))) :: ((Npos (XO (XO (XO (XO (XI (XI XH))))))) :: ((Npos (XO (XO
    (XO (XO (XI (XI XH))))))) :: ((Npos (XO (XO (XO (XO (XI (XI
    XH))))))) :: ((Npos (XO (XO (XO (XO (XI (XI XH))))))) :: ((Npos (XO (XO
    (XO (XO (XI (XI XH))))))) :: ((Npos (XO (XO (XO (XO (XI (XI
    XH))))))) :: ((Npos (XO (XO (XO (XO (XI (XI XH))))))) :: ((Npos (XO (XO
    (XO (XO (XI (XI XH))))))) :: ((Npos (XO (XO (XO (XO (XI (XI
    XH))))))) :: ((Npos (XO (XO (XO (XO (XI (XI XH))))))) :: ((Npos (XO (XO
    (XO (XO (XI (XI XH))))))) :: ((Npos (XO (XO (XO (XO (XI (XI
    XH))))))) :: ((Npos (XO (XO (XO (XO (XI (XI XH))))))) :: ((Npos (XO (XO
    (XO (XO (XI (XI XH))))))) :: ((Npos (XO (XO (XO (XO (XI (XI
    XH))))))) :: ((Npos (XO (XO (XO (XO (XI (XI XH))))))) :: ((Npos (XO (XO
    (XO (XO (XI (XI XH))))))) :: ((Npos (XO (XO (XO (XO (XI (XI
    XH))))))) :: ((Npos (XO (XO (XO (XO (XI (XI XH))))))) :: ((Npos (XO (XO
    (XO (XO (XI (XI XH))))))) :: ((Npos (XO (XO (XO (XO (XI (XI
    XH))))))) :: ((Npos (XO (XO (XO (XO (XI (XI XH))))))) :: ((Npos (XO (XO
    (XO (XO (XI (XI XH))))))) :: ((Npos (XO (XO (XO (XO (XI (XI
    XH))))))) :: ((Npos (XO (XO (XO (XO (XI (XI XH))))))) :: ((Npos (XO (XO
    (XO (XO (XI (XI XH))))))) :: ((Npos (XO (XO (XO (XO (XI (XI
    XH))))))) :: ((Npos (XO (XO (XO (XO (XI (XI XH))))))) :: ((Npos (XO (XO
    (XO (XO (XI (XI XH))))))) :: ((Npos (XO (XO (XO (XO (XI (XI
    XH))))))) :: ((Npos (XO (XO (XO (XO (XI (XI XH))))))) :: ((Npos (XO (XO
    (XO (XO (XI (XI XH))))))) :: ((Npos (XO (XO (XI XH)))) :: ((Npos (XO (XO
    (XI XH)))) :: ((Npos (XO (XO (XI XH)))) :: ((Npos (XO (XO (XI
    XH)))) :: ((Npos (XO (XO (XI XH)))) :: ((Npos (XO (XO (XI
    XH)))) :: ((Npos (XO (XO (XI XH)))) :: ((Npos (XO (XO (XI
    XH)))) :: ((Npos (XO (XO (XI XH)))) :: ((Npos (XO (XO (XI
    XH)))) :: ((Npos (XO (XO (XI XH)))) :: ((Npos (XO (XO (XI
    XH)))) :: ((Npos (XO (XO (XI XH)))) :: ((Npos (XO (XO (XI
    XH)))) :: ((Npos (XO (XO (XI XH)))) :: ((Npos (XO (XO (XI
    XH)))) :: ((Npos (XO (XO (XI XH)))) :: ((Npos (XO (XO (XI
    XH)))) :: ((Npos (XO (XO (XI XH)))) :: ((Npos (XO (XO (XI
    XH)))) :: ((Npos (XO (XO (XI XH)))) :: ((Npos (XO (XO (XI
    XH)))) :: ((Npos (XO (XO (XI XH)))) :: ((Npos (XO (XO (XI
    XH)))) :: ((Npos (XO (XO (XI XH)))) :: ((Npos (XO (XO (XI
    XH)))) :: ((Npos (XO (XO (XI XH)))) :: ((Npos (XO (XO (XI
    XH)))) :: ((Npos (XO (XO (XI XH)))) :: ((Npos (XO (XO (XI
    XH)))) :: ((Npos (XO (XO (XI XH)))) :: ((Npos (XO (XO (XI
    XH)))) :: ((Npos (XO (XO (XI XH)))) :: ((Npos (XO (XO (XI
    XH)))) :: ((Npos (XO (XO (XI XH)))) :: ((Npos (XO (XO (XI
    XH)))) :: ((Npos (XO (XO (XI XH)))) :: ((Npos (XO (XO (XI
    XH)))) :: ((Npos (XO (XO (XI XH)))) :: ((Npos (XO (XO (XI
    XH)))) :: ((Npos (XO (XO (XI XH)))) :: ((Npos (XO (XO (XI
    XH)))) :: ((Npos (XO (XO (XI XH)))) :: ((Npos (XO (XO (XI
    XH)))) :: ((Npos (XO (XO (XI XH)))) :: ((Npos (XO (XO (XI
    XH)))) :: ((Npos (XO (XO (XI XH)))) :: ((Npos (XO (XO (XI
    XH)))) :: ((Npos (XO (XO (XI XH)))) :: ((Npos (XO (XO (XI
    XH)))) :: ((Npos (XO (XO (XI XH)))) :: ((Npos (XO (XO (XI
    XH)))) :: ((Npos (XO (XO (XI XH)))) :: ((Npos (XO (XO (XI
    XH)))) :: ((Npos (XO (XO (XI XH)))) :: ((Npos (XO (XO (XI
    XH)))) :: ((Npos (XO (XO (XI XH)))) :: ((Npos (XO (XO (XI
    XH)))) :: ((Npos (XO (XO (XI XH)))) :: ((Npos (XO (XO (XI
    XH)))) :: ((Npos (XO (XO (XI XH)))) :: ((Npos (XO (XO (XI
    XH)))) :: ((Npos (XO (XO (XI XH)))) :: ((Npos (XO (XO (XO (XO (XI (XI
    XH))))))) :: (N0 :: (N0 :: (N0 :: (N0 :: (N0 :: (N0 :: (N0 :: (N0 :: (N0 :: (N0 :: (N0 :: (N0 :: (N0 :: (N0 :: (N0 :: (N0 :: (N0 :: (N0 :: (N0 :: (N0 :: (N0 :: (N0 :: (N0 :: (N0 :: (N0 :: (N0 :: (N0 :: (N0 :: (N0 :: (N0 :: (N0 :: (N0 :: (N0 :: (N0 :: (N0 :: (N0 :: (N0 :: (N0 :: (N0 :: (N0 :: (N0 :: (N0 :: (N0 :: (N0 :: (N0 :: (N0 :: (N0 :: (N0 :: (N0 :: (N0 :: (N0 :: (N0 :: (N0 :: (N0 :: (N0 :: (N0 :: (N0 :: (N0 :: (N0 :: (N0 :: (N0 :: (N0 :: (N0 :: (N0 :: (N0 :: (N0 :: (N0 :: (N0 :: (N0 :: (N0 :: (N0 :: (N0 :: (N0 :: (N0 :: (N0 :: (N0 :: (N0 :: (N0 :: (N0 :: (N0 :: (N0 :: (N0 :: (N0 :: (N0 :: (N0 :: (N0 :: (N0 :: (N0 :: (N0 :: (N0 :: (N0 :: (N0 :: (N0 :: (N0 :: (N0 :: (N0 :: (N0 :: (N0 :: (N0 :: (N0 :: (N0 :: (N0 :: (N0 :: (N0 :: (N0 :: (N0 :: (N0 :: (N0 :: (N0 :: (N0 :: (N0 :: (N0 :: (N0 :: (N0 :: (N0 :: (N0 :: (N0 :: (N0 :: (N0 :: (N0 :: (N0 :: (N0 :: (N0 :: (N0 :: (N0 :: (N0 :: (N0 :: (N0 :: [])))))))))))))))))))))))))))))))))))))))))))))))))))))))))))))))))))))))))))))))))))))))))))))))))))))))))))))))))))))))))))))))))))))))))))))))))))))))))))))))))))))))))))))))))))))))))))))))))))))))))))))))))))))))))))))))))))))))))))))))))))))))))))))))) :: (((Npos
    (XO (XO (XO (XO (XI (XO XH))))))) :: ((Npos (XO (XO (XO (XO (XI (XO
    XH))))))) :: ((Npos (XO (XO (XO (XO (XI (XO XH))))))) :: ((Npos (XO (XO
    (XO (XO (XI (XO XH))))))) :: ((Npos (XO (XO (XO (XO (XI (XO
    XH))))))) :: ((Npos (XO (XO (XO (XO (XI (XO XH))))))) :: ((Npos (XO (XO
    (XO (XO (XI (XO XH))))))) :: ((Npos (XO (XO (XO (XO (XI (XO
    XH))))))) :: ((Npos (XO (XO (XO (XO (XI (XO XH))))))) :: ((Npos (XO (XO
    (XO (XO (XI (XO XH))))))) :: ((Npos (XO (XO (XO (XO (XI (XO
    XH))))))) :: ((Npos (XO (XO (XO (XO (XI (XO XH))))))) :: ((Npos (XO (XO
    (XO (XO (XI (XO XH))))))) :: ((Npos (XO (XO (XO (XO (XI (XO
    XH))))))) :: ((Npos (XO (XO (XO (XO (XI (XO XH))))))) :: ((Npos (XO (XO
    (XO (XO (XI (XO XH))))))) :: ((Npos (XO (XO (XO (XO (XI (XO
    XH))))))) :: ((Npos (XO (XO (XO (XO (XI (XO XH))))))) :: ((Npos (XO (XO
    (XO (XO (XI (XO XH))))))) :: ((Npos (XO (XO (XO (XO (XI (XO
    XH))))))) :: ((Npos (XO (XO (XO (XO (XI (XO XH))))))) :: ((Npos (XO (XO
    (XO (XO (XI (XO XH))))))) :: ((Npos (XO (XO (XO (XO (XI (XO
    XH))))))) :: ((Npos (XO (XO (XO (XO (XI (XO XH))))))) :: (N0 :: ((Npos
    (XO (XO (XO (XO (XI (XO XH))))))) :: (N0 :: (N0 :: ((Npos (XO (XO (XO (XO
    (XI (XO XH))))))) :: ((Npos (XO (XO (XO (XO (XI (XO XH))))))) :: ((Npos
    (XO (XO (XO (XO (XI (XO XH))))))) :: ((Npos (XO (XO (XO (XO (XI (XO
    XH))))))) :: ((Npos (XO (XO (XO (XO (XO XH)))))) :: ((Npos (XO (XO (XO
    (XO (XO XH)))))) :: ((Npos (XO (XO (XO (XO (XO XH)))))) :: ((Npos (XO (XO
    (XO (XO (XO XH)))))) :: ((Npos (XO (XO (XO (XO (XO XH)))))) :: ((Npos (XO
    (XO (XO (XO (XO XH)))))) :: ((Npos (XO (XO (XO (XO (XO XH)))))) :: ((Npos
    (XO (XO (XO (XO (XO XH)))))) :: ((Npos (XO (XO (XO (XO (XO
    XH)))))) :: ((Npos (XO (XO (XO (XO (XO XH)))))) :: ((Npos (XO (XO (XO (XO
    (XO XH)))))) :: ((Npos (XO (XO (XO (XO (XO XH)))))) :: ((Npos (XO (XO (XO
    (XO (XO XH)))))) :: ((Npos (XO (XO (XO (XO (XO XH)))))) :: ((Npos (XO (XO
    (XO (XO (XO XH)))))) :: ((Npos (XO (XO (XO (XO (XO XH)))))) :: ((Npos (XO
    XH)) :: ((Npos (XO XH)) :: ((Npos (XO XH)) :: ((Npos (XO XH)) :: ((Npos
    (XO XH)) :: ((Npos (XO XH)) :: ((Npos (XO XH)) :: ((Npos (XO
    XH)) :: ((Npos (XO XH)) :: ((Npos (XO XH)) :: ((Npos (XO XH)) :: ((Npos
    (XO XH)) :: ((Npos (XO XH)) :: ((Npos (XO XH)) :: ((Npos (XO
    XH)) :: ((Npos (XO XH)) :: ((Npos (XO (XO (XI (XI (XI XH)))))) :: ((Npos
    (XO (XO (XI (XI (XI XH)))))) :: ((Npos (XO (XO (XI (XI (XI
    XH)))))) :: ((Npos (XO (XO (XI (XI (XI XH)))))) :: ((Npos (XO (XO (XI (XI
    (XI XH)))))) :: ((Npos (XO (XO (XI (XI (XI XH)))))) :: ((Npos (XO (XO (XI
    (XI (XI XH)))))) :: ((Npos (XO (XO (XI (XI (XI XH)))))) :: ((Npos (XO (XO
    (XI (XI (XI XH)))))) :: ((Npos (XO (XO (XI (XI (XI XH)))))) :: ((Npos (XO
    (XO (XI (XI (XI XH)))))) :: ((Npos (XO (XO (XI (XI (XI XH)))))) :: ((Npos
    (XO (XO (XI (XI (XI XH)))))) :: ((Npos (XO (XO (XI (XI (XI
    XH)))))) :: ((Npos (XO (XO (XI (XI (XI XH)))))) :: ((Npos (XO (XO (XI (XI
    (XI XH)))))) :: ((Npos (XO (XO (XI (XI (XI XH)))))) :: ((Npos (XO (XO (XI
    (XI (XI XH)))))) :: ((Npos (XO (XO (XI (XI (XI XH)))))) :: ((Npos (XO (XO
    (XI (XI (XI XH)))))) :: ((Npos (XO (XO (XI (XI (XI XH)))))) :: ((Npos (XO
    (XO (XI (XI (XI XH)))))) :: ((Npos (XO (XO (XI (XI (XI XH)))))) :: ((Npos
    (XO (XO (XI (XI (XI XH)))))) :: ((Npos (XO (XO (XI (XI (XI
    XH)))))) :: ((Npos (XO (XO (XI (XI (XI XH)))))) :: ((Npos (XO (XO (XI (XI
    (XI XH)))))) :: ((Npos (XO (XO (XI (XI (XI XH)))))) :: ((Npos (XO (XO (XI
    (XI (XI XH)))))) :: ((Npos (XO (XO (XI (XI (XI XH)))))) :: ((Npos (XO (XO
    (XI (XI (XI XH)))))) :: ((Npos (XO (XO (XI (XI (XI XH)))))) :: ((Npos (XO
    (XO (XI (XI (XI XH)))))) :: ((Npos (XO (XO (XI (XI (XI XH)))))) :: ((Npos
    (XO (XO (XI (XI (XI XH)))))) :: ((Npos (XO (XO (XI (XI (XI
    XH)))))) :: ((Npos (XO (XO (XI (XI (XI XH)))))) :: ((Npos (XO (XO (XI (XI
    (XI XH)))))) :: ((Npos (XO (XO (XI (XI (XI XH)))))) :: ((Npos (XO (XO (XI
    (XI (XI XH)))))) :: ((Npos (XO (XO (XI (XI (XI XH)))))) :: ((Npos (XO (XO
    (XI (XI (XI XH)))))) :: ((Npos (XO (XO (XI (XI (XI XH)))))) :: ((Npos (XO
    (XO (XI (XI (XI XH)))))) :: ((Npos (XO (XO (XI (XI (XI XH)))))) :: ((Npos
    (XO (XO (XI (XI (XI XH)))))) :: ((Npos (XO (XO (XI (XI (XI
    XH)))))) :: ((Npos (XO (XO (XI (XI (XI XH)))))) :: ((Npos (XO (XO (XI (XI
    (XI XH)))))) :: ((Npos (XO (XO (XI (XI (XI XH)))))) :: ((Npos (XO (XO (XI
    (XI (XI XH)))))) :: ((Npos (XO (XO (XI (XI (XI XH)))))) :: ((Npos (XO (XO
    (XI (XI (XI XH)))))) :: ((Npos (XO (XO (XI (XI (XI XH)))))) :: ((Npos (XO
    (XO (XI (XI (XI XH)))))) :: ((Npos (XO (XO (XI (XI (XI XH)))))) :: ((Npos
    (XO (XO (XI (XI (XI XH)))))) :: ((Npos (XO (XO (XI (XI (XI
    XH)))))) :: ((Npos (XO (XO (XI (XI (XI XH)))))) :: ((Npos (XO (XO (XI (XI
    (XI XH)))))) :: ((Npos (XO (XO (XI (XI (XI XH)))))) :: ((Npos (XO (XO (XI
    (XI (XI XH)))))) :: ((Npos (XO (XO (XI (XI (XI XH)))))) :: ((Npos (XO (XO
    (XO (XO (XI (XI
    XH))))))) :: (N0 :: (N0 :: (N0 :: (N0 :: (N0 :: (N0 :: (N0 :: (N0 :: (N0 :: (N0 :: (N0 :: (N0 :: (N0 :: (N0 :: (N0 :: (N0 :: (N0 :: (N0 :: (N0 :: (N0 :: (N0 :: (N0 :: (N0 :: (N0 :: (N0 :: (N0 :: (N0 :: (N0 :: (N0 :: (N0 :: (N0 :: (N0 :: (N0 :: (N0 :: (N0 :: (N0 :: (N0 :: (N0 :: (N0 :: (N0 :: (N0 :: (N0 :: (N0 :: (N0 :: (N0 :: (N0 :: (N0 :: (N0 :: (N0 :: (N0 :: (N0 :: (N0 :: (N0 :: (N0 :: (N0 :: (N0 :: (N0 :: (N0 :: (N0 :: (N0 :: (N0 :: (N0 :: (N0 :: (N0 :: (N0 :: (N0 :: (N0 :: (N0 :: (N0 :: (N0 :: (N0 :: (N0 :: (N0 :: (N0 :: (N0 :: (N0 :: (N0 :: (N0 :: (N0 :: (N0 :: (N0 :: (N0 :: (N0 :: (N0 :: (N0 :: (N0 :: (N0 :: (N0 :: (N0 :: (N0 :: (N0 :: (N0 :: (N0 :: (N0 :: (N0 :: (N0 :: (N0 :: (N0 :: (N0 :: (N0 :: (N0 :: (N0 :: (N0 :: (N0 :: (N0 :: (N0 :: (N0 :: (N0 :: (N0 :: (N0 :: (N0 :: (N0 :: (N0 :: (N0 :: (N0 :: (N0 :: (N0 :: (N0 :: (N0 :: (N0 :: (N0 :: (N0 :: (N0 :: (N0 :: (N0 :: (N0 :: (N0 :: (N0 :: [])))))))))))))))))))))))))))))))))))))))))))))))))))))))))))))))))))))))))))))))))))))))))))))))))))))))))))))))))))))))))))))))))))))))))))))))))))))))))))))))))))))))))))))))))))))))))))))))))))))))))))))))))))))))))))))))))))))))))))))))))))))))))))))))) :: (((Npos
    (XO (XO (XO (XO (XI (XO XH))))))) :: ((Npos (XO (XO (XO (XO (XI (XO
    XH))))))) :: ((Npos (XO (XO (XO (XO (XI (XO XH))))))) :: ((Npos (XO (XO
    (XO (XO (XI (XO XH))))))) :: ((Npos (XO (XO (XO (XO (XI (XO
    XH))))))) :: ((Npos (XO (XO (XO (XO (XI (XO XH))))))) :: ((Npos (XO (XO
    (XO (XO (XI (XO XH))))))) :: ((Npos (XO (XO (XO (XO (XI (XO
    XH))))))) :: ((Npos (XO (XO (XO (XO (XI (XO XH))))))) :: ((Npos (XO (XO
    (XO (XO (XI (XO XH))))))) :: ((Npos (XO (XO (XO (XO (XI (XO
    XH))))))) :: ((Npos (XO (XO (XO (XO (XI (XO XH))))))) :: ((Npos (XO (XO
    (XO (XO (XI (XO XH))))))) :: ((Npos (XO (XO (XO (XO (XI (XO
    XH))))))) :: ((Npos (XO (XO (XO (XO (XI (XO XH))))))) :: ((Npos (XO (XO
    (XO (XO (XI (XO XH))))))) :: ((Npos (XO (XO (XO (XO (XI (XO
    XH))))))) :: ((Npos (XO (XO (XO (XO (XI (XO XH))))))) :: ((Npos (XO (XO
    (XO (XO (XI (XO XH))))))) :: ((Npos (XO (XO (XO (XO (XI (XO
    XH))))))) :: ((Npos (XO (XO (XO (XO (XI (XO XH))))))) :: ((Npos (XO (XO
    (XO (XO (XI (XO XH))))))) :: ((Npos (XO (XO (XO (XO (XI (XO
    XH))))))) :: ((Npos (XO (XO (XO (XO (XI (XO XH))))))) :: (N0 :: ((Npos
    (XO (XO (XO (XO (XI (XO XH))))))) :: (N0 :: (N0 :: ((Npos (XO (XO (XO (XO
    (XI (XO XH))))))) :: ((Npos (XO (XO (XO (XO (XI (XO XH))))))) :: ((Npos
    (XO (XO (XO (XO (XI (XO XH))))))) :: ((Npos (XO (XO (XO (XO (XI (XO
    XH))))))) :: ((Npos (XI (XI (XO (XO (XO XH)))))) :: ((Npos (XI (XI (XO
    (XO (XO XH)))))) :: ((Npos (XI (XI (XO (XO (XO XH)))))) :: ((Npos (XI (XI
    (XO (XO (XO XH)))))) :: ((Npos (XI (XI (XO (XO (XO XH)))))) :: ((Npos (XI
    (XI (XO (XO (XO XH)))))) :: ((Npos (XI (XI (XO (XO (XO XH)))))) :: ((Npos
    (XI (XI (XO (XO (XO XH)))))) :: ((Npos (XI (XI (XO (XO (XO
    XH)))))) :: ((Npos (XI (XI (XO (XO (XO XH)))))) :: ((Npos (XI (XI (XO (XO
    (XO XH)))))) :: ((Npos (XI (XI (XO (XO (XO XH)))))) :: ((Npos (XI (XI (XO
    (XO (XO XH)))))) :: ((Npos (XI (XI (XO (XO (XO XH)))))) :: ((Npos (XI (XI
    (XO (XO (XO XH)))))) :: ((Npos (XI (XI (XO (XO (XO XH)))))) :: ((Npos (XO
    (XO (XO (XO (XI (XI (XO XH)))))))) :: ((Npos (XO (XO (XO (XO (XI (XI (XO
    XH)))))))) :: ((Npos (XO (XO (XO (XO (XI (XI (XO XH)))))))) :: ((Npos (XO
    (XO (XO (XO (XI (XI (XO XH)))))))) :: ((Npos (XO (XO (XO (XO (XI (XI (XO
    XH)))))))) :: ((Npos (XO (XO (XO (XO (XI (XI (XO XH)))))))) :: ((Npos (XO
    (XO (XO (XO (XI (XI (XO XH)))))))) :: ((Npos (XO (XO (XO (XO (XI (XI (XO
    XH)))))))) :: ((Npos (XO (XO (XO (XO (XI (XI (XO XH)))))))) :: ((Npos (XO
    (XO (XO (XO (XI (XI (XO XH)))))))) :: ((Npos (XO (XO (XO (XO (XI (XI (XO
    XH)))))))) :: ((Npos (XO (XO (XO (XO (XI (XI (XO XH)))))))) :: ((Npos (XO
    XH)) :: ((Npos (XO XH)) :: ((Npos (XO XH)) :: ((Npos (XO XH)) :: ((Npos
    (XO (XO (XI (XI (XI XH)))))) :: ((Npos (XO (XO (XI (XI (XI
    XH)))))) :: ((Npos (XO (XO (XI (XI (XI XH)))))) :: ((Npos (XO (XO (XI (XI
    (XI XH)))))) :: ((Npos (XO (XO (XI (XI (XI XH)))))) :: ((Npos (XO (XO (XI
    (XI (XI XH)))))) :: ((Npos (XO (XO (XI (XI (XI XH)))))) :: ((Npos (XO (XO
    (XI (XI (XI XH)))))) :: ((Npos (XO (XO (XI (XI (XI XH)))))) :: ((Npos (XO
    (XO (XI (XI (XI XH)))))) :: ((Npos (XO (XO (XI (XI (XI XH)))))) :: ((Npos
    (XO (XO (XI (XI (XI XH)))))) :: ((Npos (XO (XO (XI (XI (XI
    XH)))))) :: ((Npos (XO (XO (XI (XI (XI XH)))))) :: ((Npos (XO (XO (XI (XI
    (XI XH)))))) :: ((Npos (XO (XO (XI (XI (XI XH)))))) :: ((Npos (XO (XO (XI
    (XI (XI XH)))))) :: ((Npos (XO (XO (XI (XI (XI XH)))))) :: ((Npos (XO (XO
    (XI (XI (XI XH)))))) :: ((Npos (XO (XO (XI (XI (XI XH)))))) :: ((Npos (XO
    (XO (XI (XI (XI XH)))))) :: ((Npos (XO (XO (XI (XI (XI XH)))))) :: ((Npos
    (XO (XO (XI (XI (XI XH)))))) :: ((Npos (XO (XO (XI (XI (XI
    XH)))))) :: ((Npos (XO (XO (XI (XI (XI XH)))))) :: ((Npos (XO (XO (XI (XI
    (XI XH)))))) :: ((Npos (XO (XO (XI (XI (XI XH)))))) :: ((Npos (XO (XO (XI
    (XI (XI XH)))))) :: ((Npos (XO (XO (XI (XI (XI XH)))))) :: ((Npos (XO (XO
    (XI (XI (XI XH)))))) :: ((Npos (XO (XO (XI (XI (XI XH)))))) :: ((Npos (XO
    (XO (XI (XI (XI XH)))))) :: ((Npos (XO (XO (XI (XI (XI XH)))))) :: ((Npos
    (XO (XO (XI (XI (XI XH)))))) :: ((Npos (XO (XO (XI (XI (XI
    XH)))))) :: ((Npos (XO (XO (XI (XI (XI XH)))))) :: ((Npos (XO (XO (XI (XI
    (XI XH)))))) :: ((Npos (XO (XO (XI (XI (XI XH)))))) :: ((Npos (XO (XO (XI
    (XI (XI XH)))))) :: ((Npos (XO (XO (XI (XI (XI XH)))))) :: ((Npos (XO (XO
    (XI (XI (XI XH)))))) :: ((Npos (XO (XO (XI (XI (XI XH)))))) :: ((Npos (XO
    (XO (XI (XI (XI XH)))))) :: ((Npos (XO (XO (XI (XI (XI XH)))))) :: ((Npos
    (XO (XO (XI (XI (XI XH)))))) :: ((Npos (XO (XO (XI (XI (XI
    XH)))))) :: ((Npos (XO (XO (XI (XI (XI XH)))))) :: ((Npos (XO (XO (XI (XI
    (XI XH)))))) :: ((Npos (XO (XO (XI (XI (XI XH)))))) :: ((Npos (XO (XO (XI
    (XI (XI XH)))))) :: ((Npos (XO (XO (XI (XI (XI XH)))))) :: ((Npos (XO (XO
    (XI (XI (XI XH)))))) :: ((Npos (XO (XO (XI (XI (XI XH)))))) :: ((Npos (XO
    (XO (XI (XI (XI XH)))))) :: ((Npos (XO (XO (XI (XI (XI XH)))))) :: ((Npos
    (XO (XO (XI (XI (XI XH)))))) :: ((Npos (XO (XO (XI (XI (XI
    XH)))))) :: ((Npos (XO (XO (XI (XI (XI XH)))))) :: ((Npos (XO (XO (XI (XI
    (XI XH)))))) :: ((Npos (XO (XO (XI (XI (XI XH)))))) :: ((Npos (XO (XO (XI
    (XI (XI XH)))))) :: ((Npos (XO (XO (XI (XI (XI XH)))))) :: ((Npos (XO (XO
    (XI (XI (XI XH)))))) :: ((Npos (XO (XO (XO (XO (XI (XI
    XH))))))) :: (N0 :: (N0 :: (N0 :: (N0 :: (N0 :: (N0 :: (N0 :: (N0 :: (N0 :: (N0 :: (N0 :: (N0 :: (N0 :: (N0 :: (N0 :: (N0 :: (N0 :: (N0 :: (N0 :: (N0 :: (N0 :: (N0 :: (N0 :: (N0 :: (N0 :: (N0 :: (N0 :: (N0 :: (N0 :: (N0 :: (N0 :: (N0 :: (N0 :: (N0 :: (N0 :: (N0 :: (N0 :: (N0 :: (N0 :: (N0 :: (N0 :: (N0 :: (N0 :: (N0 :: (N0 :: (N0 :: (N0 :: (N0 :: (N0 :: (N0 :: (N0 :: (N0 :: (N0 :: (N0 :: (N0 :: (N0 :: (N0 :: (N0 :: (N0 :: (N0 :: (N0 :: (N0 :: (N0 :: (N0 :: (N0 :: (N0 :: (N0 :: (N0 :: (N0 :: (N0 :: (N0 :: (N0 :: (N0 :: (N0 :: (N0 :: (N0 :: (N0 :: (N0 :: (N0 :: (N0 :: (N0 :: (N0 :: (N0 :: (N0 :: (N0 :: (N0 :: (N0 :: (N0 :: (N0 :: (N0 :: (N0 :: (N0 :: (N0 :: (N0 :: (N0 :: (N0 :: (N0 :: (N0 :: (N0 :: (N0 :: (N0 :: (N0 :: (N0 :: (N0 :: (N0 :: (N0 :: (N0 :: (N0 :: (N0 :: (N0 :: (N0 :: (N0 :: (N0 :: (N0 :: (N0 :: (N0 :: (N0 :: (N0 :: (N0 :: (N0 :: (N0 :: (N0 :: (N0 :: (N0 :: (N0 :: (N0 :: (N0 :: (N0 :: [])))))))))))))))))))))))))))))))))))))))))))))))))))))))))))))))))))))))))))))))))))))))))))))))))))))))))))))))))))))))))))))))))))))))))))))))))))))))))))))))))))))))))))))))))))))))))))))))))))))))))))))))))))))))))))))))))))))))))))))))))))))))))))))))) :: (((Npos
    (XO (XO (XO (XO (XI (XI XH))))))) :: ((Npos (XO (XO (XO (XO (XI (XI
    XH))))))) :: ((Npos (XO (XO (XO (XO (XI (XI XH))))))) :: ((Npos (XO (XO
    (XO (XO (XI (XI XH))))))) :: ((Npos (XO (XO (XO (XO (XI (XI
    XH))))))) :: ((Npos (XO (XO (XO (XO (XI (XI XH))))))) :: ((Npos (XO (XO
    (XO (XO (XI (XI XH))))))) :: ((Npos (XO (XO (XO (XO (XI (XI
    XH))))))) :: ((Npos (XO (XO (XO (XO (XI (XI XH))))))) :: ((Npos (XO (XO
    (XO (XO (XI (XI XH))))))) :: ((Npos (XO (XO (XO (XO (XI (XI
    XH))))))) :: ((Npos (XO (XO (XO (XO (XI (XI XH))))))) :: ((Npos (XO (XO
    (XO (XO (XI (XI XH))))))) :: ((Npos (XO (XO (XO (XO (XI (XI
    XH))))))) :: ((Npos (XO (XO (XO (XO (XI (XI XH))))))) :: ((Npos (XO (XO
    (XO (XO (XI (XI XH))))))) :: ((Npos (XO (XO (XO (XO (XI (XI
    XH))))))) :: ((Npos (XO (XO (XO (XO (XI (XI XH))))))) :: ((Npos (XO (XO
    (XO (XO (XI (XI XH))))))) :: ((Npos (XO (XO (XO (XO (XI (XI
    XH))))))) :: ((Npos (XO (XO (XO (XO (XI (XI XH))))))) :: ((Npos (XO (XO
    (XO (XO (XI (XI XH))))))) :: ((Npos (XO (XO (XO (XO (XI (XI
    XH))))))) :: ((Npos (XO (XO (XO (XO (XI (XI XH))))))) :: (N0 :: ((Npos
    (XO (XO (XO (XO (XI (XI XH))))))) :: (N0 :: (N0 :: ((Npos (XO (XO (XO (XO
    (XI (XI XH))))))) :: ((Npos (XO (XO (XO (XO (XI (XI XH))))))) :: ((Npos
    (XO (XO (XO (XO (XI (XI XH))))))) :: ((Npos (XO (XO (XO (XO (XI (XI
    XH))))))) :: ((Npos (XI (XI (XI (XO (XO XH)))))) :: ((Npos (XI (XI (XI
    (XO (XO XH)))))) :: ((Npos (XI (XI (XI (XO (XO XH)))))) :: ((Npos (XI (XI
    (XI (XO (XO XH)))))) :: ((Npos (XI (XI (XI (XO (XO XH)))))) :: ((Npos (XI
    (XI (XI (XO (XO XH)))))) :: ((Npos (XI (XI (XI (XO (XO XH)))))) :: ((Npos
    (XI (XI (XI (XO (XO XH)))))) :: ((Npos (XI (XI (XI (XO (XO
    XH)))))) :: ((Npos (XI (XI (XI (XO (XO XH)))))) :: ((Npos (XI (XI (XI (XO
    (XO XH)))))) :: ((Npos (XI (XI (XI (XO (XO XH)))))) :: ((Npos (XI (XI (XI
    (XO (XO XH)))))) :: ((Npos (XI (XI (XI (XO (XO XH)))))) :: ((Npos (XI (XI
    (XI (XO (XO XH)))))) :: ((Npos (XI (XI (XI (XO (XO XH)))))) :: ((Npos (XO
    (XO (XO (XI (XI (XI (XO XH)))))))) :: ((Npos (XO (XO (XO (XI (XI (XI (XO
    XH)))))))) :: ((Npos (XO (XO (XO (XI (XI (XI (XO XH)))))))) :: ((Npos (XO
    (XO (XO (XI (XI (XI (XO XH)))))))) :: ((Npos (XO (XO (XO (XI (XI (XI (XO
    XH)))))))) :: ((Npos (XO (XO (XO (XI (XI (XI (XO XH)))))))) :: ((Npos (XO
    (XO (XO (XI (XI (XI (XO XH)))))))) :: ((Npos (XO (XO (XO (XI (XI (XI (XO
    XH)))))))) :: ((Npos (XO (XO (XO (XI (XI (XI (XO XH)))))))) :: ((Npos (XO
    (XO (XO (XI (XI (XI (XO XH)))))))) :: ((Npos (XO (XO (XO (XI (XI (XI (XO
    XH)))))))) :: ((Npos (XO (XO (XO (XI (XI (XI (XO XH)))))))) :: ((Npos (XO
    (XO (XO (XI (XO XH)))))) :: ((Npos (XO (XO (XO (XI (XO XH)))))) :: ((Npos
    (XO (XO (XO (XI (XO XH)))))) :: ((Npos (XO (XO (XO (XI (XO
    XH)))))) :: ((Npos (XI (XO (XO XH)))) :: ((Npos (XI (XO (XO
    XH)))) :: ((Npos (XI (XO (XO XH)))) :: ((Npos (XI (XO (XO
    XH)))) :: ((Npos (XI (XO (XO XH)))) :: ((Npos (XI (XO (XO
    XH)))) :: ((Npos (XI (XO (XO XH)))) :: ((Npos (XI (XO (XO
    XH)))) :: ((Npos (XI (XO (XO XH)))) :: ((Npos (XI (XO (XO
    XH)))) :: ((Npos (XI (XO (XO XH)))) :: ((Npos (XI (XO (XO
    XH)))) :: ((Npos (XI (XO (XO XH)))) :: ((Npos (XI (XO (XO
    XH)))) :: ((Npos (XI (XO (XO XH)))) :: ((Npos (XI (XO (XO
    XH)))) :: ((Npos (XI (XO (XO XH)))) :: ((Npos (XI (XO (XO
    XH)))) :: ((Npos (XI (XO (XO XH)))) :: ((Npos (XI (XO (XO
    XH)))) :: ((Npos (XI (XO (XO XH)))) :: ((Npos (XI (XO (XO
    XH)))) :: ((Npos (XI (XO (XO XH)))) :: ((Npos (XI (XO (XO
    XH)))) :: ((Npos (XI (XO (XO XH)))) :: ((Npos (XI (XO (XO
    XH)))) :: ((Npos (XI (XO (XO XH)))) :: ((Npos (XI (XO (XO
    XH)))) :: ((Npos (XI (XO (XO XH)))) :: ((Npos (XI (XO (XO
    XH)))) :: ((Npos (XI (XO (XO XH)))) :: ((Npos (XI (XO (XO
    XH)))) :: ((Npos (XI (XO (XO XH)))) :: ((Npos (XI (XO (XO
    XH)))) :: ((Npos (XI (XO (XO XH)))) :: ((Npos (XI (XO (XO
    XH)))) :: ((Npos (XI (XO (XO XH)))) :: ((Npos (XI (XO (XO
    XH)))) :: ((Npos (XI (XO (XO XH)))) :: ((Npos (XI (XO (XO
    XH)))) :: ((Npos (XI (XO (XO XH)))) :: ((Npos (XI (XO (XO
    XH)))) :: ((Npos (XI (XO (XO XH)))) :: ((Npos (XI (XO (XO
    XH)))) :: ((Npos (XI (XO (XO XH)))) :: ((Npos (XI (XO (XO
    XH)))) :: ((Npos (XI (XO (XO XH)))) :: ((Npos (XI (XO (XO
    XH)))) :: ((Npos (XI (XO (XO XH)))) :: ((Npos (XI (XO (XO
    XH)))) :: ((Npos (XI (XO (XO XH)))) :: ((Npos (XI (XO (XO
    XH)))) :: ((Npos (XI (XO (XO XH)))) :: ((Npos (XI (XO (XO
    XH)))) :: ((Npos (XI (XO (XO XH)))) :: ((Npos (XI (XO (XO
    XH)))) :: ((Npos (XI (XO (XO XH)))) :: ((Npos (XI (XO (XO
    XH)))) :: ((Npos (XI (XO (XO XH)))) :: ((Npos (XI (XO (XO
    XH)))) :: ((Npos (XI (XO (XO XH)))) :: ((Npos (XI (XO (XO
    XH)))) :: ((Npos (XI (XO (XO XH)))) :: ((Npos (XO (XO (XO (XO (XI (XI
    XH))))))) :: (N0 :: (N0 :: (N0 :: (N0 :: (N0 :: (N0 :: (N0 :: (N0 :: (N0 :: (N0 :: (N0 :: (N0 :: (N0 :: (N0 :: (N0 :: (N0 :: (N0 :: (N0 :: (N0 :: (N0 :: (N0 :: (N0 :: (N0 :: (N0 :: (N0 :: (N0 :: (N0 :: (N0 :: (N0 :: (N0 :: (N0 :: (N0 :: (N0 :: (N0 :: (N0 :: (N0 :: (N0 :: (N0 :: (N0 :: (N0 :: (N0 :: (N0 :: (N0 :: (N0 :: (N0 :: (N0 :: (N0 :: (N0 :: (N0 :: (N0 :: (N0 :: (N0 :: (N0 :: (N0 :: (N0 :: (N0 :: (N0 :: (N0 :: (N0 :: (N0 :: (N0 :: (N0 :: (N0 :: (N0 :: (N0 :: (N0 :: (N0 :: (N0 :: (N0 :: (N0 :: (N0 :: (N0 :: (N0 :: (N0 :: (N0 :: (N0 :: (N0 :: (N0 :: (N0 :: (N0 :: (N0 :: (N0 :: (N0 :: (N0 :: (N0 :: (N0 :: (N0 :: (N0 :: (N0 :: (N0 :: (N0 :: (N0 :: (N0 :: (N0 :: (N0 :: (N0 :: (N0 :: (N0 :: (N0 :: (N0 :: (N0 :: (N0 :: (N0 :: (N0 :: (N0 :: (N0 :: (N0 :: (N0 :: (N0 :: (N0 :: (N0 :: (N0 :: (N0 :: (N0 :: (N0 :: (N0 :: (N0 :: (N0 :: (N0 :: (N0 :: (N0 :: (N0 :: (N0 :: (N0 :: (N0 :: (N0 :: (N0 :: (N0 :: [])))))))))))))))))))))))))))))))))))))))))))))))))))))))))))))))))))))))))))))))))))))))))))))))))))))))))))))))))))))))))))))))))))))))))))))))))))))))))))))))))))))))))))))))))))))))))))))))))))))))))))))))))))))))))))))))))))))))))))))))))))))))))))))))) :: (((Npos
    (XO (XO (XO (XO (XI (XI XH))))))) :: ((Npos (XO (XO (XO (XO (XI (XI
    XH))))))) :: ((Npos (XO (XO (XO (XO (XI (XI XH))))))) :: ((Npos (XO (XO
    (XO (XO (XI (XI XH))))))) :: ((Npos (XO (XO (XO (XO (XI (XI
    XH))))))) :: ((Npos (XO (XO (XO (XO (XI (XI XH))))))) :: ((Npos (XO (XO
    (XO (XO (XI (XI XH))))))) :: ((Npos (XO (XO (XO (XO (XI (XI
    XH))))))) :: ((Npos (XO (XO (XO (XO (XI (XI XH))))))) :: ((Npos (XO (XO
    (XO (XO (XI (XI XH))))))) :: ((Npos (XO (XO (XO (XO (XI (XI
    XH))))))) :: ((Npos (XO (XO (XO (XO (XI (XI XH))))))) :: ((Npos (XO (XO
    (XO (XO (XI (XI XH))))))) :: ((Npos (XO (XO (XO (XO (XI (XI
    XH))))))) :: ((Npos (XO (XO (XO (XO (XI (XI XH))))))) :: ((Npos (XO (XO
    (XO (XO (XI (XI XH))))))) :: ((Npos (XO (XO (XO (XO (XI (XI
    XH))))))) :: ((Npos (XO (XO (XO (XO (XI (XI XH))))))) :: ((Npos (XO (XO
    (XO (XO (XI (XI XH))))))) :: ((Npos (XO (XO (XO (XO (XI (XI
    XH))))))) :: ((Npos (XO (XO (XO (XO (XI (XI XH))))))) :: ((Npos (XO (XO
    (XO (XO (XI (XI XH))))))) :: ((Npos (XO (XO (XO (XO (XI (XI
    XH))))))) :: ((Npos (XO (XO (XO (XO (XI (XI XH))))))) :: (N0 :: ((Npos
    (XO (XO (XO (XO (XI (XI XH))))))) :: (N0 :: (N0 :: ((Npos (XO (XO (XO (XO
    (XI (XI XH))))))) :: ((Npos (XO (XO (XO (XO (XI (XI XH))))))) :: ((Npos
    (XO (XO (XO (XO (XI (XI XH))))))) :: ((Npos (XO (XO (XO (XO (XI (XI
    XH))))))) :: ((Npos (XO (XO (XO (XO (XI (XI XH))))))) :: ((Npos (XO (XO
    (XO (XO (XI (XI XH))))))) :: ((Npos (XO (XO (XO (XO (XI (XI
    XH))))))) :: ((Npos (XO (XO (XO (XO (XI (XI XH))))))) :: ((Npos (XO (XO
    (XO (XO (XI (XI XH))))))) :: ((Npos (XO (XO (XO (XO (XI (XI
    XH))))))) :: ((Npos (XO (XO (XO (XO (XI (XI XH))))))) :: ((Npos (XO (XO
    (XO (XO (XI (XI XH))))))) :: ((Npos (XO (XO (XO (XO (XI (XI
    XH))))))) :: ((Npos (XO (XO (XO (XO (XI (XI XH))))))) :: ((Npos (XO (XO
    (XO (XO (XI (XI XH))))))) :: ((Npos (XO (XO (XO (XO (XI (XI
    XH))))))) :: ((Npos (XO (XO (XO (XO (XI (XI XH))))))) :: ((Npos (XO (XO
    (XO (XO (XI (XI XH))))))) :: ((Npos (XO (XO (XO (XO (XI (XI
    XH))))))) :: ((Npos (XO (XO (XO (XO (XI (XI XH))))))) :: ((Npos (XO (XO
    (XO (XO (XI (XI XH))))))) :: ((Npos (XO (XO (XO (XO (XI (XI
    XH))))))) :: ((Npos (XO (XO (XO (XO (XI (XI XH))))))) :: ((Npos (XO (XO
    (XO (XO (XI (XI XH))))))) :: ((Npos (XO (XO (XO (XO (XI (XI
    XH))))))) :: ((Npos (XO (XO (XO (XO (XI (XI XH))))))) :: ((Npos (XO (XO
    (XO (XO (XI (XI XH))))))) :: ((Npos (XO (XO (XO (XO (XI (XI
    XH))))))) :: ((Npos (XO (XO (XO (XO (XI (XI XH))))))) :: ((Npos (XO (XO
    (XO (XO (XI (XI XH))))))) :: ((Npos (XO (XO (XO (XO (XI (XI
    XH))))))) :: ((Npos (XO (XO (XO (XO (XI (XI XH))))))) :: ((Npos (XO (XO
    (XO (XO (XI (XI XH))))))) :: ((Npos (XO (XO (XO (XO (XI (XI
    XH))))))) :: ((Npos (XO (XO (XO (XO (XI (XI XH))))))) :: ((Npos (XO (XO
    (XO (XO (XI (XI XH))))))) :: ((Npos (XO (XO (XO (XO (XI (XI
    XH))))))) :: ((Npos (XO (XO (XO (XO (XI (XI XH))))))) :: ((Npos (XO (XO
    (XO (XO (XI (XI XH))))))) :: ((Npos (XO (XO (XO (XO (XI (XI
    XH))))))) :: ((Npos (XO (XO (XO (XO (XI (XI XH))))))) :: ((Npos (XO (XO
    (XO (XO (XI (XI XH))))))) :: ((Npos (XO (XO (XO (XO (XI (XI
    XH))))))) :: ((Npos (XO (XO (XO (XO (XI (XI XH))))))) :: ((Npos (XO (XO
    (XO (XO (XI (XI XH))))))) :: ((Npos (XO (XO (XO (XO (XI (XI
    XH))))))) :: ((Npos (XO (XO (XO (XO (XI (XI XH))))))) :: ((Npos (XO (XO
    (XO (XO (XI (XI XH))))))) :: ((Npos (XO (XO (XO (XO (XI (XI
    XH))))))) :: ((Npos (XO (XO (XO (XO (XI (XI XH))))))) :: ((Npos (XO (XO
    (XO (XO (XI (XI XH))))))) :: ((Npos (XO (XO (XO (XO (XI (XI
    XH))))))) :: ((Npos (XO (XO (XO (XO (XI (XI XH))))))) :: ((Npos (XO (XO
    (XO (XO (XI (XI XH))))))) :: ((Npos (XO (XO (XO (XO (XI (XI
    XH))))))) :: ((Npos (XO (XO (XO (XO (XI (XI XH))))))) :: ((Npos (XO (XO
    (XO (XO (XI (XI XH))))))) :: ((Npos (XO (XO (XO (XO (XI (XI
    XH))))))) :: ((Npos (XO (XO (XO (XO (XI (XI XH))))))) :: ((Npos (XO (XO
    (XO (XO (XI (XI XH))))))) :: ((Npos (XO (XO (XO (XO (XI (XI
    XH))))))) :: ((Npos (XO (XO (XO (XO (XI (XI XH))))))) :: ((Npos (XO (XO
    (XO (XO (XI (XI XH))))))) :: ((Npos (XO (XO (XO (XO (XI (XI
    XH))))))) :: ((Npos (XO (XO (XO (XO (XI (XI XH))))))) :: ((Npos (XO (XO
    (XO (XO (XI (XI XH))))))) :: ((Npos (XO (XO (XO (XO (XI (XI
    XH))))))) :: ((Npos (XO (XO (XO (XO (XI (XI XH))))))) :: ((Npos (XO (XO
    (XO (XO (XI (XI XH))))))) :: ((Npos (XO (XO (XO (XO (XI (XI
    XH))))))) :: ((Npos (XO (XO (XO (XO (XI (XI XH))))))) :: ((Npos (XO (XO
    (XO (XO (XI (XI XH))))))) :: ((Npos (XO (XO (XO (XO (XI (XI
    XH))))))) :: ((Npos (XO (XO (XO (XO (XI (XI XH))))))) :: ((Npos (XO (XO
    (XO (XO (XI (XI XH))))))) :: ((Npos (XO (XO (XO (XO (XI (XI
    XH))))))) :: ((Npos (XO (XO (XO (XO (XI (XI XH))))))) :: ((Npos (XO (XO
    (XO (XO (XI (XI XH))))))) :: ((Npos (XO (XO (XO (XO (XI (XI
    XH))))))) :: ((Npos (XO (XO (XO (XO (XI (XI XH))))))) :: ((Npos (XO (XO
    (XO (XO (XI (XI XH))))))) :: ((Npos (XO (XO (XO (XO (XI (XI
    XH))))))) :: ((Npos (XO (XO (XO (XO (XI (XI XH))))))) :: ((Npos (XO (XO
    (XO (XO (XI (XI XH))))))) :: ((Npos (XO (XO (XO (XO (XI (XI
    XH))))))) :: ((Npos (XO (XO (XO (XO (XI (XI XH))))))) :: ((Npos (XO (XO
    (XO (XO (XI (XI XH))))))) :: ((Npos (XO (XO (XO (XO (XI (XI
    XH))))))) :: ((Npos (XO (XO (XO (XO (XI (XI XH))))))) :: ((Npos (XO (XO
    (XO (XO (XI (XI XH))))))) :: ((Npos (XO (XO (XO (XO (XI (XI
    XH))))))) :: ((Npos (XO (XO (XO (XO (XI (XI XH))))))) :: ((Npos (XO (XO
    (XO (XO (XI (XI XH))))))) :: ((Npos (XO (XO (XO (XO (XI (XI
    XH))))))) :: ((Npos (XO (XO (XO (XO (XI (XI XH))))))) :: ((Npos (XO (XO
    (XO (XO (XI (XI XH))))))) :: ((Npos (XO (XO (XO (XO (XI (XI
    XH))))))) :: ((Npos (XO (XO (XO (XO (XI (XI XH))))))) :: ((Npos (XO (XO
    (XO (XO (XI (XI XH))))))) :: ((Npos (XO (XO (XO (XO (XI (XI
    XH))))))) :: (N0 :: (N0 :: (N0 :: (N0 :: (N0 :: (N0 :: (N0 :: (N0 :: (N0 :: (N0 :: (N0 :: (N0 :: (N0 :: (N0 :: (N0 :: (N0 :: (N0 :: (N0 :: (N0 :: (N0 :: (N0 :: (N0 :: (N0 :: (N0 :: (N0 :: (N0 :: (N0 :: (N0 :: ((Npos
    (XO (XO (XI
    XH)))) :: (N0 :: (N0 :: (N0 :: (N0 :: (N0 :: (N0 :: (N0 :: (N0 :: (N0 :: (N0 :: (N0 :: (N0 :: (N0 :: (N0 :: (N0 :: (N0 :: (N0 :: (N0 :: (N0 :: (N0 :: (N0 :: (N0 :: (N0 :: (N0 :: (N0 :: (N0 :: (N0 :: (N0 :: (N0 :: (N0 :: (N0 :: (N0 :: (N0 :: (N0 :: (N0 :: (N0 :: (N0 :: (N0 :: (N0 :: (N0 :: (N0 :: (N0 :: (N0 :: (N0 :: (N0 :: (N0 :: (N0 :: (N0 :: (N0 :: (N0 :: (N0 :: (N0 :: (N0 :: (N0 :: (N0 :: (N0 :: (N0 :: (N0 :: (N0 :: (N0 :: (N0 :: (N0 :: (N0 :: (N0 :: (N0 :: (N0 :: (N0 :: (N0 :: (N0 :: (N0 :: (N0 :: (N0 :: (N0 :: (N0 :: (N0 :: (N0 :: (N0 :: (N0 :: (N0 :: (N0 :: (N0 :: (N0 :: (N0 :: (N0 :: (N0 :: (N0 :: (N0 :: (N0 :: (N0 :: (N0 :: (N0 :: (N0 :: (N0 :: (N0 :: (N0 :: (N0 :: (N0 :: (N0 :: (N0 :: [])))))))))))))))))))))))))))))))))))))))))))))))))))))))))))))))))))))))))))))))))))))))))))))))))))))))))))))))))))))))))))))))))))))))))))))))))))))))))))))))))))))))))))))))))))))))))))))))))))))))))))))))))))))))))))))))))))))))))))))))))))))))))))))))) :: (((Npos
    (XO (XO (XO (XO (XI (XI XH))))))) :: ((Npos (XO (XO (XO (XO (XI (XI
    XH))))))) :: ((Npos (XO (XO (XO (XO (XI (XI XH))))))) :: ((Npos (XO (XO
    (XO (XO (XI (XI XH))))))) :: ((Npos (XO (XO (XO (XO (XI (XI
    XH))))))) :: ((Npos (XO (XO (XO (XO (XI (XI XH))))))) :: ((Npos (XO (XO
    (XO (XO (XI (XI XH))))))) :: ((Npos (XO (XO (XO (XO (XI (XI
    XH))))))) :: ((Npos (XO (XO (XO (XO (XI (XI XH))))))) :: ((Npos (XO (XO
    (XO (XO (XI (XI XH))))))) :: ((Npos (XO (XO (XO (XO (XI (XI
    XH))))))) :: ((Npos (XO (XO (XO (XO (XI (XI XH))))))) :: ((Npos (XO (XO
    (XO (XO (XI (XI XH))))))) :: ((Npos (XO (XO (XO (XO (XI (XI
    XH))))))) :: ((Npos (XO (XO (XO (XO (XI (XI XH))))))) :: ((Npos (XO (XO
    (XO (XO (XI (XI XH))))))) :: ((Npos (XO (XO (XO (XO (XI (XI
    XH))))))) :: ((Npos (XO (XO (XO (XO (XI (XI XH))))))) :: ((Npos (XO (XO
    (XO (XO (XI (XI XH))))))) :: ((Npos (XO (XO (XO (XO (XI (XI
    XH))))))) :: ((Npos (XO (XO (XO (XO (XI (XI XH))))))) :: ((Npos (XO (XO
    (XO (XO (XI (XI XH))))))) :: ((Npos (XO (XO (XO (XO (XI (XI
    XH))))))) :: ((Npos (XO (XO (XO (XO (XI (XI XH))))))) :: (N0 :: ((Npos
    (XO (XO (XO (XO (XI (XI XH))))))) :: (N0 :: (N0 :: ((Npos (XO (XO (XO (XO
    (XI (XI XH))))))) :: ((Npos (XO (XO (XO (XO (XI (XI XH))))))) :: ((Npos
    (XO (XO (XO (XO (XI (XI XH))))))) :: ((Npos (XO (XO (XO (XO (XI (XI
    XH))))))) :: ((Npos (XO (XO (XO (XO (XO XH)))))) :: ((Npos (XO (XO (XO
    (XO (XO XH)))))) :: ((Npos (XO (XO (XO (XO (XO XH)))))) :: ((Npos (XO (XO
    (XO (XO (XO XH)))))) :: ((Npos (XO (XO (XO (XO (XO XH)))))) :: ((Npos (XO
    (XO (XO (XO (XO XH)))))) :: ((Npos (XO (XO (XO (XO (XO XH)))))) :: ((Npos
    (XO (XO (XO (XO (XO XH)))))) :: ((Npos (XO (XO (XO (XO (XO
    XH)))))) :: ((Npos (XO (XO (XO (XO (XO XH)))))) :: ((Npos (XO (XO (XO (XO
    (XO XH)))))) :: ((Npos (XO (XO (XO (XO (XO XH)))))) :: ((Npos (XO (XO (XO
    (XO (XO XH)))))) :: ((Npos (XO (XO (XO (XO (XO XH)))))) :: ((Npos (XO (XO
    (XO (XO (XO XH)))))) :: ((Npos (XO (XO (XO (XO (XO XH)))))) :: ((Npos (XO
    (XI XH))) :: ((Npos (XO (XI XH))) :: ((Npos (XO (XI XH))) :: ((Npos (XO
    (XI XH))) :: ((Npos (XO (XI XH))) :: ((Npos (XO (XI XH))) :: ((Npos (XO
    (XI XH))) :: ((Npos (XO (XI XH))) :: ((Npos (XO (XI XH))) :: ((Npos (XO
    (XI XH))) :: ((Npos (XO (XI XH))) :: ((Npos (XO (XI XH))) :: ((Npos (XO
    (XI XH))) :: ((Npos (XO (XI XH))) :: ((Npos (XO (XI XH))) :: ((Npos (XO
    (XI XH))) :: ((Npos (XI (XO (XO XH)))) :: ((Npos (XI (XO (XO
    XH)))) :: ((Npos (XI (XO (XO XH)))) :: ((Npos (XI (XO (XO
    XH)))) :: ((Npos (XI (XO (XO XH)))) :: ((Npos (XI (XO (XO
    XH)))) :: ((Npos (XI (XO (XO XH)))) :: ((Npos (XI (XO (XO
    XH)))) :: ((Npos (XI (XO (XO XH)))) :: ((Npos (XI (XO (XO
    XH)))) :: ((Npos (XI (XO (XO XH)))) :: ((Npos (XI (XO (XO
    XH)))) :: ((Npos (XI (XO (XO XH)))) :: ((Npos (XI (XO (XO
    XH)))) :: ((Npos (XI (XO (XO XH)))) :: ((Npos (XI (XO (XO
    XH)))) :: ((Npos (XI (XO (XO XH)))) :: ((Npos (XI (XO (XO
    XH)))) :: ((Npos (XI (XO (XO XH)))) :: ((Npos (XI (XO (XO
    XH)))) :: ((Npos (XI (XO (XO XH)))) :: ((Npos (XI (XO (XO
    XH)))) :: ((Npos (XI (XO (XO XH)))) :: ((Npos (XI (XO (XO
    XH)))) :: ((Npos (XI (XO (XO XH)))) :: ((Npos (XI (XO (XO
    XH)))) :: ((Npos (XI (XO (XO XH)))) :: ((Npos (XI (XO (XO
    XH)))) :: ((Npos (XI (XO (XO XH)))) :: ((Npos (XI (XO (XO
    XH)))) :: ((Npos (XI (XO (XO XH)))) :: ((Npos (XI (XO (XO
    XH)))) :: ((Npos (XI (XO (XO XH)))) :: ((Npos (XI (XO (XO
    XH)))) :: ((Npos (XI (XO (XO XH)))) :: ((Npos (XI (XO (XO
    XH)))) :: ((Npos (XI (XO (XO XH)))) :: ((Npos (XI (XO (XO
    XH)))) :: ((Npos (XI (XO (XO XH)))) :: ((Npos (XI (XO (XO
    XH)))) :: ((Npos (XI (XO (XO XH)))) :: ((Npos (XI (XO (XO
    XH)))) :: ((Npos (XI (XO (XO XH)))) :: ((Npos (XI (XO (XO
    XH)))) :: ((Npos (XI (XO (XO XH)))) :: ((Npos (XI (XO (XO
    XH)))) :: ((Npos (XI (XO (XO XH)))) :: ((Npos (XI (XO (XO
    XH)))) :: ((Npos (XI (XO (XO XH)))) :: ((Npos (XI (XO (XO
    XH)))) :: ((Npos (XI (XO (XO XH)))) :: ((Npos (XI (XO (XO
    XH)))) :: ((Npos (XI (XO (XO XH)))) :: ((Npos (XI (XO (XO
    XH)))) :: ((Npos (XI (XO (XO XH)))) :: ((Npos (XI (XO (XO
    XH)))) :: ((Npos (XI (XO (XO XH)))) :: ((Npos (XI (XO (XO
    XH)))) :: ((Npos (XI (XO (XO XH)))) :: ((Npos (XI (XO (XO
    XH)))) :: ((Npos (XI (XO (XO XH)))) :: ((Npos (XI (XO (XO
    XH)))) :: ((Npos (XI (XO (XO XH)))) :: ((Npos (XO (XO (XO (XO (XI (XI
    XH))))))) :: (N0 :: (N0 :: (N0 :: (N0 :: (N0 :: (N0 :: (N0 :: (N0 :: (N0 :: (N0 :: (N0 :: (N0 :: (N0 :: (N0 :: (N0 :: (N0 :: (N0 :: (N0 :: (N0 :: (N0 :: (N0 :: (N0 :: (N0 :: (N0 :: (N0 :: (N0 :: (N0 :: (N0 :: (N0 :: (N0 :: (N0 :: (N0 :: (N0 :: (N0 :: (N0 :: (N0 :: (N0 :: (N0 :: (N0 :: (N0 :: (N0 :: (N0 :: (N0 :: (N0 :: (N0 :: (N0 :: (N0 :: (N0 :: (N0 :: (N0 :: (N0 :: (N0 :: (N0 :: (N0 :: (N0 :: (N0 :: (N0 :: (N0 :: (N0 :: (N0 :: (N0 :: (N0 :: (N0 :: (N0 :: (N0 :: (N0 :: (N0 :: (N0 :: (N0 :: (N0 :: (N0 :: (N0 :: (N0 :: (N0 :: (N0 :: (N0 :: (N0 :: (N0 :: (N0 :: (N0 :: (N0 :: (N0 :: (N0 :: (N0 :: (N0 :: (N0 :: (N0 :: (N0 :: (N0 :: (N0 :: (N0 :: (N0 :: (N0 :: (N0 :: (N0 :: (N0 :: (N0 :: (N0 :: (N0 :: (N0 :: (N0 :: (N0 :: (N0 :: (N0 :: (N0 :: (N0 :: (N0 :: (N0 :: (N0 :: (N0 :: (N0 :: (N0 :: (N0 :: (N0 :: (N0 :: (N0 :: (N0 :: (N0 :: (N0 :: (N0 :: (N0 :: (N0 :: (N0 :: (N0 :: (N0 :: (N0 :: (N0 :: (N0 :: [])))))))))))))))))))))))))))))))))))))))))))))))))))))))))))))))))))))))))))))))))))))))))))))))))))))))))))))))))))))))))))))))))))))))))))))))))))))))))))))))))))))))))))))))))))))))))))))))))))))))))))))))))))))))))))))))))))))))))))))))))))))))))))))))) :: (((Npos
    (XO (XO (XO (XO (XI (XI XH))))))) :: ((Npos (XO (XO (XO (XO (XI (XI
    XH))))))) :: ((Npos (XO (XO (XO (XO (XI (XI XH))))))) :: ((Npos (XO (XO
    (XO (XO (XI (XI XH))))))) :: ((Npos (XO (XO (XO (XO (XI (XI
    XH))))))) :: ((Npos (XO (XO (XO (XO (XI (XI XH))))))) :: ((Npos (XO (XO
    (XO (XO (XI (XI XH))))))) :: ((Npos (XO (XO (XO (XO (XI (XI
    XH))))))) :: ((Npos (XO (XO (XO (XO (XI (XI XH))))))) :: ((Npos (XO (XO
    (XO (XO (XI (XI XH))))))) :: ((Npos (XO (XO (XO (XO (XI (XI
    XH))))))) :: ((Npos (XO (XO (XO (XO (XI (XI XH))))))) :: ((Npos (XO (XO
    (XO (XO (XI (XI XH))))))) :: ((Npos (XO (XO (XO (XO (XI (XI
    XH))))))) :: ((Npos (XO (XO (XO (XO (XI (XI XH))))))) :: ((Npos (XO (XO
    (XO (XO (XI (XI XH))))))) :: ((Npos (XO (XO (XO (XO (XI (XI
    XH))))))) :: ((Npos (XO (XO (XO (XO (XI (XI XH))))))) :: ((Npos (XO (XO
    (XO (XO (XI (XI XH))))))) :: ((Npos (XO (XO (XO (XO (XI (XI
    XH))))))) :: ((Npos (XO (XO (XO (XO (XI (XI XH))))))) :: ((Npos (XO (XO
    (XO (XO (XI (XI XH))))))) :: ((Npos (XO (XO (XO (XO (XI (XI
    XH))))))) :: ((Npos (XO (XO (XO (XO (XI (XI XH))))))) :: (N0 :: ((Npos
    (XO (XO (XO (XO (XI (XI XH))))))) :: (N0 :: (N0 :: ((Npos (XO (XO (XO (XO
    (XI (XI XH))))))) :: ((Npos (XO (XO (XO (XO (XI (XI XH))))))) :: ((Npos
    (XO (XO (XO (XO (XI (XI XH))))))) :: ((Npos (XO (XO (XO (XO (XI (XI
    XH))))))) :: ((Npos (XI (XI (XI (XO (XO XH)))))) :: ((Npos (XI (XI (XI
    (XO (XO XH)))))) :: ((Npos (XI (XI (XI (XO (XO XH)))))) :: ((Npos (XI (XI
    (XI (XO (XO XH)))))) :: ((Npos (XI (XI (XI (XO (XO XH)))))) :: ((Npos (XI
    (XI (XI (XO (XO XH)))))) :: ((Npos (XI (XI (XI (XO (XO XH)))))) :: ((Npos
    (XI (XI (XI (XO (XO XH)))))) :: ((Npos (XI (XI (XI (XO (XO
    XH)))))) :: ((Npos (XI (XI (XI (XO (XO XH)))))) :: ((Npos (XI (XI (XI (XO
    (XO XH)))))) :: ((Npos (XI (XI (XI (XO (XO XH)))))) :: ((Npos (XI (XI (XI
    (XO (XO XH)))))) :: ((Npos (XI (XI (XI (XO (XO XH)))))) :: ((Npos (XI (XI
    (XI (XO (XO XH)))))) :: ((Npos (XI (XI (XI (XO (XO XH)))))) :: ((Npos (XO
    (XO (XO (XO (XI (XI (XO XH)))))))) :: ((Npos (XO (XO (XO (XO (XI (XI (XO
    XH)))))))) :: ((Npos (XO (XO (XO (XO (XI (XI (XO XH)))))))) :: ((Npos (XO
    (XO (XO (XO (XI (XI (XO XH)))))))) :: ((Npos (XO (XO (XO (XO (XI (XI (XO
    XH)))))))) :: ((Npos (XO (XO (XO (XO (XI (XI (XO XH)))))))) :: ((Npos (XO
    (XO (XO (XO (XI (XI (XO XH)))))))) :: ((Npos (XO (XO (XO (XO (XI (XI (XO
    XH)))))))) :: ((Npos (XO (XO (XO (XO (XI (XI (XO XH)))))))) :: ((Npos (XO
    (XO (XO (XO (XI (XI (XO XH)))))))) :: ((Npos (XO (XO (XO (XO (XI (XI (XO
    XH)))))))) :: ((Npos (XO (XO (XO (XO (XI (XI (XO XH)))))))) :: ((Npos (XO
    (XI XH))) :: ((Npos (XO (XI XH))) :: ((Npos (XO (XI XH))) :: ((Npos (XO
    (XI XH))) :: ((Npos (XI (XO (XO XH)))) :: ((Npos (XI (XO (XO
    XH)))) :: ((Npos (XI (XO (XO XH)))) :: ((Npos (XI (XO (XO
    XH)))) :: ((Npos (XI (XO (XO XH)))) :: ((Npos (XI (XO (XO
    XH)))) :: ((Npos (XI (XO (XO XH)))) :: ((Npos (XI (XO (XO
    XH)))) :: ((Npos (XI (XO (XO XH)))) :: ((Npos (XI (XO (XO
    XH)))) :: ((Npos (XI (XO (XO XH)))) :: ((Npos (XI (XO (XO
    XH)))) :: ((Npos (XI (XO (XO XH)))) :: ((Npos (XI (XO (XO
    XH)))) :: ((Npos (XI (XO (XO XH)))) :: ((Npos (XI (XO (XO
    XH)))) :: ((Npos (XI (XO (XO XH)))) :: ((Npos (XI (XO (XO
    XH)))) :: ((Npos (XI (XO (XO XH)))) :: ((Npos (XI (XO (XO
    XH)))) :: ((Npos (XI (XO (XO XH)))) :: ((Npos (XI (XO (XO
    XH)))) :: ((Npos (XI (XO (XO XH)))) :: ((Npos (XI (XO (XO
    XH)))) :: ((Npos (XI (XO (XO XH)))) :: ((Npos (XI (XO (XO
    XH)))) :: ((Npos (XI (XO (XO XH)))) :: ((Npos (XI (XO (XO
    XH)))) :: ((Npos (XI (XO (XO XH)))) :: ((Npos (XI (XO (XO
    XH)))) :: ((Npos (XI (XO (XO XH)))) :: ((Npos (XI (XO (XO
    XH)))) :: ((Npos (XI (XO (XO XH)))) :: ((Npos (XI (XO (XO
    XH)))) :: ((Npos (XI (XO (XO XH)))) :: ((Npos (XI (XO (XO
    XH)))) :: ((Npos (XI (XO (XO XH)))) :: ((Npos (XI (XO (XO
    XH)))) :: ((Npos (XI (XO (XO XH)))) :: ((Npos (XI (XO (XO
    XH)))) :: ((Npos (XI (XO (XO XH)))) :: ((Npos (XI (XO (XO
    XH)))) :: ((Npos (XI (XO (XO XH)))) :: ((Npos (XI (XO (XO
    XH)))) :: ((Npos (XI (XO (XO XH)))) :: ((Npos (XI (XO (XO
    XH)))) :: ((Npos (XI (XO (XO XH)))) :: ((Npos (XI (XO (XO
    XH)))) :: ((Npos (XI (XO (XO XH)))) :: ((Npos (XI (XO (XO
    XH)))) :: ((Npos (XI (XO (XO XH)))) :: ((Npos (XI (XO (XO
    XH)))) :: ((Npos (XI (XO (XO XH)))) :: ((Npos (XI (XO (XO
    XH)))) :: ((Npos (XI (XO (XO XH)))) :: ((Npos (XI (XO (XO
    XH)))) :: ((Npos (XI (XO (XO XH)))) :: ((Npos (XI (XO (XO
    XH)))) :: ((Npos (XI (XO (XO XH)))) :: ((Npos (XI (XO (XO
    XH)))) :: ((Npos (XI (XO (XO XH)))) :: ((Npos (XI (XO (XO
    XH)))) :: ((Npos (XI (XO (XO XH)))) :: ((Npos (XO (XO (XO (XO (XI (XI
    XH))))))) :: (N0 :: (N0 :: (N0 :: (N0 :: (N0 :: (N0 :: (N0 :: (N0 :: (N0 :: (N0 :: (N0 :: (N0 :: (N0 :: (N0 :: (N0 :: (N0 :: (N0 :: (N0 :: (N0 :: (N0 :: (N0 :: (N0 :: (N0 :: (N0 :: (N0 :: (N0 :: (N0 :: (N0 :: (N0 :: (N0 :: (N0 :: (N0 :: (N0 :: (N0 :: (N0 :: (N0 :: (N0 :: (N0 :: (N0 :: (N0 :: (N0 :: (N0 :: (N0 :: (N0 :: (N0 :: (N0 :: (N0 :: (N0 :: (N0 :: (N0 :: (N0 :: (N0 :: (N0 :: (N0 :: (N0 :: (N0 :: (N0 :: (N0 :: (N0 :: (N0 :: (N0 :: (N0 :: (N0 :: (N0 :: (N0 :: (N0 :: (N0 :: (N0 :: (N0 :: (N0 :: (N0 :: (N0 :: (N0 :: (N0 :: (N0 :: (N0 :: (N0 :: (N0 :: (N0 :: (N0 :: (N0 :: (N0 :: (N0 :: (N0 :: (N0 :: (N0 :: (N0 :: (N0 :: (N0 :: (N0 :: (N0 :: (N0 :: (N0 :: (N0 :: (N0 :: (N0 :: (N0 :: (N0 :: (N0 :: (N0 :: (N0 :: (N0 :: (N0 :: (N0 :: (N0 :: (N0 :: (N0 :: (N0 :: (N0 :: (N0 :: (N0 :: (N0 :: (N0 :: (N0 :: (N0 :: (N0 :: (N0 :: (N0 :: (N0 :: (N0 :: (N0 :: (N0 :: (N0 :: (N0 :: (N0 :: (N0 :: (N0 :: (N0 :: [])))))))))))))))))))))))))))))))))))))))))))))))))))))))))))))))))))))))))))))))))))))))))))))))))))))))))))))))))))))))))))))))))))))))))))))))))))))))))))))))))))))))))))))))))))))))))))))))))))))))))))))))))))))))))))))))))))))))))))))))))))))))))))))))) :: (((Npos
    (XO (XO (XO (XO (XI (XO (XI XH)))))))) :: ((Npos (XO (XO (XO (XO (XI (XO
    (XI XH)))))))) :: ((Npos (XO (XO (XO (XO (XI (XO (XI XH)))))))) :: ((Npos
    (XO (XO (XO (XO (XI (XO (XI XH)))))))) :: ((Npos (XO (XO (XO (XO (XI (XO
    (XI XH)))))))) :: ((Npos (XO (XO (XO (XO (XI (XO (XI XH)))))))) :: ((Npos
    (XO (XO (XO (XO (XI (XO (XI XH)))))))) :: ((Npos (XO (XO (XO (XO (XI (XO
    (XI XH)))))))) :: ((Npos (XO (XO (XO (XO (XI (XO (XI XH)))))))) :: ((Npos
    (XO (XO (XO (XO (XI (XO (XI XH)))))))) :: ((Npos (XO (XO (XO (XO (XI (XO
    (XI XH)))))))) :: ((Npos (XO (XO (XO (XO (XI (XO (XI XH)))))))) :: ((Npos
    (XO (XO (XO (XO (XI (XO (XI XH)))))))) :: ((Npos (XO (XO (XO (XO (XI (XO
    (XI XH)))))))) :: ((Npos (XO (XO (XO (XO (XI (XO (XI XH)))))))) :: ((Npos
    (XO (XO (XO (XO (XI (XO (XI XH)))))))) :: ((Npos (XO (XO (XO (XO (XI (XO
    (XI XH)))))))) :: ((Npos (XO (XO (XO (XO (XI (XO (XI XH)))))))) :: ((Npos
    (XO (XO (XO (XO (XI (XO (XI XH)))))))) :: ((Npos (XO (XO (XO (XO (XI (XO
    (XI XH)))))))) :: ((Npos (XO (XO (XO (XO (XI (XO (XI XH)))))))) :: ((Npos
    (XO (XO (XO (XO (XI (XO (XI XH)))))))) :: ((Npos (XO (XO (XO (XO (XI (XO
    (XI XH)))))))) :: ((Npos (XO (XO (XO (XO (XI (XO (XI
    XH)))))))) :: (N0 :: ((Npos (XO (XO (XO (XO (XI (XO (XI
    XH)))))))) :: (N0 :: (N0 :: ((Npos (XO (XO (XO (XO (XI (XO (XI
    XH)))))))) :: ((Npos (XO (XO (XO (XO (XI (XO (XI XH)))))))) :: ((Npos (XO
    (XO (XO (XO (XI (XO (XI XH)))))))) :: ((Npos (XO (XO (XO (XO (XI (XO (XI
    XH)))))))) :: ((Npos (XO (XO (XO (XO (XI (XO (XI XH)))))))) :: ((Npos (XO
    (XO (XO (XO (XI (XO (XI XH)))))))) :: ((Npos (XO (XO (XO (XO (XI (XO (XI
    XH)))))))) :: ((Npos (XO (XO (XO (XO (XI (XO (XI XH)))))))) :: ((Npos (XO
    (XO (XO (XO (XI (XO (XI XH)))))))) :: ((Npos (XO (XO (XO (XO (XI (XO (XI
    XH)))))))) :: ((Npos (XO (XO (XO (XO (XI (XO (XI XH)))))))) :: ((Npos (XO
    (XO (XO (XO (XI (XO (XI XH)))))))) :: ((Npos (XO (XO (XO (XO (XI (XO (XI
    XH)))))))) :: ((Npos (XO (XO (XO (XO (XI (XO (XI XH)))))))) :: ((Npos (XO
    (XO (XO (XO (XI (XO (XI XH)))))))) :: ((Npos (XO (XO (XO (XO (XI (XO (XI
    XH)))))))) :: ((Npos (XO (XO (XO (XO (XI (XO (XI XH)))))))) :: ((Npos (XO
    (XO (XO (XO (XI (XO (XI XH)))))))) :: ((Npos (XO (XO (XO (XO (XI (XO (XI
    XH)))))))) :: ((Npos (XO (XO (XO (XO (XI (XO (XI XH)))))))) :: ((Npos (XO
    (XO (XO (XO (XI (XO (XI XH)))))))) :: ((Npos (XO (XO (XO (XO (XI (XO (XI
    XH)))))))) :: ((Npos (XO (XO (XO (XO (XI (XO (XI XH)))))))) :: ((Npos (XO
    (XO (XO (XO (XI (XO (XI XH)))))))) :: ((Npos (XO (XO (XO (XO (XI (XO (XI
    XH)))))))) :: ((Npos (XO (XO (XO (XO (XI (XO (XI XH)))))))) :: ((Npos (XO
    (XO (XO (XO (XI (XO (XI XH)))))))) :: ((Npos (XO (XO (XO (XO (XI (XO (XI
    XH)))))))) :: ((Npos (XO (XO (XO (XO (XI (XO (XI XH)))))))) :: ((Npos (XO
    (XO (XO (XO (XI (XO (XI XH)))))))) :: ((Npos (XO (XO (XO (XO (XI (XO (XI
    XH)))))))) :: ((Npos (XO (XO (XO (XO (XI (XO (XI XH)))))))) :: ((Npos (XO
    (XO (XO (XO (XI (XO (XI XH)))))))) :: ((Npos (XO (XO (XO (XO (XI (XO (XI
    XH)))))))) :: ((Npos (XO (XO (XO (XO (XI (XO (XI XH)))))))) :: ((Npos (XO
    (XO (XO (XO (XI (XO (XI XH)))))))) :: ((Npos (XO (XO (XO (XO (XI (XO (XI
    XH)))))))) :: ((Npos (XO (XO (XO (XO (XI (XO (XI XH)))))))) :: ((Npos (XO
    (XO (XO (XO (XI (XO (XI XH)))))))) :: ((Npos (XO (XO (XO (XO (XI (XO (XI
    XH)))))))) :: ((Npos (XO (XO (XO (XO (XI (XO (XI XH)))))))) :: ((Npos (XO
    (XO (XO (XO (XI (XO (XI XH)))))))) :: ((Npos (XO (XO (XO (XO (XI (XO (XI
    XH)))))))) :: ((Npos (XO (XO (XO (XO (XI (XO (XI XH)))))))) :: ((Npos (XO
    (XO (XO (XO (XI (XO (XI XH)))))))) :: ((Npos (XO (XO (XO (XO (XI (XO (XI
    XH)))))))) :: ((Npos (XO (XO (XO (XO (XI (XO (XI XH)))))))) :: ((Npos (XO
    (XO (XO (XO (XI (XO (XI XH)))))))) :: ((Npos (XO (XO (XO (XO (XI (XO (XI
    XH)))))))) :: ((Npos (XO (XO (XO (XO (XI (XO (XI XH)))))))) :: ((Npos (XO
    (XO (XO (XO (XI (XO (XI XH)))))))) :: ((Npos (XO (XO (XO (XO (XI (XO (XI
    XH)))))))) :: ((Npos (XO (XO (XO (XO (XI (XO (XI XH)))))))) :: ((Npos (XO
    (XO (XO (XO (XI (XO (XI XH)))))))) :: ((Npos (XO (XO (XO (XO (XI (XO (XI
    XH)))))))) :: ((Npos (XO (XO (XO (XO (XI (XO (XI XH)))))))) :: ((Npos (XO
    (XO (XO (XO (XI (XO (XI XH)))))))) :: ((Npos (XO (XO (XO (XO (XI (XO (XI
    XH)))))))) :: ((Npos (XO (XO (XO (XO (XI (XO (XI XH)))))))) :: ((Npos (XO
    (XO (XO (XO (XI (XO (XI XH)))))))) :: ((Npos (XO (XO (XO (XO (XI (XO (XI
    XH)))))))) :: ((Npos (XO (XO (XO (XO (XI (XO (XI XH)))))))) :: ((Npos (XO
    (XO (XO (XO (XI (XO (XI XH)))))))) :: ((Npos (XO (XO (XO (XO (XI (XO (XI
    XH)))))))) :: ((Npos (XO (XO (XO (XO (XI (XO (XI XH)))))))) :: ((Npos (XO
    (XO (XO (XO (XI (XO (XI XH)))))))) :: ((Npos (XO (XO (XO (XO (XI (XO (XI
    XH)))))))) :: ((Npos (XO (XO (XO (XO (XI (XO (XI XH)))))))) :: ((Npos (XO
    (XO (XO (XO (XI (XO (XI XH)))))))) :: ((Npos (XO (XO (XO (XO (XI (XO (XI
    XH)))))))) :: ((Npos (XO (XO (XO (XO (XI (XO (XI XH)))))))) :: ((Npos (XO
    (XO (XO (XO (XI (XO (XI XH)))))))) :: ((Npos (XO (XO (XO (XO (XI (XO (XI
    XH)))))))) :: ((Npos (XO (XO (XO (XO (XI (XO (XI XH)))))))) :: ((Npos (XO
    (XO (XO (XO (XI (XO (XI XH)))))))) :: ((Npos (XO (XO (XO (XO (XI (XO (XI
    XH)))))))) :: ((Npos (XO (XO (XO (XO (XI (XO (XI XH)))))))) :: ((Npos (XO
    (XO (XO (XO (XI (XO (XI XH)))))))) :: ((Npos (XO (XO (XO (XO (XI (XO (XI
    XH)))))))) :: ((Npos (XO (XO (XO (XO (XI (XO (XI XH)))))))) :: ((Npos (XO
    (XO (XO (XO (XI (XO (XI XH)))))))) :: ((Npos (XO (XO (XO (XO (XI (XO (XI
    XH)))))))) :: ((Npos (XO (XO (XO (XO (XI (XO (XI XH)))))))) :: ((Npos (XO
    (XO (XO (XO (XI (XO (XI XH)))))))) :: ((Npos (XO (XO (XO (XO (XI (XO (XI
    XH)))))))) :: ((Npos (XO (XO (XO (XO (XI (XO (XI XH)))))))) :: ((Npos (XO
    (XO (XO (XO (XI (XO (XI XH)))))))) :: ((Npos (XO (XO (XO (XO (XI (XO (XI
    XH)))))))) :: ((Npos (XO (XO (XO (XO (XI (XO (XI XH)))))))) :: ((Npos (XO
    (XO (XO (XO (XI (XO (XI XH)))))))) :: ((Npos (XO (XO (XO (XO (XI (XO (XI
    XH)))))))) :: ((Npos (XO (XO (XO (XO (XI (XO (XI XH)))))))) :: ((Npos (XO
    (XO (XO (XO (XI (XO (XI XH)))))))) :: ((Npos (XO (XO (XO (XO (XI (XO (XI
    XH)))))))) :: ((Npos (XO (XO (XO (XO (XI (XO (XI XH)))))))) :: ((Npos (XO
    (XO (XO (XO (XI (XO (XI XH)))))))) :: ((Npos (XO (XO (XO (XO (XI (XO (XI
    XH)))))))) :: ((Npos (XO (XO (XO (XO (XI (XO (XI XH)))))))) :: ((Npos (XO
    (XO (XO (XO (XI (XO (XI XH)))))))) :: ((Npos (XO (XO (XO (XO (XI (XI
    XH))))))) :: (N0 :: (N0 :: (N0 :: (N0 :: (N0 :: (N0 :: (N0 :: (N0 :: (N0 :: (N0 :: (N0 :: (N0 :: (N0 :: (N0 :: (N0 :: (N0 :: (N0 :: (N0 :: (N0 :: (N0 :: (N0 :: (N0 :: (N0 :: (N0 :: (N0 :: (N0 :: (N0 :: (N0 :: ((Npos
    (XO (XO (XI
    XH)))) :: (N0 :: (N0 :: (N0 :: (N0 :: (N0 :: (N0 :: (N0 :: (N0 :: (N0 :: (N0 :: (N0 :: (N0 :: (N0 :: (N0 :: (N0 :: (N0 :: (N0 :: (N0 :: (N0 :: (N0 :: (N0 :: (N0 :: (N0 :: (N0 :: (N0 :: (N0 :: (N0 :: (N0 :: (N0 :: (N0 :: (N0 :: (N0 :: (N0 :: (N0 :: (N0 :: (N0 :: (N0 :: (N0 :: (N0 :: (N0 :: (N0 :: (N0 :: (N0 :: (N0 :: (N0 :: (N0 :: (N0 :: (N0 :: (N0 :: (N0 :: (N0 :: (N0 :: (N0 :: (N0 :: (N0 :: (N0 :: (N0 :: (N0 :: (N0 :: (N0 :: (N0 :: (N0 :: (N0 :: (N0 :: (N0 :: (N0 :: (N0 :: (N0 :: (N0 :: (N0 :: (N0 :: (N0 :: (N0 :: (N0 :: (N0 :: (N0 :: (N0 :: (N0 :: (N0 :: (N0 :: (N0 :: (N0 :: (N0 :: (N0 :: (N0 :: (N0 :: (N0 :: (N0 :: (N0 :: (N0 :: (N0 :: (N0 :: (N0 :: (N0 :: (N0 :: (N0 :: (N0 :: (N0 :: (N0 :: [])))))))))))))))))))))))))))))))))))))))))))))))))))))))))))))))))))))))))))))))))))))))))))))))))))))))))))))))))))))))))))))))))))))))))))))))))))))))))))))))))))))))))))))))))))))))))))))))))))))))))))))))))))))))))))))))))))))))))))))))))))))))))))))))) :: (((Npos
    (XO (XO (XO (XO (XI (XO XH))))))) :: ((Npos (XO (XO (XO (XO (XI (XO
    XH))))))) :: ((Npos (XO (XO (XO (XO (XI (XO XH))))))) :: ((Npos (XO (XO
    (XO (XO (XI (XO XH))))))) :: ((Npos (XO (XO (XO (XO (XI (XO
    XH))))))) :: ((Npos (XO (XO (XO (XO (XI (XO XH))))))) :: ((Npos (XO (XO
    (XO (XO (XI (XO XH))))))) :: ((Npos (XO (XO (XO (XO (XI (XO
    XH))))))) :: ((Npos (XO (XO (XO (XO (XI (XO XH))))))) :: ((Npos (XO (XO
    (XO (XO (XI (XO XH))))))) :: ((Npos (XO (XO (XO (XO (XI (XO
    XH))))))) :: ((Npos (XO (XO (XO (XO (XI (XO XH))))))) :: ((Npos (XO (XO
    (XO (XO (XI (XO XH))))))) :: ((Npos (XO (XO (XO (XO (XI (XO
    XH))))))) :: ((Npos (XO (XO (XO (XO (XI (XO XH))))))) :: ((Npos (XO (XO
    (XO (XO (XI (XO XH))))))) :: ((Npos (XO (XO (XO (XO (XI (XO
    XH))))))) :: ((Npos (XO (XO (XO (XO (XI (XO XH))))))) :: ((Npos (XO (XO
    (XO (XO (XI (XO XH))))))) :: ((Npos (XO (XO (XO (XO (XI (XO
    XH))))))) :: ((Npos (XO (XO (XO (XO (XI (XO XH))))))) :: ((Npos (XO (XO
    (XO (XO (XI (XO XH))))))) :: ((Npos (XO (XO (XO (XO (XI (XO
    XH))))))) :: ((Npos (XO (XO (XO (XO (XI (XO XH))))))) :: (N0 :: ((Npos
    (XO (XO (XO (XO (XI (XO XH))))))) :: (N0 :: (N0 :: ((Npos (XO (XO (XO (XO
    (XI (XO XH))))))) :: ((Npos (XO (XO (XO (XO (XI (XO XH))))))) :: ((Npos
    (XO (XO (XO (XO (XI (XO XH))))))) :: ((Npos (XO (XO (XO (XO (XI (XO
    XH))))))) :: ((Npos (XI (XI (XO (XI (XO XH)))))) :: ((Npos (XI (XI (XO
    (XI (XO XH)))))) :: ((Npos (XI (XI (XO (XI (XO XH)))))) :: ((Npos (XI (XI
    (XO (XI (XO XH)))))) :: ((Npos (XI (XI (XO (XI (XO XH)))))) :: ((Npos (XI
    (XI (XO (XI (XO XH)))))) :: ((Npos (XI (XI (XO (XI (XO XH)))))) :: ((Npos
    (XI (XI (XO (XI (XO XH)))))) :: ((Npos (XI (XI (XO (XI (XO
    XH)))))) :: ((Npos (XI (XI (XO (XI (XO XH)))))) :: ((Npos (XI (XI (XO (XI
    (XO XH)))))) :: ((Npos (XI (XI (XO (XI (XO XH)))))) :: ((Npos (XI (XI (XO
    (XI (XO XH)))))) :: ((Npos (XI (XI (XO (XI (XO XH)))))) :: ((Npos (XI (XI
    (XO (XI (XO XH)))))) :: ((Npos (XI (XI (XO (XI (XO XH)))))) :: ((Npos (XO
    (XO (XI (XI (XO (XO XH))))))) :: ((Npos (XO (XO (XI (XI (XO (XO
    XH))))))) :: ((Npos (XO (XO (XI (XI (XO (XO XH))))))) :: ((Npos (XO (XO
    (XI (XI (XO (XO XH))))))) :: ((Npos (XO (XO (XI (XI (XO (XO
    XH))))))) :: ((Npos (XO (XO (XI (XI (XO (XO XH))))))) :: ((Npos (XO (XO
    (XI (XI (XO (XO XH))))))) :: ((Npos (XO (XO (XI (XI (XO (XO
    XH))))))) :: ((Npos (XO (XO (XI (XI (XO (XO XH))))))) :: ((Npos (XO (XO
    (XI (XI (XO (XO XH))))))) :: ((Npos (XO (XO (XI (XI (XO (XO
    XH))))))) :: ((Npos (XO (XO (XI (XI (XO (XO XH))))))) :: ((Npos (XO (XO
    (XI (XI (XO (XO XH))))))) :: ((Npos (XO (XO (XI (XI (XO (XO
    XH))))))) :: ((Npos (XO (XO (XI (XI (XO (XO XH))))))) :: ((Npos (XO (XO
    (XI (XI (XO (XO XH))))))) :: ((Npos (XO (XO (XI (XI (XO (XO
    XH))))))) :: ((Npos (XO (XO (XI (XI (XO (XO XH))))))) :: ((Npos (XO (XO
    (XI (XI (XO (XO XH))))))) :: ((Npos (XO (XO (XI (XI (XO (XO
    XH))))))) :: ((Npos (XO (XO (XI (XI (XO (XO XH))))))) :: ((Npos (XO (XO
    (XI (XI (XO (XO XH))))))) :: ((Npos (XO (XO (XI (XI (XO (XO
    XH))))))) :: ((Npos (XO (XO (XI (XI (XO (XO XH))))))) :: ((Npos (XO (XO
    (XI (XI (XO (XO XH))))))) :: ((Npos (XO (XO (XI (XI (XO (XO
    XH))))))) :: ((Npos (XO (XO (XI (XI (XO (XO XH))))))) :: ((Npos (XO (XO
    (XI (XI (XO (XO XH))))))) :: ((Npos (XO (XO (XI (XI (XO (XO
    XH))))))) :: ((Npos (XO (XO (XI (XI (XO (XO XH))))))) :: ((Npos (XO (XO
    (XI (XI (XO (XO XH))))))) :: ((Npos (XO (XO (XI (XI (XO (XO
    XH))))))) :: ((Npos (XI (XO XH))) :: ((Npos (XO (XO (XI (XI (XO (XO
    XH))))))) :: ((Npos (XO (XO (XI (XI (XO (XO XH))))))) :: ((Npos (XO (XO
    (XI (XI (XO (XO XH))))))) :: ((Npos (XO (XO (XI (XI (XO (XO
    XH))))))) :: ((Npos (XO (XO (XI (XI (XO (XO XH))))))) :: ((Npos (XO (XO
    (XI (XI (XO (XO XH))))))) :: ((Npos (XO (XO (XI (XI (XO (XO
    XH))))))) :: ((Npos (XO (XI (XI XH)))) :: ((Npos (XO (XO (XI (XI (XO (XO
    XH))))))) :: ((Npos (XO (XO (XI (XI (XO (XO XH))))))) :: ((Npos
    XH) :: ((Npos (XO (XO (XI (XI (XO (XO XH))))))) :: ((Npos (XI (XO (XI
    XH)))) :: ((Npos (XO (XI (XI XH)))) :: ((Npos (XO (XI (XI
    XH)))) :: ((Npos (XO (XO (XI (XI (XO (XO XH))))))) :: ((Npos (XO (XO (XI
    (XI (XO (XO XH))))))) :: ((Npos (XO (XO (XI (XI (XO (XO
    XH))))))) :: ((Npos (XO (XO (XI (XI (XO (XO XH))))))) :: ((Npos (XO (XO
    (XI (XI (XO (XO XH))))))) :: ((Npos (XO (XO (XI (XI (XO (XO
    XH))))))) :: ((Npos (XO (XO (XI (XI (XO (XO XH))))))) :: ((Npos (XO (XO
    (XI (XI (XO (XO XH))))))) :: ((Npos (XO (XO (XI (XI (XO (XO
    XH))))))) :: ((Npos (XO (XO (XI (XI (XO (XO XH))))))) :: ((Npos (XO (XO
    (XI (XI (XO (XO XH))))))) :: ((Npos (XO (XO (XI (XI (XO (XO
    XH))))))) :: ((Npos (XO (XO (XI (XI (XO (XO XH))))))) :: ((Npos (XO (XO
    (XI (XI (XO (XO XH))))))) :: ((Npos (XO (XO (XI (XI (XO (XO
    XH))))))) :: ((Npos (XO (XO (XI (XI (XO (XO XH))))))) :: ((Npos (XO (XO
    (XI (XI (XO (XO XH))))))) :: ((Npos (XO (XO (XI (XI (XO (XO
    XH))))))) :: ((Npos (XO (XO (XI (XI (XO (XO XH))))))) :: ((Npos (XO (XO
    (XI (XI (XO (XO XH))))))) :: ((Npos (XO (XO (XI (XI (XO (XO
    XH))))))) :: ((Npos (XO (XO (XI (XI (XO (XO XH))))))) :: ((Npos (XO (XO
    (XI (XI (XO (XO XH))))))) :: ((Npos (XO (XO (XI (XI (XO (XO
    XH))))))) :: ((Npos (XO (XO (XI (XI (XO (XO XH))))))) :: ((Npos (XO (XO
    (XI (XI (XO (XO XH))))))) :: ((Npos (XO (XO (XI (XI (XO (XO
    XH))))))) :: ((Npos (XO (XO (XI (XI (XO (XO XH))))))) :: ((Npos (XO (XO
    (XI (XI (XO (XO XH))))))) :: ((Npos (XO (XO (XI (XI (XO (XO
    XH))))))) :: ((Npos (XO (XO (XI (XI (XO (XO XH))))))) :: ((Npos (XO (XO
    (XO (XO (XI (XI
    XH))))))) :: (N0 :: (N0 :: (N0 :: (N0 :: (N0 :: (N0 :: (N0 :: (N0 :: (N0 :: (N0 :: (N0 :: (N0 :: (N0 :: (N0 :: (N0 :: (N0 :: (N0 :: (N0 :: (N0 :: (N0 :: (N0 :: (N0 :: (N0 :: (N0 :: (N0 :: (N0 :: (N0 :: (N0 :: (N0 :: (N0 :: (N0 :: (N0 :: (N0 :: (N0 :: (N0 :: (N0 :: (N0 :: (N0 :: (N0 :: (N0 :: (N0 :: (N0 :: (N0 :: (N0 :: (N0 :: (N0 :: (N0 :: (N0 :: (N0 :: (N0 :: (N0 :: (N0 :: (N0 :: (N0 :: (N0 :: (N0 :: (N0 :: (N0 :: (N0 :: (N0 :: (N0 :: (N0 :: (N0 :: (N0 :: (N0 :: (N0 :: (N0 :: (N0 :: (N0 :: (N0 :: (N0 :: (N0 :: (N0 :: (N0 :: (N0 :: (N0 :: (N0 :: (N0 :: (N0 :: (N0 :: (N0 :: (N0 :: (N0 :: (N0 :: (N0 :: (N0 :: (N0 :: (N0 :: (N0 :: (N0 :: (N0 :: (N0 :: (N0 :: (N0 :: (N0 :: (N0 :: (N0 :: (N0 :: (N0 :: (N0 :: (N0 :: (N0 :: (N0 :: (N0 :: (N0 :: (N0 :: (N0 :: (N0 :: (N0 :: (N0 :: (N0 :: (N0 :: (N0 :: (N0 :: (N0 :: (N0 :: (N0 :: (N0 :: (N0 :: (N0 :: (N0 :: (N0 :: (N0 :: (N0 :: (N0 :: (N0 :: (N0 :: (N0 :: [])))))))))))))))))))))))))))))))))))))))))))))))))))))))))))))))))))))))))))))))))))))))))))))))))))))))))))))))))))))))))))))))))))))))))))))))))))))))))))))))))))))))))))))))))))))))))))))))))))))))))))))))))))))))))))))))))))))))))))))))))))))))))))))))) :: (((Npos
    (XO (XO (XO (XO (XI (XO XH))))))) :: ((Npos (XO (XO (XO (XO (XI (XO
    XH))))))) :: ((Npos (XO (XO (XO (XO (XI (XO XH))))))) :: ((Npos (XO (XO
    (XO (XO (XI (XO XH))))))) :: ((Npos (XO (XO (XO (XO (XI (XO
    XH))))))) :: ((Npos (XO (XO (XO (XO (XI (XO XH))))))) :: ((Npos (XO (XO
    (XO (XO (XI (XO XH))))))) :: ((Npos (XO (XO (XO (XO (XI (XO
    XH))))))) :: ((Npos (XO (XO (XO (XO (XI (XO XH))))))) :: ((Npos (XO (XO
    (XO (XO (XI (XO XH))))))) :: ((Npos (XO (XO (XO (XO (XI (XO
    XH))))))) :: ((Npos (XO (XO (XO (XO (XI (XO XH))))))) :: ((Npos (XO (XO
    (XO (XO (XI (XO XH))))))) :: ((Npos (XO (XO (XO (XO (XI (XO
    XH))))))) :: ((Npos (XO (XO (XO (XO (XI (XO XH))))))) :: ((Npos (XO (XO
    (XO (XO (XI (XO XH))))))) :: ((Npos (XO (XO (XO (XO (XI (XO
    XH))))))) :: ((Npos (XO (XO (XO (XO (XI (XO XH))))))) :: ((Npos (XO (XO
    (XO (XO (XI (XO XH))))))) :: ((Npos (XO (XO (XO (XO (XI (XO
    XH))))))) :: ((Npos (XO (XO (XO (XO (XI (XO XH))))))) :: ((Npos (XO (XO
    (XO (XO (XI (XO XH))))))) :: ((Npos (XO (XO (XO (XO (XI (XO
    XH))))))) :: ((Npos (XO (XO (XO (XO (XI (XO XH))))))) :: (N0 :: ((Npos
    (XO (XO (XO (XO (XI (XO XH))))))) :: (N0 :: (N0 :: ((Npos (XO (XO (XO (XO
    (XI (XO XH))))))) :: ((Npos (XO (XO (XO (XO (XI (XO XH))))))) :: ((Npos
    (XO (XO (XO (XO (XI (XO XH))))))) :: ((Npos (XO (XO (XO (XO (XI (XO
    XH))))))) :: ((Npos (XO (XO (XO (XO (XO XH)))))) :: ((Npos (XO (XO (XO
    (XO (XO XH)))))) :: ((Npos (XO (XO (XO (XO (XO XH)))))) :: ((Npos (XO (XO
    (XO (XO (XO XH)))))) :: ((Npos (XO (XO (XO (XO (XO XH)))))) :: ((Npos (XO
    (XO (XO (XO (XO XH)))))) :: ((Npos (XO (XO (XO (XO (XO XH)))))) :: ((Npos
    (XO (XO (XO (XO (XO XH)))))) :: ((Npos (XO (XO (XO (XO (XO
    XH)))))) :: ((Npos (XO (XO (XO (XO (XO XH)))))) :: ((Npos (XO (XO (XO (XO
    (XO XH)))))) :: ((Npos (XO (XO (XO (XO (XO XH)))))) :: ((Npos (XO (XO (XO
    (XO (XO XH)))))) :: ((Npos (XO (XO (XO (XO (XO XH)))))) :: ((Npos (XO (XO
    (XO (XO (XO XH)))))) :: ((Npos (XO (XO (XO (XO (XO XH)))))) :: ((Npos (XO
    (XO (XI (XI (XO (XO XH))))))) :: ((Npos (XO (XO (XI (XI (XO (XO
    XH))))))) :: ((Npos (XO (XO (XI (XI (XO (XO XH))))))) :: ((Npos (XO (XO
    (XI (XI (XO (XO XH))))))) :: ((Npos (XO (XO (XI (XI (XO (XO
    XH))))))) :: ((Npos (XO (XO (XI (XI (XO (XO XH))))))) :: ((Npos (XO (XO
    (XI (XI (XO (XO XH))))))) :: ((Npos (XO (XO (XI (XI (XO (XO
    XH))))))) :: ((Npos (XO (XO (XI (XI (XO (XO XH))))))) :: ((Npos (XO (XO
    (XI (XI (XO (XO XH))))))) :: ((Npos (XO (XO (XI (XI (XO (XO
    XH))))))) :: ((Npos (XO (XO (XI (XI (XO (XO XH))))))) :: ((Npos (XO (XO
    (XI (XI (XO (XO XH))))))) :: ((Npos (XO (XO (XI (XI (XO (XO
    XH))))))) :: ((Npos (XO (XO (XI (XI (XO (XO XH))))))) :: ((Npos (XO (XO
    (XI (XI (XO (XO XH))))))) :: ((Npos (XO (XO (XI (XI (XO (XO
    XH))))))) :: ((Npos (XO (XO (XI (XI (XO (XO XH))))))) :: ((Npos (XO (XO
    (XI (XI (XO (XO XH))))))) :: ((Npos (XO (XO (XI (XI (XO (XO
    XH))))))) :: ((Npos (XO (XO (XI (XI (XO (XO XH))))))) :: ((Npos (XO (XO
    (XI (XI (XO (XO XH))))))) :: ((Npos (XO (XO (XI (XI (XO (XO
    XH))))))) :: ((Npos (XO (XO (XI (XI (XO (XO XH))))))) :: ((Npos (XO (XO
    (XI (XI (XO (XO XH))))))) :: ((Npos (XO (XO (XI (XI (XO (XO
    XH))))))) :: ((Npos (XO (XO (XI (XI (XO (XO XH))))))) :: ((Npos (XO (XO
    (XI (XI (XO (XO XH))))))) :: ((Npos (XO (XO (XI (XI (XO (XO
    XH))))))) :: ((Npos (XO (XO (XI (XI (XO (XO XH))))))) :: ((Npos (XO (XO
    (XI (XI (XO (XO XH))))))) :: ((Npos (XO (XO (XI (XI (XO (XO
    XH))))))) :: ((Npos (XO (XO (XI (XI (XO (XO XH))))))) :: ((Npos (XO (XO
    (XI (XI (XO (XO XH))))))) :: ((Npos (XO (XO (XI (XI (XO (XO
    XH))))))) :: ((Npos (XO (XO (XI (XI (XO (XO XH))))))) :: ((Npos (XO (XO
    (XI (XI (XO (XO XH))))))) :: ((Npos (XO (XO (XI (XI (XO (XO
    XH))))))) :: ((Npos (XO (XO (XI (XI (XO (XO XH))))))) :: ((Npos (XO (XO
    (XI (XI (XO (XO XH))))))) :: ((Npos (XO (XO (XI (XI (XO (XO
    XH))))))) :: ((Npos (XO (XO (XI (XI (XO (XO XH))))))) :: ((Npos (XO (XO
    (XI (XI (XO (XO XH))))))) :: ((Npos (XO (XO (XI (XI (XO (XO
    XH))))))) :: ((Npos (XO (XO (XI (XI (XO (XO XH))))))) :: ((Npos (XO (XO
    (XI (XI (XO (XO XH))))))) :: ((Npos (XO (XO (XI (XI (XO (XO
    XH))))))) :: ((Npos (XO (XO (XI (XI (XO (XO XH))))))) :: ((Npos (XO (XO
    (XI (XI (XO (XO XH))))))) :: ((Npos (XO (XO (XI (XI (XO (XO
    XH))))))) :: ((Npos (XO (XO (XI (XI (XO (XO XH))))))) :: ((Npos (XO (XO
    (XI (XI (XO (XO XH))))))) :: ((Npos (XO (XO (XI (XI (XO (XO
    XH))))))) :: ((Npos (XO (XO (XI (XI (XO (XO XH))))))) :: ((Npos (XO (XO
    (XI (XI (XO (XO XH))))))) :: ((Npos (XO (XO (XI (XI (XO (XO
    XH))))))) :: ((Npos (XO (XO (XI (XI (XO (XO XH))))))) :: ((Npos (XO (XO
    (XI (XI (XO (XO XH))))))) :: ((Npos (XO (XO (XI (XI (XO (XO
    XH))))))) :: ((Npos (XO (XO (XI (XI (XO (XO XH))))))) :: ((Npos (XO (XO
    (XI (XI (XO (XO XH))))))) :: ((Npos (XO (XO (XI (XI (XO (XO
    XH))))))) :: ((Npos (XO (XO (XI (XI (XO (XO XH))))))) :: ((Npos (XO (XO
    (XI (XI (XO (XO XH))))))) :: ((Npos (XO (XO (XI (XI (XO (XO
    XH))))))) :: ((Npos (XO (XO (XI (XI (XO (XO XH))))))) :: ((Npos (XO (XO
    (XI (XI (XO (XO XH))))))) :: ((Npos (XO (XO (XI (XI (XO (XO
    XH))))))) :: ((Npos (XO (XO (XI (XI (XO (XO XH))))))) :: ((Npos (XO (XO
    (XI (XI (XO (XO XH))))))) :: ((Npos (XO (XO (XI (XI (XO (XO
    XH))))))) :: ((Npos (XO (XO (XI (XI (XO (XO XH))))))) :: ((Npos (XO (XO
    (XI (XI (XO (XO XH))))))) :: ((Npos (XO (XO (XI (XI (XO (XO
    XH))))))) :: ((Npos (XO (XO (XI (XI (XO (XO XH))))))) :: ((Npos (XO (XO
    (XI (XI (XO (XO XH))))))) :: ((Npos (XO (XO (XI (XI (XO (XO
    XH))))))) :: ((Npos (XO (XO (XI (XI (XO (XO XH))))))) :: ((Npos (XO (XO
    (XI (XI (XO (XO XH))))))) :: ((Npos (XO (XO (XO (XO (XI (XI
    XH))))))) :: (N0 :: (N0 :: (N0 :: (N0 :: (N0 :: (N0 :: (N0 :: (N0 :: (N0 :: (N0 :: (N0 :: (N0 :: (N0 :: (N0 :: (N0 :: (N0 :: (N0 :: (N0 :: (N0 :: (N0 :: (N0 :: (N0 :: (N0 :: (N0 :: (N0 :: (N0 :: (N0 :: (N0 :: (N0 :: (N0 :: (N0 :: (N0 :: (N0 :: (N0 :: (N0 :: (N0 :: (N0 :: (N0 :: (N0 :: (N0 :: (N0 :: (N0 :: (N0 :: (N0 :: (N0 :: (N0 :: (N0 :: (N0 :: (N0 :: (N0 :: (N0 :: (N0 :: (N0 :: (N0 :: (N0 :: (N0 :: (N0 :: (N0 :: (N0 :: (N0 :: (N0 :: (N0 :: (N0 :: (N0 :: (N0 :: (N0 :: (N0 :: (N0 :: (N0 :: (N0 :: (N0 :: (N0 :: (N0 :: (N0 :: (N0 :: (N0 :: (N0 :: (N0 :: (N0 :: (N0 :: (N0 :: (N0 :: (N0 :: (N0 :: (N0 :: (N0 :: (N0 :: (N0 :: (N0 :: (N0 :: (N0 :: (N0 :: (N0 :: (N0 :: (N0 :: (N0 :: (N0 :: (N0 :: (N0 :: (N0 :: (N0 :: (N0 :: (N0 :: (N0 :: (N0 :: (N0 :: (N0 :: (N0 :: (N0 :: (N0 :: (N0 :: (N0 :: (N0 :: (N0 :: (N0 :: (N0 :: (N0 :: (N0 :: (N0 :: (N0 :: (N0 :: (N0 :: (N0 :: (N0 :: (N0 :: (N0 :: (N0 :: (N0 :: [])))))))))))))))))))))))))))))))))))))))))))))))))))))))))))))))))))))))))))))))))))))))))))))))))))))))))))))))))))))))))))))))))))))))))))))))))))))))))))))))))))))))))))))))))))))))))))))))))))))))))))))))))))))))))))))))))))))))))))))))))))))))))))))))) :: (((Npos
    (XO (XO (XO (XO (XI (XO XH))))))) :: ((Npos (XO (XO (XO (XO (XI (XO
    XH))))))) :: ((Npos (XO (XO (XO (XO (XI (XO XH))))))) :: ((Npos (XO (XO
    (XO (XO (XI (XO XH))))))) :: ((Npos (XO (XO (XO (XO (XI (XO
    XH))))))) :: ((Npos (XO (XO (XO (XO (XI (XO XH))))))) :: ((Npos (XO (XO
    (XO (XO (XI (XO XH))))))) :: ((Npos (XO (XO (XO (XO (XI (XO
    XH))))))) :: ((Npos (XO (XO (XO (XO (XI (XO XH))))))) :: ((Npos (XO (XO
    (XO (XO (XI (XO XH))))))) :: ((Npos (XO (XO (XO (XO (XI (XO
    XH))))))) :: ((Npos (XO (XO (XO (XO (XI (XO XH))))))) :: ((Npos (XO (XO
    (XO (XO (XI (XO XH))))))) :: ((Npos (XO (XO (XO (XO (XI (XO
    XH))))))) :: ((Npos (XO (XO (XO (XO (XI (XO XH))))))) :: ((Npos (XO (XO
    (XO (XO (XI (XO XH))))))) :: ((Npos (XO (XO (XO (XO (XI (XO
    XH))))))) :: ((Npos (XO (XO (XO (XO (XI (XO XH))))))) :: ((Npos (XO (XO
    (XO (XO (XI (XO XH))))))) :: ((Npos (XO (XO (XO (XO (XI (XO
    XH))))))) :: ((Npos (XO (XO (XO (XO (XI (XO XH))))))) :: ((Npos (XO (XO
    (XO (XO (XI (XO XH))))))) :: ((Npos (XO (XO (XO (XO (XI (XO
    XH))))))) :: ((Npos (XO (XO (XO (XO (XI (XO XH))))))) :: (N0 :: ((Npos
    (XO (XO (XO (XO (XI (XO XH))))))) :: (N0 :: (N0 :: ((Npos (XO (XO (XO (XO
    (XI (XO XH))))))) :: ((Npos (XO (XO (XO (XO (XI (XO XH))))))) :: ((Npos
    (XO (XO (XO (XO (XI (XO XH))))))) :: ((Npos (XO (XO (XO (XO (XI (XO
    XH))))))) :: ((Npos (XO (XO (XO (XO (XO (XO (XI XH)))))))) :: ((Npos (XO
    (XO (XO (XO (XO (XO (XI XH)))))))) :: ((Npos (XO (XO (XO (XO (XO (XO (XI
    XH)))))))) :: ((Npos (XO (XO (XO (XO (XO (XO (XI XH)))))))) :: ((Npos (XO
    (XO (XO (XO (XO (XO (XI XH)))))))) :: ((Npos (XO (XO (XO (XO (XO (XO (XI
    XH)))))))) :: ((Npos (XO (XO (XO (XO (XO (XO (XI XH)))))))) :: ((Npos (XO
    (XO (XO (XO (XO (XO (XI XH)))))))) :: ((Npos (XO (XO (XO (XO (XO (XO (XI
    XH)))))))) :: ((Npos (XO (XO (XO (XO (XO (XO (XI XH)))))))) :: ((Npos (XO
    (XO (XO (XO (XO (XO (XI XH)))))))) :: ((Npos (XO (XO (XO (XO (XO (XO (XI
    XH)))))))) :: ((Npos (XO (XO (XO (XO (XO (XO (XI XH)))))))) :: ((Npos (XO
    (XO (XO (XO (XO (XO (XI XH)))))))) :: ((Npos (XO (XO (XO (XO (XO (XO (XI
    XH)))))))) :: ((Npos (XO (XO (XO (XO (XO (XO (XI XH)))))))) :: ((Npos (XO
    (XO (XO (XO (XO (XO (XI XH)))))))) :: ((Npos (XO (XO (XO (XO (XO (XO (XI
    XH)))))))) :: ((Npos (XO (XO (XO (XO (XO (XO (XI XH)))))))) :: ((Npos (XO
    (XO (XO (XO (XO (XO (XI XH)))))))) :: ((Npos (XO (XO (XO (XO (XO (XO (XI
    XH)))))))) :: ((Npos (XO (XO (XO (XO (XO (XO (XI XH)))))))) :: ((Npos (XO
    (XO (XO (XO (XO (XO (XI XH)))))))) :: ((Npos (XO (XO (XO (XO (XO (XO (XI
    XH)))))))) :: ((Npos (XO (XO (XO (XO (XO (XO (XI XH)))))))) :: ((Npos (XO
    (XO (XO (XO (XO (XO (XI XH)))))))) :: ((Npos (XO (XO (XO (XO (XO (XO (XI
    XH)))))))) :: ((Npos (XO (XO (XO (XO (XO (XO (XI XH)))))))) :: ((Npos (XO
    (XO (XO (XO (XO (XO (XI XH)))))))) :: ((Npos (XO (XO (XO (XO (XO (XO (XI
    XH)))))))) :: ((Npos (XO (XO (XO (XO (XO (XO (XI XH)))))))) :: ((Npos (XO
    (XO (XO (XO (XO (XO (XI XH)))))))) :: ((Npos (XO (XO (XO (XO (XO (XO (XI
    XH)))))))) :: ((Npos (XO (XO (XO (XO (XO (XO (XI XH)))))))) :: ((Npos (XO
    (XO (XO (XO (XO (XO (XI XH)))))))) :: ((Npos (XO (XO (XO (XO (XO (XO (XI
    XH)))))))) :: ((Npos (XO (XO (XO (XO (XO (XO (XI XH)))))))) :: ((Npos (XO
    (XO (XO (XO (XO (XO (XI XH)))))))) :: ((Npos (XO (XO (XO (XO (XO (XO (XI
    XH)))))))) :: ((Npos (XO (XO (XO (XO (XO (XO (XI XH)))))))) :: ((Npos (XO
    (XO (XO (XO (XO (XO (XI XH)))))))) :: ((Npos (XO (XO (XO (XO (XO (XO (XI
    XH)))))))) :: ((Npos (XO (XO (XO (XO (XO (XO (XI XH)))))))) :: ((Npos (XO
    (XO (XO (XO (XO (XO (XI XH)))))))) :: ((Npos (XO (XO (XO (XO (XO (XO (XI
    XH)))))))) :: ((Npos (XO (XO (XO (XO (XO (XO (XI XH)))))))) :: ((Npos (XO
    (XO (XO (XO (XO (XO (XI XH)))))))) :: ((Npos (XO (XO (XO (XO (XO (XO (XI
    XH)))))))) :: ((Npos (XO (XO (XO (XO (XO (XO (XI XH)))))))) :: ((Npos (XO
    (XO (XO (XO (XO (XO (XI XH)))))))) :: ((Npos (XO (XO (XO (XO (XO (XO (XI
    XH)))))))) :: ((Npos (XO (XO (XO (XO (XO (XO (XI XH)))))))) :: ((Npos (XO
    (XO (XO (XO (XO (XO (XI XH)))))))) :: ((Npos (XO (XO (XO (XO (XO (XO (XI
    XH)))))))) :: ((Npos (XO (XO (XO (XO (XO (XO (XI XH)))))))) :: ((Npos (XO
    (XO (XO (XO (XO (XO (XI XH)))))))) :: ((Npos (XO (XO (XO (XO (XO (XO (XI
    XH)))))))) :: ((Npos (XO (XO (XO (XO (XO (XO (XI XH)))))))) :: ((Npos (XO
    (XO (XO (XO (XO (XO (XI XH)))))))) :: ((Npos (XO (XO (XO (XO (XO (XO (XI
    XH)))))))) :: ((Npos (XO (XO (XO (XO (XO (XO (XI XH)))))))) :: ((Npos (XO
    (XO (XO (XO (XO (XO (XI XH)))))))) :: ((Npos (XO (XO (XO (XO (XO (XO (XI
    XH)))))))) :: ((Npos (XO (XO (XO (XO (XO (XO (XI XH)))))))) :: ((Npos (XO
    (XO (XO (XO (XO (XO (XI XH)))))))) :: ((Npos (XO (XO (XO (XO (XO (XO (XI
    XH)))))))) :: ((Npos (XO (XO (XO (XO (XO (XO (XI XH)))))))) :: ((Npos (XO
    (XO (XO (XO (XO (XO (XI XH)))))))) :: ((Npos (XO (XO (XO (XO (XO (XO (XI
    XH)))))))) :: ((Npos (XO (XO (XO (XO (XO (XO (XI XH)))))))) :: ((Npos (XO
    (XO (XO (XO (XO (XO (XI XH)))))))) :: ((Npos (XO (XO (XO (XO (XO (XO (XI
    XH)))))))) :: ((Npos (XO (XO (XO (XO (XO (XO (XI XH)))))))) :: ((Npos (XO
    (XO (XO (XO (XO (XO (XI XH)))))))) :: ((Npos (XO (XO (XO (XO (XO (XO (XI
    XH)))))))) :: ((Npos (XO (XO (XO (XO (XO (XO (XI XH)))))))) :: ((Npos (XO
    (XO (XO (XO (XO (XO (XI XH)))))))) :: ((Npos (XO (XO (XO (XO (XO (XO (XI
    XH)))))))) :: ((Npos (XO (XO (XO (XO (XO (XO (XI XH)))))))) :: ((Npos (XO
    (XO (XO (XO (XO (XO (XI XH)))))))) :: ((Npos (XO (XO (XO (XO (XO (XO (XI
    XH)))))))) :: ((Npos (XO (XO (XO (XO (XO (XO (XI XH)))))))) :: ((Npos (XO
    (XO (XO (XO (XO (XO (XI XH)))))))) :: ((Npos (XO (XO (XO (XO (XO (XO (XI
    XH)))))))) :: ((Npos (XO (XO (XO (XO (XO (XO (XI XH)))))))) :: ((Npos (XO
    (XO (XO (XO (XO (XO (XI XH)))))))) :: ((Npos (XO (XO (XO (XO (XO (XO (XI
    XH)))))))) :: ((Npos (XO (XO (XO (XO (XO (XO (XI XH)))))))) :: ((Npos (XO
    (XO (XO (XO (XO (XO (XI XH)))))))) :: ((Npos (XO (XO (XO (XO (XO (XO (XI
    XH)))))))) :: ((Npos (XO (XO (XO (XO (XO (XO (XI XH)))))))) :: ((Npos (XO
    (XO (XO (XO (XO (XO (XI XH)))))))) :: ((Npos (XO (XO (XO (XO (XO (XO (XI
    XH)))))))) :: ((Npos (XO (XO (XO (XO (XO (XO (XI XH)))))))) :: ((Npos (XO
    (XO (XO (XO (XO (XO (XI XH)))))))) :: ((Npos (XO (XO (XO (XO (XO (XO (XI
    XH)))))))) :: ((Npos (XO (XO (XO (XO (XI (XO XH))))))) :: ((Npos (XO (XO
    (XO (XO (XI (XO XH))))))) :: ((Npos (XO (XO (XO (XO (XI (XO
    XH))))))) :: ((Npos (XO (XO (XO (XO (XI (XO XH))))))) :: ((Npos (XO (XO
    (XO (XO (XI (XO XH))))))) :: ((Npos (XO (XO (XO (XO (XI (XO
    XH))))))) :: ((Npos (XO (XO (XO (XO (XI (XO XH))))))) :: ((Npos (XO (XO
    (XO (XO (XI (XO XH))))))) :: ((Npos (XO (XO (XO (XO (XI (XO
    XH))))))) :: ((Npos (XO (XO (XO (XO (XI (XO XH))))))) :: ((Npos (XO (XO
    (XO (XO (XI (XO XH))))))) :: ((Npos (XO (XO (XO (XO (XI (XO
    XH))))))) :: ((Npos (XO (XO (XO (XO (XI (XO XH))))))) :: ((Npos (XO (XO
    (XO (XO (XI (XO XH))))))) :: ((Npos (XO (XO (XO (XO (XI (XO
    XH))))))) :: ((Npos (XO (XO (XO (XO (XI (XO XH))))))) :: (N0 :: ((Npos
    (XO (XO (XO (XO (XI (XO XH))))))) :: ((Npos (XO (XO (XO (XO (XI (XO
    XH))))))) :: ((Npos (XO (XO (XO (XO (XI (XO XH))))))) :: ((Npos (XO (XO
    (XO (XO (XI (XO XH))))))) :: ((Npos (XO (XO (XO (XO (XI (XO
    XH))))))) :: ((Npos (XO (XO (XO (XO (XI (XO XH))))))) :: ((Npos (XO (XO
    (XO (XO (XI (XO XH))))))) :: ((Npos (XO (XO (XO (XO (XI (XO
    XH))))))) :: ((Npos (XO (XO (XO (XO (XI (XO XH))))))) :: ((Npos (XO (XO
    (XO (XO (XI (XO XH))))))) :: (N0 :: ((Npos (XO (XO (XO (XO (XI (XO
    XH))))))) :: (N0 :: (N0 :: (N0 :: (N0 :: (N0 :: (N0 :: (N0 :: (N0 :: (N0 :: (N0 :: (N0 :: (N0 :: (N0 :: (N0 :: (N0 :: (N0 :: (N0 :: (N0 :: (N0 :: (N0 :: (N0 :: (N0 :: (N0 :: (N0 :: (N0 :: (N0 :: (N0 :: (N0 :: (N0 :: (N0 :: (N0 :: (N0 :: (N0 :: (N0 :: (N0 :: (N0 :: (N0 :: ((Npos
    (XI (XI (XI (XI (XI (XI (XI XH)))))))) :: ((Npos (XI (XI (XI (XI (XI (XI
    (XI XH)))))))) :: ((Npos (XI (XI (XI (XI (XI (XI (XI XH)))))))) :: ((Npos
    (XI (XI (XI (XI (XI (XI (XI XH)))))))) :: ((Npos (XI (XI (XI (XI (XI (XI
    (XI XH)))))))) :: ((Npos (XI (XI (XI (XI (XI (XI (XI XH)))))))) :: ((Npos
    (XI (XI (XI (XI (XI (XI (XI XH)))))))) :: ((Npos (XI (XI (XI (XI (XI (XI
    (XI XH)))))))) :: ((Npos (XI (XI (XI (XI (XI (XI (XI XH)))))))) :: ((Npos
    (XI (XI (XI (XI (XI (XI (XI XH)))))))) :: ((Npos (XI (XI (XI (XI (XI (XI
    (XI XH)))))))) :: ((Npos (XI (XI (XI (XI (XI (XI (XI XH)))))))) :: ((Npos
    (XI (XI (XI (XI (XI (XI (XI XH)))))))) :: ((Npos (XI (XI (XI (XI (XI (XI
    (XI XH)))))))) :: ((Npos (XI (XI (XI (XI (XI (XI (XI XH)))))))) :: ((Npos
    (XI (XI (XI (XI (XI (XI (XI XH)))))))) :: ((Npos (XI (XI (XI (XI (XI (XI
    (XI XH)))))))) :: ((Npos (XI (XI (XI (XI (XI (XI (XI XH)))))))) :: ((Npos
    (XI (XI (XI (XI (XI (XI (XI XH)))))))) :: ((Npos (XI (XI (XI (XI (XI (XI
    (XI XH)))))))) :: ((Npos (XI (XI (XI (XI (XI (XI (XI XH)))))))) :: ((Npos
    (XI (XI (XI (XI (XI (XI (XI XH)))))))) :: ((Npos (XI (XI (XI (XI (XI (XI
    (XI XH)))))))) :: ((Npos (XI (XI (XI (XI (XI (XI (XI XH)))))))) :: ((Npos
    (XI (XI (XI (XI (XI (XI (XI XH)))))))) :: ((Npos (XI (XI (XI (XI (XI (XI
    (XI XH)))))))) :: ((Npos (XI (XI (XI (XI (XI (XI (XI XH)))))))) :: ((Npos
    (XI (XI (XI (XI (XI (XI (XI XH)))))))) :: ((Npos (XI (XI (XI (XI (XI (XI
    (XI XH)))))))) :: ((Npos (XI (XI (XI (XI (XI (XI (XI XH)))))))) :: ((Npos
    (XI (XI (XI (XI (XI (XI (XI XH)))))))) :: ((Npos (XI (XI (XI (XI (XI (XI
    (XI XH)))))))) :: ((Npos (XI (XI (XI (XI (XI (XI (XI XH)))))))) :: ((Npos
    (XI (XI (XI (XI (XI (XI (XI XH)))))))) :: ((Npos (XI (XI (XI (XI (XI (XI
    (XI XH)))))))) :: ((Npos (XI (XI (XI (XI (XI (XI (XI XH)))))))) :: ((Npos
    (XI (XI (XI (XI (XI (XI (XI XH)))))))) :: ((Npos (XI (XI (XI (XI (XI (XI
    (XI XH)))))))) :: ((Npos (XI (XI (XI (XI (XI (XI (XI XH)))))))) :: ((Npos
    (XI (XI (XI (XI (XI (XI (XI XH)))))))) :: ((Npos (XI (XI (XI (XI (XI (XI
    (XI XH)))))))) :: ((Npos (XI (XI (XI (XI (XI (XI (XI XH)))))))) :: ((Npos
    (XI (XI (XI (XI (XI (XI (XI XH)))))))) :: ((Npos (XI (XI (XI (XI (XI (XI
    (XI XH)))))))) :: ((Npos (XI (XI (XI (XI (XI (XI (XI XH)))))))) :: ((Npos
    (XI (XI (XI (XI (XI (XI (XI XH)))))))) :: ((Npos (XI (XI (XI (XI (XI (XI
    (XI XH)))))))) :: ((Npos (XI (XI (XI (XI (XI (XI (XI XH)))))))) :: ((Npos
    (XI (XI (XI (XI (XI (XI (XI XH)))))))) :: ((Npos (XI (XI (XI (XI (XI (XI
    (XI XH)))))))) :: ((Npos (XI (XI (XI (XI (XI (XI (XI
    XH)))))))) :: (N0 :: (N0 :: (N0 :: (N0 :: (N0 :: (N0 :: (N0 :: (N0 :: (N0 :: (N0 :: (N0 :: [])))))))))))))))))))))))))))))))))))))))))))))))))))))))))))))))))))))))))))))))))))))))))))))))))))))))))))))))))))))))))))))))))))))))))))))))))))))))))))))))))))))))))))))))))))))))))))))))))))))))))))))))))))))))))))))))))))))))))))))))))))))))))))))))) :: (((Npos
    (XO (XO (XO (XO (XI (XI XH))))))) :: ((Npos (XO (XO (XO (XO (XI (XI
    XH))))))) :: ((Npos (XO (XO (XO (XO (XI (XI XH))))))) :: ((Npos (XO (XO
    (XO (XO (XI (XI XH))))))) :: ((Npos (XO (XO (XO (XO (XI (XI
    XH))))))) :: ((Npos (XO (XO (XO (XO (XI (XI XH))))))) :: ((Npos (XO (XO
    (XO (XO (XI (XI XH))))))) :: ((Npos (XO (XO (XI XH)))) :: ((Npos (XO (XO
    (XO (XO (XI (XI XH))))))) :: ((Npos (XO (XO (XO (XO (XI (XI
    XH))))))) :: ((Npos (XO (XO (XO (XO (XI (XI XH))))))) :: ((Npos (XO (XO
    (XO (XO (XI (XI XH))))))) :: ((Npos (XO (XO (XO (XO (XI (XI
    XH))))))) :: ((Npos (XO (XO (XO (XO (XI (XI XH))))))) :: ((Npos (XO (XO
    (XO (XO (XI (XI XH))))))) :: ((Npos (XO (XO (XO (XO (XI (XI
    XH))))))) :: ((Npos (XO (XO (XO (XO (XI (XI XH))))))) :: ((Npos (XO (XO
    (XO (XO (XI (XI XH))))))) :: ((Npos (XO (XO (XO (XO (XI (XI
    XH))))))) :: ((Npos (XO (XO (XO (XO (XI (XI XH))))))) :: ((Npos (XO (XO
    (XO (XO (XI (XI XH))))))) :: ((Npos (XO (XO (XO (XO (XI (XI
    XH))))))) :: ((Npos (XO (XO (XO (XO (XI (XI XH))))))) :: ((Npos (XO (XO
    (XO (XO (XI (XI XH))))))) :: (N0 :: ((Npos (XO (XO (XO (XO (XI (XI
    XH))))))) :: (N0 :: (N0 :: ((Npos (XO (XO (XO (XO (XI (XI
    XH))))))) :: ((Npos (XO (XO (XO (XO (XI (XI XH))))))) :: ((Npos (XO (XO
    (XO (XO (XI (XI XH))))))) :: ((Npos (XO (XO (XO (XO (XI (XI
    XH))))))) :: ((Npos (XO (XO (XO (XO (XI (XO (XO XH)))))))) :: ((Npos (XO
    (XO (XO (XO (XI (XO (XO XH)))))))) :: ((Npos (XO (XO (XO (XO (XI (XO (XO
    XH)))))))) :: ((Npos (XO (XO (XO (XO (XI (XO (XO XH)))))))) :: ((Npos (XO
    (XO (XO (XO (XI (XO (XO XH)))))))) :: ((Npos (XO (XO (XO (XO (XI (XO (XO
    XH)))))))) :: ((Npos (XO (XO (XO (XO (XI (XO (XO XH)))))))) :: ((Npos (XO
    (XO (XO (XO (XI (XO (XO XH)))))))) :: ((Npos (XO (XO (XO (XO (XI (XO (XO
    XH)))))))) :: ((Npos (XO (XO (XO (XO (XI (XO (XO XH)))))))) :: ((Npos (XO
    (XO (XO (XO (XI (XO (XO XH)))))))) :: ((Npos (XO (XO (XO (XO (XI (XO (XO
    XH)))))))) :: ((Npos (XO (XO (XO (XO (XI (XO (XO XH)))))))) :: ((Npos (XO
    (XO (XO (XO (XI (XO (XO XH)))))))) :: ((Npos (XO (XO (XO (XO (XI (XO (XO
    XH)))))))) :: ((Npos (XO (XO (XO (XO (XI (XO (XO XH)))))))) :: ((Npos (XO
    (XO (XO (XO (XI (XO (XO XH)))))))) :: ((Npos (XO (XO (XO (XO (XI (XO (XO
    XH)))))))) :: ((Npos (XO (XO (XO (XO (XI (XO (XO XH)))))))) :: ((Npos (XO
    (XO (XO (XO (XI (XO (XO XH)))))))) :: ((Npos (XO (XO (XO (XO (XI (XO (XO
    XH)))))))) :: ((Npos (XO (XO (XO (XO (XI (XO (XO XH)))))))) :: ((Npos (XO
    (XO (XO (XO (XI (XO (XO XH)))))))) :: ((Npos (XO (XO (XO (XO (XI (XO (XO
    XH)))))))) :: ((Npos (XO (XO (XO (XO (XI (XO (XO XH)))))))) :: ((Npos (XO
    (XO (XO (XO (XI (XO (XO XH)))))))) :: ((Npos (XO (XO (XO (XO (XI (XO (XO
    XH)))))))) :: ((Npos (XO (XO (XO (XO (XI (XO (XO XH)))))))) :: ((Npos (XO
    (XO (XO (XO (XI (XO (XO XH)))))))) :: ((Npos (XO (XO (XO (XO (XI (XO (XO
    XH)))))))) :: ((Npos (XO (XO (XO (XO (XI (XO (XO XH)))))))) :: ((Npos (XO
    (XO (XO (XO (XI (XO (XO XH)))))))) :: ((Npos (XO (XO (XO (XO (XI (XO (XO
    XH)))))))) :: ((Npos (XO (XO (XO (XO (XI (XO (XO XH)))))))) :: ((Npos (XO
    (XO (XO (XO (XI (XO (XO XH)))))))) :: ((Npos (XO (XO (XO (XO (XI (XO (XO
    XH)))))))) :: ((Npos (XO (XO (XO (XO (XI (XO (XO XH)))))))) :: ((Npos (XO
    (XO (XO (XO (XI (XO (XO XH)))))))) :: ((Npos (XO (XO (XO (XO (XI (XO (XO
    XH)))))))) :: ((Npos (XO (XO (XO (XO (XI (XO (XO XH)))))))) :: ((Npos (XO
    (XO (XO (XO (XI (XO (XO XH)))))))) :: ((Npos (XO (XO (XO (XO (XI (XO (XO
    XH)))))))) :: ((Npos (XO (XO (XO (XO (XI (XO (XO XH)))))))) :: ((Npos (XO
    (XO (XO (XO (XI (XO (XO XH)))))))) :: ((Npos (XO (XO (XO (XO (XI (XO (XO
    XH)))))))) :: ((Npos (XO (XO (XO (XO (XI (XO (XO XH)))))))) :: ((Npos (XO
    (XO (XO (XO (XI (XO (XO XH)))))))) :: ((Npos (XO (XO (XO (XO (XI (XO (XO
    XH)))))))) :: ((Npos (XO (XO (XO (XO (XI (XO (XO XH)))))))) :: ((Npos (XO
    (XO (XO (XO (XI (XO (XO XH)))))))) :: ((Npos (XO (XO (XO (XO (XI (XO (XO
    XH)))))))) :: ((Npos (XO (XO (XO (XO (XI (XO (XO XH)))))))) :: ((Npos (XO
    (XO (XO (XO (XI (XO (XO XH)))))))) :: ((Npos (XO (XO (XO (XO (XI (XO (XO
    XH)))))))) :: ((Npos (XO (XO (XO (XO (XI (XO (XO XH)))))))) :: ((Npos (XO
    (XO (XO (XO (XI (XO (XO XH)))))))) :: ((Npos (XO (XO (XO (XO (XI (XO (XO
    XH)))))))) :: ((Npos (XO (XO (XO (XO (XI (XO (XO XH)))))))) :: ((Npos (XO
    (XO (XO (XO (XI (XO (XO XH)))))))) :: ((Npos (XO (XO (XO (XO (XI (XO (XO
    XH)))))))) :: ((Npos (XO (XO (XO (XO (XI (XO (XO XH)))))))) :: ((Npos (XO
    (XO (XO (XO (XI (XO (XO XH)))))))) :: ((Npos (XO (XO (XO (XO (XI (XO (XO
    XH)))))))) :: ((Npos (XO (XO (XO (XO (XI (XO (XO XH)))))))) :: ((Npos (XO
    (XO (XO (XO (XI (XO (XO XH)))))))) :: ((Npos (XO (XO (XO (XO (XI (XO (XO
    XH)))))))) :: ((Npos (XO (XO (XO (XO (XI (XO (XO XH)))))))) :: ((Npos (XO
    (XO (XO (XO (XI (XO (XO XH)))))))) :: ((Npos (XO (XO (XO (XO (XI (XO (XO
    XH)))))))) :: ((Npos (XO (XO (XO (XO (XI (XO (XO XH)))))))) :: ((Npos (XO
    (XO (XO (XO (XI (XO (XO XH)))))))) :: ((Npos (XO (XO (XO (XO (XI (XO (XO
    XH)))))))) :: ((Npos (XO (XO (XO (XO (XI (XO (XO XH)))))))) :: ((Npos (XO
    (XO (XO (XO (XI (XO (XO XH)))))))) :: ((Npos (XO (XO (XO (XO (XI (XO (XO
    XH)))))))) :: ((Npos (XO (XO (XO (XO (XI (XO (XO XH)))))))) :: ((Npos (XO
    (XO (XO (XO (XI (XO (XO XH)))))))) :: ((Npos (XO (XO (XO (XO (XI (XO (XO
    XH)))))))) :: ((Npos (XO (XO (XO (XO (XI (XO (XO XH)))))))) :: ((Npos (XO
    (XO (XO (XO (XI (XO (XO XH)))))))) :: ((Npos (XO (XO (XO (XO (XI (XO (XO
    XH)))))))) :: ((Npos (XO (XO (XO (XO (XI (XO (XO XH)))))))) :: ((Npos (XO
    (XO (XO (XO (XI (XO (XO XH)))))))) :: ((Npos (XO (XO (XO (XO (XI (XO (XO
    XH)))))))) :: ((Npos (XO (XO (XO (XO (XI (XO (XO XH)))))))) :: ((Npos (XO
    (XO (XO (XO (XI (XO (XO XH)))))))) :: ((Npos (XO (XO (XO (XO (XI (XO (XO
    XH)))))))) :: ((Npos (XO (XO (XO (XO (XI (XO (XO XH)))))))) :: ((Npos (XO
    (XO (XO (XO (XI (XO (XO XH)))))))) :: ((Npos (XO (XO (XO (XO (XI (XO (XO
    XH)))))))) :: ((Npos (XO (XO (XO (XO (XI (XO (XO XH)))))))) :: ((Npos (XO
    (XO (XO (XO (XI (XO (XO XH)))))))) :: ((Npos (XO (XO (XO (XO (XI (XO (XO
    XH)))))))) :: ((Npos (XO (XO (XO (XO (XI (XO (XO XH)))))))) :: ((Npos (XO
    (XO (XO (XO (XI (XO (XO XH)))))))) :: ((Npos (XO (XO (XO (XO (XI (XO (XO
    XH)))))))) :: ((Npos (XO (XO (XO (XO (XI (XO (XO XH)))))))) :: ((Npos (XO
    (XO (XO (XO (XI (XO (XO XH)))))))) :: ((Npos (XO (XO (XO (XO (XI (XO (XO
    XH)))))))) :: ((Npos (XO (XO (XO (XO (XI (XO (XO XH)))))))) :: ((Npos (XO
    (XO (XO (XO (XI (XO (XO XH)))))))) :: ((Npos (XO (XO (XO (XO (XI (XO (XO
    XH)))))))) :: ((Npos (XO (XO (XO (XO (XI (XO (XO XH)))))))) :: ((Npos (XO
    (XO (XO (XO (XI (XO (XO XH)))))))) :: ((Npos (XO (XO (XO (XO (XI (XO (XO
    XH)))))))) :: ((Npos (XO (XO (XO (XO (XI (XO (XO XH)))))))) :: ((Npos (XO
    (XO (XO (XO (XI (XO (XO XH)))))))) :: ((Npos (XO (XO (XO (XO (XI (XO (XO
    XH)))))))) :: ((Npos (XO (XO (XO (XO (XI (XO (XO XH)))))))) :: ((Npos (XO
    (XO (XO (XO (XI (XO (XO XH)))))))) :: ((Npos (XO (XO (XO (XO (XI (XO (XO
    XH)))))))) :: ((Npos (XO (XO (XO (XO (XI (XO (XO XH)))))))) :: ((Npos (XO
    (XO (XO (XO (XI (XO (XO XH)))))))) :: ((Npos (XO (XO (XO (XO (XI (XO (XO
    XH)))))))) :: ((Npos (XO (XO (XO (XO (XI (XO (XO XH)))))))) :: ((Npos (XO
    (XO (XO (XO (XI (XO (XO XH)))))))) :: ((Npos (XO (XO (XO (XO (XI (XO (XO
    XH)))))))) :: ((Npos (XO (XO (XO (XO (XI (XO (XO XH)))))))) :: ((Npos (XO
    (XO (XO (XO (XI (XO (XO XH)))))))) :: ((Npos (XO (XO (XO (XO (XI (XO (XO
    XH)))))))) :: ((Npos (XO (XO (XO (XO (XI (XO (XO XH)))))))) :: ((Npos (XO
    (XO (XO (XO (XI (XO (XO XH)))))))) :: ((Npos (XO (XO (XO (XO (XI (XO (XO
    XH)))))))) :: ((Npos (XO (XO (XO (XO (XI (XO (XO XH)))))))) :: ((Npos (XO
    (XO (XO (XO (XI (XO (XO XH)))))))) :: ((Npos (XO (XO (XO (XO (XI (XO (XO
    XH)))))))) :: ((Npos (XO (XO (XO (XO (XI (XO (XO XH)))))))) :: ((Npos (XO
    (XO (XO (XO (XI (XO (XO XH)))))))) :: ((Npos (XO (XO (XO (XO (XI (XO (XO
    XH)))))))) :: ((Npos (XO (XO (XO (XO (XI (XO (XO XH)))))))) :: ((Npos (XO
    (XO (XO (XO (XI (XO (XO XH)))))))) :: ((Npos (XO (XO (XO (XO (XI (XO (XO
    XH)))))))) :: ((Npos (XO (XO (XO (XO (XI (XO (XO XH)))))))) :: ((Npos (XO
    (XO (XO (XO (XI (XO (XO XH)))))))) :: ((Npos (XO (XO (XO (XO (XI (XO (XO
    XH)))))))) :: ((Npos (XO (XO (XO (XO (XI (XO (XO XH)))))))) :: ((Npos (XO
    (XO (XO (XO (XI (XO (XO XH)))))))) :: ((Npos (XO (XO (XO (XO (XI (XO (XO
    XH)))))))) :: ((Npos (XO (XO (XO (XO (XI (XO (XO XH)))))))) :: ((Npos (XO
    (XO (XO (XO (XI (XO (XO XH)))))))) :: ((Npos (XO (XO (XO (XO (XI (XO (XO
    XH)))))))) :: ((Npos (XO (XO (XO (XO (XI (XO (XO XH)))))))) :: ((Npos (XO
    (XO (XO (XO (XI (XO (XO XH)))))))) :: ((Npos (XO (XO (XO (XO (XI (XO (XO
    XH)))))))) :: ((Npos (XO (XO (XO (XO (XI (XO (XO XH)))))))) :: ((Npos (XO
    (XO (XO (XO (XI (XO (XO XH)))))))) :: ((Npos (XO (XO (XO (XO (XI (XO (XO
    XH)))))))) :: ((Npos (XO (XO (XO (XO (XI (XO (XO XH)))))))) :: ((Npos (XO
    (XO (XO (XO (XI (XO (XO XH)))))))) :: ((Npos (XO (XO (XO (XO (XI (XO (XO
    XH)))))))) :: ((Npos (XO (XO (XO (XO (XI (XO (XO XH)))))))) :: ((Npos (XO
    (XO (XO (XO (XI (XO (XO XH)))))))) :: ((Npos (XO (XO (XO (XO (XI (XO (XO
    XH)))))))) :: ((Npos (XO (XO (XO (XO (XI (XO (XO XH)))))))) :: ((Npos (XO
    (XO (XO (XO (XI (XO (XO XH)))))))) :: ((Npos (XO (XO (XO (XO (XI (XO (XO
    XH)))))))) :: ((Npos (XO (XO (XO (XO (XI (XO (XO XH)))))))) :: ((Npos (XO
    (XO (XO (XO (XI (XO (XO XH)))))))) :: ((Npos (XO (XO (XO (XO (XI (XO (XO
    XH)))))))) :: ((Npos (XO (XO (XO (XO (XI (XO (XO XH)))))))) :: ((Npos (XO
    (XO (XO (XO (XI (XO (XO XH)))))))) :: ((Npos (XO (XO (XO (XO (XI (XO (XO
    XH)))))))) :: ((Npos (XO (XO (XO (XO (XI (XO (XO XH)))))))) :: ((Npos (XO
    (XO (XO (XO (XI (XO (XO XH)))))))) :: ((Npos (XO (XO (XO (XO (XI (XO (XO
    XH)))))))) :: ((Npos (XO (XO (XO (XO (XI (XO (XO XH)))))))) :: ((Npos (XO
    (XO (XO (XO (XI (XO (XO XH)))))))) :: ((Npos (XO (XO (XO (XO (XI (XO (XO
    XH)))))))) :: ((Npos (XO (XO (XO (XO (XI (XO (XO XH)))))))) :: ((Npos (XO
    (XO (XO (XO (XI (XO (XO XH)))))))) :: ((Npos (XO (XO (XO (XO (XI (XO (XO
    XH)))))))) :: ((Npos (XO (XO (XO (XO (XI (XO (XO XH)))))))) :: ((Npos (XO
    (XO (XO (XO (XI (XO (XO XH)))))))) :: ((Npos (XO (XO (XO (XO (XI (XO (XO
    XH)))))))) :: ((Npos (XO (XO (XO (XO (XI (XO (XO XH)))))))) :: ((Npos (XO
    (XO (XO (XO (XI (XO (XO XH)))))))) :: ((Npos (XO (XO (XO (XO (XI (XO (XO
    XH)))))))) :: ((Npos (XO (XO (XO (XO (XI (XO (XO XH)))))))) :: ((Npos (XO
    (XO (XO (XO (XI (XO (XO XH)))))))) :: ((Npos (XO (XO (XO (XO (XI (XO (XO
    XH)))))))) :: ((Npos (XO (XO (XO (XO (XI (XO (XO XH)))))))) :: ((Npos (XO
    (XO (XO (XO (XI (XO (XO XH)))))))) :: ((Npos (XO (XO (XO (XO (XI (XO (XO
    XH)))))))) :: ((Npos (XO (XO (XO (XO (XI (XO (XO XH)))))))) :: ((Npos (XO
    (XO (XO (XO (XI (XO (XO XH)))))))) :: ((Npos (XO (XO (XO (XO (XI (XO (XO
    XH)))))))) :: ((Npos (XO (XO (XO (XO (XI (XO (XO XH)))))))) :: ((Npos (XO
    (XO (XO (XO (XI (XO (XO XH)))))))) :: ((Npos (XO (XO (XO (XO (XI (XO (XO
    XH)))))))) :: ((Npos (XO (XO (XO (XO (XI (XO (XO XH)))))))) :: ((Npos (XO
    (XO (XO (XO (XI (XO (XO XH)))))))) :: ((Npos (XO (XO (XO (XO (XI (XO (XO
    XH)))))))) :: ((Npos (XO (XO (XO (XO (XI (XO (XO XH)))))))) :: ((Npos (XO
    (XO (XO (XO (XI (XO (XO XH)))))))) :: ((Npos (XO (XO (XO (XO (XI (XO (XO
    XH)))))))) :: ((Npos (XO (XO (XO (XO (XI (XO (XO XH)))))))) :: ((Npos (XO
    (XO (XO (XO (XI (XO (XO XH)))))))) :: ((Npos (XO (XO (XO (XO (XI (XO (XO
    XH)))))))) :: ((Npos (XO (XO (XO (XO (XI (XO (XO XH)))))))) :: ((Npos (XO
    (XO (XO (XO (XI (XO (XO XH)))))))) :: ((Npos (XO (XO (XO (XO (XI (XO (XO
    XH)))))))) :: ((Npos (XO (XO (XO (XO (XI (XO (XO XH)))))))) :: ((Npos (XO
    (XO (XO (XO (XI (XO (XO XH)))))))) :: ((Npos (XO (XO (XO (XO (XI (XO (XO
    XH)))))))) :: ((Npos (XO (XO (XO (XO (XI (XO (XO XH)))))))) :: ((Npos (XO
    (XO (XO (XO (XI (XO (XO XH)))))))) :: ((Npos (XO (XO (XO (XO (XI (XO (XO
    XH)))))))) :: ((Npos (XO (XO (XO (XO (XI (XO (XO XH)))))))) :: ((Npos (XO
    (XO (XO (XO (XI (XO (XO XH)))))))) :: ((Npos (XO (XO (XO (XO (XI (XO (XO
    XH)))))))) :: ((Npos (XO (XO (XO (XO (XI (XO (XO XH)))))))) :: ((Npos (XO
    (XO (XO (XO (XI (XO (XO XH)))))))) :: ((Npos (XO (XO (XO (XO (XI (XO (XO
    XH)))))))) :: ((Npos (XO (XO (XO (XO (XI (XO (XO XH)))))))) :: ((Npos (XO
    (XO (XO (XO (XI (XO (XO XH)))))))) :: ((Npos (XO (XO (XO (XO (XI (XO (XO
    XH)))))))) :: ((Npos (XO (XO (XO (XO (XI (XO (XO XH)))))))) :: ((Npos (XO
    (XO (XO (XO (XI (XO (XO XH)))))))) :: ((Npos (XO (XO (XO (XO (XI (XO (XO
    XH)))))))) :: ((Npos (XO (XO (XO (XO (XI (XO (XO XH)))))))) :: ((Npos (XO
    (XO (XO (XO (XI (XO (XO XH)))))))) :: ((Npos (XO (XO (XO (XO (XI (XO (XO
    XH)))))))) :: ((Npos (XO (XO (XO (XO (XI (XO (XO XH)))))))) :: ((Npos (XO
    (XO (XO (XO (XI (XO (XO
    XH)))))))) :: [])))))))))))))))))))))))))))))))))))))))))))))))))))))))))))))))))))))))))))))))))))))))))))))))))))))))))))))))))))))))))))))))))))))))))))))))))))))))))))))))))))))))))))))))))))))))))))))))))))))))))))))))))))))))))))))))))))))))))))))))))))))))))))))))) :: (((Npos
    (XO (XO (XO (XO (XI (XI XH))))))) :: ((Npos (XO (XO (XO (XO (XI (XI
    XH))))))) :: ((Npos (XO (XO (XO (XO (XI (XI XH))))))) :: ((Npos (XO (XO
    (XO (XO (XI (XI XH))))))) :: ((Npos (XO (XO (XO (XO (XI (XI
    XH))))))) :: ((Npos (XO (XO (XO (XO (XI (XI XH))))))) :: ((Npos (XO (XO
    (XO (XO (XI (XI XH))))))) :: ((Npos (XO (XO (XO (XO (XI (XI
    XH))))))) :: ((Npos (XO (XO (XO (XO (XI (XI XH))))))) :: ((Npos (XO (XO
    (XO (XO (XI (XI XH))))))) :: ((Npos (XO (XO (XO (XO (XI (XI
    XH))))))) :: ((Npos (XO (XO (XO (XO (XI (XI XH))))))) :: ((Npos (XO (XO
    (XO (XO (XI (XI XH))))))) :: ((Npos (XO (XO (XO (XO (XI (XI
    XH))))))) :: ((Npos (XO (XO (XO (XO (XI (XI XH))))))) :: ((Npos (XO (XO
    (XO (XO (XI (XI XH))))))) :: ((Npos (XO (XO (XO (XO (XI (XI
    XH))))))) :: ((Npos (XO (XO (XO (XO (XI (XI XH))))))) :: ((Npos (XO (XO
    (XO (XO (XI (XI XH))))))) :: ((Npos (XO (XO (XO (XO (XI (XI
    XH))))))) :: ((Npos (XO (XO (XO (XO (XI (XI XH))))))) :: ((Npos (XO (XO
    (XO (XO (XI (XI XH))))))) :: ((Npos (XO (XO (XO (XO (XI (XI
    XH))))))) :: ((Npos (XO (XO (XO (XO (XI (XI XH))))))) :: (N0 :: ((Npos
    (XO (XO (XO (XO (XI (XI XH))))))) :: (N0 :: (N0 :: ((Npos (XO (XO (XO (XO
    (XI (XI XH))))))) :: ((Npos (XO (XO (XO (XO (XI (XI XH))))))) :: ((Npos
    (XO (XO (XO (XO (XI (XI XH))))))) :: ((Npos (XO (XO (XO (XO (XI (XI
    XH))))))) :: ((Npos (XO (XO (XO (XO (XI (XI XH))))))) :: ((Npos (XO (XO
    (XO (XO (XI (XI XH))))))) :: ((Npos (XO (XO (XO (XO (XI (XI
    XH))))))) :: ((Npos (XO (XO (XO (XO (XI (XI XH))))))) :: ((Npos (XO (XO
    (XO (XO (XI (XI XH))))))) :: ((Npos (XO (XO (XO (XO (XI (XI
    XH))))))) :: ((Npos (XO (XO (XO (XO (XI (XI XH))))))) :: ((Npos (XO (XO
    (XO (XO (XI (XI XH))))))) :: ((Npos (XO (XO (XO (XO (XI (XI
    XH))))))) :: ((Npos (XO (XO (XO (XO (XI (XI XH))))))) :: ((Npos (XO (XO
    (XO (XO (XI (XI XH))))))) :: ((Npos (XO (XO (XO (XO (XI (XI
    XH))))))) :: ((Npos (XO (XO (XO (XO (XI (XI XH))))))) :: ((Npos (XO (XO
    (XO (XO (XI (XI XH))))))) :: ((Npos (XO (XO (XO (XO (XI (XI
    XH))))))) :: ((Npos (XO (XO (XO (XO (XI (XI XH))))))) :: ((Npos (XO (XO
    (XO (XO (XI (XI XH))))))) :: ((Npos (XO (XO (XO (XO (XI (XI
    XH))))))) :: ((Npos (XO (XO (XO (XO (XI (XI XH))))))) :: ((Npos (XO (XO
    (XO (XO (XI (XI XH))))))) :: ((Npos (XO (XO (XO (XO (XI (XI
    XH))))))) :: ((Npos (XO (XO (XO (XO (XI (XI XH))))))) :: ((Npos (XO (XO
    (XO (XO (XI (XI XH))))))) :: ((Npos (XO (XO (XO (XO (XI (XI
    XH))))))) :: ((Npos (XO (XO (XO (XO (XI (XI XH))))))) :: ((Npos (XO (XO
    (XO (XO (XI (XI XH))))))) :: ((Npos (XO (XO (XO (XO (XI (XI
    XH))))))) :: ((Npos (XO (XO (XO (XO (XI (XI XH))))))) :: ((Npos (XO (XO
    (XO (XO (XI (XI XH))))))) :: ((Npos (XO (XO (XO (XO (XI (XI
    XH))))))) :: ((Npos (XO (XO (XO (XO (XI (XI XH))))))) :: ((Npos (XO (XO
    (XO (XO (XI (XI XH))))))) :: ((Npos (XO (XO (XO (XO (XI (XI
    XH))))))) :: ((Npos (XO (XO (XO (XO (XI (XI XH))))))) :: ((Npos (XO (XO
    (XO (XO (XI (XI XH))))))) :: ((Npos (XO (XO (XO (XO (XI (XI
    XH))))))) :: ((Npos (XO (XO (XO (XO (XI (XI XH))))))) :: ((Npos (XO (XO
    (XO (XO (XI (XI XH))))))) :: ((Npos (XO (XO (XO (XO (XI (XI
    XH))))))) :: ((Npos (XO (XO (XO (XO (XI (XI XH))))))) :: ((Npos (XO (XO
    (XO (XO (XI (XI XH))))))) :: ((Npos (XO (XO (XO (XO (XI (XI
    XH))))))) :: ((Npos (XO (XO (XO (XO (XI (XI XH))))))) :: ((Npos (XO (XO
    (XO (XO (XI (XI XH))))))) :: ((Npos (XO (XO (XO (XO (XI (XI
    XH))))))) :: ((Npos (XO (XO (XO (XO (XI (XI XH))))))) :: ((Npos (XO (XO
    (XO (XO (XI (XI XH))))))) :: ((Npos (XO (XO (XO (XO (XI (XI
    XH))))))) :: ((Npos (XO (XO (XO (XO (XI (XI XH))))))) :: ((Npos (XO (XO
    (XO (XO (XI (XI XH))))))) :: ((Npos (XO (XO (XO (XO (XI (XI
    XH))))))) :: ((Npos (XO (XO (XO (XO (XI (XI XH))))))) :: ((Npos (XO (XO
    (XO (XO (XI (XI XH))))))) :: ((Npos (XO (XO (XO (XO (XI (XI
    XH))))))) :: ((Npos (XO (XO (XO (XO (XI (XI XH))))))) :: ((Npos (XO (XO
    (XO (XO (XI (XI XH))))))) :: ((Npos (XO (XO (XO (XO (XI (XI
    XH))))))) :: ((Npos (XO (XO (XO (XO (XI (XI XH))))))) :: ((Npos (XO (XO
    (XO (XO (XI (XI XH))))))) :: ((Npos (XO (XO (XO (XO (XI (XI
    XH))))))) :: ((Npos (XO (XO (XO (XO (XI (XI XH))))))) :: ((Npos (XO (XO
    (XO (XO (XI (XI XH))))))) :: ((Npos (XO (XO (XO (XO (XI (XI
    XH))))))) :: ((Npos (XO (XO (XO (XO (XI (XI XH))))))) :: ((Npos (XO (XO
    (XO (XO (XI (XI XH))))))) :: ((Npos (XO (XO (XO (XO (XI (XI
    XH))))))) :: ((Npos (XO (XO (XO (XO (XI (XI XH))))))) :: ((Npos (XO (XO
    (XO (XO (XI (XI XH))))))) :: ((Npos (XO (XO (XO (XO (XI (XI
    XH))))))) :: ((Npos (XO (XO (XO (XO (XI (XI XH))))))) :: ((Npos (XO (XO
    (XO (XO (XI (XI XH))))))) :: ((Npos (XO (XO (XO (XO (XI (XI
    XH))))))) :: ((Npos (XO (XO (XO (XO (XI (XI XH))))))) :: ((Npos (XO (XO
    (XO (XO (XI (XI XH))))))) :: ((Npos (XO (XO (XO (XO (XI (XI
    XH))))))) :: ((Npos (XO (XO (XO (XO (XI (XI XH))))))) :: ((Npos (XO (XO
    (XO (XO (XI (XI XH))))))) :: ((Npos (XO (XO (XO (XO (XI (XI
    XH))))))) :: ((Npos (XO (XO (XO (XO (XI (XI XH))))))) :: ((Npos (XO (XO
    (XO (XO (XI (XI XH))))))) :: ((Npos (XO (XO (XO (XO (XI (XI
    XH))))))) :: ((Npos (XO (XO (XO (XO (XI (XI XH))))))) :: ((Npos (XO (XO
    (XO (XO (XI (XI XH))))))) :: ((Npos (XO (XO (XO (XO (XI (XI
    XH))))))) :: ((Npos (XO (XO (XO (XO (XI (XI XH))))))) :: ((Npos (XO (XO
    (XO (XO (XI (XI XH))))))) :: ((Npos (XO (XO (XO (XO (XI (XI
    XH))))))) :: ((Npos (XO (XO (XO (XO (XI (XI XH))))))) :: ((Npos (XO (XO
    (XO (XO (XI (XI XH))))))) :: ((Npos (XO (XO (XO (XO (XI (XI
    XH))))))) :: ((Npos (XO (XO (XO (XO (XI (XI XH))))))) :: ((Npos (XO (XO
    (XO (XO (XI (XI XH))))))) :: ((Npos (XO (XO (XO (XO (XI (XI
    XH))))))) :: ((Npos (XO (XO (XO (XO (XI (XI XH))))))) :: ((Npos (XO (XO
    (XO (XO (XI (XI XH))))))) :: ((Npos (XO (XO (XO (XO (XI (XI
    XH))))))) :: (N0 :: (N0 :: (N0 :: (N0 :: (N0 :: (N0 :: (N0 :: (N0 :: (N0 :: (N0 :: (N0 :: (N0 :: (N0 :: (N0 :: (N0 :: (N0 :: (N0 :: (N0 :: (N0 :: (N0 :: (N0 :: (N0 :: (N0 :: (N0 :: (N0 :: (N0 :: (N0 :: (N0 :: ((Npos
    (XO (XO (XI
    XH)))) :: (N0 :: (N0 :: (N0 :: (N0 :: (N0 :: (N0 :: (N0 :: (N0 :: (N0 :: (N0 :: (N0 :: (N0 :: (N0 :: (N0 :: (N0 :: (N0 :: (N0 :: (N0 :: (N0 :: (N0 :: (N0 :: (N0 :: (N0 :: (N0 :: (N0 :: (N0 :: (N0 :: (N0 :: (N0 :: (N0 :: (N0 :: (N0 :: (N0 :: (N0 :: (N0 :: (N0 :: (N0 :: (N0 :: (N0 :: (N0 :: (N0 :: (N0 :: (N0 :: (N0 :: (N0 :: (N0 :: (N0 :: (N0 :: (N0 :: (N0 :: (N0 :: (N0 :: (N0 :: (N0 :: (N0 :: (N0 :: (N0 :: (N0 :: (N0 :: (N0 :: (N0 :: (N0 :: (N0 :: (N0 :: (N0 :: (N0 :: (N0 :: (N0 :: (N0 :: (N0 :: (N0 :: (N0 :: (N0 :: (N0 :: (N0 :: (N0 :: (N0 :: (N0 :: (N0 :: (N0 :: (N0 :: (N0 :: (N0 :: (N0 :: (N0 :: (N0 :: (N0 :: (N0 :: (N0 :: (N0 :: (N0 :: (N0 :: (N0 :: (N0 :: (N0 :: (N0 :: (N0 :: (N0 :: (N0 :: [])))))))))))))))))))))))))))))))))))))))))))))))))))))))))))))))))))))))))))))))))))))))))))))))))))))))))))))))))))))))))))))))))))))))))))))))))))))))))))))))))))))))))))))))))))))))))))))))))))))))))))))))))))))))))))))))))))))))))))))))))))))))))))))))) :: ((N0 :: (N0 :: (N0 :: (N0 :: (N0 :: (N0 :: (N0 :: (N0 :: (N0 :: (N0 :: (N0 :: (N0 :: (N0 :: (N0 :: (N0 :: (N0 :: (N0 :: (N0 :: (N0 :: (N0 :: (N0 :: (N0 :: (N0 :: (N0 :: (N0 :: (N0 :: (N0 :: (N0 :: (N0 :: (N0 :: (N0 :: (N0 :: (N0 :: (N0 :: (N0 :: (N0 :: (N0 :: (N0 :: (N0 :: (N0 :: (N0 :: (N0 :: (N0 :: (N0 :: (N0 :: (N0 :: (N0 :: (N0 :: (N0 :: (N0 :: (N0 :: (N0 :: (N0 :: (N0 :: (N0 :: (N0 :: (N0 :: (N0 :: (N0 :: (N0 :: (N0 :: (N0 :: (N0 :: (N0 :: (N0 :: (N0 :: (N0 :: (N0 :: (N0 :: (N0 :: (N0 :: (N0 :: (N0 :: (N0 :: (N0 :: (N0 :: (N0 :: (N0 :: (N0 :: (N0 :: (N0 :: (N0 :: (N0 :: (N0 :: (N0 :: (N0 :: (N0 :: (N0 :: (N0 :: (N0 :: (N0 :: (N0 :: (N0 :: (N0 :: (N0 :: (N0 :: (N0 :: (N0 :: (N0 :: (N0 :: (N0 :: (N0 :: (N0 :: (N0 :: (N0 :: (N0 :: (N0 :: (N0 :: (N0 :: (N0 :: (N0 :: (N0 :: (N0 :: (N0 :: (N0 :: (N0 :: (N0 :: (N0 :: (N0 :: (N0 :: (N0 :: (N0 :: (N0 :: (N0 :: (N0 :: (N0 :: (N0 :: (N0 :: (N0 :: (N0 :: (N0 :: (N0 :: (N0 :: (N0 :: (N0 :: (N0 :: (N0 :: (N0 :: (N0 :: (N0 :: (N0 :: (N0 :: (N0 :: (N0 :: (N0 :: (N0 :: (N0 :: (N0 :: (N0 :: (N0 :: (N0 :: (N0 :: (N0 :: (N0 :: (N0 :: (N0 :: (N0 :: (N0 :: (N0 :: (N0 :: (N0 :: (N0 :: (N0 :: (N0 :: (N0 :: (N0 :: (N0 :: (N0 :: (N0 :: (N0 :: (N0 :: (N0 :: (N0 :: (N0 :: (N0 :: (N0 :: (N0 :: (N0 :: (N0 :: (N0 :: (N0 :: (N0 :: (N0 :: (N0 :: (N0 :: (N0 :: (N0 :: (N0 :: (N0 :: (N0 :: (N0 :: (N0 :: (N0 :: (N0 :: (N0 :: (N0 :: (N0 :: (N0 :: (N0 :: (N0 :: (N0 :: (N0 :: (N0 :: (N0 :: (N0 :: (N0 :: (N0 :: (N0 :: (N0 :: (N0 :: (N0 :: (N0 :: (N0 :: (N0 :: (N0 :: (N0 :: (N0 :: (N0 :: (N0 :: (N0 :: (N0 :: (N0 :: (N0 :: (N0 :: (N0 :: (N0 :: (N0 :: (N0 :: (N0 :: (N0 :: (N0 :: (N0 :: (N0 :: (N0 :: (N0 :: (N0 :: (N0 :: (N0 :: (N0 :: (N0 :: (N0 :: (N0 :: (N0 :: (N0 :: (N0 :: (N0 :: (N0 :: (N0 :: (N0 :: (N0 :: (N0 :: (N0 :: (N0 :: (N0 :: (N0 :: (N0 :: [])))))))))))))))))))))))))))))))))))))))))))))))))))))))))))))))))))))))))))))))))))))))))))))))))))))))))))))))))))))))))))))))))))))))))))))))))))))))))))))))))))))))))))))))))))))))))))))))))))))))))))))))))))))))))))))))))))))))))))))))))))))))))))))))) :: [])))))))))))))))

(** val mAX_INTERMEDIATES : n **)

let mAX_INTERMEDIATES =
  Npos (XO XH)

(** val mAX_OSC_PARAMS : n **)

let mAX_OSC_PARAMS =
  Npos (XO (XO (XO (XO XH))))

(** val mAX_PARAMS : n **)

let mAX_PARAMS =
  Npos (XO (XO (XO (XO (XO XH)))))

(** val in_range : n -> n -> n -> bool **)

let in_range lo hi b =
  (&&) (N.leb lo b) (N.leb b hi)

type ustate =
| UTail1
| UTail2
| UTail3
| UE0
| UED
| UF0
| UF4

(** val utf8_lead : n -> ustate option **)

let utf8_lead b =
  if in_range (Npos (XO (XI (XO (XO (XO (XO (XI XH)))))))) (Npos (XI (XI (XI
       (XI (XI (XO (XI XH)))))))) b
  then Some UTail1
  else if N.eqb b (Npos (XO (XO (XO (XO (XO (XI (XI XH))))))))
       then Some UE0
       else if in_range (Npos (XI (XO (XO (XO (XO (XI (XI XH)))))))) (Npos
                 (XO (XO (XI (XI (XO (XI (XI XH)))))))) b
            then Some UTail2
            else if N.eqb b (Npos (XI (XO (XI (XI (XO (XI (XI XH))))))))
                 then Some UED
                 else if in_range (Npos (XO (XI (XI (XI (XO (XI (XI
                           XH)))))))) (Npos (XI (XI (XI (XI (XO (XI (XI
                           XH)))))))) b
                      then Some UTail2
                      else if N.eqb b (Npos (XO (XO (XO (XO (XI (XI (XI
                                XH))))))))
                           then Some UF0
                           else if in_range (Npos (XI (XO (XO (XO (XI (XI (XI
                                     XH)))))))) (Npos (XI (XI (XO (XO (XI (XI
                                     (XI XH)))))))) b
                                then Some UTail3
                                else if N.eqb b (Npos (XO (XO (XI (XO (XI (XI
                                          (XI XH))))))))
                                     then Some UF4
                                     else None

type ucont =
| UMore of ustate
| UDone
| UBad

(** val utf8_cont : ustate -> n -> ucont **)

let utf8_cont u b =
  match u with
  | UTail1 ->
    if in_range (Npos (XO (XO (XO (XO (XO (XO (XO XH)))))))) (Npos (XI (XI
         (XI (XI (XI (XI (XO XH)))))))) b
    then UDone
    else UBad
  | UTail2 ->
    if in_range (Npos (XO (XO (XO (XO (XO (XO (XO XH)))))))) (Npos (XI (XI
         (XI (XI (XI (XI (XO XH)))))))) b
    then UMore UTail1
    else UBad
  | UTail3 ->
    if in_range (Npos (XO (XO (XO (XO (XO (XO (XO XH)))))))) (Npos (XI (XI
         (XI (XI (XI (XI (XO XH)))))))) b
    then UMore UTail2
    else UBad
  | UE0 ->
    if in_range (Npos (XO (XO (XO (XO (XO (XI (XO XH)))))))) (Npos (XI (XI
         (XI (XI (XI (XI (XO XH)))))))) b
    then UMore UTail1
    else UBad
  | UED ->
    if in_range (Npos (XO (XO (XO (XO (XO (XO (XO XH)))))))) (Npos (XI (XI
         (XI (XI (XI (XO (XO XH)))))))) b
    then UMore UTail1
    else UBad
  | UF0 ->
    if in_range (Npos (XO (XO (XO (XO (XI (XO (XO XH)))))))) (Npos (XI (XI
         (XI (XI (XI (XI (XO XH)))))))) b
    then UMore UTail2
    else UBad
  | UF4 ->
    if in_range (Npos (XO (XO (XO (XO (XO (XO (XO XH)))))))) (Npos (XI (XI
         (XI (XI (XO (XO (XO XH)))))))) b
    then UMore UTail2
    else UBad

(** val valid_from : ustate option -> n list -> bool **)

let rec valid_from u = function
| [] -> (match u with
         | Some _ -> false
         | None -> true)
| b :: rest ->
  (match u with
   | Some u0 ->
     (match utf8_cont u0 b with
      | UMore u' -> valid_from (Some u') rest
      | UDone -> valid_from None rest
      | UBad -> false)
   | None ->
     if N.ltb b (Npos (XO (XO (XO (XO (XO (XO (XO XH))))))))
     then valid_from None rest
     else (match utf8_lead b with
           | Some u' -> valid_from (Some u') rest
           | None -> false))

(** val valid_utf8 : n list -> bool **)

let valid_utf8 bs =
  valid_from None bs

(** val utf8_decode : n list -> n **)

let utf8_decode = function
| [] ->
  Npos (XI (XO (XI (XI (XI (XI (XI (XI (XI (XI (XI (XI (XI (XI (XI
    XH)))))))))))))))
| a :: l ->
  (match l with
   | [] -> a
   | b :: l0 ->
     (match l0 with
      | [] ->
        N.add
          (N.mul (N.modulo a (Npos (XO (XO (XO (XO (XO XH))))))) (Npos (XO
            (XO (XO (XO (XO (XO XH))))))))
          (N.modulo b (Npos (XO (XO (XO (XO (XO (XO XH))))))))
      | c :: l1 ->
        (match l1 with
         | [] ->
           N.add
             (N.add
               (N.mul (N.modulo a (Npos (XO (XO (XO (XO XH)))))) (Npos (XO
                 (XO (XO (XO (XO (XO (XO (XO (XO (XO (XO (XO XH))))))))))))))
               (N.mul (N.modulo b (Npos (XO (XO (XO (XO (XO (XO XH))))))))
                 (Npos (XO (XO (XO (XO (XO (XO XH)))))))))
             (N.modulo c (Npos (XO (XO (XO (XO (XO (XO XH))))))))
         | d :: l2 ->
           (match l2 with
            | [] ->
              N.add
                (N.add
                  (N.add
                    (N.mul (N.modulo a (Npos (XO (XO (XO XH))))) (Npos (XO
                      (XO (XO (XO (XO (XO (XO (XO (XO (XO (XO (XO (XO (XO (XO
                      (XO (XO (XO XH))))))))))))))))))))
                    (N.mul
                      (N.modulo b (Npos (XO (XO (XO (XO (XO (XO XH))))))))
                      (Npos (XO (XO (XO (XO (XO (XO (XO (XO (XO (XO (XO (XO
                      XH)))))))))))))))
                  (N.mul (N.modulo c (Npos (XO (XO (XO (XO (XO (XO XH))))))))
                    (Npos (XO (XO (XO (XO (XO (XO XH)))))))))
                (N.modulo d (Npos (XO (XO (XO (XO (XO (XO XH))))))))
            | _ :: _ ->
              Npos (XI (XO (XI (XI (XI (XI (XI (XI (XI (XI (XI (XI (XI (XI
                (XI XH)))))))))))))))))))

(** val replacement : n **)

let replacement =
  Npos (XI (XO (XI (XI (XI (XI (XI (XI (XI (XI (XI (XI (XI (XI (XI
    XH)))))))))))))))

type vstate =
| VGround
| VEscape
| VEscInt
| VCsiEntry
| VCsiParam
| VCsiInt
| VCsiIgnore
| VDcsEntry
| VDcsParam
| VDcsInt
| VDcsPass
| VDcsIgnore
| VOsc
| VSos

type vact =
| TNone
| TIgnore
| TPrint
| TExecute
| TCollect
| TParam
| TEscDispatch
| TCsiDispatch
| TPut
| TOscPut
| TUtf8

type event =
| EPrint of n
| EExecute of n
| EHook of n list list * n list * bool * n
| EPut of n
| EUnhook
| EOsc of n list list * bool
| ECsi of n list list * n list * bool * n
| EEsc of n list * bool * n

(** val c0 : n -> bool **)

let c0 b =
  (||)
    ((||) (in_range N0 (Npos (XI (XI (XI (XO XH))))) b)
      (N.eqb b (Npos (XI (XO (XO (XI XH)))))))
    (in_range (Npos (XO (XO (XI (XI XH))))) (Npos (XI (XI (XI (XI XH))))) b)

(** val vt_trans : vstate -> n -> vstate option * vact **)

let vt_trans s b =
  if (||) (N.eqb b (Npos (XO (XO (XO (XI XH))))))
       (N.eqb b (Npos (XO (XI (XO (XI XH))))))
  then ((Some VGround), TExecute)
  else if N.eqb b (Npos (XI (XI (XO (XI XH)))))
       then ((Some VEscape), TNone)
       else (match s with
             | VGround ->
               if c0 b
               then (None, TExecute)
               else if in_range (Npos (XO (XO (XO (XO (XO XH)))))) (Npos (XI
                         (XI (XI (XI (XI (XI XH))))))) b
                    then (None, TPrint)
                    else if (||)
                              ((||)
                                (in_range (Npos (XO (XO (XO (XO (XO (XO (XO
                                  XH)))))))) (Npos (XI (XI (XI (XI (XO (XO
                                  (XO XH)))))))) b)
                                (in_range (Npos (XI (XO (XO (XO (XI (XO (XO
                                  XH)))))))) (Npos (XO (XI (XO (XI (XI (XO
                                  (XO XH)))))))) b))
                              (N.eqb b (Npos (XO (XO (XI (XI (XI (XO (XO
                                XH)))))))))
                         then (None, TExecute)
                         else if in_range (Npos (XO (XI (XO (XO (XO (XO (XI
                                   XH)))))))) (Npos (XO (XO (XI (XO (XI (XI
                                   (XI XH)))))))) b
                              then (None, TUtf8)
                              else (None, TNone)
             | VEscape ->
               if c0 b
               then (None, TExecute)
               else if N.eqb b (Npos (XI (XI (XI (XI (XI (XI XH)))))))
                    then (None, TIgnore)
                    else if in_range (Npos (XO (XO (XO (XO (XO XH)))))) (Npos
                              (XI (XI (XI (XI (XO XH)))))) b
                         then ((Some VEscInt), TCollect)
                         else if N.eqb b (Npos (XO (XO (XO (XO (XI (XO
                                   XH)))))))
                              then ((Some VDcsEntry), TNone)
                              else if N.eqb b (Npos (XI (XI (XO (XI (XI (XO
                                        XH)))))))
                                   then ((Some VCsiEntry), TNone)
                                   else if N.eqb b (Npos (XI (XO (XI (XI (XI
                                             (XO XH)))))))
                                        then ((Some VOsc), TNone)
                                        else if (||)
                                                  ((||)
                                                    (N.eqb b (Npos (XO (XO
                                                      (XO (XI (XI (XO
                                                      XH))))))))
                                                    (N.eqb b (Npos (XO (XI
                                                      (XI (XI (XI (XO
                                                      XH)))))))))
                                                  (N.eqb b (Npos (XI (XI (XI
                                                    (XI (XI (XO XH))))))))
                                             then ((Some VSos), TNone)
                                             else if in_range (Npos (XO (XO
                                                       (XO (XO (XI XH))))))
                                                       (Npos (XO (XI (XI (XI
                                                       (XI (XI XH))))))) b
                                                  then ((Some VGround),
                                                         TEscDispatch)
                                                  else (None, TNone)
             | VEscInt ->
               if c0 b
               then (None, TExecute)
               else if N.eqb b (Npos (XI (XI (XI (XI (XI (XI XH)))))))
                    then (None, TIgnore)
                    else if in_range (Npos (XO (XO (XO (XO (XO XH)))))) (Npos
                              (XI (XI (XI (XI (XO XH)))))) b
                         then (None, TCollect)
                         else if in_range (Npos (XO (XO (XO (XO (XI XH))))))
                                   (Npos (XO (XI (XI (XI (XI (XI XH))))))) b
                              then ((Some VGround), TEscDispatch)
                              else (None, TNone)
             | VCsiEntry ->
               if c0 b
               then (None, TExecute)
               else if N.eqb b (Npos (XI (XI (XI (XI (XI (XI XH)))))))
                    then (None, TIgnore)
                    else if in_range (Npos (XO (XO (XO (XO (XO XH)))))) (Npos
                              (XI (XI (XI (XI (XO XH)))))) b
                         then ((Some VCsiInt), TCollect)
                         else if in_range (Npos (XO (XO (XO (XO (XI XH))))))
                                   (Npos (XI (XI (XO (XI (XI XH)))))) b
                              then ((Some VCsiParam), TParam)
                              else if in_range (Npos (XO (XO (XI (XI (XI
                                        XH)))))) (Npos (XI (XI (XI (XI (XI
                                        XH)))))) b
                                   then ((Some VCsiParam), TCollect)
                                   else if in_range (Npos (XO (XO (XO (XO (XO
                                             (XO XH))))))) (Npos (XO (XI (XI
                                             (XI (XI (XI XH))))))) b
                                        then ((Some VGround), TCsiDispatch)
                                        else (None, TNone)
             | VCsiParam ->
               if c0 b
               then (None, TExecute)
               else if N.eqb b (Npos (XI (XI (XI (XI (XI (XI XH)))))))
                    then (None, TIgnore)
                    else if in_range (Npos (XO (XO (XO (XO (XI XH)))))) (Npos
                              (XI (XI (XO (XI (XI XH)))))) b
                         then (None, TParam)
                         else if in_range (Npos (XO (XO (XI (XI (XI XH))))))
                                   (Npos (XI (XI (XI (XI (XI XH)))))) b
                              then ((Some VCsiIgnore), TNone)
                              else if in_range (Npos (XO (XO (XO (XO (XO
                                        XH)))))) (Npos (XI (XI (XI (XI (XO
                                        XH)))))) b
                                   then ((Some VCsiInt), TCollect)
                                   else if in_range (Npos (XO (XO (XO (XO (XO
                                             (XO XH))))))) (Npos (XO (XI (XI
                                             (XI (XI (XI XH))))))) b
                                        then ((Some VGround), TCsiDispatch)
                                        else (None, TNone)
             | VCsiInt ->
               if c0 b
               then (None, TExecute)
               else if N.eqb b (Npos (XI (XI (XI (XI (XI (XI XH)))))))
                    then (None, TIgnore)
                    else if in_range (Npos (XO (XO (XO (XO (XO XH)))))) (Npos
                              (XI (XI (XI (XI (XO XH)))))) b
                         then (None, TCollect)
                         else if in_range (Npos (XO (XO (XO (XO (XI XH))))))
                                   (Npos (XI (XI (XI (XI (XI XH)))))) b
                              then ((Some VCsiIgnore), TNone)
                              else if in_range (Npos (XO (XO (XO (XO (XO (XO
                                        XH))))))) (Npos (XO (XI (XI (XI (XI
                                        (XI XH))))))) b
                                   then ((Some VGround), TCsiDispatch)
                                   else (None, TNone)
             | VCsiIgnore ->
               if c0 b
               then (None, TExecute)
               else if (||)
                         (in_range (Npos (XO (XO (XO (XO (XO XH)))))) (Npos
                           (XI (XI (XI (XI (XI XH)))))) b)
                         (N.eqb b (Npos (XI (XI (XI (XI (XI (XI XH))))))))
                    then (None, TIgnore)
                    else if in_range (Npos (XO (XO (XO (XO (XO (XO XH)))))))
                              (Npos (XO (XI (XI (XI (XI (XI XH))))))) b
                         then ((Some VGround), TNone)
                         else (None, TNone)
             | VDcsEntry ->
               if c0 b
               then (None, TIgnore)
               else if N.eqb b (Npos (XI (XI (XI (XI (XI (XI XH)))))))
                    then (None, TIgnore)
                    else if in_range (Npos (XO (XO (XO (XO (XO XH)))))) (Npos
                              (XI (XI (XI (XI (XO XH)))))) b
                         then ((Some VDcsInt), TCollect)
                         else if in_range (Npos (XO (XO (XO (XO (XI XH))))))
                                   (Npos (XI (XI (XO (XI (XI XH)))))) b
                              then ((Some VDcsParam), TParam)
                              else if in_range (Npos (XO (XO (XI (XI (XI
                                        XH)))))) (Npos (XI (XI (XI (XI (XI
                                        XH)))))) b
                                   then ((Some VDcsParam), TCollect)
                                   else if in_range (Npos (XO (XO (XO (XO (XO
                                             (XO XH))))))) (Npos (XO (XI (XI
                                             (XI (XI (XI XH))))))) b
                                        then ((Some VDcsPass), TNone)
                                        else (None, TNone)
             | VDcsParam ->
               if c0 b
               then (None, TIgnore)
               else if N.eqb b (Npos (XI (XI (XI (XI (XI (XI XH)))))))
                    then (None, TIgnore)
                    else if in_range (Npos (XO (XO (XO (XO (XI XH)))))) (Npos
                              (XI (XI (XO (XI (XI XH)))))) b
                         then (None, TParam)
                         else if in_range (Npos (XO (XO (XI (XI (XI XH))))))
                                   (Npos (XI (XI (XI (XI (XI XH)))))) b
                              then ((Some VDcsIgnore), TNone)
                              else if in_range (Npos (XO (XO (XO (XO (XO
                                        XH)))))) (Npos (XI (XI (XI (XI (XO
                                        XH)))))) b
                                   then ((Some VDcsInt), TCollect)
                                   else if in_range (Npos (XO (XO (XO (XO (XO
                                             (XO XH))))))) (Npos (XO (XI (XI
                                             (XI (XI (XI XH))))))) b
                                        then ((Some VDcsPass), TNone)
                                        else (None, TNone)
             | VDcsInt ->
               if c0 b
               then (None, TIgnore)
               else if N.eqb b (Npos (XI (XI (XI (XI (XI (XI XH)))))))
                    then (None, TIgnore)
                    else if in_range (Npos (XO (XO (XO (XO (XO XH)))))) (Npos
                              (XI (XI (XI (XI (XO XH)))))) b
                         then (None, TCollect)
                         else if in_range (Npos (XO (XO (XO (XO (XI XH))))))
                                   (Npos (XI (XI (XI (XI (XI XH)))))) b
                              then ((Some VDcsIgnore), TNone)
                              else if in_range (Npos (XO (XO (XO (XO (XO (XO
                                        XH))))))) (Npos (XO (XI (XI (XI (XI
                                        (XI XH))))))) b
                                   then ((Some VDcsPass), TNone)
                                   else (None, TNone)
             | VDcsPass ->
               if c0 b
               then (None, TPut)
               else if in_range (Npos (XO (XO (XO (XO (XO XH)))))) (Npos (XO
                         (XI (XI (XI (XI (XI XH))))))) b
                    then (None, TPut)
                    else if N.eqb b (Npos (XI (XI (XI (XI (XI (XI XH)))))))
                         then (None, TIgnore)
                         else if N.eqb b (Npos (XO (XO (XI (XI (XI (XO (XO
                                   XH))))))))
                              then ((Some VGround), TNone)
                              else (None, TNone)
             | VOsc ->
               if N.eqb b (Npos (XI (XI XH)))
               then ((Some VGround), TNone)
               else if c0 b
                    then (None, TIgnore)
                    else if in_range (Npos (XO (XO (XO (XO (XO XH)))))) (Npos
                              (XI (XI (XI (XI (XI (XI (XI XH)))))))) b
                         then (None, TOscPut)
                         else (None, TNone)
             | _ ->
               if c0 b
               then (None, TIgnore)
               else if in_range (Npos (XO (XO (XO (XO (XO XH)))))) (Npos (XI
                         (XI (XI (XI (XI (XI XH))))))) b
                    then (None, TIgnore)
                    else if N.eqb b (Npos (XO (XO (XI (XI (XI (XO (XO
                              XH))))))))
                         then ((Some VGround), TNone)
                         else (None, TNone))

(** val max_values : nat **)

let max_values =
  S (S (S (S (S (S (S (S (S (S (S (S (S (S (S (S (S (S (S (S (S (S (S (S (S
    (S (S (S (S (S (S (S O)))))))))))))))))))))))))))))))

(** val max_ints : nat **)

let max_ints =
  S (S O)

(** val max_osc_fields : nat **)

let max_osc_fields =
  S (S (S (S (S (S (S (S (S (S (S (S (S (S (S (S O)))))))))))))))

(** val max_value : n **)

let max_value =
  Npos (XI (XI (XI (XI (XI (XI (XI (XI (XI (XI (XI (XI (XI (XI (XI
    XH)))))))))))))))

type vt = { vs : vstate; ints : n list; ign : bool; closed : n list list;
            cur : n list; pend : n; osc : n list;
            uni : (ustate * n list) option }

(** val vt_init : vt **)

let vt_init =
  { vs = VGround; ints = []; ign = false; closed = []; cur = []; pend = N0;
    osc = []; uni = None }

(** val count_values : vt -> nat **)

let count_values s =
  add (length (concat s.closed)) (length s.cur)

(** val set_vs : vt -> vstate -> vt **)

let set_vs s v =
  { vs = v; ints = s.ints; ign = s.ign; closed = s.closed; cur = s.cur;
    pend = s.pend; osc = s.osc; uni = s.uni }

(** val clear : vt -> vt **)

let clear s =
  { vs = s.vs; ints = []; ign = false; closed = []; cur = []; pend = N0;
    osc = s.osc; uni = s.uni }

(** val collect : vt -> n -> vt **)

let collect s b =
  if eqb (length s.ints) max_ints
  then { vs = s.vs; ints = s.ints; ign = true; closed = s.closed; cur =
         s.cur; pend = s.pend; osc = s.osc; uni = s.uni }
  else { vs = s.vs; ints = (app s.ints (b :: [])); ign = s.ign; closed =
         s.closed; cur = s.cur; pend = s.pend; osc = s.osc; uni = s.uni }

(** val param : vt -> n -> vt **)

let param s b =
  if eqb (count_values s) max_values
  then { vs = s.vs; ints = s.ints; ign = true; closed = s.closed; cur =
         s.cur; pend = s.pend; osc = s.osc; uni = s.uni }
  else if N.eqb b (Npos (XI (XI (XO (XI (XI XH))))))
       then { vs = s.vs; ints = s.ints; ign = s.ign; closed =
              (app s.closed ((app s.cur (s.pend :: [])) :: [])); cur = [];
              pend = N0; osc = s.osc; uni = s.uni }
       else if N.eqb b (Npos (XO (XI (XO (XI (XI XH))))))
            then { vs = s.vs; ints = s.ints; ign = s.ign; closed = s.closed;
                   cur = (app s.cur (s.pend :: [])); pend = N0; osc = s.osc;
                   uni = s.uni }
            else { vs = s.vs; ints = s.ints; ign = s.ign; closed = s.closed;
                   cur = s.cur; pend =
                   (N.min max_value
                     (N.add (N.mul (Npos (XO (XI (XO XH)))) s.pend)
                       (N.sub b (Npos (XO (XO (XO (XO (XI XH))))))))); osc =
                   s.osc; uni = s.uni }

(** val final_params : vt -> n list list * bool **)

let final_params s =
  if eqb (count_values s) max_values
  then ((app s.closed (match s.cur with
                       | [] -> []
                       | _ :: _ -> s.cur :: [])), true)
  else ((app s.closed ((app s.cur (s.pend :: [])) :: [])), s.ign)

(** val split_on : n -> n list -> n list -> n list list **)

let rec split_on sep acc = function
| [] -> acc :: []
| b :: rest ->
  if N.eqb b sep
  then acc :: (split_on sep [] rest)
  else split_on sep (app acc (b :: [])) rest

(** val osc_fields : n list -> n list list **)

let osc_fields payload =
  firstn max_osc_fields
    (split_on (Npos (XI (XI (XO (XI (XI XH)))))) [] payload)

(** val osc_put : vt -> n -> vt **)

let osc_put s b =
  { vs = s.vs; ints = s.ints; ign = s.ign; closed = s.closed; cur = s.cur;
    pend = s.pend; osc = (app s.osc (b :: [])); uni = s.uni }

(** val osc_start : vt -> vt **)

let osc_start s =
  { vs = s.vs; ints = s.ints; ign = s.ign; closed = s.closed; cur = s.cur;
    pend = s.pend; osc = []; uni = s.uni }

(** val exit_events : vt -> n -> event list **)

let exit_events s b =
  match s.vs with
  | VDcsPass -> EUnhook :: []
  | VOsc -> (EOsc ((osc_fields s.osc), (N.eqb b (Npos (XI (XI XH)))))) :: []
  | _ -> []

(** val do_action : vt -> vact -> n -> vt * event list **)

let do_action s a b =
  match a with
  | TPrint -> (s, ((EPrint b) :: []))
  | TExecute -> (s, ((EExecute b) :: []))
  | TCollect -> ((collect s b), [])
  | TParam -> ((param s b), [])
  | TEscDispatch -> (s, ((EEsc (s.ints, s.ign, b)) :: []))
  | TCsiDispatch ->
    let (ps, ig) = final_params s in (s, ((ECsi (ps, s.ints, ig, b)) :: []))
  | TPut -> (s, ((EPut b) :: []))
  | TOscPut -> ((osc_put s b), [])
  | TUtf8 ->
    (match utf8_lead b with
     | Some u ->
       ({ vs = s.vs; ints = s.ints; ign = s.ign; closed = s.closed; cur =
         s.cur; pend = s.pend; osc = s.osc; uni = (Some (u, (b :: []))) }, [])
     | None -> (s, []))
  | _ -> (s, [])

(** val enter : vt -> vstate -> n -> vt * event list **)

let enter s t b =
  match t with
  | VEscape -> ((set_vs (clear s) t), [])
  | VCsiEntry -> ((set_vs (clear s) t), [])
  | VDcsEntry -> ((set_vs (clear s) t), [])
  | VDcsPass ->
    let (ps, ig) = final_params s in
    ((set_vs s t), ((EHook (ps, s.ints, ig, b)) :: []))
  | VOsc -> ((set_vs (osc_start s) t), [])
  | _ -> ((set_vs s t), [])

(** val set_uni : vt -> (ustate * n list) option -> vt **)

let set_uni s u =
  { vs = s.vs; ints = s.ints; ign = s.ign; closed = s.closed; cur = s.cur;
    pend = s.pend; osc = s.osc; uni = u }

(** val vt_step : vt -> n -> vt * event list **)

let vt_step s b =
  match s.uni with
  | Some p ->
    let (u, acc) = p in
    (match utf8_cont u b with
     | UMore u' -> ((set_uni s (Some (u', (app acc (b :: []))))), [])
     | UDone ->
       ((set_uni s None), ((EPrint (utf8_decode (app acc (b :: [])))) :: []))
     | UBad -> ((set_uni s None), ((EPrint replacement) :: [])))
  | None ->
    let (tgt, a) = vt_trans s.vs b in
    (match tgt with
     | Some t ->
       let ev_exit = exit_events s b in
       let (s1, ev_act) = do_action s a b in
       let (s2, ev_entry) = enter s1 t b in
       (s2, (app ev_exit (app ev_act ev_entry)))
     | None -> do_action s a b)

(** val vt_run : vt -> n list -> vt * event list **)

let rec vt_run s = function
| [] -> (s, [])
| b :: rest ->
  let (s1, e1) = vt_step s b in
  let (s2, e2) = vt_run s1 rest in (s2, (app e1 e2))

(** val spec_events : n list -> event list **)

let spec_events bs =
  snd (vt_run vt_init bs)

(** val is_ws_control : n -> bool **)

let is_ws_control b =
  (||)
    ((||)
      ((||) (N.eqb b (Npos (XI (XO (XO XH)))))
        (N.eqb b (Npos (XO (XI (XO XH))))))
      (N.eqb b (Npos (XO (XO (XI XH)))))) (N.eqb b (Npos (XI (XO (XI XH)))))

(** val keeps : vact -> n -> bool **)

let keeps a b =
  match a with
  | TPrint -> negb (N.eqb b (Npos (XI (XI (XI (XI (XI (XI XH))))))))
  | TExecute -> is_ws_control b
  | TUtf8 -> true
  | _ -> false

type sstate = { sv : vstate; su : ustate option }

(** val s_init : sstate **)

let s_init =
  { sv = VGround; su = None }

(** val plain_step : vstate -> n -> sstate * bool **)

let plain_step v b =
  let (tgt, a) = vt_trans v b in
  let v' = match tgt with
           | Some t -> t
           | None -> v in
  (match a with
   | TUtf8 -> ({ sv = v'; su = (utf8_lead b) }, true)
   | _ -> ({ sv = v'; su = None }, (keeps a b)))

(** val strip_step : sstate -> n -> sstate * bool **)

let strip_step s b =
  match s.su with
  | Some u ->
    if N.ltb b (Npos (XO (XO (XO (XO (XO (XO (XO XH))))))))
    then plain_step VGround b
    else (match utf8_cont u b with
          | UMore u' -> ({ sv = s.sv; su = (Some u') }, true)
          | _ -> ({ sv = s.sv; su = None }, true))
  | None -> plain_step s.sv b

(** val strip_run : sstate -> n list -> sstate * n list **)

let rec strip_run s = function
| [] -> (s, [])
| b :: rest ->
  let (s1, k) = strip_step s b in
  let (s2, out) = strip_run s1 rest in (s2, (if k then b :: out else out))

(** val spec_strip : n list -> n list **)

let spec_strip bs =
  snd (strip_run s_init bs)

(** val aget : 'a1 list -> n -> 'a1 option **)

let aget l i =
  nth_error l (N.to_nat i)

(** val aset_nat : 'a1 list -> nat -> 'a1 -> 'a1 list option **)

let rec aset_nat l i v =
  match l with
  | [] -> None
  | h :: t ->
    (match i with
     | O -> Some (v :: t)
     | S j ->
       (match aset_nat t j v with
        | Some t' -> Some (h :: t')
        | None -> None))

(** val aset : 'a1 list -> n -> 'a1 -> 'a1 list option **)

let aset l i v =
  aset_nat l (N.to_nat i) v

(** val slice : 'a1 list -> n -> n -> 'a1 list option **)

let slice l a b =
  if (&&) (N.leb a b) (N.leb b (N.of_nat (length l)))
  then Some (firstn (N.to_nat (N.sub b a)) (skipn (N.to_nat a) l))
  else None

(** val csub : n -> n -> n option **)

let csub a b =
  if N.leb b a then Some (N.sub a b) else None

(** val cadd : n -> n -> n -> n option **)

let cadd w a b =
  if N.ltb (N.add a b) (N.pow (Npos (XO XH)) w)
  then Some (N.add a b)
  else None

(** val u16_sat_mul : n -> n -> n **)

let u16_sat_mul a b =
  N.min (Npos (XI (XI (XI (XI (XI (XI (XI (XI (XI (XI (XI (XI (XI (XI (XI
    XH)))))))))))))))) (N.mul a b)

(** val u16_sat_add : n -> n -> n **)

let u16_sat_add a b =
  N.min (Npos (XI (XI (XI (XI (XI (XI (XI (XI (XI (XI (XI (XI (XI (XI (XI
    XH)))))))))))))))) (N.add a b)

type u8state =
| U8Ground
| U8Tail3
| U8Tail2
| U8Tail1
| U8_3_2_e0
| U8_3_2_ed
| U8_4_3_f0
| U8_4_3_f4

type u8action =
| InvalidSequence
| EmitByte
| SetByte1
| SetByte2
| SetByte2Top
| SetByte3
| SetByte3Top
| SetByte4

(** val rng : n -> n -> n -> bool **)

let rng lo hi b =
  (&&) (N.leb lo b) (N.leb b hi)

(** val u8_advance : u8state -> n -> u8state * u8action **)

let u8_advance s b =
  match s with
  | U8Ground ->
    if rng N0 (Npos (XI (XI (XI (XI (XI (XI XH))))))) b
    then (U8Ground, EmitByte)
    else if rng (Npos (XO (XI (XO (XO (XO (XO (XI XH)))))))) (Npos (XI (XI
              (XI (XI (XI (XO (XI XH)))))))) b
         then (U8Tail1, SetByte2Top)
         else if N.eqb b (Npos (XO (XO (XO (XO (XO (XI (XI XH))))))))
              then (U8_3_2_e0, SetByte3Top)
              else if rng (Npos (XI (XO (XO (XO (XO (XI (XI XH)))))))) (Npos
                        (XO (XO (XI (XI (XO (XI (XI XH)))))))) b
                   then (U8Tail2, SetByte3Top)
                   else if N.eqb b (Npos (XI (XO (XI (XI (XO (XI (XI
                             XH))))))))
                        then (U8_3_2_ed, SetByte3Top)
                        else if rng (Npos (XO (XI (XI (XI (XO (XI (XI
                                  XH)))))))) (Npos (XI (XI (XI (XI (XO (XI
                                  (XI XH)))))))) b
                             then (U8Tail2, SetByte3Top)
                             else if N.eqb b (Npos (XO (XO (XO (XO (XI (XI
                                       (XI XH))))))))
                                  then (U8_4_3_f0, SetByte4)
                                  else if rng (Npos (XI (XO (XO (XO (XI (XI
                                            (XI XH)))))))) (Npos (XI (XI (XO
                                            (XO (XI (XI (XI XH)))))))) b
                                       then (U8Tail3, SetByte4)
                                       else if N.eqb b (Npos (XO (XO (XI (XO
                                                 (XI (XI (XI XH))))))))
                                            then (U8_4_3_f4, SetByte4)
                                            else (U8Ground, InvalidSequence)
  | U8Tail3 ->
    if rng (Npos (XO (XO (XO (XO (XO (XO (XO XH)))))))) (Npos (XI (XI (XI (XI
         (XI (XI (XO XH)))))))) b
    then (U8Tail2, SetByte3)
    else (U8Ground, InvalidSequence)
  | U8Tail2 ->
    if rng (Npos (XO (XO (XO (XO (XO (XO (XO XH)))))))) (Npos (XI (XI (XI (XI
         (XI (XI (XO XH)))))))) b
    then (U8Tail1, SetByte2)
    else (U8Ground, InvalidSequence)
  | U8Tail1 ->
    if rng (Npos (XO (XO (XO (XO (XO (XO (XO XH)))))))) (Npos (XI (XI (XI (XI
         (XI (XI (XO XH)))))))) b
    then (U8Ground, SetByte1)
    else (U8Ground, InvalidSequence)
  | U8_3_2_e0 ->
    if rng (Npos (XO (XO (XO (XO (XO (XI (XO XH)))))))) (Npos (XI (XI (XI (XI
         (XI (XI (XO XH)))))))) b
    then (U8Tail1, SetByte2)
    else (U8Ground, InvalidSequence)
  | U8_3_2_ed ->
    if rng (Npos (XO (XO (XO (XO (XO (XO (XO XH)))))))) (Npos (XI (XI (XI (XI
         (XI (XO (XO XH)))))))) b
    then (U8Tail1, SetByte2)
    else (U8Ground, InvalidSequence)
  | U8_4_3_f0 ->
    if rng (Npos (XO (XO (XO (XO (XI (XO (XO XH)))))))) (Npos (XI (XI (XI (XI
         (XI (XI (XO XH)))))))) b
    then (U8Tail2, SetByte3)
    else (U8Ground, InvalidSequence)
  | U8_4_3_f4 ->
    if rng (Npos (XO (XO (XO (XO (XO (XO (XO XH)))))))) (Npos (XI (XI (XI (XI
         (XO (XO (XO XH)))))))) b
    then (U8Tail2, SetByte3)
    else (U8Ground, InvalidSequence)

type u8parser = { u8point : n; u8st : u8state }

(** val u8_new : u8parser **)

let u8_new =
  { u8point = N0; u8st = U8Ground }

type u8out =
| U8None
| U8Codepoint of n
| U8Invalid

(** val cONTINUATION_MASK : n **)

let cONTINUATION_MASK =
  Npos (XI (XI (XI (XI (XI XH)))))

(** val u8_parser_advance : u8parser -> n -> u8parser * u8out **)

let u8_parser_advance p b =
  let (st, a) = u8_advance p.u8st b in
  (match a with
   | InvalidSequence -> ({ u8point = N0; u8st = st }, U8Invalid)
   | EmitByte -> ({ u8point = p.u8point; u8st = st }, (U8Codepoint b))
   | SetByte1 ->
     let point = N.coq_lor p.u8point (N.coq_land b cONTINUATION_MASK) in
     ({ u8point = N0; u8st = st }, (U8Codepoint point))
   | SetByte2 ->
     ({ u8point =
       (N.coq_lor p.u8point
         (N.shiftl (N.coq_land b cONTINUATION_MASK) (Npos (XO (XI XH)))));
       u8st = st }, U8None)
   | SetByte2Top ->
     ({ u8point =
       (N.coq_lor p.u8point
         (N.shiftl (N.coq_land b (Npos (XI (XI (XI (XI XH)))))) (Npos (XO (XI
           XH))))); u8st = st }, U8None)
   | SetByte3 ->
     ({ u8point =
       (N.coq_lor p.u8point
         (N.shiftl (N.coq_land b cONTINUATION_MASK) (Npos (XO (XO (XI XH))))));
       u8st = st }, U8None)
   | SetByte3Top ->
     ({ u8point =
       (N.coq_lor p.u8point
         (N.shiftl (N.coq_land b (Npos (XI (XI (XI XH))))) (Npos (XO (XO (XI
           XH)))))); u8st = st }, U8None)
   | SetByte4 ->
     ({ u8point =
       (N.coq_lor p.u8point
         (N.shiftl (N.coq_land b (Npos (XI (XI XH)))) (Npos (XO (XI (XO (XO
           XH))))))); u8st = st }, U8None))

(** val state_change_ : state -> n -> n option **)

let state_change_ s b =
  match aget state_changes (state_disc s) with
  | Some row -> aget row b
  | None -> None

(** val unpack : n -> (state * action) option **)

let unpack delta =
  match state_of_disc (N.coq_land delta (Npos (XI (XI (XI XH))))) with
  | Some s ->
    (match action_of_disc (N.shiftr delta (Npos (XO (XO XH)))) with
     | Some a -> Some (s, a)
     | None -> None)
  | None -> None

(** val state_change : state -> n -> (state * action) option **)

let state_change s b =
  match state_change_ Anywhere b with
  | Some c1 ->
    (match if N.eqb c1 N0 then state_change_ s b else Some c1 with
     | Some c -> unpack c
     | None -> None)
  | None -> None

(** val state_eqb : state -> state -> bool **)

let state_eqb a b =
  N.eqb (state_disc a) (state_disc b)

(** val action_eqb : action -> action -> bool **)

let action_eqb a b =
  N.eqb (action_disc a) (action_disc b)

type params = { subparams : n list; pvals : n list; current_subparams : 
                n; plen : n }

(** val params_default : params **)

let params_default =
  { subparams = (repeat N0 (N.to_nat mAX_PARAMS)); pvals =
    (repeat N0 (N.to_nat mAX_PARAMS)); current_subparams = N0; plen = N0 }

(** val params_is_full : params -> bool **)

let params_is_full p =
  N.eqb p.plen mAX_PARAMS

(** val params_clear : params -> params **)

let params_clear p =
  { subparams = p.subparams; pvals = p.pvals; current_subparams = N0; plen =
    N0 }

(** val params_push : params -> n -> params option **)

let params_push p item =
  match csub p.plen p.current_subparams with
  | Some i ->
    (match cadd (Npos (XO (XO (XO XH)))) p.current_subparams (Npos XH) with
     | Some c1 ->
       (match aset p.subparams i c1 with
        | Some sp ->
          (match aset p.pvals p.plen item with
           | Some pv ->
             Some { subparams = sp; pvals = pv; current_subparams = N0;
               plen = (N.add p.plen (Npos XH)) }
           | None -> None)
        | None -> None)
     | None -> None)
  | None -> None

(** val params_extend : params -> n -> params option **)

let params_extend p item =
  match csub p.plen p.current_subparams with
  | Some i ->
    (match cadd (Npos (XO (XO (XO XH)))) p.current_subparams (Npos XH) with
     | Some c1 ->
       (match aset p.subparams i c1 with
        | Some sp ->
          (match aset p.pvals p.plen item with
           | Some pv ->
             Some { subparams = sp; pvals = pv; current_subparams = c1;
               plen = (N.add p.plen (Npos XH)) }
           | None -> None)
        | None -> None)
     | None -> None)
  | None -> None

(** val params_iter : nat -> params -> n -> n list list option **)

let rec params_iter fuel p index =
  if N.leb p.plen index
  then Some []
  else (match fuel with
        | O -> None
        | S f ->
          (match aget p.subparams index with
           | Some num ->
             (match slice p.pvals index (N.add index num) with
              | Some g ->
                (match params_iter f p (N.add index num) with
                 | Some rest -> Some (g :: rest)
                 | None -> None)
              | None -> None)
           | None -> None))

(** val params_groups : params -> n list list option **)

let params_groups p =
  params_iter (S (N.to_nat mAX_PARAMS)) p N0

type cfg = { osc_cap : n option; utf8_on : bool }

(** val cfg_default : cfg **)

let cfg_default =
  { osc_cap = None; utf8_on = true }

type parser0 = { pstate : state; intermediates : n list;
                 intermediate_idx : n; pparams : params; pparam : n;
                 osc_raw : n list; osc_params : (n * n) list;
                 osc_num_params : n; ignoring : bool; utf8_parser : u8parser }

(** val parser_new : parser0 **)

let parser_new =
  { pstate = default_state; intermediates =
    (repeat N0 (N.to_nat mAX_INTERMEDIATES)); intermediate_idx = N0;
    pparams = params_default; pparam = N0; osc_raw = []; osc_params =
    (repeat (N0, N0) (N.to_nat mAX_OSC_PARAMS)); osc_num_params = N0;
    ignoring = false; utf8_parser = u8_new }

(** val set_state : parser0 -> state -> parser0 **)

let set_state p s =
  { pstate = s; intermediates = p.intermediates; intermediate_idx =
    p.intermediate_idx; pparams = p.pparams; pparam = p.pparam; osc_raw =
    p.osc_raw; osc_params = p.osc_params; osc_num_params = p.osc_num_params;
    ignoring = p.ignoring; utf8_parser = p.utf8_parser }

(** val set_params : parser0 -> params -> parser0 **)

let set_params p ps =
  { pstate = p.pstate; intermediates = p.intermediates; intermediate_idx =
    p.intermediate_idx; pparams = ps; pparam = p.pparam; osc_raw = p.osc_raw;
    osc_params = p.osc_params; osc_num_params = p.osc_num_params; ignoring =
    p.ignoring; utf8_parser = p.utf8_parser }

(** val set_param : parser0 -> n -> parser0 **)

let set_param p v =
  { pstate = p.pstate; intermediates = p.intermediates; intermediate_idx =
    p.intermediate_idx; pparams = p.pparams; pparam = v; osc_raw = p.osc_raw;
    osc_params = p.osc_params; osc_num_params = p.osc_num_params; ignoring =
    p.ignoring; utf8_parser = p.utf8_parser }

(** val set_ignoring : parser0 -> bool -> parser0 **)

let set_ignoring p b =
  { pstate = p.pstate; intermediates = p.intermediates; intermediate_idx =
    p.intermediate_idx; pparams = p.pparams; pparam = p.pparam; osc_raw =
    p.osc_raw; osc_params = p.osc_params; osc_num_params = p.osc_num_params;
    ignoring = b; utf8_parser = p.utf8_parser }

(** val set_osc : parser0 -> n list -> (n * n) list -> n -> parser0 **)

let set_osc p raw ops n0 =
  { pstate = p.pstate; intermediates = p.intermediates; intermediate_idx =
    p.intermediate_idx; pparams = p.pparams; pparam = p.pparam; osc_raw =
    raw; osc_params = ops; osc_num_params = n0; ignoring = p.ignoring;
    utf8_parser = p.utf8_parser }

(** val set_inter : parser0 -> n list -> n -> parser0 **)

let set_inter p i idx =
  { pstate = p.pstate; intermediates = i; intermediate_idx = idx; pparams =
    p.pparams; pparam = p.pparam; osc_raw = p.osc_raw; osc_params =
    p.osc_params; osc_num_params = p.osc_num_params; ignoring = p.ignoring;
    utf8_parser = p.utf8_parser }

(** val set_utf8 : parser0 -> u8parser -> parser0 **)

let set_utf8 p u =
  { pstate = p.pstate; intermediates = p.intermediates; intermediate_idx =
    p.intermediate_idx; pparams = p.pparams; pparam = p.pparam; osc_raw =
    p.osc_raw; osc_params = p.osc_params; osc_num_params = p.osc_num_params;
    ignoring = p.ignoring; utf8_parser = u }

(** val intermediates_of : parser0 -> n list option **)

let intermediates_of p =
  slice p.intermediates N0 p.intermediate_idx

(** val char_add : cfg -> u8parser -> n -> (u8parser * n option) option **)

let char_add c u b =
  if c.utf8_on
  then let (u', o) = u8_parser_advance u b in
       Some (u',
       (match o with
        | U8None -> None
        | U8Codepoint cp -> Some cp
        | U8Invalid ->
          Some (Npos (XI (XO (XI (XI (XI (XI (XI (XI (XI (XI (XI (XI (XI (XI
            (XI XH))))))))))))))))))
  else None

(** val process_utf8 :
    cfg -> parser0 -> n -> (parser0 * event list) option **)

let process_utf8 c p b =
  match char_add c p.utf8_parser b with
  | Some p0 ->
    let (u', o) = p0 in
    let p1 = set_utf8 p u' in
    (match o with
     | Some cp -> Some ((set_state p1 Ground), ((EPrint cp) :: []))
     | None -> Some (p1, []))
  | None -> None

(** val osc_slices : nat -> parser0 -> n -> n list list option **)

let rec osc_slices fuel p i =
  match fuel with
  | O -> Some []
  | S f ->
    if N.leb p.osc_num_params i
    then Some []
    else (match aget p.osc_params i with
          | Some p0 ->
            let (a, b) = p0 in
            (match slice p.osc_raw a b with
             | Some s ->
               (match osc_slices f p (N.add i (Npos XH)) with
                | Some rest -> Some (s :: rest)
                | None -> None)
             | None -> None)
          | None -> None)

(** val osc_dispatch : parser0 -> n -> event list option **)

let osc_dispatch p b =
  if N.ltb mAX_OSC_PARAMS p.osc_num_params
  then None
  else (match osc_slices (N.to_nat mAX_OSC_PARAMS) p N0 with
        | Some fields ->
          Some ((EOsc (fields, (N.eqb b (Npos (XI (XI XH)))))) :: [])
        | None -> None)

(** val finish_params : parser0 -> parser0 option **)

let finish_params p =
  if params_is_full p.pparams
  then Some (set_ignoring p true)
  else (match params_push p.pparams p.pparam with
        | Some ps -> Some (set_params p ps)
        | None -> None)

(** val osc_full : cfg -> parser0 -> bool **)

let osc_full c p =
  match c.osc_cap with
  | Some cap -> N.eqb (N.of_nat (length p.osc_raw)) cap
  | None -> false

(** val perform_action :
    cfg -> parser0 -> action -> n -> (parser0 * event list) option **)

let perform_action c p a b =
  match a with
  | AClear ->
    Some
      ((set_params
         (set_param (set_ignoring (set_inter p p.intermediates N0) false) N0)
         (params_clear p.pparams)), [])
  | ACollect ->
    if N.eqb p.intermediate_idx mAX_INTERMEDIATES
    then Some ((set_ignoring p true), [])
    else (match aset p.intermediates p.intermediate_idx b with
          | Some i ->
            Some ((set_inter p i (N.add p.intermediate_idx (Npos XH))), [])
          | None -> None)
  | ACsiDispatch ->
    (match finish_params p with
     | Some p1 ->
       (match params_groups p1.pparams with
        | Some ps ->
          (match intermediates_of p1 with
           | Some is -> Some (p1, ((ECsi (ps, is, p1.ignoring, b)) :: []))
           | None -> None)
        | None -> None)
     | None -> None)
  | AEscDispatch ->
    (match intermediates_of p with
     | Some is -> Some (p, ((EEsc (is, p.ignoring, b)) :: []))
     | None -> None)
  | AExecute -> Some (p, ((EExecute b) :: []))
  | AHook ->
    (match finish_params p with
     | Some p1 ->
       (match params_groups p1.pparams with
        | Some ps ->
          (match intermediates_of p1 with
           | Some is -> Some (p1, ((EHook (ps, is, p1.ignoring, b)) :: []))
           | None -> None)
        | None -> None)
     | None -> None)
  | AOscEnd ->
    let param_idx = p.osc_num_params in
    let idx = N.of_nat (length p.osc_raw) in
    if N.eqb param_idx mAX_OSC_PARAMS
    then (match osc_dispatch p b with
          | Some ev -> Some (p, ev)
          | None -> None)
    else if N.eqb param_idx N0
         then (match aset p.osc_params param_idx (N0, idx) with
               | Some ops ->
                 let p1 = set_osc p p.osc_raw ops (N.add param_idx (Npos XH))
                 in
                 (match osc_dispatch p1 b with
                  | Some ev -> Some (p1, ev)
                  | None -> None)
               | None -> None)
         else (match csub param_idx (Npos XH) with
               | Some pi ->
                 (match aget p.osc_params pi with
                  | Some p0 ->
                    let (_, begin0) = p0 in
                    (match aset p.osc_params param_idx (begin0, idx) with
                     | Some ops ->
                       let p1 =
                         set_osc p p.osc_raw ops (N.add param_idx (Npos XH))
                       in
                       (match osc_dispatch p1 b with
                        | Some ev -> Some (p1, ev)
                        | None -> None)
                     | None -> None)
                  | None -> None)
               | None -> None)
  | AOscPut ->
    if osc_full c p
    then Some (p, [])
    else let idx = N.of_nat (length p.osc_raw) in
         if N.eqb b (Npos (XI (XI (XO (XI (XI XH))))))
         then let param_idx = p.osc_num_params in
              if N.eqb param_idx mAX_OSC_PARAMS
              then Some (p, [])
              else if N.eqb param_idx N0
                   then (match aset p.osc_params param_idx (N0, idx) with
                         | Some ops ->
                           Some
                             ((set_osc p p.osc_raw ops
                                (N.add param_idx (Npos XH))), [])
                         | None -> None)
                   else (match csub param_idx (Npos XH) with
                         | Some pi ->
                           (match aget p.osc_params pi with
                            | Some p0 ->
                              let (_, begin0) = p0 in
                              (match aset p.osc_params param_idx (begin0, idx) with
                               | Some ops ->
                                 Some
                                   ((set_osc p p.osc_raw ops
                                      (N.add param_idx (Npos XH))), [])
                               | None -> None)
                            | None -> None)
                         | None -> None)
         else Some
                ((set_osc p (app p.osc_raw (b :: [])) p.osc_params
                   p.osc_num_params), [])
  | AOscStart -> Some ((set_osc p [] p.osc_params N0), [])
  | AParam ->
    if params_is_full p.pparams
    then Some ((set_ignoring p true), [])
    else if N.eqb b (Npos (XI (XI (XO (XI (XI XH))))))
         then (match params_push p.pparams p.pparam with
               | Some ps -> Some ((set_param (set_params p ps) N0), [])
               | None -> None)
         else if N.eqb b (Npos (XO (XI (XO (XI (XI XH))))))
              then (match params_extend p.pparams p.pparam with
                    | Some ps -> Some ((set_param (set_params p ps) N0), [])
                    | None -> None)
              else (match csub b (Npos (XO (XO (XO (XO (XI XH)))))) with
                    | Some d ->
                      Some
                        ((set_param p
                           (u16_sat_add
                             (u16_sat_mul p.pparam (Npos (XO (XI (XO XH)))))
                             d)), [])
                    | None -> None)
  | APrint -> Some (p, ((EPrint b) :: []))
  | APut -> Some (p, ((EPut b) :: []))
  | AUnhook -> Some (p, (EUnhook :: []))
  | ABeginUtf8 -> process_utf8 c p b
  | _ -> Some (p, [])

(** val perform_state_change :
    cfg -> parser0 -> state -> action -> n -> (parser0 * event list) option **)

let perform_state_change c p s a b =
  match s with
  | Anywhere -> perform_action c p a b
  | CsiEntry ->
    (match match p.pstate with
           | Anywhere -> Some (p, [])
           | CsiEntry -> Some (p, [])
           | CsiIgnore -> Some (p, [])
           | CsiIntermediate -> Some (p, [])
           | CsiParam -> Some (p, [])
           | DcsEntry -> Some (p, [])
           | DcsIgnore -> Some (p, [])
           | DcsIntermediate -> Some (p, [])
           | DcsParam -> Some (p, [])
           | DcsPassthrough -> perform_action c p AUnhook b
           | OscString -> perform_action c p AOscEnd b
           | _ -> Some (p, []) with
     | Some p0 ->
       let (p1, e1) = p0 in
       (match match a with
              | ANop -> Some (p1, [])
              | _ -> perform_action c p1 a b with
        | Some p2 ->
          let (p3, e2) = p2 in
          (match match s with
                 | Anywhere -> Some (p3, [])
                 | CsiEntry -> perform_action c p3 AClear b
                 | DcsEntry -> perform_action c p3 AClear b
                 | DcsPassthrough -> perform_action c p3 AHook b
                 | Escape -> perform_action c p3 AClear b
                 | OscString -> perform_action c p3 AOscStart b
                 | _ -> Some (p3, []) with
           | Some p4 ->
             let (p5, e3) = p4 in
             Some ((set_state p5 s), (app e1 (app e2 e3)))
           | None -> None)
        | None -> None)
     | None -> None)
  | CsiIgnore ->
    (match match p.pstate with
           | Anywhere -> Some (p, [])
           | CsiEntry -> Some (p, [])
           | CsiIgnore -> Some (p, [])
           | CsiIntermediate -> Some (p, [])
           | CsiParam -> Some (p, [])
           | DcsEntry -> Some (p, [])
           | DcsIgnore -> Some (p, [])
           | DcsIntermediate -> Some (p, [])
           | DcsParam -> Some (p, [])
           | DcsPassthrough -> perform_action c p AUnhook b
           | OscString -> perform_action c p AOscEnd b
           | _ -> Some (p, []) with
     | Some p0 ->
       let (p1, e1) = p0 in
       (match match a with
              | ANop -> Some (p1, [])
              | _ -> perform_action c p1 a b with
        | Some p2 ->
          let (p3, e2) = p2 in
          (match match s with
                 | Anywhere -> Some (p3, [])
                 | CsiEntry -> perform_action c p3 AClear b
                 | DcsEntry -> perform_action c p3 AClear b
                 | DcsPassthrough -> perform_action c p3 AHook b
                 | Escape -> perform_action c p3 AClear b
                 | OscString -> perform_action c p3 AOscStart b
                 | _ -> Some (p3, []) with
           | Some p4 ->
             let (p5, e3) = p4 in
             Some ((set_state p5 s), (app e1 (app e2 e3)))
           | None -> None)
        | None -> None)
     | None -> None)
  | CsiIntermediate ->
    (match match p.pstate with
           | Anywhere -> Some (p, [])
           | CsiEntry -> Some (p, [])
           | CsiIgnore -> Some (p, [])
           | CsiIntermediate -> Some (p, [])
           | CsiParam -> Some (p, [])
           | DcsEntry -> Some (p, [])
           | DcsIgnore -> Some (p, [])
           | DcsIntermediate -> Some (p, [])
           | DcsParam -> Some (p, [])
           | DcsPassthrough -> perform_action c p AUnhook b
           | OscString -> perform_action c p AOscEnd b
           | _ -> Some (p, []) with
     | Some p0 ->
       let (p1, e1) = p0 in
       (match match a with
              | ANop -> Some (p1, [])
              | _ -> perform_action c p1 a b with
        | Some p2 ->
          let (p3, e2) = p2 in
          (match match s with
                 | Anywhere -> Some (p3, [])
                 | CsiEntry -> perform_action c p3 AClear b
                 | DcsEntry -> perform_action c p3 AClear b
                 | DcsPassthrough -> perform_action c p3 AHook b
                 | Escape -> perform_action c p3 AClear b
                 | OscString -> perform_action c p3 AOscStart b
                 | _ -> Some (p3, []) with
           | Some p4 ->
             let (p5, e3) = p4 in
             Some ((set_state p5 s), (app e1 (app e2 e3)))
           | None -> None)
        | None -> None)
     | None -> None)
  | CsiParam ->
    (match match p.pstate with
           | Anywhere -> Some (p, [])
           | CsiEntry -> Some (p, [])
           | CsiIgnore -> Some (p, [])
           | CsiIntermediate -> Some (p, [])
           | CsiParam -> Some (p, [])
           | DcsEntry -> Some (p, [])
           | DcsIgnore -> Some (p, [])
           | DcsIntermediate -> Some (p, [])
           | DcsParam -> Some (p, [])
           | DcsPassthrough -> perform_action c p AUnhook b
           | OscString -> perform_action c p AOscEnd b
           | _ -> Some (p, []) with
     | Some p0 ->
       let (p1, e1) = p0 in
       (match match a with
              | ANop -> Some (p1, [])
              | _ -> perform_action c p1 a b with
        | Some p2 ->
          let (p3, e2) = p2 in
          (match match s with
                 | Anywhere -> Some (p3, [])
                 | CsiEntry -> perform_action c p3 AClear b
                 | DcsEntry -> perform_action c p3 AClear b
                 | DcsPassthrough -> perform_action c p3 AHook b
                 | Escape -> perform_action c p3 AClear b
                 | OscString -> perform_action c p3 AOscStart b
                 | _ -> Some (p3, []) with
           | Some p4 ->
             let (p5, e3) = p4 in
             Some ((set_state p5 s), (app e1 (app e2 e3)))
           | None -> None)
        | None -> None)
     | None -> None)
  | DcsEntry ->
    (match match p.pstate with
           | Anywhere -> Some (p, [])
           | CsiEntry -> Some (p, [])
           | CsiIgnore -> Some (p, [])
           | CsiIntermediate -> Some (p, [])
           | CsiParam -> Some (p, [])
           | DcsEntry -> Some (p, [])
           | DcsIgnore -> Some (p, [])
           | DcsIntermediate -> Some (p, [])
           | DcsParam -> Some (p, [])
           | DcsPassthrough -> perform_action c p AUnhook b
           | OscString -> perform_action c p AOscEnd b
           | _ -> Some (p, []) with
     | Some p0 ->
       let (p1, e1) = p0 in
       (match match a with
              | ANop -> Some (p1, [])
              | _ -> perform_action c p1 a b with
        | Some p2 ->
          let (p3, e2) = p2 in
          (match match s with
                 | Anywhere -> Some (p3, [])
                 | CsiEntry -> perform_action c p3 AClear b
                 | DcsEntry -> perform_action c p3 AClear b
                 | DcsPassthrough -> perform_action c p3 AHook b
                 | Escape -> perform_action c p3 AClear b
                 | OscString -> perform_action c p3 AOscStart b
                 | _ -> Some (p3, []) with
           | Some p4 ->
             let (p5, e3) = p4 in
             Some ((set_state p5 s), (app e1 (app e2 e3)))
           | None -> None)
        | None -> None)
     | None -> None)
  | DcsIgnore ->
    (match match p.pstate with
           | Anywhere -> Some (p, [])
           | CsiEntry -> Some (p, [])
           | CsiIgnore -> Some (p, [])
           | CsiIntermediate -> Some (p, [])
           | CsiParam -> Some (p, [])
           | DcsEntry -> Some (p, [])
           | DcsIgnore -> Some (p, [])
           | DcsIntermediate -> Some (p, [])
           | DcsParam -> Some (p, [])
           | DcsPassthrough -> perform_action c p AUnhook b
           | OscString -> perform_action c p AOscEnd b
           | _ -> Some (p, []) with
     | Some p0 ->
       let (p1, e1) = p0 in
       (match match a with
              | ANop -> Some (p1, [])
              | _ -> perform_action c p1 a b with
        | Some p2 ->
          let (p3, e2) = p2 in
          (match match s with
                 | Anywhere -> Some (p3, [])
                 | CsiEntry -> perform_action c p3 AClear b
                 | DcsEntry -> perform_action c p3 AClear b
                 | DcsPassthrough -> perform_action c p3 AHook b
                 | Escape -> perform_action c p3 AClear b
                 | OscString -> perform_action c p3 AOscStart b
                 | _ -> Some (p3, []) with
           | Some p4 ->
             let (p5, e3) = p4 in
             Some ((set_state p5 s), (app e1 (app e2 e3)))
           | None -> None)
        | None -> None)
     | None -> None)
  | DcsIntermediate ->
    (match match p.pstate with
           | Anywhere -> Some (p, [])
           | CsiEntry -> Some (p, [])
           | CsiIgnore -> Some (p, [])
           | CsiIntermediate -> Some (p, [])
           | CsiParam -> Some (p, [])
           | DcsEntry -> Some (p, [])
           | DcsIgnore -> Some (p, [])
           | DcsIntermediate -> Some (p, [])
           | DcsParam -> Some (p, [])
           | DcsPassthrough -> perform_action c p AUnhook b
           | OscString -> perform_action c p AOscEnd b
           | _ -> Some (p, []) with
     | Some p0 ->
       let (p1, e1) = p0 in
       (match match a with
              | ANop -> Some (p1, [])
              | _ -> perform_action c p1 a b with
        | Some p2 ->
          let (p3, e2) = p2 in
          (match match s with
                 | Anywhere -> Some (p3, [])
                 | CsiEntry -> perform_action c p3 AClear b
                 | DcsEntry -> perform_action c p3 AClear b
                 | DcsPassthrough -> perform_action c p3 AHook b
                 | Escape -> perform_action c p3 AClear b
                 | OscString -> perform_action c p3 AOscStart b
                 | _ -> Some (p3, []) with
           | Some p4 ->
             let (p5, e3) = p4 in
             Some ((set_state p5 s), (app e1 (app e2 e3)))
           | None -> None)
        | None -> None)
     | None -> None)
  | DcsParam ->
    (match match p.pstate with
           | Anywhere -> Some (p, [])
           | CsiEntry -> Some (p, [])
           | CsiIgnore -> Some (p, [])
           | CsiIntermediate -> Some (p, [])
           | CsiParam -> Some (p, [])
           | DcsEntry -> Some (p, [])
           | DcsIgnore -> Some (p, [])
           | DcsIntermediate -> Some (p, [])
           | DcsParam -> Some (p, [])
           | DcsPassthrough -> perform_action c p AUnhook b
           | OscString -> perform_action c p AOscEnd b
           | _ -> Some (p, []) with
     | Some p0 ->
       let (p1, e1) = p0 in
       (match match a with
              | ANop -> Some (p1, [])
              | _ -> perform_action c p1 a b with
        | Some p2 ->
          let (p3, e2) = p2 in
          (match match s with
                 | Anywhere -> Some (p3, [])
                 | CsiEntry -> perform_action c p3 AClear b
                 | DcsEntry -> perform_action c p3 AClear b
                 | DcsPassthrough -> perform_action c p3 AHook b
                 | Escape -> perform_action c p3 AClear b
                 | OscString -> perform_action c p3 AOscStart b
                 | _ -> Some (p3, []) with
           | Some p4 ->
             let (p5, e3) = p4 in
             Some ((set_state p5 s), (app e1 (app e2 e3)))
           | None -> None)
        | None -> None)
     | None -> None)
  | DcsPassthrough ->
    (match match p.pstate with
           | Anywhere -> Some (p, [])
           | CsiEntry -> Some (p, [])
           | CsiIgnore -> Some (p, [])
           | CsiIntermediate -> Some (p, [])
           | CsiParam -> Some (p, [])
           | DcsEntry -> Some (p, [])
           | DcsIgnore -> Some (p, [])
           | DcsIntermediate -> Some (p, [])
           | DcsParam -> Some (p, [])
           | DcsPassthrough -> perform_action c p AUnhook b
           | OscString -> perform_action c p AOscEnd b
           | _ -> Some (p, []) with
     | Some p0 ->
       let (p1, e1) = p0 in
       (match match a with
              | ANop -> Some (p1, [])
              | _ -> perform_action c p1 a b with
        | Some p2 ->
          let (p3, e2) = p2 in
          (match match s with
                 | Anywhere -> Some (p3, [])
                 | CsiEntry -> perform_action c p3 AClear b
                 | DcsEntry -> perform_action c p3 AClear b
                 | DcsPassthrough -> perform_action c p3 AHook b
                 | Escape -> perform_action c p3 AClear b
                 | OscString -> perform_action c p3 AOscStart b
                 | _ -> Some (p3, []) with
           | Some p4 ->
             let (p5, e3) = p4 in
             Some ((set_state p5 s), (app e1 (app e2 e3)))
           | None -> None)
        | None -> None)
     | None -> None)
  | Escape ->
    (match match p.pstate with
           | Anywhere -> Some (p, [])
           | CsiEntry -> Some (p, [])
           | CsiIgnore -> Some (p, [])
           | CsiIntermediate -> Some (p, [])
           | CsiParam -> Some (p, [])
           | DcsEntry -> Some (p, [])
           | DcsIgnore -> Some (p, [])
           | DcsIntermediate -> Some (p, [])
           | DcsParam -> Some (p, [])
           | DcsPassthrough -> perform_action c p AUnhook b
           | OscString -> perform_action c p AOscEnd b
           | _ -> Some (p, []) with
     | Some p0 ->
       let (p1, e1) = p0 in
       (match match a with
              | ANop -> Some (p1, [])
              | _ -> perform_action c p1 a b with
        | Some p2 ->
          let (p3, e2) = p2 in
          (match match s with
                 | Anywhere -> Some (p3, [])
                 | CsiEntry -> perform_action c p3 AClear b
                 | DcsEntry -> perform_action c p3 AClear b
                 | DcsPassthrough -> perform_action c p3 AHook b
                 | Escape -> perform_action c p3 AClear b
                 | OscString -> perform_action c p3 AOscStart b
                 | _ -> Some (p3, []) with
           | Some p4 ->
             let (p5, e3) = p4 in
             Some ((set_state p5 s), (app e1 (app e2 e3)))
           | None -> None)
        | None -> None)
     | None -> None)
  | EscapeIntermediate ->
    (match match p.pstate with
           | Anywhere -> Some (p, [])
           | CsiEntry -> Some (p, [])
           | CsiIgnore -> Some (p, [])
           | CsiIntermediate -> Some (p, [])
           | CsiParam -> Some (p, [])
           | DcsEntry -> Some (p, [])
           | DcsIgnore -> Some (p, [])
           | DcsIntermediate -> Some (p, [])
           | DcsParam -> Some (p, [])
           | DcsPassthrough -> perform_action c p AUnhook b
           | OscString -> perform_action c p AOscEnd b
           | _ -> Some (p, []) with
     | Some p0 ->
       let (p1, e1) = p0 in
       (match match a with
              | ANop -> Some (p1, [])
              | _ -> perform_action c p1 a b with
        | Some p2 ->
          let (p3, e2) = p2 in
          (match match s with
                 | Anywhere -> Some (p3, [])
                 | CsiEntry -> perform_action c p3 AClear b
                 | DcsEntry -> perform_action c p3 AClear b
                 | DcsPassthrough -> perform_action c p3 AHook b
                 | Escape -> perform_action c p3 AClear b
                 | OscString -> perform_action c p3 AOscStart b
                 | _ -> Some (p3, []) with
           | Some p4 ->
             let (p5, e3) = p4 in
             Some ((set_state p5 s), (app e1 (app e2 e3)))
           | None -> None)
        | None -> None)
     | None -> None)
  | Ground ->
    (match match p.pstate with
           | Anywhere -> Some (p, [])
           | CsiEntry -> Some (p, [])
           | CsiIgnore -> Some (p, [])
           | CsiIntermediate -> Some (p, [])
           | CsiParam -> Some (p, [])
           | DcsEntry -> Some (p, [])
           | DcsIgnore -> Some (p, [])
           | DcsIntermediate -> Some (p, [])
           | DcsParam -> Some (p, [])
           | DcsPassthrough -> perform_action c p AUnhook b
           | OscString -> perform_action c p AOscEnd b
           | _ -> Some (p, []) with
     | Some p0 ->
       let (p1, e1) = p0 in
       (match match a with
              | ANop -> Some (p1, [])
              | _ -> perform_action c p1 a b with
        | Some p2 ->
          let (p3, e2) = p2 in
          (match match s with
                 | Anywhere -> Some (p3, [])
                 | CsiEntry -> perform_action c p3 AClear b
                 | DcsEntry -> perform_action c p3 AClear b
                 | DcsPassthrough -> perform_action c p3 AHook b
                 | Escape -> perform_action c p3 AClear b
                 | OscString -> perform_action c p3 AOscStart b
                 | _ -> Some (p3, []) with
           | Some p4 ->
             let (p5, e3) = p4 in
             Some ((set_state p5 s), (app e1 (app e2 e3)))
           | None -> None)
        | None -> None)
     | None -> None)
  | OscString ->
    (match match p.pstate with
           | Anywhere -> Some (p, [])
           | CsiEntry -> Some (p, [])
           | CsiIgnore -> Some (p, [])
           | CsiIntermediate -> Some (p, [])
           | CsiParam -> Some (p, [])
           | DcsEntry -> Some (p, [])
           | DcsIgnore -> Some (p, [])
           | DcsIntermediate -> Some (p, [])
           | DcsParam -> Some (p, [])
           | DcsPassthrough -> perform_action c p AUnhook b
           | OscString -> perform_action c p AOscEnd b
           | _ -> Some (p, []) with
     | Some p0 ->
       let (p1, e1) = p0 in
       (match match a with
              | ANop -> Some (p1, [])
              | _ -> perform_action c p1 a b with
        | Some p2 ->
          let (p3, e2) = p2 in
          (match match s with
                 | Anywhere -> Some (p3, [])
                 | CsiEntry -> perform_action c p3 AClear b
                 | DcsEntry -> perform_action c p3 AClear b
                 | DcsPassthrough -> perform_action c p3 AHook b
                 | Escape -> perform_action c p3 AClear b
                 | OscString -> perform_action c p3 AOscStart b
                 | _ -> Some (p3, []) with
           | Some p4 ->
             let (p5, e3) = p4 in
             Some ((set_state p5 s), (app e1 (app e2 e3)))
           | None -> None)
        | None -> None)
     | None -> None)
  | SosPmApcString ->
    (match match p.pstate with
           | Anywhere -> Some (p, [])
           | CsiEntry -> Some (p, [])
           | CsiIgnore -> Some (p, [])
           | CsiIntermediate -> Some (p, [])
           | CsiParam -> Some (p, [])
           | DcsEntry -> Some (p, [])
           | DcsIgnore -> Some (p, [])
           | DcsIntermediate -> Some (p, [])
           | DcsParam -> Some (p, [])
           | DcsPassthrough -> perform_action c p AUnhook b
           | OscString -> perform_action c p AOscEnd b
           | _ -> Some (p, []) with
     | Some p0 ->
       let (p1, e1) = p0 in
       (match match a with
              | ANop -> Some (p1, [])
              | _ -> perform_action c p1 a b with
        | Some p2 ->
          let (p3, e2) = p2 in
          (match match s with
                 | Anywhere -> Some (p3, [])
                 | CsiEntry -> perform_action c p3 AClear b
                 | DcsEntry -> perform_action c p3 AClear b
                 | DcsPassthrough -> perform_action c p3 AHook b
                 | Escape -> perform_action c p3 AClear b
                 | OscString -> perform_action c p3 AOscStart b
                 | _ -> Some (p3, []) with
           | Some p4 ->
             let (p5, e3) = p4 in
             Some ((set_state p5 s), (app e1 (app e2 e3)))
           | None -> None)
        | None -> None)
     | None -> None)
  | Utf8 ->
    (match match p.pstate with
           | Anywhere -> Some (p, [])
           | CsiEntry -> Some (p, [])
           | CsiIgnore -> Some (p, [])
           | CsiIntermediate -> Some (p, [])
           | CsiParam -> Some (p, [])
           | DcsEntry -> Some (p, [])
           | DcsIgnore -> Some (p, [])
           | DcsIntermediate -> Some (p, [])
           | DcsParam -> Some (p, [])
           | DcsPassthrough -> perform_action c p AUnhook b
           | OscString -> perform_action c p AOscEnd b
           | _ -> Some (p, []) with
     | Some p0 ->
       let (p1, e1) = p0 in
       (match match a with
              | ANop -> Some (p1, [])
              | _ -> perform_action c p1 a b with
        | Some p2 ->
          let (p3, e2) = p2 in
          (match match s with
                 | Anywhere -> Some (p3, [])
                 | CsiEntry -> perform_action c p3 AClear b
                 | DcsEntry -> perform_action c p3 AClear b
                 | DcsPassthrough -> perform_action c p3 AHook b
                 | Escape -> perform_action c p3 AClear b
                 | OscString -> perform_action c p3 AOscStart b
                 | _ -> Some (p3, []) with
           | Some p4 ->
             let (p5, e3) = p4 in
             Some ((set_state p5 s), (app e1 (app e2 e3)))
           | None -> None)
        | None -> None)
     | None -> None)

(** val advance : cfg -> parser0 -> n -> (parser0 * event list) option **)

let advance c p b =
  match p.pstate with
  | Utf8 -> process_utf8 c p b
  | _ ->
    (match state_change p.pstate b with
     | Some p0 -> let (s, a) = p0 in perform_state_change c p s a b
     | None -> None)

(** val is_ascii_whitespace : n -> bool **)

let is_ascii_whitespace b =
  (||)
    ((||)
      ((||)
        ((||) (N.eqb b (Npos (XI (XO (XO XH)))))
          (N.eqb b (Npos (XO (XI (XO XH))))))
        (N.eqb b (Npos (XO (XO (XI XH))))))
      (N.eqb b (Npos (XI (XO (XI XH))))))
    (N.eqb b (Npos (XO (XO (XO (XO (XO XH)))))))

(** val is_printable_bytes : action -> n -> bool **)

let is_printable_bytes a b =
  (||)
    ((||)
      ((&&) (action_eqb a APrint)
        (negb (N.eqb b (Npos (XI (XI (XI (XI (XI (XI XH))))))))))
      (action_eqb a ABeginUtf8))
    ((&&) (action_eqb a AExecute) (is_ascii_whitespace b))

(** val is_utf8_continuation : n -> bool **)

let is_utf8_continuation b =
  (&&) (N.leb (Npos (XO (XO (XO (XO (XO (XO (XO XH)))))))) b)
    (N.leb b (Npos (XI (XI (XI (XI (XI (XI (XO XH)))))))))

(** val is_ascii : n -> bool **)

let is_ascii b =
  N.ltb b (Npos (XO (XO (XO (XO (XO (XO (XO XH))))))))

(** val utf8_add : u8parser -> n -> u8parser * bool **)

let utf8_add u b =
  let (u', o) = u8_parser_advance u b in
  (u', (match o with
        | U8None -> false
        | _ -> true))

(** val nb_skip :
    n list -> state -> u8parser -> ((n list * state) * u8parser) option **)

let rec nb_skip bs st u =
  match bs with
  | [] -> Some (([], st), u)
  | b :: rest ->
    if (&&) (state_eqb st Utf8) (negb (is_ascii b))
    then Some ((bs, st), u)
    else if state_eqb st Utf8
         then let st0 = Ground in
              (match state_change st0 b with
               | Some p ->
                 let (ns, a) = p in
                 let st1 = if state_eqb ns Anywhere then st0 else ns in
                 if is_printable_bytes a b
                 then Some ((bs, st1), u8_new)
                 else nb_skip rest st1 u8_new
               | None -> None)
         else (match state_change st b with
               | Some p ->
                 let (ns, a) = p in
                 let st1 = if state_eqb ns Anywhere then st else ns in
                 if is_printable_bytes a b
                 then Some ((bs, st1), u)
                 else nb_skip rest st1 u
               | None -> None)

(** val nb_take :
    n list -> state -> u8parser -> (((n list * n list) * state) * u8parser)
    option **)

let rec nb_take bs st u =
  match bs with
  | [] -> Some ((([], []), st), u)
  | b :: rest ->
    if (&&) (state_eqb st Utf8) (negb (is_ascii b))
    then let (u1, done0) = utf8_add u b in
         (match nb_take rest (if done0 then Ground else st) u1 with
          | Some p ->
            let (p0, u') = p in
            let (p1, st') = p0 in
            let (t, r) = p1 in Some ((((b :: t), r), st'), u')
          | None -> None)
    else if state_eqb st Utf8
         then let st0 = Ground in
              (match state_change st0 b with
               | Some p ->
                 let (ns, a) = p in
                 if negb (is_printable_bytes a b)
                 then Some ((([], bs), st0), u8_new)
                 else if state_eqb ns Utf8
                      then let (u1, _) = utf8_add u8_new b in
                           (match nb_take rest ns u1 with
                            | Some p0 ->
                              let (p1, u') = p0 in
                              let (p2, st') = p1 in
                              let (t, r) = p2 in
                              Some ((((b :: t), r), st'), u')
                            | None -> None)
                      else (match nb_take rest st0 u8_new with
                            | Some p0 ->
                              let (p1, u') = p0 in
                              let (p2, st') = p1 in
                              let (t, r) = p2 in
                              Some ((((b :: t), r), st'), u')
                            | None -> None)
               | None -> None)
         else (match state_change st b with
               | Some p ->
                 let (ns, a) = p in
                 if negb (is_printable_bytes a b)
                 then Some ((([], bs), st), u)
                 else if state_eqb ns Utf8
                      then let (u1, _) = utf8_add u b in
                           (match nb_take rest ns u1 with
                            | Some p0 ->
                              let (p1, u') = p0 in
                              let (p2, st') = p1 in
                              let (t, r) = p2 in
                              Some ((((b :: t), r), st'), u')
                            | None -> None)
                      else (match nb_take rest st u with
                            | Some p0 ->
                              let (p1, u') = p0 in
                              let (p2, st') = p1 in
                              let (t, r) = p2 in
                              Some ((((b :: t), r), st'), u')
                            | None -> None)
               | None -> None)

type piece = { p_off : n; p_bytes : n list }

(** val next_bytes :
    n list -> n -> state -> u8parser -> ((((piece option * n
    list) * n) * state) * u8parser) option **)

let next_bytes bs off st u =
  match nb_skip bs st u with
  | Some p ->
    let (p0, u1) = p in
    let (bs1, st1) = p0 in
    let off1 = N.add off (N.of_nat (sub (length bs) (length bs1))) in
    (match nb_take bs1 st1 u1 with
     | Some p1 ->
       let (p2, u2) = p1 in
       let (p3, st2) = p2 in
       let (t, bs2) = p3 in
       let off2 = N.add off1 (N.of_nat (length t)) in
       (match t with
        | [] -> Some ((((None, bs2), off2), st2), u2)
        | _ :: _ ->
          Some (((((Some { p_off = off1; p_bytes = t }), bs2), off2), st2),
            u2))
     | None -> None)
  | None -> None

(** val bytes_iter :
    nat -> n list -> n -> state -> u8parser -> (((piece list * n
    list) * state) * u8parser) option **)

let rec bytes_iter fuel bs off st u =
  match fuel with
  | O -> None
  | S f ->
    (match next_bytes bs off st u with
     | Some p ->
       let (p0, u') = p in
       let (p1, st') = p0 in
       let (p2, off') = p1 in
       let (p3, bs') = p2 in
       (match p3 with
        | Some pc ->
          (match bytes_iter f bs' off' st' u' with
           | Some p4 ->
             let (p5, u'') = p4 in
             let (p6, st'') = p5 in
             let (ps, bs'') = p6 in Some ((((pc :: ps), bs''), st''), u'')
           | None -> None)
        | None -> Some ((([], bs'), st'), u'))
     | None -> None)

(** val strip_next_bytes :
    n list -> state -> u8parser -> (((piece list * n
    list) * state) * u8parser) option **)

let strip_next_bytes bs st u =
  bytes_iter (S (length bs)) bs N0 st u

(** val strip_bytes_pieces : n list -> piece list option **)

let strip_bytes_pieces bs =
  match strip_next_bytes bs Ground u8_new with
  | Some p ->
    let (p0, _) = p in let (p1, _) = p0 in let (ps, _) = p1 in Some ps
  | None -> None

(** val strip_bytes_chunks :
    n list list -> state -> u8parser -> ((piece list
    list * state) * u8parser) option **)

let rec strip_bytes_chunks chunks st u =
  match chunks with
  | [] -> Some (([], st), u)
  | c :: rest ->
    (match strip_next_bytes c st u with
     | Some p ->
       let (p0, u') = p in
       let (p1, st') = p0 in
       let (ps, _) = p1 in
       (match strip_bytes_chunks rest st' u' with
        | Some p2 ->
          let (p3, u'') = p2 in
          let (pss, st'') = p3 in Some (((ps :: pss), st''), u'')
        | None -> None)
     | None -> None)

(** val ns_skip : n list -> state -> (n list * state) option **)

let rec ns_skip bs st =
  match bs with
  | [] -> Some ([], st)
  | b :: rest ->
    (match state_change st b with
     | Some p ->
       let (ns, a) = p in
       let st1 =
         if (&&) (negb (state_eqb ns Anywhere)) (negb (state_eqb ns Utf8))
         then ns
         else st
       in
       if is_printable_bytes a b then Some (bs, st1) else ns_skip rest st1
     | None -> None)

(** val ns_take : n list -> state -> (n list * n list) option **)

let rec ns_take bs st =
  match bs with
  | [] -> Some ([], [])
  | b :: rest ->
    (match state_change st b with
     | Some p ->
       let (_, a) = p in
       if negb ((||) (is_printable_bytes a b) (is_utf8_continuation b))
       then Some ([], bs)
       else (match ns_take rest st with
             | Some p0 -> let (t, r) = p0 in Some ((b :: t), r)
             | None -> None)
     | None -> None)

(** val next_str :
    n list -> n -> state -> (((piece option * n list) * n) * state) option **)

let next_str bs off st =
  match ns_skip bs st with
  | Some p ->
    let (bs1, st1) = p in
    let off1 = N.add off (N.of_nat (sub (length bs) (length bs1))) in
    (match ns_take bs1 st1 with
     | Some p0 ->
       let (t, bs2) = p0 in
       let off2 = N.add off1 (N.of_nat (length t)) in
       (match t with
        | [] -> Some (((None, bs2), off2), st1)
        | _ :: _ ->
          Some ((((Some { p_off = off1; p_bytes = t }), bs2), off2), st1))
     | None -> None)
  | None -> None

(** val str_iter :
    nat -> n list -> n -> state -> ((piece list * n list) * state) option **)

let rec str_iter fuel bs off st =
  match fuel with
  | O -> None
  | S f ->
    (match next_str bs off st with
     | Some p ->
       let (p0, st') = p in
       let (p1, off') = p0 in
       let (p2, bs') = p1 in
       (match p2 with
        | Some pc ->
          (match str_iter f bs' off' st' with
           | Some p3 ->
             let (p4, st'') = p3 in
             let (ps, bs'') = p4 in Some (((pc :: ps), bs''), st'')
           | None -> None)
        | None -> Some (([], bs'), st'))
     | None -> None)

(** val strip_next_str :
    n list -> state -> ((piece list * n list) * state) option **)

let strip_next_str bs st =
  str_iter (S (length bs)) bs N0 st

(** val strip_str_pieces : n list -> piece list option **)

let strip_str_pieces bs =
  match strip_next_str bs Ground with
  | Some p -> let (p0, _) = p in let (ps, _) = p0 in Some ps
  | None -> None

(** val strip_str_chunks :
    n list list -> state -> (piece list list * state) option **)

let rec strip_str_chunks chunks st =
  match chunks with
  | [] -> Some ([], st)
  | c :: rest ->
    (match strip_next_str c st with
     | Some p ->
       let (p0, st') = p in
       let (ps, _) = p0 in
       (match strip_str_chunks rest st' with
        | Some p1 -> let (pss, st'') = p1 in Some ((ps :: pss), st'')
        | None -> None)
     | None -> None)

type colour =
| CAnsi of n
| CIdx of n
| CRgb of n * n * n

type sstyle = { s_fg : colour option; s_bg : colour option;
                s_ul : colour option; s_eff : n }

(** val style_default : sstyle **)

let style_default =
  { s_fg = None; s_bg = None; s_ul = None; s_eff = N0 }

(** val bOLD : n **)

let bOLD =
  N0

(** val dIMMED : n **)

let dIMMED =
  Npos XH

(** val iTALIC : n **)

let iTALIC =
  Npos (XO XH)

(** val uNDERLINE : n **)

let uNDERLINE =
  Npos (XI XH)

(** val dOUBLE_UNDERLINE : n **)

let dOUBLE_UNDERLINE =
  Npos (XO (XO XH))

(** val cURLY_UNDERLINE : n **)

let cURLY_UNDERLINE =
  Npos (XI (XO XH))

(** val dOTTED_UNDERLINE : n **)

let dOTTED_UNDERLINE =
  Npos (XO (XI XH))

(** val dASHED_UNDERLINE : n **)

let dASHED_UNDERLINE =
  Npos (XI (XI XH))

(** val bLINK : n **)

let bLINK =
  Npos (XO (XO (XO XH)))

(** val iNVERT : n **)

let iNVERT =
  Npos (XI (XO (XO XH)))

(** val hIDDEN : n **)

let hIDDEN =
  Npos (XO (XI (XO XH)))

(** val sTRIKETHROUGH : n **)

let sTRIKETHROUGH =
  Npos (XI (XI (XO XH)))

(** val bit : n -> n **)

let bit k =
  N.shiftl (Npos XH) k

(** val eff_on : sstyle -> n -> sstyle **)

let eff_on s k =
  { s_fg = s.s_fg; s_bg = s.s_bg; s_ul = s.s_ul; s_eff =
    (N.coq_lor s.s_eff (bit k)) }

(** val eff_off_mask : sstyle -> n -> sstyle **)

let eff_off_mask s m =
  { s_fg = s.s_fg; s_bg = s.s_bg; s_ul = s.s_ul; s_eff = (N.ldiff s.s_eff m) }

(** val underline_mask : n **)

let underline_mask =
  Npos (XO (XO (XO (XI (XI (XI (XI XH)))))))

(** val set_underline : sstyle -> n option -> sstyle **)

let set_underline s kind =
  let s0 = eff_off_mask s underline_mask in
  (match kind with
   | Some k -> eff_on s0 k
   | None -> s0)

(** val set_fg : sstyle -> colour option -> sstyle **)

let set_fg s c =
  { s_fg = c; s_bg = s.s_bg; s_ul = s.s_ul; s_eff = s.s_eff }

(** val set_bg : sstyle -> colour option -> sstyle **)

let set_bg s c =
  { s_fg = s.s_fg; s_bg = c; s_ul = s.s_ul; s_eff = s.s_eff }

(** val set_ulc : sstyle -> colour option -> sstyle **)

let set_ulc s c =
  { s_fg = s.s_fg; s_bg = s.s_bg; s_ul = c; s_eff = s.s_eff }

type target =
| TFg
| TBg
| TUl

(** val set_target : target -> sstyle -> colour option -> sstyle **)

let set_target t s c =
  match t with
  | TFg -> set_fg s c
  | TBg -> set_bg s c
  | TUl -> set_ulc s c

(** val ext_target : n -> target option **)

let ext_target code =
  if N.eqb code (Npos (XO (XI (XI (XO (XO XH))))))
  then Some TFg
  else if N.eqb code (Npos (XO (XO (XO (XO (XI XH))))))
       then Some TBg
       else if N.eqb code (Npos (XO (XI (XO (XI (XI XH))))))
            then Some TUl
            else None

(** val in_rng : n -> n -> n -> bool **)

let in_rng lo hi x =
  (&&) (N.leb lo x) (N.leb x hi)

(** val sgr_code : sstyle -> n -> sstyle **)

let sgr_code s c =
  if N.eqb c N0
  then style_default
  else if N.eqb c (Npos XH)
       then eff_on s bOLD
       else if N.eqb c (Npos (XO XH))
            then eff_on s dIMMED
            else if N.eqb c (Npos (XI XH))
                 then eff_on s iTALIC
                 else if N.eqb c (Npos (XO (XO XH)))
                      then set_underline s (Some uNDERLINE)
                      else if (||) (N.eqb c (Npos (XI (XO XH))))
                                (N.eqb c (Npos (XO (XI XH))))
                           then eff_on s bLINK
                           else if N.eqb c (Npos (XI (XI XH)))
                                then eff_on s iNVERT
                                else if N.eqb c (Npos (XO (XO (XO XH))))
                                     then eff_on s hIDDEN
                                     else if N.eqb c (Npos (XI (XO (XO XH))))
                                          then eff_on s sTRIKETHROUGH
                                          else if N.eqb c (Npos (XI (XO (XI
                                                    (XO XH)))))
                                               then set_underline s (Some
                                                      dOUBLE_UNDERLINE)
                                               else if N.eqb c (Npos (XO (XI
                                                         (XI (XO XH)))))
                                                    then eff_off_mask s
                                                           (N.coq_lor
                                                             (bit bOLD)
                                                             (bit dIMMED))
                                                    else if N.eqb c (Npos (XI
                                                              (XI (XI (XO
                                                              XH)))))
                                                         then eff_off_mask s
                                                                (bit iTALIC)
                                                         else if N.eqb c
                                                                   (Npos (XO
                                                                   (XO (XO
                                                                   (XI XH)))))
                                                              then set_underline
                                                                    s None
                                                              else if 
                                                                    N.eqb c
                                                                    (Npos (XI
                                                                    (XO (XO
                                                                    (XI
                                                                    XH)))))
                                                                   then 
                                                                    eff_off_mask
                                                                    s
                                                                    (bit
                                                                    bLINK)
                                                                   else 
                                                                    if 
                                                                    N.eqb c
                                                                    (Npos (XI
                                                                    (XI (XO
                                                                    (XI
                                                                    XH)))))
                                                                    then 
                                                                    eff_off_mask
                                                                    s
                                                                    (bit
                                                                    iNVERT)
                                                                    else 
                                                                    if 
                                                                    N.eqb c
                                                                    (Npos (XO
                                                                    (XO (XI
                                                                    (XI
                                                                    XH)))))
                                                                    then 
                                                                    eff_off_mask
                                                                    s
                                                                    (bit
                                                                    hIDDEN)
                                                                    else 
                                                                    if 
                                                                    N.eqb c
                                                                    (Npos (XI
                                                                    (XO (XI
                                                                    (XI
                                                                    XH)))))
                                                                    then 
                                                                    eff_off_mask
                                                                    s
                                                                    (bit
                                                                    sTRIKETHROUGH)
                                                                    else 
                                                                    if 
                                                                    in_rng
                                                                    (Npos (XO
                                                                    (XI (XI
                                                                    (XI
                                                                    XH)))))
                                                                    (Npos (XI
                                                                    (XO (XI
                                                                    (XO (XO
                                                                    XH)))))) c
                                                                    then 
                                                                    set_fg s
                                                                    (Some
                                                                    (CAnsi
                                                                    (N.sub c
                                                                    (Npos (XO
                                                                    (XI (XI
                                                                    (XI
                                                                    XH))))))))
                                                                    else 
                                                                    if 
                                                                    N.eqb c
                                                                    (Npos (XI
                                                                    (XI (XI
                                                                    (XO (XO
                                                                    XH))))))
                                                                    then 
                                                                    set_fg s
                                                                    None
                                                                    else 
                                                                    if 
                                                                    in_rng
                                                                    (Npos (XO
                                                                    (XO (XO
                                                                    (XI (XO
                                                                    XH))))))
                                                                    (Npos (XI
                                                                    (XI (XI
                                                                    (XI (XO
                                                                    XH)))))) c
                                                                    then 
                                                                    set_bg s
                                                                    (Some
                                                                    (CAnsi
                                                                    (N.sub c
                                                                    (Npos (XO
                                                                    (XO (XO
                                                                    (XI (XO
                                                                    XH)))))))))
                                                                    else 
                                                                    if 
                                                                    N.eqb c
                                                                    (Npos (XI
                                                                    (XO (XO
                                                                    (XO (XI
                                                                    XH))))))
                                                                    then 
                                                                    set_bg s
                                                                    None
                                                                    else 
                                                                    if 
                                                                    N.eqb c
                                                                    (Npos (XI
                                                                    (XI (XO
                                                                    (XI (XI
                                                                    XH))))))
                                                                    then 
                                                                    set_ulc s
                                                                    None
                                                                    else 
                                                                    if 
                                                                    in_rng
                                                                    (Npos (XO
                                                                    (XI (XO
                                                                    (XI (XI
                                                                    (XO
                                                                    XH)))))))
                                                                    (Npos (XI
                                                                    (XO (XO
                                                                    (XO (XO
                                                                    (XI
                                                                    XH)))))))
                                                                    c
                                                                    then 
                                                                    set_fg s
                                                                    (Some
                                                                    (CAnsi
                                                                    (N.add
                                                                    (N.sub c
                                                                    (Npos (XO
                                                                    (XI (XO
                                                                    (XI (XI
                                                                    (XO
                                                                    XH))))))))
                                                                    (Npos (XO
                                                                    (XO (XO
                                                                    XH)))))))
                                                                    else 
                                                                    if 
                                                                    in_rng
                                                                    (Npos (XO
                                                                    (XO (XI
                                                                    (XO (XO
                                                                    (XI
                                                                    XH)))))))
                                                                    (Npos (XI
                                                                    (XI (XO
                                                                    (XI (XO
                                                                    (XI
                                                                    XH)))))))
                                                                    c
                                                                    then 
                                                                    set_bg s
                                                                    (Some
                                                                    (CAnsi
                                                                    (N.add
                                                                    (N.sub c
                                                                    (Npos (XO
                                                                    (XO (XI
                                                                    (XO (XO
                                                                    (XI
                                                                    XH))))))))
                                                                    (Npos (XO
                                                                    (XO (XO
                                                                    XH)))))))
                                                                    else s

(** val underline_kind : n -> n option option **)

let underline_kind n0 =
  if N.eqb n0 N0
  then Some None
  else if N.eqb n0 (Npos XH)
       then Some (Some uNDERLINE)
       else if N.eqb n0 (Npos (XO XH))
            then Some (Some dOUBLE_UNDERLINE)
            else if N.eqb n0 (Npos (XI XH))
                 then Some (Some cURLY_UNDERLINE)
                 else if N.eqb n0 (Npos (XO (XO XH)))
                      then Some (Some dOTTED_UNDERLINE)
                      else if N.eqb n0 (Npos (XI (XO XH)))
                           then Some (Some dASHED_UNDERLINE)
                           else None

(** val sgr_groups : nat -> sstyle -> n list list -> sstyle **)

let rec sgr_groups fuel s gs =
  match fuel with
  | O -> s
  | S f ->
    (match gs with
     | [] -> s
     | l :: rest ->
       (match l with
        | [] -> sgr_groups f s rest
        | c :: l0 ->
          (match c with
           | N0 ->
             (match l0 with
              | [] ->
                (match ext_target c with
                 | Some t ->
                   (match rest with
                    | [] -> sgr_groups f s rest
                    | l1 :: l2 ->
                      (match l1 with
                       | [] -> sgr_groups f s rest
                       | n0 :: l3 ->
                         (match n0 with
                          | N0 -> sgr_groups f s rest
                          | Npos p ->
                            (match p with
                             | XI p0 ->
                               (match p0 with
                                | XO p1 ->
                                  (match p1 with
                                   | XH ->
                                     (match l3 with
                                      | [] ->
                                        (match l2 with
                                         | [] -> sgr_groups f s rest
                                         | l4 :: rest' ->
                                           (match l4 with
                                            | [] -> sgr_groups f s rest
                                            | n1 :: l5 ->
                                              (match l5 with
                                               | [] ->
                                                 sgr_groups f
                                                   (set_target t s (Some
                                                     (CIdx n1))) rest'
                                               | _ :: _ -> sgr_groups f s rest)))
                                      | _ :: _ -> sgr_groups f s rest)
                                   | _ -> sgr_groups f s rest)
                                | _ -> sgr_groups f s rest)
                             | XO p0 ->
                               (match p0 with
                                | XH ->
                                  (match l3 with
                                   | [] ->
                                     (match l2 with
                                      | [] -> sgr_groups f s rest
                                      | l4 :: l5 ->
                                        (match l4 with
                                         | [] -> sgr_groups f s rest
                                         | r :: l6 ->
                                           (match l6 with
                                            | [] ->
                                              (match l5 with
                                               | [] -> sgr_groups f s rest
                                               | l7 :: l8 ->
                                                 (match l7 with
                                                  | [] -> sgr_groups f s rest
                                                  | g :: l9 ->
                                                    (match l9 with
                                                     | [] ->
                                                       (match l8 with
                                                        | [] ->
                                                          sgr_groups f s rest
                                                        | l10 :: rest' ->
                                                          (match l10 with
                                                           | [] ->
                                                             sgr_groups f s
                                                               rest
                                                           | b :: l11 ->
                                                             (match l11 with
                                                              | [] ->
                                                                sgr_groups f
                                                                  (set_target
                                                                    t s (Some
                                                                    (CRgb (r,
                                                                    g, b))))
                                                                  rest'
                                                              | _ :: _ ->
                                                                sgr_groups f
                                                                  s rest)))
                                                     | _ :: _ ->
                                                       sgr_groups f s rest)))
                                            | _ :: _ -> sgr_groups f s rest)))
                                   | _ :: _ -> sgr_groups f s rest)
                                | _ -> sgr_groups f s rest)
                             | XH -> sgr_groups f s rest))))
                 | None -> sgr_groups f (sgr_code s c) rest)
              | n0 :: l1 ->
                (match n0 with
                 | N0 -> sgr_groups f s rest
                 | Npos p ->
                   (match p with
                    | XI p0 ->
                      (match p0 with
                       | XO p1 ->
                         (match p1 with
                          | XH ->
                            (match l1 with
                             | [] -> sgr_groups f s rest
                             | n1 :: l2 ->
                               (match l2 with
                                | [] ->
                                  (match ext_target c with
                                   | Some t ->
                                     sgr_groups f
                                       (set_target t s (Some (CIdx n1))) rest
                                   | None -> sgr_groups f s rest)
                                | _ :: _ -> sgr_groups f s rest))
                          | _ -> sgr_groups f s rest)
                       | _ -> sgr_groups f s rest)
                    | XO p0 ->
                      (match p0 with
                       | XH ->
                         (match l1 with
                          | [] -> sgr_groups f s rest
                          | r :: l2 ->
                            (match l2 with
                             | [] -> sgr_groups f s rest
                             | g :: l3 ->
                               (match l3 with
                                | [] -> sgr_groups f s rest
                                | b :: l4 ->
                                  (match l4 with
                                   | [] ->
                                     (match ext_target c with
                                      | Some t ->
                                        sgr_groups f
                                          (set_target t s (Some (CRgb (r, g,
                                            b)))) rest
                                      | None -> sgr_groups f s rest)
                                   | _ :: _ -> sgr_groups f s rest))))
                       | _ -> sgr_groups f s rest)
                    | XH -> sgr_groups f s rest)))
           | Npos p ->
             (match p with
              | XI _ ->
                (match l0 with
                 | [] ->
                   (match ext_target c with
                    | Some t ->
                      (match rest with
                       | [] -> sgr_groups f s rest
                       | l1 :: l2 ->
                         (match l1 with
                          | [] -> sgr_groups f s rest
                          | n0 :: l3 ->
                            (match n0 with
                             | N0 -> sgr_groups f s rest
                             | Npos p0 ->
                               (match p0 with
                                | XI p1 ->
                                  (match p1 with
                                   | XO p2 ->
                                     (match p2 with
                                      | XH ->
                                        (match l3 with
                                         | [] ->
                                           (match l2 with
                                            | [] -> sgr_groups f s rest
                                            | l4 :: rest' ->
                                              (match l4 with
                                               | [] -> sgr_groups f s rest
                                               | n1 :: l5 ->
                                                 (match l5 with
                                                  | [] ->
                                                    sgr_groups f
                                                      (set_target t s (Some
                                                        (CIdx n1))) rest'
                                                  | _ :: _ ->
                                                    sgr_groups f s rest)))
                                         | _ :: _ -> sgr_groups f s rest)
                                      | _ -> sgr_groups f s rest)
                                   | _ -> sgr_groups f s rest)
                                | XO p1 ->
                                  (match p1 with
                                   | XH ->
                                     (match l3 with
                                      | [] ->
                                        (match l2 with
                                         | [] -> sgr_groups f s rest
                                         | l4 :: l5 ->
                                           (match l4 with
                                            | [] -> sgr_groups f s rest
                                            | r :: l6 ->
                                              (match l6 with
                                               | [] ->
                                                 (match l5 with
                                                  | [] -> sgr_groups f s rest
                                                  | l7 :: l8 ->
                                                    (match l7 with
                                                     | [] ->
                                                       sgr_groups f s rest
                                                     | g :: l9 ->
                                                       (match l9 with
                                                        | [] ->
                                                          (match l8 with
                                                           | [] ->
                                                             sgr_groups f s
                                                               rest
                                                           | l10 :: rest' ->
                                                             (match l10 with
                                                              | [] ->
                                                                sgr_groups f
                                                                  s rest
                                                              | b :: l11 ->
                                                                (match l11 with
                                                                 | [] ->
                                                                   sgr_groups
                                                                    f
                                                                    (set_target
                                                                    t s (Some
                                                                    (CRgb (r,
                                                                    g, b))))
                                                                    rest'
                                                                 | _ :: _ ->
                                                                   sgr_groups
                                                                    f s rest)))
                                                        | _ :: _ ->
                                                          sgr_groups f s rest)))
                                               | _ :: _ -> sgr_groups f s rest)))
                                      | _ :: _ -> sgr_groups f s rest)
                                   | _ -> sgr_groups f s rest)
                                | XH -> sgr_groups f s rest))))
                    | None -> sgr_groups f (sgr_code s c) rest)
                 | n0 :: l1 ->
                   (match n0 with
                    | N0 -> sgr_groups f s rest
                    | Npos p1 ->
                      (match p1 with
                       | XI p2 ->
                         (match p2 with
                          | XO p3 ->
                            (match p3 with
                             | XH ->
                               (match l1 with
                                | [] -> sgr_groups f s rest
                                | n1 :: l2 ->
                                  (match l2 with
                                   | [] ->
                                     (match ext_target c with
                                      | Some t ->
                                        sgr_groups f
                                          (set_target t s (Some (CIdx n1)))
                                          rest
                                      | None -> sgr_groups f s rest)
                                   | _ :: _ -> sgr_groups f s rest))
                             | _ -> sgr_groups f s rest)
                          | _ -> sgr_groups f s rest)
                       | XO p2 ->
                         (match p2 with
                          | XH ->
                            (match l1 with
                             | [] -> sgr_groups f s rest
                             | r :: l2 ->
                               (match l2 with
                                | [] -> sgr_groups f s rest
                                | g :: l3 ->
                                  (match l3 with
                                   | [] -> sgr_groups f s rest
                                   | b :: l4 ->
                                     (match l4 with
                                      | [] ->
                                        (match ext_target c with
                                         | Some t ->
                                           sgr_groups f
                                             (set_target t s (Some (CRgb (r,
                                               g, b)))) rest
                                         | None -> sgr_groups f s rest)
                                      | _ :: _ -> sgr_groups f s rest))))
                          | _ -> sgr_groups f s rest)
                       | XH -> sgr_groups f s rest)))
              | XO p0 ->
                (match p0 with
                 | XI _ ->
                   (match l0 with
                    | [] ->
                      (match ext_target c with
                       | Some t ->
                         (match rest with
                          | [] -> sgr_groups f s rest
                          | l1 :: l2 ->
                            (match l1 with
                             | [] -> sgr_groups f s rest
                             | n0 :: l3 ->
                               (match n0 with
                                | N0 -> sgr_groups f s rest
                                | Npos p1 ->
                                  (match p1 with
                                   | XI p2 ->
                                     (match p2 with
                                      | XO p3 ->
                                        (match p3 with
                                         | XH ->
                                           (match l3 with
                                            | [] ->
                                              (match l2 with
                                               | [] -> sgr_groups f s rest
                                               | l4 :: rest' ->
                                                 (match l4 with
                                                  | [] -> sgr_groups f s rest
                                                  | n1 :: l5 ->
                                                    (match l5 with
                                                     | [] ->
                                                       sgr_groups f
                                                         (set_target t s
                                                           (Some (CIdx n1)))
                                                         rest'
                                                     | _ :: _ ->
                                                       sgr_groups f s rest)))
                                            | _ :: _ -> sgr_groups f s rest)
                                         | _ -> sgr_groups f s rest)
                                      | _ -> sgr_groups f s rest)
                                   | XO p2 ->
                                     (match p2 with
                                      | XH ->
                                        (match l3 with
                                         | [] ->
                                           (match l2 with
                                            | [] -> sgr_groups f s rest
                                            | l4 :: l5 ->
                                              (match l4 with
                                               | [] -> sgr_groups f s rest
                                               | r :: l6 ->
                                                 (match l6 with
                                                  | [] ->
                                                    (match l5 with
                                                     | [] ->
                                                       sgr_groups f s rest
                                                     | l7 :: l8 ->
                                                       (match l7 with
                                                        | [] ->
                                                          sgr_groups f s rest
                                                        | g :: l9 ->
                                                          (match l9 with
                                                           | [] ->
                                                             (match l8 with
                                                              | [] ->
                                                                sgr_groups f
                                                                  s rest
                                                              | l10 :: rest' ->
                                                                (match l10 with
                                                                 | [] ->
                                                                   sgr_groups
                                                                    f s rest
                                                                 | b :: l11 ->
                                                                   (match l11 with
                                                                    | [] ->
                                                                    sgr_groups
                                                                    f
                                                                    (set_target
                                                                    t s (Some
                                                                    (CRgb (r,
                                                                    g, b))))
                                                                    rest'
                                                                    | _ :: _ ->
                                                                    sgr_groups
                                                                    f s rest)))
                                                           | _ :: _ ->
                                                             sgr_groups f s
                                                               rest)))
                                                  | _ :: _ ->
                                                    sgr_groups f s rest)))
                                         | _ :: _ -> sgr_groups f s rest)
                                      | _ -> sgr_groups f s rest)
                                   | XH -> sgr_groups f s rest))))
                       | None -> sgr_groups f (sgr_code s c) rest)
                    | n0 :: l1 ->
                      (match n0 with
                       | N0 -> sgr_groups f s rest
                       | Npos p2 ->
                         (match p2 with
                          | XI p3 ->
                            (match p3 with
                             | XO p4 ->
                               (match p4 with
                                | XH ->
                                  (match l1 with
                                   | [] -> sgr_groups f s rest
                                   | n1 :: l2 ->
                                     (match l2 with
                                      | [] ->
                                        (match ext_target c with
                                         | Some t ->
                                           sgr_groups f
                                             (set_target t s (Some (CIdx n1)))
                                             rest
                                         | None -> sgr_groups f s rest)
                                      | _ :: _ -> sgr_groups f s rest))
                                | _ -> sgr_groups f s rest)
                             | _ -> sgr_groups f s rest)
                          | XO p3 ->
                            (match p3 with
                             | XH ->
                               (match l1 with
                                | [] -> sgr_groups f s rest
                                | r :: l2 ->
                                  (match l2 with
                                   | [] -> sgr_groups f s rest
                                   | g :: l3 ->
                                     (match l3 with
                                      | [] -> sgr_groups f s rest
                                      | b :: l4 ->
                                        (match l4 with
                                         | [] ->
                                           (match ext_target c with
                                            | Some t ->
                                              sgr_groups f
                                                (set_target t s (Some (CRgb
                                                  (r, g, b)))) rest
                                            | None -> sgr_groups f s rest)
                                         | _ :: _ -> sgr_groups f s rest))))
                             | _ -> sgr_groups f s rest)
                          | XH -> sgr_groups f s rest)))
                 | XO p1 ->
                   (match p1 with
                    | XH ->
                      (match l0 with
                       | [] ->
                         (match ext_target c with
                          | Some t ->
                            (match rest with
                             | [] -> sgr_groups f s rest
                             | l1 :: l2 ->
                               (match l1 with
                                | [] -> sgr_groups f s rest
                                | n0 :: l3 ->
                                  (match n0 with
                                   | N0 -> sgr_groups f s rest
                                   | Npos p2 ->
                                     (match p2 with
                                      | XI p3 ->
                                        (match p3 with
                                         | XO p4 ->
                                           (match p4 with
                                            | XH ->
                                              (match l3 with
                                               | [] ->
                                                 (match l2 with
                                                  | [] -> sgr_groups f s rest
                                                  | l4 :: rest' ->
                                                    (match l4 with
                                                     | [] ->
                                                       sgr_groups f s rest
                                                     | n1 :: l5 ->
                                                       (match l5 with
                                                        | [] ->
                                                          sgr_groups f
                                                            (set_target t s
                                                              (Some (CIdx
                                                              n1))) rest'
                                                        | _ :: _ ->
                                                          sgr_groups f s rest)))
                                               | _ :: _ -> sgr_groups f s rest)
                                            | _ -> sgr_groups f s rest)
                                         | _ -> sgr_groups f s rest)
                                      | XO p3 ->
                                        (match p3 with
                                         | XH ->
                                           (match l3 with
                                            | [] ->
                                              (match l2 with
                                               | [] -> sgr_groups f s rest
                                               | l4 :: l5 ->
                                                 (match l4 with
                                                  | [] -> sgr_groups f s rest
                                                  | r :: l6 ->
                                                    (match l6 with
                                                     | [] ->
                                                       (match l5 with
                                                        | [] ->
                                                          sgr_groups f s rest
                                                        | l7 :: l8 ->
                                                          (match l7 with
                                                           | [] ->
                                                             sgr_groups f s
                                                               rest
                                                           | g :: l9 ->
                                                             (match l9 with
                                                              | [] ->
                                                                (match l8 with
                                                                 | [] ->
                                                                   sgr_groups
                                                                    f s rest
                                                                 | l10 :: rest' ->
                                                                   (match l10 with
                                                                    | [] ->
                                                                    sgr_groups
                                                                    f s rest
                                                                    | b :: l11 ->
                                                                    (match l11 with
                                                                    | [] ->
                                                                    sgr_groups
                                                                    f
                                                                    (set_target
                                                                    t s (Some
                                                                    (CRgb (r,
                                                                    g, b))))
                                                                    rest'
                                                                    | _ :: _ ->
                                                                    sgr_groups
                                                                    f s rest)))
                                                              | _ :: _ ->
                                                                sgr_groups f
                                                                  s rest)))
                                                     | _ :: _ ->
                                                       sgr_groups f s rest)))
                                            | _ :: _ -> sgr_groups f s rest)
                                         | _ -> sgr_groups f s rest)
                                      | XH -> sgr_groups f s rest))))
                          | None -> sgr_groups f (sgr_code s c) rest)
                       | n0 :: l1 ->
                         (match n0 with
                          | N0 ->
                            (match l1 with
                             | [] ->
                               (match underline_kind n0 with
                                | Some k ->
                                  sgr_groups f (set_underline s k) rest
                                | None -> sgr_groups f s rest)
                             | _ :: _ -> sgr_groups f s rest)
                          | Npos p2 ->
                            (match p2 with
                             | XI p3 ->
                               (match p3 with
                                | XO p4 ->
                                  (match p4 with
                                   | XH ->
                                     (match l1 with
                                      | [] ->
                                        (match underline_kind n0 with
                                         | Some k ->
                                           sgr_groups f (set_underline s k)
                                             rest
                                         | None -> sgr_groups f s rest)
                                      | n1 :: l2 ->
                                        (match l2 with
                                         | [] ->
                                           (match ext_target c with
                                            | Some t ->
                                              sgr_groups f
                                                (set_target t s (Some (CIdx
                                                  n1))) rest
                                            | None -> sgr_groups f s rest)
                                         | _ :: _ -> sgr_groups f s rest))
                                   | _ ->
                                     (match l1 with
                                      | [] ->
                                        (match underline_kind n0 with
                                         | Some k ->
                                           sgr_groups f (set_underline s k)
                                             rest
                                         | None -> sgr_groups f s rest)
                                      | _ :: _ -> sgr_groups f s rest))
                                | _ ->
                                  (match l1 with
                                   | [] ->
                                     (match underline_kind n0 with
                                      | Some k ->
                                        sgr_groups f (set_underline s k) rest
                                      | None -> sgr_groups f s rest)
                                   | _ :: _ -> sgr_groups f s rest))
                             | XO p3 ->
                               (match p3 with
                                | XH ->
                                  (match l1 with
                                   | [] ->
                                     (match underline_kind n0 with
                                      | Some k ->
                                        sgr_groups f (set_underline s k) rest
                                      | None -> sgr_groups f s rest)
                                   | r :: l2 ->
                                     (match l2 with
                                      | [] -> sgr_groups f s rest
                                      | g :: l3 ->
                                        (match l3 with
                                         | [] -> sgr_groups f s rest
                                         | b :: l4 ->
                                           (match l4 with
                                            | [] ->
                                              (match ext_target c with
                                               | Some t ->
                                                 sgr_groups f
                                                   (set_target t s (Some
                                                     (CRgb (r, g, b)))) rest
                                               | None -> sgr_groups f s rest)
                                            | _ :: _ -> sgr_groups f s rest))))
                                | _ ->
                                  (match l1 with
                                   | [] ->
                                     (match underline_kind n0 with
                                      | Some k ->
                                        sgr_groups f (set_underline s k) rest
                                      | None -> sgr_groups f s rest)
                                   | _ :: _ -> sgr_groups f s rest))
                             | XH ->
                               (match l1 with
                                | [] ->
                                  (match underline_kind n0 with
                                   | Some k ->
                                     sgr_groups f (set_underline s k) rest
                                   | None -> sgr_groups f s rest)
                                | _ :: _ -> sgr_groups f s rest))))
                    | _ ->
                      (match l0 with
                       | [] ->
                         (match ext_target c with
                          | Some t ->
                            (match rest with
                             | [] -> sgr_groups f s rest
                             | l1 :: l2 ->
                               (match l1 with
                                | [] -> sgr_groups f s rest
                                | n0 :: l3 ->
                                  (match n0 with
                                   | N0 -> sgr_groups f s rest
                                   | Npos p2 ->
                                     (match p2 with
                                      | XI p3 ->
                                        (match p3 with
                                         | XO p4 ->
                                           (match p4 with
                                            | XH ->
                                              (match l3 with
                                               | [] ->
                                                 (match l2 with
                                                  | [] -> sgr_groups f s rest
                                                  | l4 :: rest' ->
                                                    (match l4 with
                                                     | [] ->
                                                       sgr_groups f s rest
                                                     | n1 :: l5 ->
                                                       (match l5 with
                                                        | [] ->
                                                          sgr_groups f
                                                            (set_target t s
                                                              (Some (CIdx
                                                              n1))) rest'
                                                        | _ :: _ ->
                                                          sgr_groups f s rest)))
                                               | _ :: _ -> sgr_groups f s rest)
                                            | _ -> sgr_groups f s rest)
                                         | _ -> sgr_groups f s rest)
                                      | XO p3 ->
                                        (match p3 with
                                         | XH ->
                                           (match l3 with
                                            | [] ->
                                              (match l2 with
                                               | [] -> sgr_groups f s rest
                                               | l4 :: l5 ->
                                                 (match l4 with
                                                  | [] -> sgr_groups f s rest
                                                  | r :: l6 ->
                                                    (match l6 with
                                                     | [] ->
                                                       (match l5 with
                                                        | [] ->
                                                          sgr_groups f s rest
                                                        | l7 :: l8 ->
                                                          (match l7 with
                                                           | [] ->
                                                             sgr_groups f s
                                                               rest
                                                           | g :: l9 ->
                                                             (match l9 with
                                                              | [] ->
                                                                (match l8 with
                                                                 | [] ->
                                                                   sgr_groups
                                                                    f s rest
                                                                 | l10 :: rest' ->
                                                                   (match l10 with
                                                                    | [] ->
                                                                    sgr_groups
                                                                    f s rest
                                                                    | b :: l11 ->
                                                                    (match l11 with
                                                                    | [] ->
                                                                    sgr_groups
                                                                    f
                                                                    (set_target
                                                                    t s (Some
                                                                    (CRgb (r,
                                                                    g, b))))
                                                                    rest'
                                                                    | _ :: _ ->
                                                                    sgr_groups
                                                                    f s rest)))
                                                              | _ :: _ ->
                                                                sgr_groups f
                                                                  s rest)))
                                                     | _ :: _ ->
                                                       sgr_groups f s rest)))
                                            | _ :: _ -> sgr_groups f s rest)
                                         | _ -> sgr_groups f s rest)
                                      | XH -> sgr_groups f s rest))))
                          | None -> sgr_groups f (sgr_code s c) rest)
                       | n0 :: l1 ->
                         (match n0 with
                          | N0 -> sgr_groups f s rest
                          | Npos p3 ->
                            (match p3 with
                             | XI p4 ->
                               (match p4 with
                                | XO p5 ->
                                  (match p5 with
                                   | XH ->
                                     (match l1 with
                                      | [] -> sgr_groups f s rest
                                      | n1 :: l2 ->
                                        (match l2 with
                                         | [] ->
                                           (match ext_target c with
                                            | Some t ->
                                              sgr_groups f
                                                (set_target t s (Some (CIdx
                                                  n1))) rest
                                            | None -> sgr_groups f s rest)
                                         | _ :: _ -> sgr_groups f s rest))
                                   | _ -> sgr_groups f s rest)
                                | _ -> sgr_groups f s rest)
                             | XO p4 ->
                               (match p4 with
                                | XH ->
                                  (match l1 with
                                   | [] -> sgr_groups f s rest
                                   | r :: l2 ->
                                     (match l2 with
                                      | [] -> sgr_groups f s rest
                                      | g :: l3 ->
                                        (match l3 with
                                         | [] -> sgr_groups f s rest
                                         | b :: l4 ->
                                           (match l4 with
                                            | [] ->
                                              (match ext_target c with
                                               | Some t ->
                                                 sgr_groups f
                                                   (set_target t s (Some
                                                     (CRgb (r, g, b)))) rest
                                               | None -> sgr_groups f s rest)
                                            | _ :: _ -> sgr_groups f s rest))))
                                | _ -> sgr_groups f s rest)
                             | XH -> sgr_groups f s rest))))
                 | XH ->
                   (match l0 with
                    | [] ->
                      (match ext_target c with
                       | Some t ->
                         (match rest with
                          | [] -> sgr_groups f s rest
                          | l1 :: l2 ->
                            (match l1 with
                             | [] -> sgr_groups f s rest
                             | n0 :: l3 ->
                               (match n0 with
                                | N0 -> sgr_groups f s rest
                                | Npos p1 ->
                                  (match p1 with
                                   | XI p2 ->
                                     (match p2 with
                                      | XO p3 ->
                                        (match p3 with
                                         | XH ->
                                           (match l3 with
                                            | [] ->
                                              (match l2 with
                                               | [] -> sgr_groups f s rest
                                               | l4 :: rest' ->
                                                 (match l4 with
                                                  | [] -> sgr_groups f s rest
                                                  | n1 :: l5 ->
                                                    (match l5 with
                                                     | [] ->
                                                       sgr_groups f
                                                         (set_target t s
                                                           (Some (CIdx n1)))
                                                         rest'
                                                     | _ :: _ ->
                                                       sgr_groups f s rest)))
                                            | _ :: _ -> sgr_groups f s rest)
                                         | _ -> sgr_groups f s rest)
                                      | _ -> sgr_groups f s rest)
                                   | XO p2 ->
                                     (match p2 with
                                      | XH ->
                                        (match l3 with
                                         | [] ->
                                           (match l2 with
                                            | [] -> sgr_groups f s rest
                                            | l4 :: l5 ->
                                              (match l4 with
                                               | [] -> sgr_groups f s rest
                                               | r :: l6 ->
                                                 (match l6 with
                                                  | [] ->
                                                    (match l5 with
                                                     | [] ->
                                                       sgr_groups f s rest
                                                     | l7 :: l8 ->
                                                       (match l7 with
                                                        | [] ->
                                                          sgr_groups f s rest
                                                        | g :: l9 ->
                                                          (match l9 with
                                                           | [] ->
                                                             (match l8 with
                                                              | [] ->
                                                                sgr_groups f
                                                                  s rest
                                                              | l10 :: rest' ->
                                                                (match l10 with
                                                                 | [] ->
                                                                   sgr_groups
                                                                    f s rest
                                                                 | b :: l11 ->
                                                                   (match l11 with
                                                                    | [] ->
                                                                    sgr_groups
                                                                    f
                                                                    (set_target
                                                                    t s (Some
                                                                    (CRgb (r,
                                                                    g, b))))
                                                                    rest'
                                                                    | _ :: _ ->
                                                                    sgr_groups
                                                                    f s rest)))
                                                           | _ :: _ ->
                                                             sgr_groups f s
                                                               rest)))
                                                  | _ :: _ ->
                                                    sgr_groups f s rest)))
                                         | _ :: _ -> sgr_groups f s rest)
                                      | _ -> sgr_groups f s rest)
                                   | XH -> sgr_groups f s rest))))
                       | None -> sgr_groups f (sgr_code s c) rest)
                    | n0 :: l1 ->
                      (match n0 with
                       | N0 -> sgr_groups f s rest
                       | Npos p1 ->
                         (match p1 with
                          | XI p2 ->
                            (match p2 with
                             | XO p3 ->
                               (match p3 with
                                | XH ->
                                  (match l1 with
                                   | [] -> sgr_groups f s rest
                                   | n1 :: l2 ->
                                     (match l2 with
                                      | [] ->
                                        (match ext_target c with
                                         | Some t ->
                                           sgr_groups f
                                             (set_target t s (Some (CIdx n1)))
                                             rest
                                         | None -> sgr_groups f s rest)
                                      | _ :: _ -> sgr_groups f s rest))
                                | _ -> sgr_groups f s rest)
                             | _ -> sgr_groups f s rest)
                          | XO p2 ->
                            (match p2 with
                             | XH ->
                               (match l1 with
                                | [] -> sgr_groups f s rest
                                | r :: l2 ->
                                  (match l2 with
                                   | [] -> sgr_groups f s rest
                                   | g :: l3 ->
                                     (match l3 with
                                      | [] -> sgr_groups f s rest
                                      | b :: l4 ->
                                        (match l4 with
                                         | [] ->
                                           (match ext_target c with
                                            | Some t ->
                                              sgr_groups f
                                                (set_target t s (Some (CRgb
                                                  (r, g, b)))) rest
                                            | None -> sgr_groups f s rest)
                                         | _ :: _ -> sgr_groups f s rest))))
                             | _ -> sgr_groups f s rest)
                          | XH -> sgr_groups f s rest))))
              | XH ->
                (match l0 with
                 | [] ->
                   (match ext_target c with
                    | Some t ->
                      (match rest with
                       | [] -> sgr_groups f s rest
                       | l1 :: l2 ->
                         (match l1 with
                          | [] -> sgr_groups f s rest
                          | n0 :: l3 ->
                            (match n0 with
                             | N0 -> sgr_groups f s rest
                             | Npos p0 ->
                               (match p0 with
                                | XI p1 ->
                                  (match p1 with
                                   | XO p2 ->
                                     (match p2 with
                                      | XH ->
                                        (match l3 with
                                         | [] ->
                                           (match l2 with
                                            | [] -> sgr_groups f s rest
                                            | l4 :: rest' ->
                                              (match l4 with
                                               | [] -> sgr_groups f s rest
                                               | n1 :: l5 ->
                                                 (match l5 with
                                                  | [] ->
                                                    sgr_groups f
                                                      (set_target t s (Some
                                                        (CIdx n1))) rest'
                                                  | _ :: _ ->
                                                    sgr_groups f s rest)))
                                         | _ :: _ -> sgr_groups f s rest)
                                      | _ -> sgr_groups f s rest)
                                   | _ -> sgr_groups f s rest)
                                | XO p1 ->
                                  (match p1 with
                                   | XH ->
                                     (match l3 with
                                      | [] ->
                                        (match l2 with
                                         | [] -> sgr_groups f s rest
                                         | l4 :: l5 ->
                                           (match l4 with
                                            | [] -> sgr_groups f s rest
                                            | r :: l6 ->
                                              (match l6 with
                                               | [] ->
                                                 (match l5 with
                                                  | [] -> sgr_groups f s rest
                                                  | l7 :: l8 ->
                                                    (match l7 with
                                                     | [] ->
                                                       sgr_groups f s rest
                                                     | g :: l9 ->
                                                       (match l9 with
                                                        | [] ->
                                                          (match l8 with
                                                           | [] ->
                                                             sgr_groups f s
                                                               rest
                                                           | l10 :: rest' ->
                                                             (match l10 with
                                                              | [] ->
                                                                sgr_groups f
                                                                  s rest
                                                              | b :: l11 ->
                                                                (match l11 with
                                                                 | [] ->
                                                                   sgr_groups
                                                                    f
                                                                    (set_target
                                                                    t s (Some
                                                                    (CRgb (r,
                                                                    g, b))))
                                                                    rest'
                                                                 | _ :: _ ->
                                                                   sgr_groups
                                                                    f s rest)))
                                                        | _ :: _ ->
                                                          sgr_groups f s rest)))
                                               | _ :: _ -> sgr_groups f s rest)))
                                      | _ :: _ -> sgr_groups f s rest)
                                   | _ -> sgr_groups f s rest)
                                | XH -> sgr_groups f s rest))))
                    | None -> sgr_groups f (sgr_code s c) rest)
                 | n0 :: l1 ->
                   (match n0 with
                    | N0 -> sgr_groups f s rest
                    | Npos p0 ->
                      (match p0 with
                       | XI p1 ->
                         (match p1 with
                          | XO p2 ->
                            (match p2 with
                             | XH ->
                               (match l1 with
                                | [] -> sgr_groups f s rest
                                | n1 :: l2 ->
                                  (match l2 with
                                   | [] ->
                                     (match ext_target c with
                                      | Some t ->
                                        sgr_groups f
                                          (set_target t s (Some (CIdx n1)))
                                          rest
                                      | None -> sgr_groups f s rest)
                                   | _ :: _ -> sgr_groups f s rest))
                             | _ -> sgr_groups f s rest)
                          | _ -> sgr_groups f s rest)
                       | XO p1 ->
                         (match p1 with
                          | XH ->
                            (match l1 with
                             | [] -> sgr_groups f s rest
                             | r :: l2 ->
                               (match l2 with
                                | [] -> sgr_groups f s rest
                                | g :: l3 ->
                                  (match l3 with
                                   | [] -> sgr_groups f s rest
                                   | b :: l4 ->
                                     (match l4 with
                                      | [] ->
                                        (match ext_target c with
                                         | Some t ->
                                           sgr_groups f
                                             (set_target t s (Some (CRgb (r,
                                               g, b)))) rest
                                         | None -> sgr_groups f s rest)
                                      | _ :: _ -> sgr_groups f s rest))))
                          | _ -> sgr_groups f s rest)
                       | XH -> sgr_groups f s rest)))))))

(** val sgr_apply : sstyle -> n list list -> sstyle **)

let sgr_apply s gs =
  sgr_groups (S (length gs)) s gs

(** val event_style : sstyle -> event -> sstyle **)

let event_style s = function
| ECsi (ps, ints0, ign0, b) ->
  (match ints0 with
   | [] ->
     if ign0
     then s
     else (match b with
           | N0 -> s
           | Npos p ->
             (match p with
              | XI p0 ->
                (match p0 with
                 | XO p1 ->
                   (match p1 with
                    | XI p2 ->
                      (match p2 with
                       | XI p3 ->
                         (match p3 with
                          | XO p4 ->
                            (match p4 with
                             | XI p5 ->
                               (match p5 with
                                | XH -> sgr_apply s ps
                                | _ -> s)
                             | _ -> s)
                          | _ -> s)
                       | _ -> s)
                    | _ -> s)
                 | _ -> s)
              | _ -> s))
   | _ :: _ -> s)
| _ -> s

(** val is_ws_exec : n -> bool **)

let is_ws_exec b =
  (||)
    ((||)
      ((||) (N.eqb b (Npos (XI (XO (XO XH)))))
        (N.eqb b (Npos (XO (XI (XO XH))))))
      (N.eqb b (Npos (XO (XO (XI XH)))))) (N.eqb b (Npos (XI (XO (XI XH)))))

(** val interp : sstyle -> event list -> (sstyle * n) list * sstyle **)

let rec interp s = function
| [] -> ([], s)
| e :: rest ->
  let s1 = event_style s e in
  let (out, s2) = interp s1 rest in
  (match e with
   | EPrint cp -> (((s1, cp) :: out), s2)
   | EExecute b -> if is_ws_exec b then (((s1, b) :: out), s2) else (out, s2)
   | _ -> (out, s2))

(** val colour_eqb : colour -> colour -> bool **)

let colour_eqb a b =
  match a with
  | CAnsi x -> (match b with
                | CAnsi y -> N.eqb x y
                | _ -> false)
  | CIdx x -> (match b with
               | CIdx y -> N.eqb x y
               | _ -> false)
  | CRgb (r, g, b0) ->
    (match b with
     | CRgb (r', g', b') ->
       (&&) ((&&) (N.eqb r r') (N.eqb g g')) (N.eqb b0 b')
     | _ -> false)

(** val opt_colour_eqb : colour option -> colour option -> bool **)

let opt_colour_eqb a b =
  match a with
  | Some x -> (match b with
               | Some y -> colour_eqb x y
               | None -> false)
  | None -> (match b with
             | Some _ -> false
             | None -> true)

(** val sstyle_eqb : sstyle -> sstyle -> bool **)

let sstyle_eqb a b =
  (&&)
    ((&&)
      ((&&) (opt_colour_eqb a.s_fg b.s_fg) (opt_colour_eqb a.s_bg b.s_bg))
      (opt_colour_eqb a.s_ul b.s_ul)) (N.eqb a.s_eff b.s_eff)

(** val group_runs : (sstyle * n) list -> (sstyle * n list) list **)

let rec group_runs = function
| [] -> []
| p :: rest ->
  let (s, c) = p in
  (match group_runs rest with
   | [] -> (s, (c :: [])) :: []
   | p0 :: rest' ->
     let (s', t) = p0 in
     if sstyle_eqb s s'
     then (s, (c :: t)) :: rest'
     else (s, (c :: [])) :: ((s', t) :: rest'))

(** val spec_runs : n list -> (sstyle * n list) list **)

let spec_runs bs =
  group_runs (fst (interp style_default (spec_events bs)))

type wstate =
| WNormal
| WPrepareCustomColor
| WAnsi256
| WRgb
| WUnderline

type dstate = { d_style : sstyle; d_state : wstate; d_r : n option;
                d_g : n option; d_target : target }

(** val st_insert : sstyle -> n -> sstyle **)

let st_insert s k =
  { s_fg = s.s_fg; s_bg = s.s_bg; s_ul = s.s_ul; s_eff =
    (N.coq_lor s.s_eff (bit k)) }

(** val st_remove : sstyle -> n -> sstyle **)

let st_remove s k =
  { s_fg = s.s_fg; s_bg = s.s_bg; s_ul = s.s_ul; s_eff =
    (N.ldiff s.s_eff (bit k)) }

(** val style_eqb : sstyle -> sstyle -> bool **)

let style_eqb =
  sstyle_eqb

(** val to_ansi_color : n -> n option **)

let to_ansi_color d =
  if N.leb d (Npos (XI (XI XH))) then Some d else None

(** val set_d : dstate -> sstyle -> wstate -> dstate **)

let set_d d s w =
  { d_style = s; d_state = w; d_r = d.d_r; d_g = d.d_g; d_target =
    d.d_target }

(** val value_step : dstate -> n -> (dstate * bool) option **)

let value_step d v =
  let s = d.d_style in
  (match d.d_state with
   | WNormal ->
     if N.eqb v N0
     then Some ((set_d d style_default WNormal), true)
     else if N.eqb v (Npos XH)
          then Some ((set_d d (st_insert s bOLD) WNormal), true)
          else if N.eqb v (Npos (XO XH))
               then Some ((set_d d (st_insert s dIMMED) WNormal), true)
               else if N.eqb v (Npos (XI XH))
                    then Some ((set_d d (st_insert s iTALIC) WNormal), true)
                    else if N.eqb v (Npos (XO (XO XH)))
                         then Some
                                ((set_d d (st_insert s uNDERLINE) WUnderline),
                                false)
                         else if N.eqb v (Npos (XI (XO (XI (XO XH)))))
                              then Some
                                     ((set_d d (st_insert s dOUBLE_UNDERLINE)
                                        WNormal), true)
                              else if N.eqb v (Npos (XI (XI XH)))
                                   then Some
                                          ((set_d d (st_insert s iNVERT)
                                             WNormal), true)
                                   else if N.eqb v (Npos (XO (XO (XO XH))))
                                        then Some
                                               ((set_d d (st_insert s hIDDEN)
                                                  WNormal), true)
                                        else if N.eqb v (Npos (XI (XO (XO
                                                  XH))))
                                             then Some
                                                    ((set_d d
                                                       (st_insert s
                                                         sTRIKETHROUGH)
                                                       WNormal), true)
                                             else if in_rng (Npos (XO (XI (XI
                                                       (XI XH))))) (Npos (XI
                                                       (XO (XI (XO (XO
                                                       XH)))))) v
                                                  then (match csub v (Npos
                                                                (XO (XI (XI
                                                                (XI XH))))) with
                                                        | Some x ->
                                                          (match to_ansi_color
                                                                   x with
                                                           | Some c ->
                                                             Some
                                                               ((set_d d
                                                                  (set_fg s
                                                                    (Some
                                                                    (CAnsi
                                                                    c)))
                                                                  WNormal),
                                                               true)
                                                           | None -> None)
                                                        | None -> None)
                                                  else if N.eqb v (Npos (XO
                                                            (XI (XI (XO (XO
                                                            XH))))))
                                                       then Some ({ d_style =
                                                              s; d_state =
                                                              WPrepareCustomColor;
                                                              d_r = d.d_r;
                                                              d_g = d.d_g;
                                                              d_target =
                                                              TFg }, false)
                                                       else if N.eqb v (Npos
                                                                 (XI (XI (XI
                                                                 (XO (XO
                                                                 XH))))))
                                                            then Some
                                                                   ((set_d d
                                                                    (set_fg s
                                                                    None)
                                                                    WNormal),
                                                                   true)
                                                            else if in_rng
                                                                    (Npos (XO
                                                                    (XO (XO
                                                                    (XI (XO
                                                                    XH))))))
                                                                    (Npos (XI
                                                                    (XI (XI
                                                                    (XI (XO
                                                                    XH)))))) v
                                                                 then 
                                                                   (match 
                                                                    csub v
                                                                    (Npos (XO
                                                                    (XO (XO
                                                                    (XI (XO
                                                                    XH)))))) with
                                                                    | Some x ->
                                                                    (match 
                                                                    to_ansi_color
                                                                    x with
                                                                    | Some c ->
                                                                    Some
                                                                    ((set_d d
                                                                    (set_bg s
                                                                    (Some
                                                                    (CAnsi
                                                                    c)))
                                                                    WNormal),
                                                                    true)
                                                                    | None ->
                                                                    None)
                                                                    | None ->
                                                                    None)
                                                                 else 
                                                                   if 
                                                                    N.eqb v
                                                                    (Npos (XO
                                                                    (XO (XO
                                                                    (XO (XI
                                                                    XH))))))
                                                                   then 
                                                                    Some
                                                                    ({ d_style =
                                                                    s;
                                                                    d_state =
                                                                    WPrepareCustomColor;
                                                                    d_r =
                                                                    d.d_r;
                                                                    d_g =
                                                                    d.d_g;
                                                                    d_target =
                                                                    TBg },
                                                                    false)
                                                                   else 
                                                                    if 
                                                                    N.eqb v
                                                                    (Npos (XI
                                                                    (XO (XO
                                                                    (XO (XI
                                                                    XH))))))
                                                                    then 
                                                                    Some
                                                                    ((set_d d
                                                                    (set_bg s
                                                                    None)
                                                                    WNormal),
                                                                    true)
                                                                    else 
                                                                    if 
                                                                    N.eqb v
                                                                    (Npos (XO
                                                                    (XI (XO
                                                                    (XI (XI
                                                                    XH))))))
                                                                    then 
                                                                    Some
                                                                    ({ d_style =
                                                                    s;
                                                                    d_state =
                                                                    WPrepareCustomColor;
                                                                    d_r =
                                                                    d.d_r;
                                                                    d_g =
                                                                    d.d_g;
                                                                    d_target =
                                                                    TUl },
                                                                    false)
                                                                    else 
                                                                    if 
                                                                    in_rng
                                                                    (Npos (XO
                                                                    (XI (XO
                                                                    (XI (XI
                                                                    (XO
                                                                    XH)))))))
                                                                    (Npos (XI
                                                                    (XO (XO
                                                                    (XO (XO
                                                                    (XI
                                                                    XH)))))))
                                                                    v
                                                                    then 
                                                                    (match 
                                                                    csub v
                                                                    (Npos (XO
                                                                    (XI (XO
                                                                    (XI (XI
                                                                    (XO
                                                                    XH))))))) with
                                                                    | Some x ->
                                                                    (match 
                                                                    to_ansi_color
                                                                    x with
                                                                    | Some c ->
                                                                    Some
                                                                    ((set_d d
                                                                    (set_fg s
                                                                    (Some
                                                                    (CAnsi
                                                                    (N.add c
                                                                    (Npos (XO
                                                                    (XO (XO
                                                                    XH))))))))
                                                                    WNormal),
                                                                    true)
                                                                    | None ->
                                                                    None)
                                                                    | None ->
                                                                    None)
                                                                    else 
                                                                    if 
                                                                    in_rng
                                                                    (Npos (XO
                                                                    (XO (XI
                                                                    (XO (XO
                                                                    (XI
                                                                    XH)))))))
                                                                    (Npos (XI
                                                                    (XI (XO
                                                                    (XI (XO
                                                                    (XI
                                                                    XH)))))))
                                                                    v
                                                                    then 
                                                                    (match 
                                                                    csub v
                                                                    (Npos (XO
                                                                    (XO (XI
                                                                    (XO (XO
                                                                    (XI
                                                                    XH))))))) with
                                                                    | Some x ->
                                                                    (match 
                                                                    to_ansi_color
                                                                    x with
                                                                    | Some c ->
                                                                    Some
                                                                    ((set_d d
                                                                    (set_bg s
                                                                    (Some
                                                                    (CAnsi
                                                                    (N.add c
                                                                    (Npos (XO
                                                                    (XO (XO
                                                                    XH))))))))
                                                                    WNormal),
                                                                    true)
                                                                    | None ->
                                                                    None)
                                                                    | None ->
                                                                    None)
                                                                    else 
                                                                    Some
                                                                    ((set_d d
                                                                    s WNormal),
                                                                    true)
   | WPrepareCustomColor ->
     if N.eqb v (Npos (XI (XO XH)))
     then Some ((set_d d s WAnsi256), false)
     else if N.eqb v (Npos (XO XH))
          then Some ({ d_style = s; d_state = WRgb; d_r = None; d_g = None;
                 d_target = d.d_target }, false)
          else Some ((set_d d s WNormal), true)
   | WAnsi256 ->
     Some
       ((set_d d
          (set_target d.d_target s (Some (CIdx
            (N.modulo v (Npos (XO (XO (XO (XO (XO (XO (XO (XO XH)))))))))))))
          WNormal), true)
   | WRgb ->
     (match d.d_r with
      | Some r ->
        (match d.d_g with
         | Some g ->
           Some
             ((set_d d
                (set_target d.d_target s (Some (CRgb
                  ((N.modulo r (Npos (XO (XO (XO (XO (XO (XO (XO (XO
                     XH)))))))))),
                  (N.modulo g (Npos (XO (XO (XO (XO (XO (XO (XO (XO
                    XH)))))))))),
                  (N.modulo v (Npos (XO (XO (XO (XO (XO (XO (XO (XO
                    XH)))))))))))))) WNormal), true)
         | None ->
           Some ({ d_style = s; d_state = WRgb; d_r = d.d_r; d_g = (Some v);
             d_target = d.d_target }, false))
      | None ->
        Some ({ d_style = s; d_state = WRgb; d_r = (Some v); d_g = d.d_g;
          d_target = d.d_target }, false))
   | WUnderline ->
     if N.eqb v N0
     then Some ((set_d d (st_remove s uNDERLINE) WUnderline), false)
     else if N.eqb v (Npos XH)
          then Some (d, false)
          else if N.eqb v (Npos (XO XH))
               then Some
                      ((set_d d
                         (st_insert (st_remove s uNDERLINE) dOUBLE_UNDERLINE)
                         WUnderline), false)
               else if N.eqb v (Npos (XI XH))
                    then Some
                           ((set_d d
                              (st_insert (st_remove s uNDERLINE)
                                cURLY_UNDERLINE) WUnderline), false)
                    else if N.eqb v (Npos (XO (XO XH)))
                         then Some
                                ((set_d d
                                   (st_insert (st_remove s uNDERLINE)
                                     dOTTED_UNDERLINE) WUnderline), false)
                         else if N.eqb v (Npos (XI (XO XH)))
                              then Some
                                     ((set_d d
                                        (st_insert (st_remove s uNDERLINE)
                                          dASHED_UNDERLINE) WUnderline),
                                     false)
                              else Some ((set_d d s WNormal), true))

(** val values_loop : dstate -> n list -> dstate option **)

let rec values_loop d = function
| [] -> Some d
| v :: rest ->
  (match value_step d v with
   | Some p ->
     let (d1, brk) = p in if brk then Some d1 else values_loop d1 rest
   | None -> None)

(** val params_loop : dstate -> n list list -> dstate option **)

let rec params_loop d = function
| [] -> Some d
| p :: rest ->
  (match values_loop d p with
   | Some d1 ->
     let d2 =
       match d1.d_state with
       | WUnderline -> set_d d1 d1.d_style WNormal
       | _ -> d1
     in
     params_loop d2 rest
   | None -> None)

(** val sgr_dispatch : sstyle -> n list list -> sstyle option **)

let sgr_dispatch s ps =
  match params_loop { d_style = s; d_state = WNormal; d_r = None; d_g = None;
          d_target = TFg } ps with
  | Some d -> Some d.d_style
  | None -> None

type capture = { c_style : sstyle; c_printable : n list;
                 c_ready : sstyle option }

(** val capture_default : capture **)

let capture_default =
  { c_style = style_default; c_printable = []; c_ready = None }

(** val capture_event : capture -> event -> capture option **)

let capture_event c = function
| EPrint cp ->
  Some { c_style = c.c_style; c_printable = (app c.c_printable (cp :: []));
    c_ready = c.c_ready }
| EExecute b ->
  if is_ascii_whitespace b
  then Some { c_style = c.c_style; c_printable =
         (app c.c_printable (b :: [])); c_ready = c.c_ready }
  else Some c
| ECsi (ps, ints0, ign0, action0) ->
  if ign0
  then Some c
  else if negb (N.eqb action0 (Npos (XI (XO (XI (XI (XO (XI XH))))))))
       then Some c
       else if negb (match ints0 with
                     | [] -> true
                     | _ :: _ -> false)
            then Some c
            else (match sgr_dispatch c.c_style ps with
                  | Some style ->
                    let ready =
                      if (&&) (negb (style_eqb style c.c_style))
                           (negb
                             (match c.c_printable with
                              | [] -> true
                              | _ :: _ -> false))
                      then Some c.c_style
                      else c.c_ready
                    in
                    Some { c_style = style; c_printable = c.c_printable;
                    c_ready = ready }
                  | None -> None)
| _ -> Some c

(** val capture_events : capture -> event list -> capture option **)

let rec capture_events c = function
| [] -> Some c
| e :: rest ->
  (match capture_event c e with
   | Some c1 -> capture_events c1 rest
   | None -> None)

(** val wn_loop :
    n list -> parser0 -> capture -> ((n list * parser0) * capture) option **)

let rec wn_loop bs p c =
  match c.c_ready with
  | Some _ -> Some ((bs, p), c)
  | None ->
    (match bs with
     | [] -> Some (([], p), c)
     | b :: rest ->
       (match advance cfg_default p b with
        | Some p0 ->
          let (p1, evs) = p0 in
          (match capture_events c evs with
           | Some c1 -> wn_loop rest p1 c1
           | None -> None)
        | None -> None))

(** val wincon_next :
    n list -> parser0 -> capture -> ((((sstyle * n list) option * n
    list) * parser0) * capture) option **)

let wincon_next bs p c =
  let c1 = { c_style = c.c_style; c_printable = c.c_printable; c_ready =
    None }
  in
  (match wn_loop bs p c1 with
   | Some p0 ->
     let (p1, c2) = p0 in
     let (bs1, p2) = p1 in
     (match c2.c_printable with
      | [] -> Some (((None, bs1), p2), c2)
      | n0 :: l ->
        let style = match c2.c_ready with
                    | Some s -> s
                    | None -> c2.c_style in
        Some ((((Some (style, (n0 :: l))), bs1), p2), { c_style = c2.c_style;
        c_printable = []; c_ready = c2.c_ready }))
   | None -> None)

(** val wincon_iter :
    nat -> n list -> parser0 -> capture -> (((sstyle * n list)
    list * parser0) * capture) option **)

let rec wincon_iter fuel bs p c =
  match fuel with
  | O -> None
  | S f ->
    (match wincon_next bs p c with
     | Some p0 ->
       let (p1, c1) = p0 in
       let (p2, p3) = p1 in
       let (item, bs1) = p2 in
       (match item with
        | Some it ->
          (match wincon_iter f bs1 p3 c1 with
           | Some p4 ->
             let (p5, c2) = p4 in
             let (its, p6) = p5 in Some (((it :: its), p6), c2)
           | None -> None)
        | None -> Some (([], p3), c1))
     | None -> None)

(** val extract_next :
    n list -> parser0 -> capture -> (((sstyle * n list)
    list * parser0) * capture) option **)

let extract_next bs p c =
  wincon_iter (S (S (length bs))) bs p { c_style = c.c_style; c_printable =
    c.c_printable; c_ready = None }

(** val extract_chunks :
    n list list -> parser0 -> capture -> (((sstyle * n list) list
    list * parser0) * capture) option **)

let rec extract_chunks chunks p c =
  match chunks with
  | [] -> Some (([], p), c)
  | ch :: rest ->
    (match extract_next ch p c with
     | Some p0 ->
       let (p1, c1) = p0 in
       let (its, p2) = p1 in
       (match extract_chunks rest p2 c1 with
        | Some p3 ->
          let (p4, c2) = p3 in
          let (itss, p5) = p4 in Some (((its :: itss), p5), c2)
        | None -> None)
     | None -> None)

(** val merge_runs : (sstyle * n list) list -> (sstyle * n list) list **)

let rec merge_runs = function
| [] -> []
| p :: rest ->
  let (s, t) = p in
  (match merge_runs rest with
   | [] -> (s, t) :: []
   | p0 :: rest' ->
     let (s', t') = p0 in
     if style_eqb s s'
     then (s, (app t t')) :: rest'
     else (s, t) :: ((s', t') :: rest'))
