(* util.ml -- conversions between OCaml ints / strings and the extracted Coq
   datatypes, and the handler registry.  Parsing / printing only. *)
open Extracted

let rec pos_of_int (i : int) : positive =
  if i = 1 then XH
  else if i land 1 = 0 then XO (pos_of_int (i lsr 1))
  else XI (pos_of_int (i lsr 1))

let n_of_int (i : int) : n = if i = 0 then N0 else Npos (pos_of_int i)

let rec int_of_pos (p : positive) : int =
  match p with XH -> 1 | XO q -> 2 * int_of_pos q | XI q -> 2 * int_of_pos q + 1

let int_of_n (x : n) : int = match x with N0 -> 0 | Npos p -> int_of_pos p

(* byte values are shared so that conversion is a table lookup *)
let byte_tab : n array = Array.init 256 n_of_int
let nb (i : int) : n = byte_tab.(i)

let unhex (s : string) : int list =
  if s = "-" then []
  else begin
    let l = String.length s / 2 in
    List.init l (fun i -> int_of_string ("0x" ^ String.sub s (2 * i) 2))
  end

let hex (l : int list) : string =
  String.concat "" (List.map (fun b -> Printf.sprintf "%02x" b) l)

let hexn (l : n list) : string = hex (List.map int_of_n l)


exception Model_panic

let unopt = function Some x -> x | None -> raise Model_panic

let nlist (l : int list) : n list = List.map nb l
let b01 (b : bool) : string = if b then "1" else "0"

(* handlers: kind -> (side -> fields -> result) *)
type side = [ `Model | `Spec ]
let handlers : (string, side -> string list -> string) Hashtbl.t = Hashtbl.create 64
let register (kind : string) (h : side -> string list -> string) = Hashtbl.replace handlers kind h
