(* drv_stream.ml -- C06 / C08: StripStream and AutoStream over scripted writers *)
open Extracted
open Util

let parse_script (s : string) : resp list =
  if s = "-" then []
  else
    List.map
      (fun tok ->
        match tok with
        | "eI" -> Fail Interrupted
        | "eW" -> Fail WouldBlock
        | "eO" -> Fail Other
        | t -> Accept (n_of_int (int_of_string (String.sub t 1 (String.length t - 1)))))
      (String.split_on_char ',' s)

let kind_name = function Interrupted -> "I" | WouldBlock -> "W" | WriteZero -> "Z" | Other -> "O"

let show_res = function
  | ROkN n -> Printf.sprintf "ok:%d" (int_of_n n)
  | ROk -> "ok"
  | RErr k -> "err:" ^ kind_name k

let hexo l = if l = [] then "-" else hexn l

let show_call = function
  | CWrite (buf, Inl n) -> Printf.sprintf "w%s=%d" (hexn buf) (int_of_n n)
  | CWrite (buf, Inr k) -> Printf.sprintf "w%s=e%s" (hexn buf) (kind_name k)
  | CFlush -> "F"

let parse_op (op : string) : sop =
  let k = String.sub op 0 1 in
  let rest = if String.length op > 2 then String.sub op 2 (String.length op - 2) else "" in
  let bufs () = List.map (fun h -> nlist (unhex h)) (String.split_on_char '/' rest) in
  match k with
  | "w" -> OWrite (nlist (unhex rest))
  | "a" -> OWriteAll (nlist (unhex rest))
  | "v" -> OWriteVectored (bufs ())
  | "f" -> OWriteFmt (bufs ())
  | "F" -> OFlush
  | _ -> failwith "op"

let strm side f =
  match side with
  | `Spec ->
      (* a stripping stream over an accept-all Vec / File fed by write_all / write_fmt / write (a Vec takes every
         write whole): what arrives is Spec/Strip of everything handed over, whatever the chunking.  Answered as
         "MERGED <hex>": compared with the delivered-bytes field by the properties' observe hooks *)
      let mode = List.nth f 0 and wkind = List.nth f 1 in
      let strips = (mode = "strip" || mode = "never" || mode = "auto-never") in
      let ops = if List.nth f 3 = "-" then [] else List.map parse_op (String.split_on_char ',' (List.nth f 3)) in
      let simple = List.for_all (function OWriteAll _ | OWrite _ | OWriteFmt _ | OFlush -> true | _ -> false) ops in
      if strips && (wkind = "vec" || wkind = "file") && simple then
        let data = List.concat (List.map (function OWriteAll b | OWrite b -> b | OWriteFmt fs -> List.concat fs | _ -> []) ops) in
        "MERGED " ^ hexo (spec_strip data)
      else "N/A"
  | `Model ->
      let mode = List.nth f 0 and wkind = List.nth f 1 in
      (* boxed / send / sync: scripted writer behind Box<dyn Write [+ Send [+ Sync]]>; vec / file write every
         buffer of a vectored write; buffer (anstream::Buffer) has std's default write_vectored *)
      let scripted = wkind = "boxed" || wkind = "send" || wkind = "sync" in
      let wv_all = wkind = "vec" || wkind = "file" in
      let script = if scripted then parse_script (List.nth f 2) else [] in
      let ops = if List.nth f 3 = "-" then [] else List.map parse_op (String.split_on_char ',' (List.nth f 3)) in
      let m, cur =
        match mode with
        | "strip" -> (MStrip, "-")
        | "never" -> (auto_mode CNever CNever, "")
        | "ansi" -> (auto_mode CAlwaysAnsi CNever, "")
        | "always" -> (auto_mode CAlways CNever, "")
        | "auto-never" -> (auto_mode CAuto CNever, "")
        | "auto-ansi" -> (auto_mode CAuto CAlwaysAnsi, "")
        | "auto-always" -> (auto_mode CAuto CAlways, "")
        | _ -> failwith "mode"
      in
      let cur =
        if cur = "-" then "-"
        else match current_choice m with CNever -> "never" | CAlwaysAnsi -> "ansi" | CAlways -> "always" | CAuto -> "auto"
      in
      let (_, w), rs = unopt (run_ops wv_all m sb_new (writer_of script) ops) in
      let history =
        if scripted then (if w.w_calls = [] then "-" else String.concat ";" (List.map show_call w.w_calls)) else "-"
      in
      Printf.sprintf "%s | %s | %s | %s"
        (if rs = [] then "-" else String.concat "," (List.map show_res rs))
        (hexo w.w_received) history cur

let drv side f =
  match side with
  | `Spec -> "N/A"
  | `Model ->
      let script = parse_script (List.nth f 0) in
      let data = nlist (unhex (List.nth f 1)) in
      let (_, w), r = unopt (ss_drive_all script data) in
      Printf.sprintf "%s | %s" (show_res r) (hexo w.w_received)

let drvv side f =
  match side with
  | `Spec -> "N/A"
  | `Model ->
      let script = parse_script (List.nth f 0) in
      let bufs = List.map (fun h -> nlist (unhex h)) (String.split_on_char '/' (List.nth f 1)) in
      let (_, w), r = unopt (ss_drive_v_all script bufs) in
      Printf.sprintf "%s | %s" (show_res r) (hexo w.w_received)

(* a stream over the real stdout / stderr, locked between two write_all calls: the strip state is carried *)
let lk8 side f =
  let mode = List.nth f 0 in
  let h1 = nlist (unhex (List.nth f 2)) and h2 = nlist (unhex (List.nth f 3)) in
  let strip = (mode = "never" || mode = "strip") in
  match side with
  | `Spec -> hexo (if strip then spec_strip (h1 @ h2) else h1 @ h2)
  | `Model ->
      let m = if strip then MStrip else MPass in
      let (_, w), _ = unopt (run_ops true m sb_new (writer_of []) [ OWriteAll h1; OWriteAll h2 ]) in
      hexo w.w_received

let tas side f =
  let strip = List.nth f 0 = "never" in
  let frags = List.map (fun h -> nlist (unhex h)) (String.split_on_char '/' (List.nth f 1)) in
  match side with
  | `Spec -> hexo (if strip then spec_strip (List.concat frags) else List.concat frags)
  | `Model ->
      let (_, w), _ = unopt (run_ops true (if strip then MStrip else MPass) sb_new (writer_of []) [ OWriteFmt frags ]) in
      hexo w.w_received

(* the print macros on the real stdout / stderr (pipes, so no terminal): every call makes a fresh
   AutoStream::auto stream -- the decision is C09's, the state does not carry from call to call *)
let pm side f =
  match f with
  | _which :: nl :: calls :: rest ->
      let binding b =
        match String.index_opt b '=' with
        | None -> failwith ("binding " ^ b)
        | Some i ->
            let un h = if h = "-" then [] else nlist (unhex h) in
            (un (String.sub b 0 i), un (String.sub b (i + 1) (String.length b - i - 1)))
      in
      let e = env_of_list (List.map binding rest) in
      let c = match side with `Model -> choice_model ChAuto e false | `Spec -> choice_spec ChAuto e false in
      let strip = (c = ChNever) in
      let tail = if nl = "1" then [ [ n_of_int 10 ] ] else [] in
      let one call =
        let frags = (if call = "-" then [] else List.map (fun h -> nlist (unhex h)) (String.split_on_char '/' call)) @ tail in
        match side with
        | `Spec -> if strip then spec_strip (List.concat frags) else List.concat frags
        | `Model ->
            let (_, w), _ = unopt (run_ops true (if strip then MStrip else MPass) sb_new (writer_of []) [ OWriteFmt frags ]) in
            w.w_received
      in
      hexo (List.concat_map one (String.split_on_char ',' calls))
  | _ -> failwith "pm"

let () =
  register "pm" pm;
  register "tas" tas;
  register "lk8" lk8;
  register "drvv" drvv;
  register "strm" strm;
  register "drv" drv;
  register "drvn" drv
