(* drv_core.ml -- C01/C02/C03: parser events and strip adapters *)
open Extracted
open Util

let params (ps : n list list) : string =
  Printf.sprintf "%d:%s" (List.length ps)
    (String.concat ";" (List.map (fun g -> String.concat "," (List.map (fun v -> string_of_int (int_of_n v)) g)) ps))

let ints (l : n list) : string = Printf.sprintf "%d:%s" (List.length l) (hexn l)

let show_event (e : event) : string =
  match e with
  | EPrint cp -> Printf.sprintf "p:%d" (int_of_n cp)
  | EExecute b -> Printf.sprintf "x:%d" (int_of_n b)
  | EHook (ps, is, ig, b) -> Printf.sprintf "h:%s:%s:%s:%d" (params ps) (ints is) (b01 ig) (int_of_n b)
  | EPut b -> Printf.sprintf "u:%d" (int_of_n b)
  | EUnhook -> "U"
  | EOsc (fs, bell) -> Printf.sprintf "o:%d:%s:%s" (List.length fs) (String.concat "," (List.map hexn fs)) (b01 bell)
  | ECsi (ps, is, ig, b) -> Printf.sprintf "c:%s:%s:%s:%d" (params ps) (ints is) (b01 ig) (int_of_n b)
  | EEsc (is, ig, b) -> Printf.sprintf "e:%s:%s:%d" (ints is) (b01 ig) (int_of_n b)


(* ---- C02 ---------------------------------------------------------------- *)

let model_feed cfg p (bytes : int list) (buf : Buffer.t) (count : int ref) =
  List.fold_left
    (fun p b ->
      match advance cfg p (nb b) with
      | None -> raise Model_panic
      | Some (p', evs) ->
          List.iter
            (fun e ->
              if !count > 0 then Buffer.add_char buf ' ';
              incr count;
              Buffer.add_string buf (show_event e))
            evs;
          p')
    p bytes

let spec_feed s (bytes : int list) (buf : Buffer.t) (count : int ref) =
  List.fold_left
    (fun s b ->
      let s', evs = vt_step s (nb b) in
      List.iter
        (fun e ->
          if !count > 0 then Buffer.add_char buf ' ';
          incr count;
          Buffer.add_string buf (show_event e))
        evs;
      s')
    s bytes

let c02 side f =
  let bytes = unhex (List.nth f 0) in
  let buf = Buffer.create 256 and count = ref 0 in
  (match side with
   | `Model -> ignore (model_feed cfg_default parser_new bytes buf count)
   | `Spec -> ignore (spec_feed vt_init bytes buf count));
  Buffer.contents buf

let c02after side f =
  let prefix = unhex (List.nth f 0) and rest = unhex (List.nth f 1) in
  let scratch = Buffer.create 256 and c0 = ref 0 in
  let buf = Buffer.create 256 and count = ref 0 in
  (match side with
   | `Model ->
       let p = model_feed cfg_default parser_new prefix scratch c0 in
       ignore (model_feed cfg_default p rest buf count)
   | `Spec ->
       let s = spec_feed vt_init prefix scratch c0 in
       ignore (spec_feed s rest buf count));
  Buffer.contents buf

let tbl _side f =
  let d = int_of_string (List.nth f 0) in
  let st = List.find (fun s -> int_of_n (state_disc s) = d) all_states in
  let parts =
    List.init 256 (fun b ->
        match state_change st (nb b) with
        | None -> raise Model_panic
        | Some (s, a) -> Printf.sprintf "%d.%d" (int_of_n (state_disc s)) (int_of_n (action_disc a)))
  in
  String.concat " " parts

(* ---- C01 / C03 ------------------------------------------------------------ *)


let show_pieces (ps : piece list) : string =
  String.concat " " (List.map (fun p -> Printf.sprintf "%d:%s" (int_of_n p.p_off) (hexn p.p_bytes)) ps)

let cat_pieces (pss : piece list list) : string =
  hexn (List.concat (List.map (fun p -> p.p_bytes) (List.concat pss)))

let parse_cuts (s : string) (n : int) : int list =
  (if s = "-" then [] else List.map int_of_string (String.split_on_char ',' s)) @ [ n ]

let chunks_of (data : int list) (cuts : int list) : int list list =
  let arr = Array.of_list data in
  let rec go prev = function
    | [] -> []
    | c :: rest -> Array.to_list (Array.sub arr prev (c - prev)) :: go c rest
  in
  go 0 cuts


let strip_case side kind f =
  let data = unhex (List.nth f 0) in
  let is_str = (kind = "ss" || kind = "sscat" || kind = "ssc" || kind = "ssccat") in
  let chunked = (kind = "sbc" || kind = "sbccat" || kind = "ssc" || kind = "ssccat") in
  let cat = (kind = "sbcat" || kind = "sscat" || kind = "sbccat" || kind = "ssccat") in
  let chunks = if chunked then chunks_of data (parse_cuts (List.nth f 1) (List.length data)) else [ data ] in
  if is_str && not (List.for_all (fun c -> valid_utf8 (nlist c)) chunks) then "INVALID-UTF8"
  else
    match side with
    | `Spec -> if cat then hexn (spec_strip (nlist data)) else "N/A"
    | `Model ->
        let pss =
          if is_str then
            (let pss, _ = unopt (strip_str_chunks (List.map nlist chunks) Ground) in pss)
          else
            (let (pss, _), _ = unopt (strip_bytes_chunks (List.map nlist chunks) Ground u8_new) in pss)
        in
        if cat then cat_pieces pss else String.concat " | " (List.map show_pieces pss)


(* partly consumed one-shot iterators: Display / to_string / into_vec / extend *)
let hexo l = if l = [] then "-" else hexn l

let rec split_at k l = if k = 0 then ([], l) else match l with [] -> ([], []) | x :: r -> let a, b = split_at (k - 1) r in (x :: a, b)

let ssd side f =
  let data = unhex (List.nth f 0) and k = int_of_string (List.nth f 1) in
  if not (valid_utf8 (nlist data)) then "INVALID-UTF8"
  else match side with
    | `Spec -> "N/A"
    | `Model ->
        let ps = unopt (strip_str_pieces (nlist data)) in
        let a, b = split_at k ps in
        let cat l = List.concat (List.map (fun p -> p.p_bytes) l) in
        Printf.sprintf "%s %s %s %s" (hexo (cat a)) (hexo (cat b)) (hexo (cat b)) (hexo (cat b))

let ssdcat side f =
  let data = unhex (List.nth f 0) in
  if not (valid_utf8 (nlist data)) then "INVALID-UTF8"
  else
    let all = match side with
      | `Spec -> spec_strip (nlist data)
      | `Model -> List.concat (List.map (fun p -> p.p_bytes) (unopt (strip_str_pieces (nlist data)))) in
    Printf.sprintf "%s %s %s" (hexo all) (hexo all) (hexo all)

let sbx side f =
  let d1 = unhex (List.nth f 0) and d2 = unhex (List.nth f 1) and k = int_of_string (List.nth f 2) in
  match side with
  | `Spec -> "N/A"
  | `Model ->
      let (pss, _), _ = unopt (strip_bytes_chunks [ nlist d1; nlist d2 ] Ground u8_new) in
      let p1 = List.nth pss 0 and p2 = List.nth pss 1 in
      let a, b = split_at k p1 in
      let cat l = List.concat (List.map (fun p -> p.p_bytes) l) in
      Printf.sprintf "%s %s %s 1 %s" (hexo (cat a)) (hexo (cat b)) (hexo (cat b)) (hexo (cat p2))

let sbxcat side f =
  let d1 = unhex (List.nth f 0) and d2 = unhex (List.nth f 1) in
  match side with
  | `Spec -> hexo (spec_strip (nlist (d1 @ d2)))
  | `Model ->
      let (pss, _), _ = unopt (strip_bytes_chunks [ nlist d1; nlist d2 ] Ground u8_new) in
      hexo (List.concat (List.map (fun p -> p.p_bytes) (List.concat pss)))

let () =
  register "sbxcat" sbxcat;
  register "c02big" (fun _ _ -> "N/A");
  register "ssd" ssd;
  register "ssdcat" ssdcat;
  register "sbx" sbx;
  register "tbl" tbl;
  register "c02" c02;
  register "c02after" c02after;
  List.iter (fun k -> register k (fun side f -> strip_case side k f))
    [ "sb"; "sbcat"; "ss"; "sscat"; "sbc"; "sbccat"; "ssc"; "ssccat" ]
