(* drv_lossy.ml -- C10: lossy colour conversion (anstyle-lossy).
   Case kinds (a palette is 48 bytes of hex = 16 x RRGGBB; a colour list is
   RRGGBB per colour, a trailing partial colour is dropped; a range is
   <start> <count> <step>: colours (start + k*step) mod 2^24, k < count, read as
   0xRRGGBB):
     a16l <pal> <colours>            rgb_to_ansi of each colour, one hex digit each
     a16r <pal> <start> <count> <step>
     x256l <colours>                 rgb_to_xterm of each colour, two hex digits each
     x256r <start> <count> <step>
     lrgb <pal> <colours>            color_to_{rgb,xterm,ansi}(Rgb c): rrggbb:xx:a,...
     lidx <pal> <i>                  xterm_to_rgb xterm_to_ansi color_to_{rgb,xterm,ansi}(Ansi256 i)
     lans <pal> <a>                  ansi_to_rgb Palette::get Palette[..] color_to_{rgb,xterm,ansi}(Ansi a)
   Model side: Model/Lossy.v; spec side: Spec/Lossy.v (direct minimum search). *)
open Extracted
open Util

let rgb_of_int (c : int) = ((nb ((c lsr 16) land 255), nb ((c lsr 8) land 255)), nb (c land 255))

let colours_of_hex (s : string) : int list =
  let rec go = function
    | r :: g :: b :: t -> ((r lsl 16) lor (g lsl 8) lor b) :: go t
    | _ -> []
  in
  go (unhex s)

let colours_of_range (f : string list) : int list =
  match f with
  | [ a; b; c ] ->
      let start = int_of_string a and count = int_of_string b and step = int_of_string c in
      List.init count (fun k -> (start + (k * step)) land 0xFFFFFF)
  | _ -> failwith "range"

exception Bad_case

let palette_of_hex (s : string) =
  let l = colours_of_hex s in
  if String.length s <> 96 || List.length l <> 16 then raise Bad_case;
  List.map rgb_of_int l

let digit = "0123456789abcdef"
let hex_rgb ((r, g), b) = Printf.sprintf "%02x%02x%02x" (int_of_n r) (int_of_n g) (int_of_n b)
let hex2 x = Printf.sprintf "%02x" (int_of_n x)
let hex1 x = String.make 1 digit.[int_of_n x]

let guard f = try f () with Bad_case -> "BADCASE"

let a16 side pal cols =
  guard (fun () ->
      let p = palette_of_hex pal in
      let f = match side with `Model -> lossy_m_rgb_to_ansi p | `Spec -> lossy_s_rgb_to_ansi p in
      let buf = Buffer.create 4096 in
      List.iter (fun c -> Buffer.add_char buf digit.[int_of_n (unopt (f (rgb_of_int c)))]) cols;
      Buffer.contents buf)

let x256 side cols =
  let f = match side with `Model -> lossy_m_rgb_to_xterm | `Spec -> lossy_s_rgb_to_xterm in
  let buf = Buffer.create 8192 in
  List.iter (fun c -> Buffer.add_string buf (hex2 (unopt (f (rgb_of_int c))))) cols;
  Buffer.contents buf

let lrgb side pal cols =
  guard (fun () ->
      let p = palette_of_hex pal in
      let f = match side with `Model -> lossy_m_obs_rgb p | `Spec -> lossy_s_obs_rgb p in
      String.concat ","
        (List.map
           (fun c ->
             let (r, x), a = f (rgb_of_int c) in
             Printf.sprintf "%s:%s:%s" (hex_rgb (unopt r)) (hex2 (unopt x)) (hex1 (unopt a)))
           cols))

let lidx side pal i =
  guard (fun () ->
      let p = palette_of_hex pal in
      let i = n_of_int (int_of_string i) in
      let (r, a), ((cr, cx), ca) = match side with `Model -> lossy_m_obs_index p i | `Spec -> lossy_s_obs_index p i in
      Printf.sprintf "%s %s %s %s %s" (hex_rgb (unopt r)) (hex1 (unopt a)) (hex_rgb (unopt cr)) (hex2 (unopt cx)) (hex1 (unopt ca)))

let lans side pal a =
  guard (fun () ->
      let p = palette_of_hex pal in
      let a = n_of_int (int_of_string a) in
      let ((r, g), ix), ((cr, cx), ca) = match side with `Model -> lossy_m_obs_ansi p a | `Spec -> lossy_s_obs_ansi p a in
      Printf.sprintf "%s %s %s %s %s %s" (hex_rgb (unopt r)) (hex_rgb (unopt g)) (hex_rgb (unopt ix)) (hex_rgb (unopt cr))
        (hex2 (unopt cx)) (hex1 (unopt ca)))

let () =
  register "a16l" (fun side f -> a16 side (List.nth f 0) (colours_of_hex (List.nth f 1)));
  register "a16r" (fun side f -> a16 side (List.hd f) (colours_of_range (List.tl f)));
  register "x256l" (fun side f -> x256 side (colours_of_hex (List.nth f 0)));
  register "x256r" (fun side f -> x256 side (colours_of_range f));
  register "lrgb" (fun side f -> lrgb side (List.nth f 0) (colours_of_hex (List.nth f 1)));
  register "lidx" (fun side f -> lidx side (List.nth f 0) (List.nth f 1));
  register "lans" (fun side f -> lans side (List.nth f 0) (List.nth f 1))
