(* drv_render.ml -- C05: rendering of Style / Color / Effects / Reset.
   Model side: Model/Render.v.  Spec side: the rendered bytes are not specified
   byte for byte (the property speaks about what they mean), so the rendering
   kinds answer N/A there; [sgrint <hex>] is the specification's reading of a byte
   string -- the rendition a terminal in its default state ends in (Spec/Vt parser,
   Spec/Sgr rules) -- used by the property's oracle in vlib/props/c05.py together
   with [sbcat].  Parsing / printing only. *)
open Extracted
open Util

let nn (i : int) : n = n_of_int i

let u8 (t : string) : int =
  match int_of_string_opt t with
  | Some v when v >= 0 && v < 256 -> v
  | _ -> raise Model_panic

let parse_color (t : string) =
  if t = "-" then None
  else begin
    let rest = String.sub t 1 (String.length t - 1) in
    match t.[0] with
    | 'a' ->
        (match int_of_string_opt rest with
         | Some i when i >= 0 && i < 16 -> Some (CoAnsi (List.nth all_ansi i))
         | _ -> raise Model_panic)
    | 'x' -> Some (CoAnsi256 (nn (u8 rest)))
    | 'r' ->
        (match String.split_on_char '.' rest with
         | [ r; g; b ] -> Some (CoRgb (nn (u8 r), nn (u8 g), nn (u8 b)))
         | _ -> raise Model_panic)
    | _ -> raise Model_panic
  end

let parse_effects (t : string) : n =
  match int_of_string_opt t with
  | Some m when m >= 0 && m < 4096 -> e_of_mask (nn m)
  | _ -> raise Model_panic

let parse_style (t : string) : style =
  match String.split_on_char ',' t with
  | [ f; b; u; e ] -> { st_fg = parse_color f; st_bg = parse_color b; st_ul = parse_color u; st_eff = parse_effects e }
  | _ -> raise Model_panic

(* <alternate 0|1>:<width|->:<fill char code>:<align <|^|>|->:<precision|-> ; the
   harness knows the grid width {-,0,1,8} x fill {32,42} x align x precision {-,0,2}
   and panics elsewhere (a fill without an alignment cannot be written down) *)
let parse_flags (t : string) : bool * rn_flags =
  let on l x = if List.mem x l then x else raise Model_panic in
  let opt x = if x = "-" then None else Some (nn (int_of_string x)) in
  match String.split_on_char ':' t with
  | [ a; w; f; al; p ] ->
      let alt = (match a with "0" -> false | "1" -> true | _ -> raise Model_panic) in
      let w = on [ "-"; "0"; "1"; "8" ] w and p = on [ "-"; "0"; "2" ] p in
      let f = int_of_string (on [ "32"; "42" ] f) in
      let al = (match al with "-" -> None | "<" -> Some (nn 0) | "^" -> Some (nn 1) | ">" -> Some (nn 2) | _ -> raise Model_panic) in
      if al = None && f <> 32 then raise Model_panic;
      (alt, { rf_width = opt w; rf_fill = nn f; rf_align = al; rf_precision = opt p })
  | _ -> raise Model_panic

let hx (l : n list) : string = if l = [] then "-" else hexn l
let frags (w : n list list) : string = if w = [] then "-" else String.concat "/" (List.map hexn w)

let rnd side f =
  match side with
  | `Spec -> "N/A"
  | `Model ->
      let s = parse_style (List.nth f 0) in
      let alt, fl = parse_flags (List.nth f 1) in
      Printf.sprintf "fmt=%s rfmt=%s zfmt=%s render=%s write=%s reset=%s wreset=%s short=%s"
        (hx (unopt (rn_display alt fl s)))
        (hx (unopt (rn_display_render alt fl s)))
        (hx (unopt (rn_display_reset_of alt fl s)))
        (hx (unopt (rn_render_style s)))
        (frags (unopt (rn_write_to s)))
        (hx (rn_render_reset s))
        (frags (rn_write_reset_to s))
        (* through a writer that takes at most 3 bytes per call: write_to uses write_all, so everything arrives *)
        (hx (List.concat (unopt (rn_write_to s)) @ List.concat (rn_write_reset_to s)))

let rnc side f =
  match side with
  | `Spec -> "N/A"
  | `Model ->
      let c = unopt (parse_color (List.nth f 0)) in
      let alt, fl = parse_flags (List.nth f 1) in
      let tfg, tbg =
        match c with
        | CoAnsi a -> (rn_display_ansi_fg alt fl a, rn_display_ansi_bg alt fl a)
        | _ -> (rn_display_color_fg alt fl c, rn_display_color_bg alt fl c)
      in
      Printf.sprintf "fg=%s bg=%s tfg=%s tbg=%s" (hx (unopt (rn_display_color_fg alt fl c)))
        (hx (unopt (rn_display_color_bg alt fl c))) (hx (unopt tfg)) (hx (unopt tbg))

let rne side f =
  match side with
  | `Spec -> "N/A"
  | `Model ->
      let e = parse_effects (List.nth f 0) in
      let alt, fl = parse_flags (List.nth f 1) in
      Printf.sprintf "eff=%s" (hx (unopt (rn_display_effects alt fl e)))

let rnr side f =
  match side with
  | `Spec -> "N/A"
  | `Model ->
      let alt, fl = parse_flags (List.nth f 0) in
      let r = hx (unopt (rn_display_reset alt fl)) in
      Printf.sprintf "reset=%s render=%s" r r

(* the specification's reading of a byte string; a rendition is printed as in
   drv_wincon.ml / harness c07.rs *)
let show_colour (c : colour option) : string =
  match c with
  | None -> "-"
  | Some (CAnsi i) -> Printf.sprintf "a%d" (int_of_n i)
  | Some (CIdx i) -> Printf.sprintf "x%d" (int_of_n i)
  | Some (CRgb (r, g, b)) -> Printf.sprintf "r%d.%d.%d" (int_of_n r) (int_of_n g) (int_of_n b)

let show_sstyle (s : sstyle) : string =
  Printf.sprintf "%s,%s,%s,%d" (show_colour s.s_fg) (show_colour s.s_bg) (show_colour s.s_ul) (int_of_n s.s_eff)

let sgrint side f =
  match side with
  | `Model -> "N/A"
  | `Spec -> show_sstyle (rn_final_style (nlist (unhex (List.nth f 0))))

let () =
  register "rnd" rnd;
  register "rnc" rnc;
  register "rne" rne;
  register "rnr" rnr;
  register "sgrint" sgrint
