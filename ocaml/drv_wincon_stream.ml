(* drv_wincon_stream.ml -- C18: the legacy-console stream over a scripted console *)
open Extracted
open Util

let ocol = function None -> "-" | Some c -> string_of_int (int_of_n c)
let hexo l = if l = [] then "-" else hexn l

let show_ccall (c : ccall) : string =
  Printf.sprintf "c%s/%s/%s=%s" (ocol c.cc_fg) (ocol c.cc_bg) (hexo c.cc_data)
    (match c.cc_res with Inl n -> string_of_int (int_of_n n) | Inr k -> "e" ^ Drv_stream.kind_name k)

let wcs in_grammar side f =
  let script = Drv_stream.parse_script (List.nth f 0) in
  let ops = if List.nth f 1 = "-" then [] else List.map Drv_stream.parse_op (String.split_on_char ',' (List.nth f 1)) in
  match side with
  | `Model ->
      let (_, c), rs = unopt (wc_run_ops ws_new (console_of script) ops) in
      let calls = List.map show_ccall c.con_calls in
      (* flushes are logged by the harness in call order; the model counts them: append *)
      Printf.sprintf "%s | %s"
        (if rs = [] then "-" else String.concat "," (List.map Drv_stream.show_res rs))
        (if calls = [] then "-" else String.concat ";" calls)
  | `Spec ->
      (* with an accept-all console and only write_all / write_fmt / write ops: every run of the
         specification's styled text is handed over exactly once, in order, colours capped *)
      let simple = in_grammar && script = [] && List.for_all (function OWriteAll _ | OWrite _ | OWriteFmt _ -> true | _ -> false) ops in
      if not simple then "N/A"
      else
        let data = List.concat (List.map (function OWriteAll b | OWrite b -> b | OWriteFmt fs -> List.concat fs | _ -> []) ops) in
        let runs = spec_runs data in
        (* neighbouring runs of equal CAPPED colours may be handed over in several calls; compare merged *)
        let capped = List.map (fun (s, t) -> (ocol (cap_opt s.s_fg), ocol (cap_opt s.s_bg), hexo (str_bytes t))) runs in
        "MERGED " ^ String.concat ";" (List.map (fun (a, b, t) -> Printf.sprintf "%s/%s/%s" a b t) capped)

(* the console stream over the real stdout / stderr: on this platform write_colored is the ANSI
   fallback (C17's model), so the bytes on the pipe are the console calls framed by wa_write_colored *)
let ansi_of (c : n option) : ansi_color option =
  match c with None -> None | Some i -> Some (List.nth all_ansi (int_of_n i))

let wlk side f =
  match side with
  | `Spec -> "N/A"
  | `Model ->
      let h1 = nlist (unhex (List.nth f 1)) and h2 = nlist (unhex (List.nth f 2)) in
      let (_, c), _ = unopt (wc_run_ops ws_new (console_of []) [ OWriteAll h1; OWriteAll h2 ]) in
      let w =
        List.fold_left
          (fun w (cc : ccall) -> fst (wa_write_colored (ansi_of cc.cc_fg) (ansi_of cc.cc_bg) cc.cc_data w))
          (writer_of []) c.con_calls
      in
      hexo w.w_received

let () = register "wlk" wlk
let () = register "wcs" (wcs true); register "wcsx" (wcs false)
