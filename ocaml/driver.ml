(* driver.ml -- runs the extracted Coq models and specifications on case files.
   usage: driver <model|spec> <case-file> <out-file>
   One canonical result line per case, same format as the Rust harnesses.  The
   handlers live in drv_*.ml (registered at start-up); all logic is in
   gen/extracted.ml. *)
open Util

let run_case (side : side) (line : string) : string =
  match String.split_on_char ' ' line with
  | [] -> ""
  | kind :: f -> (
      match Hashtbl.find_opt handlers kind with
      | None -> "UNKNOWN-KIND " ^ kind
      | Some h -> ( try h side f with Model_panic -> "PANIC"))

let () =
  if Array.length Sys.argv <> 4 then begin
    prerr_endline "usage: driver <model|spec> <case-file> <out-file>";
    exit 2
  end;
  let side = match Sys.argv.(1) with "model" -> `Model | "spec" -> `Spec | _ -> failwith "side" in
  let ic = open_in Sys.argv.(2) and oc = open_out Sys.argv.(3) in
  (try
     while true do
       let line = input_line ic in
       if line <> "" then begin
         let r = run_case side line in
         output_string oc (if r = "" then "-" else r);
         output_char oc '\n'
       end
     done
   with End_of_file -> ());
  close_in ic;
  close_out oc
