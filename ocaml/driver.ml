(* driver.ml -- runs the extracted Coq models and specifications on case files.
   usage: driver <model|spec> <case-file> <out-file>
   One canonical result line per case, same format as the Rust harness.
   Parsing / printing only; all logic is in gen/extracted.ml. *)
open Extracted

let rec pos_of_int (i : int) : positive =
  if i = 1 then XH
  else if i land 1 = 0 then XO (pos_of_int (i lsr 1))
  else XI (pos_of_int (i lsr 1))

let n_of_int (i : int) : n = if i = 0 then N0 else Npos (pos_of_int i)

let rec int_of_pos (p : positive) : int =
  match p with XH -> 1 | XO q -> 2 * int_of_pos q | XI q -> 2 * int_of_pos q + 1

let int_of_n (x : n) : int = match x with N0 -> 0 | Npos p -> int_of_pos p

(* byte values are shared so that conversion is a table lookup *)
let byte_tab : n array = Array.init 256 n_of_int
let nb (i : int) : n = byte_tab.(i)

let unhex (s : string) : int list =
  if s = "-" then []
  else begin
    let l = String.length s / 2 in
    List.init l (fun i -> int_of_string ("0x" ^ String.sub s (2 * i) 2))
  end

let hex (l : int list) : string =
  String.concat "" (List.map (fun b -> Printf.sprintf "%02x" b) l)

let hexn (l : n list) : string = hex (List.map int_of_n l)

let params (ps : n list list) : string =
  Printf.sprintf "%d:%s" (List.length ps)
    (String.concat ";" (List.map (fun g -> String.concat "," (List.map (fun v -> string_of_int (int_of_n v)) g)) ps))

let ints (l : n list) : string = Printf.sprintf "%d:%s" (List.length l) (hexn l)
let b01 (b : bool) : string = if b then "1" else "0"

let show_event (e : event) : string =
  match e with
  | EPrint cp -> Printf.sprintf "p:%d" (int_of_n cp)
  | EExecute b -> Printf.sprintf "x:%d" (int_of_n b)
  | EHook (ps, is, ig, b) -> Printf.sprintf "h:%s:%s:%s:%d" (params ps) (ints is) (b01 ig) (int_of_n b)
  | EPut b -> Printf.sprintf "u:%d" (int_of_n b)
  | EUnhook -> "U"
  | EOsc (fs, bell) -> Printf.sprintf "o:%d:%s:%s" (List.length fs) (String.concat "," (List.map hexn fs)) (b01 bell)
  | ECsi (ps, is, ig, b) -> Printf.sprintf "c:%s:%s:%s:%d" (params ps) (ints is) (b01 ig) (int_of_n b)
  | EEsc (is, ig, b) -> Printf.sprintf "e:%s:%s:%d" (ints is) (b01 ig) (int_of_n b)

exception Model_panic

(* ---- C02 ---------------------------------------------------------------- *)

let model_feed cfg p (bytes : int list) (buf : Buffer.t) (count : int ref) =
  List.fold_left
    (fun p b ->
      match advance cfg p (nb b) with
      | None -> raise Model_panic
      | Some (p', evs) ->
          List.iter
            (fun e ->
              if !count > 0 then Buffer.add_char buf ' ';
              incr count;
              Buffer.add_string buf (show_event e))
            evs;
          p')
    p bytes

let spec_feed s (bytes : int list) (buf : Buffer.t) (count : int ref) =
  List.fold_left
    (fun s b ->
      let s', evs = vt_step s (nb b) in
      List.iter
        (fun e ->
          if !count > 0 then Buffer.add_char buf ' ';
          incr count;
          Buffer.add_string buf (show_event e))
        evs;
      s')
    s bytes

let c02 side f =
  let bytes = unhex (List.nth f 0) in
  let buf = Buffer.create 256 and count = ref 0 in
  (match side with
   | `Model -> ignore (model_feed cfg_default parser_new bytes buf count)
   | `Spec -> ignore (spec_feed vt_init bytes buf count));
  Buffer.contents buf

let c02after side f =
  let prefix = unhex (List.nth f 0) and rest = unhex (List.nth f 1) in
  let scratch = Buffer.create 256 and c0 = ref 0 in
  let buf = Buffer.create 256 and count = ref 0 in
  (match side with
   | `Model ->
       let p = model_feed cfg_default parser_new prefix scratch c0 in
       ignore (model_feed cfg_default p rest buf count)
   | `Spec ->
       let s = spec_feed vt_init prefix scratch c0 in
       ignore (spec_feed s rest buf count));
  Buffer.contents buf

let tbl _side f =
  let d = int_of_string (List.nth f 0) in
  let st = List.find (fun s -> int_of_n (state_disc s) = d) all_states in
  let parts =
    List.init 256 (fun b ->
        match state_change st (nb b) with
        | None -> raise Model_panic
        | Some (s, a) -> Printf.sprintf "%d.%d" (int_of_n (state_disc s)) (int_of_n (action_disc a)))
  in
  String.concat " " parts

let run_case side (line : string) : string =
  match String.split_on_char ' ' line with
  | [] -> ""
  | kind :: f -> (
      try
        match kind with
        | "tbl" -> tbl side f
        | "c02" -> c02 side f
        | "c02after" -> c02after side f
        | _ -> "UNKNOWN-KIND " ^ kind
      with Model_panic -> "PANIC")

let () =
  if Array.length Sys.argv <> 4 then begin
    prerr_endline "usage: driver <model|spec> <case-file> <out-file>";
    exit 2
  end;
  let side = match Sys.argv.(1) with "model" -> `Model | "spec" -> `Spec | _ -> failwith "side" in
  let ic = open_in Sys.argv.(2) and oc = open_out Sys.argv.(3) in
  (try
     while true do
       let line = input_line ic in
       if line <> "" then begin
         output_string oc (run_case side line);
         output_char oc '\n'
       end
     done
   with End_of_file -> ());
  close_in ic;
  close_out oc
