(* drv_svg.ml -- C14: SVG rendering (anstyle-svg).
   Case kinds (fields: palette `vga` | `win10` | 48 bytes hex; default foreground /
   background colour a<n> | x<n> | r<r>.<g>.<b>; background flag 0|1; input hex):
     svgdoc  <pal> <fg> <bg> <flag> <input>
        the abstract document, canonical form (the implementation side is the real
        SVG as recovered by an independent XML parser, vlib/svgparse.py):
          h=<height attr> rect=<0|1> text=<classes of <text>> rules=<name>[=<css colour>],..
          lines=<n> { | <x>,<y> <B<spans> or -> F<spans> } chk=ok
        span = <class>+<class>..:<code point>.<code point>..   spans joined by ','; a background
        span shows its classes only (its fill text depends on unicode_width)
     svgtext <pal> <fg> <bg> <flag> <input>
        n=<lines> then the text of each line's foreground spans (code points joined
        by '.', '-' for an empty line); spec side: the visible text of Spec/Sgr
        spec_runs split by Spec/SvgSpec svg_split_nl_dropping_cr
     svgcls  <pal> <fg> <bg> <flag> <input>
        the pieces of every row: n=<rows> { | <piece>,.. }, piece =
        <fg classes joined by +>/<bg class or ->:<code points>, neighbouring pieces of
        equal classes merged.  Spec side: Spec/SvgSpec svg_spec_rows of Spec/Sgr
        spec_runs under the configured defaults (the property's "classes denote the
        style in effect, invert swapping against the configured defaults"); it abstains
        (N/A) outside the domain of C07, i.e. when the wincon model's merged runs are
        not spec_runs
     svgraw  <pal> <fg> <bg> <flag> <input>
        the bytes of the whole rendering (hex): Model/SvgWidth.v svg_m_render_uw -- the widths (width
        attribute, background fills) are computed by the TRANSLATED unicode-width, the f64 product
        is ceil(42 x / 5), min_width_px is the one the harness picks (a hash of the input)
     svg     <pal> <fg> <bg> <flag> <input>       the same *)
open Extracted
open Util

exception Bad_case

let rgb_of3 r g b = ((nb r, nb g), nb b)

let palette_of (s : string) =
  match s with
  | "vga" -> vga
  | "win10" -> win10_console
  | _ ->
      let b = unhex s in
      if List.length b <> 48 then raise Bad_case;
      let rec go = function r :: g :: bl :: t -> rgb_of3 r g bl :: go t | _ -> [] in
      go b

let colour_of (s : string) : colour =
  let rest = String.sub s 1 (String.length s - 1) in
  match s.[0] with
  | 'a' -> CAnsi (n_of_int (int_of_string rest))
  | 'x' -> CIdx (n_of_int (int_of_string rest))
  | 'r' -> (
      match List.map int_of_string (String.split_on_char '.' rest) with
      | [ r; g; b ] -> CRgb (n_of_int r, n_of_int g, n_of_int b)
      | _ -> raise Bad_case)
  | _ -> raise Bad_case

let str_of (l : n list) : string =
  let b = Buffer.create 64 in
  List.iter (fun c -> Buffer.add_utf_8_uchar b (Uchar.of_int (int_of_n c))) l;
  Buffer.contents b

let dotted (t : n list) : string = String.concat "." (List.map (fun c -> string_of_int (int_of_n c)) t)

let show_span ((classes, text) : n list list * n list) : string =
  String.concat "+" (List.map str_of classes) ^ ":" ^ dotted text

let show_spans sp = String.concat "," (List.map show_span sp)

(* the fill text depends on unicode_width: only the classes are shown *)
let show_bg_spans sp = String.concat "," (List.map (fun (classes, _) -> String.concat "+" (List.map str_of classes)) sp)

let show_doc (d : svg_document) : string =
  let b = Buffer.create 1024 in
  Buffer.add_string b (Printf.sprintf "h=%dpx rect=%s text=%s rules=" (int_of_n d.svg_d_height) (b01 d.svg_d_background)
       (String.concat "+" (List.map str_of svg_text_classes)));
  Buffer.add_string b
    (String.concat ","
       (List.map (fun (name, css) -> match css with [] -> str_of name | _ -> str_of name ^ "=" ^ str_of css) (svg_rule_index d)));
  Buffer.add_string b (Printf.sprintf " lines=%d" (List.length d.svg_d_lines));
  List.iteri
    (fun k l ->
      Buffer.add_string b
        (Printf.sprintf " | %dpx,%dpx %s F%s" (int_of_n svg_padding)
           (int_of_n (svg_line_y (n_of_int k)))
           (match l.svg_l_bg with None -> "-" | Some sp -> "B" ^ show_bg_spans sp)
           (show_spans l.svg_l_fg)))
    d.svg_d_lines;
  Buffer.add_string b " chk=ok";
  Buffer.contents b

let show_text_lines (ls : n list list) : string =
  Printf.sprintf "n=%d" (List.length ls) ^ String.concat "" (List.map (fun t -> " " ^ match t with [] -> "-" | _ -> dotted t) ls)

let show_piece (((fgc, bgc), text) : (n list list * n list option) * n list) : string =
  String.concat "+" (List.map str_of fgc) ^ "/" ^ (match bgc with None -> "-" | Some c -> str_of c) ^ ":" ^ dotted text

let show_rows rows =
  Printf.sprintf "n=%d" (List.length rows)
  ^ String.concat "" (List.map (fun r -> " | " ^ String.concat "," (List.map show_piece r)) rows)

(* the model's rows in the same form: foreground span j and background span j show the same fragment *)
let model_rows (d : svg_document) =
  List.map
    (fun l ->
      let bgs =
        match l.svg_l_bg with
        | None -> List.map (fun _ -> None) l.svg_l_fg
        | Some sp -> List.map (fun (cl, _) -> match cl with [] -> None | c :: _ -> Some c) sp
      in
      svg_merge_pieces (List.map2 (fun (cl, text) bg -> ((cl, bg), text)) l.svg_l_fg bgs))
    d.svg_d_lines

(* harness/h-render/src/svg.rs picks `min_width_px` from a hash of the input bytes *)
let harness_min_width (b : int list) : int =
  let h = List.fold_left (fun a x -> ((a * 31) + x) land 0xFFFFFFFF) 7 b in
  [| 720; 720; 10; 2000 |].(h mod 4)

let run kind side f =
  try
    match f with
    | pal :: fg :: bg :: flag :: input :: rest -> (
        let data = nlist (unhex input) in
        if not (valid_utf8 data) then "INVALID-UTF8"
        else
          match (kind, side) with
          | `Text, `Spec ->
              let runs = spec_runs data in
              show_text_lines (svg_split_nl_dropping_cr (List.concat (List.map snd runs)))
          | `Cls, `Spec ->
              let runs = spec_runs data in
              let (itss, _), _ = unopt (extract_chunks [ data ] parser_new capture_default) in
              if merge_runs (List.concat itss) <> runs then "N/A"
              else show_rows (svg_spec_rows (colour_of fg) (colour_of bg) runs)
          | _, `Spec -> "N/A"
          | _, `Model -> (
              let d = unopt (svg_m_doc (palette_of pal) (colour_of fg) (colour_of bg) (flag = "1") data) in
              match kind with
              | `Doc -> show_doc d
              | `Text -> show_text_lines (List.map svg_line_text (svg_fg_lines d))
              | `Cls -> show_rows (model_rows d)
              | `Raw ->
                  (* nothing is read off the real output: the widths are the TRANSLATED unicode-width's
                     (Model/SvgWidth.v svg_m_render_uw = the translated render_svg, Props/C14.v
                     c14_translated_unicodewidth_driver_model); extra fields of older replay files are ignored *)
                  ignore rest;
                  let out =
                    str_of (unopt (svg_m_render_uw (palette_of pal) (colour_of fg) (colour_of bg) (flag = "1")
                                     (n_of_int (harness_min_width (unhex input))) data))
                  in
                  String.concat "" (List.map (fun c -> Printf.sprintf "%02x" (Char.code c)) (List.of_seq (String.to_seq out)))))
    | _ -> "BADCASE"
  with Bad_case | Failure _ | Invalid_argument _ -> "BADCASE"

let () =
  register "svgdoc" (run `Doc);
  register "svgtext" (run `Text);
  register "svgcls" (run `Cls);
  register "svgraw" (run `Raw);
  register "svg" (run `Raw)
