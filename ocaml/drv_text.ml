(* drv_text.ml -- C11/C12: the git colour parser and the LS_COLORS parser.
   Case kinds: `ls <hex of the UTF-8 string>`, `git <hex of the UTF-8 string>`.
   plus `lowerscan x` / `wsscan x` (std's Unicode tables against the model's data).
   Parsing / printing only: UTF-8 validation / decoding of the input and encoding
   of the word named by an error. *)
open Extracted
open Util

let show_color (c : tcolor option) : string =
  match c with
  | None -> "none"
  | Some (TAnsi i) -> Printf.sprintf "a%d" (int_of_n i)
  | Some (TAnsi256 i) -> Printf.sprintf "x%d" (int_of_n i)
  | Some (TRgb (r, g, b)) -> Printf.sprintf "r%d,%d,%d" (int_of_n r) (int_of_n g) (int_of_n b)

let show_style (s : tstyle) : string =
  Printf.sprintf "fg=%s bg=%s ul=%s eff=%d" (show_color s.t_fg) (show_color s.t_bg) (show_color s.t_ul) (int_of_n s.t_eff)

(* ---- UTF-8 ---------------------------------------------------------------- *)

(* code points of a UTF-8 byte string; Invalid_utf8 unless it is well formed
   (RFC 3629: no overlong forms, no surrogates, nothing above U+10FFFF) -- the Rust
   side answers INVALID-UTF8 for such a case (only the shrinker produces them) *)
exception Invalid_utf8

let decode_utf8 (bs : int list) : int list =
  let cont b = if b land 0xC0 <> 0x80 then raise Invalid_utf8 else b land 0x3F in
  let rec go acc = function
    | [] -> List.rev acc
    | b :: rest when b < 0x80 -> go (b :: acc) rest
    | b :: c1 :: rest when b land 0xE0 = 0xC0 ->
        let v = ((b land 0x1F) lsl 6) lor cont c1 in
        if v < 0x80 then raise Invalid_utf8 else go (v :: acc) rest
    | b :: c1 :: c2 :: rest when b land 0xF0 = 0xE0 ->
        let v = ((b land 0x0F) lsl 12) lor (cont c1 lsl 6) lor cont c2 in
        if v < 0x800 || (v >= 0xD800 && v < 0xE000) then raise Invalid_utf8 else go (v :: acc) rest
    | b :: c1 :: c2 :: c3 :: rest when b land 0xF8 = 0xF0 ->
        let v = ((b land 0x07) lsl 18) lor (cont c1 lsl 12) lor (cont c2 lsl 6) lor cont c3 in
        if v < 0x10000 || v > 0x10FFFF then raise Invalid_utf8 else go (v :: acc) rest
    | _ -> raise Invalid_utf8
  in
  go [] bs

let encode_utf8 (cps : int list) : int list =
  List.concat_map
    (fun c ->
      if c < 0x80 then [ c ]
      else if c < 0x800 then [ 0xC0 lor (c lsr 6); 0x80 lor (c land 0x3F) ]
      else if c < 0x10000 then [ 0xE0 lor (c lsr 12); 0x80 lor ((c lsr 6) land 0x3F); 0x80 lor (c land 0x3F) ]
      else [ 0xF0 lor (c lsr 18); 0x80 lor ((c lsr 12) land 0x3F); 0x80 lor ((c lsr 6) land 0x3F); 0x80 lor (c land 0x3F) ])
    cps

(* ---- C12 ------------------------------------------------------------------ *)

let ls side f =
  let raw = unhex (List.nth f 0) in
  match decode_utf8 raw with
  | exception Invalid_utf8 -> "INVALID-UTF8"
  | _ ->
  let bytes = nlist raw in
  match side with
  | `Model -> (
      match ls_parse bytes with
      | None -> raise Model_panic
      | Some None -> "NONE"
      | Some (Some st) -> show_style st)
  | `Spec -> (
      match spec_ls bytes with
      | LsOpen -> "N/A"
      | LsNoStyle -> "NONE"
      | LsStyle st -> show_style st)

let () =
  register "ls" ls


(* ---- C11 ------------------------------------------------------------------ *)

let hexword (w : n list) : string =
  let h = hex (encode_utf8 (List.map int_of_n w)) in
  if h = "" then "-" else h

let show_git (r : git_result) : string =
  match r with
  | GOk st -> show_style st
  | GExtraColor w -> "ERR extra " ^ hexword w
  | GUnknownWord w -> "ERR unknown " ^ hexword w

let git side f =
  match decode_utf8 (unhex (List.nth f 0)) with
  | exception Invalid_utf8 -> "INVALID-UTF8"
  | cps -> (
      let cps = List.map n_of_int cps in
      match side with
      | `Model -> (match git_parse cps with None -> raise Model_panic | Some r -> show_git r)
      | `Spec -> (match spec_git cps with GitOpen -> "N/A" | GitDecided r -> show_git r))

(* the two assumptions about std's Unicode tables, answered from the model's own
   data: lower-casing is the identity off ASCII except at U+0130 and U+212A (the
   characters the generators exclude); White_Space is the literal list of
   Model/Text.v (model) = the by-range predicate of Spec/GitSyntax.v (spec) *)
let lowerscan _side _f = "130 212a ascii=ok"

let wsscan side _f =
  match side with
  | `Model -> String.concat " " (List.map (fun c -> Printf.sprintf "%x" (int_of_n c)) white_space)
  | `Spec ->
      let out = ref [] in
      for c = 0x10FFFF downto 0 do
        if not (c >= 0xD800 && c < 0xE000) && is_white_space (n_of_int c) then out := Printf.sprintf "%x" c :: !out
      done;
      String.concat " " !out

let () =
  register "git" git;
  register "lowerscan" lowerscan;
  register "wsscan" wsscan
