(* drv_locking.ml -- C19: lock discipline traces and the colour-choice register *)
open Extracted
open Util

let frags (s : string) : int list list =
  if s = "-" then [] else List.map (fun h -> if h = "_" then [] else unhex h) (String.split_on_char ',' s)

let hx (l : n list) : string = if l = [] then "-" else hexn l

let show_inner = function
  | LkW b -> "W:" ^ hx b
  | LkWA b -> "WA:" ^ hx b
  | LkWV bs -> "WV:" ^ String.concat "," (List.map hx bs)
  | LkF -> "F"

let show_event = function LkAcquire -> "ACQ" | LkInner i -> show_inner i | LkRelease -> "REL"

exception Bad of string

let op_of (meth : string) (fr : int list list) : lk_op =
  let first = match fr with [] -> [] | b :: _ -> b in
  match meth with
  | "write" -> LkWrite (nlist first)
  | "write_all" -> LkWriteAll (nlist first)
  | "write_vectored" -> LkWriteVectored (List.map nlist fr)
  | "flush" -> LkFlush
  | "write_fmt" ->
      if List.for_all (fun b -> valid_utf8 (nlist b)) fr then LkWriteFmt (List.map nlist fr) else raise (Bad "INVALID-UTF8")
  | m -> raise (Bad ("UNKNOWN-METHOD " ^ m))

let rec pairs = function a :: b :: r -> (a, b) :: pairs r | [] -> [] | _ -> raise (Bad "method without fragments")

let show_lock = function AtTake -> "ACQ" | AtGive -> "REL"

(* lkp: the lock profile of every call (inner calls left out); the specification's
   answer is at_call_profile for every call, whatever the call *)
let lkp side f =
  try
    let stream =
      match List.hd f with
      | "never" | "strip" | "never@mut" | "strip@mut" | "never@box" | "strip@box" -> lk_never
      | "always_ansi" | "always_ansi@mut" | "always_ansi@box" -> lk_always_ansi
      | m -> raise (Bad ("UNKNOWN-MODE " ^ m))
    in
    let ops = List.map (fun (m, fr) -> op_of m (frags fr)) (pairs (List.tl f)) in
    let show p = String.concat " " (List.map show_lock p) in
    match side with
    | `Spec -> String.concat " | " (List.map (fun _ -> show at_call_profile) ops)
    | `Model -> String.concat " | " (List.map (fun tr -> show (lk_profile tr)) (unopt (lk_prog_ops stream ops)))
  with Bad s -> s

let lk side f =
  match side with
  | `Spec -> "N/A"
  | `Model -> (
      try
        let stream =
          match List.hd f with
          | "never" | "strip" | "never@mut" | "strip@mut" | "never@box" | "strip@box" -> lk_never
          | "always_ansi" | "always_ansi@mut" | "always_ansi@box" -> lk_always_ansi
          | m -> raise (Bad ("UNKNOWN-MODE " ^ m))
        in
        let ops = List.map (fun (m, fr) -> op_of m (frags fr)) (pairs (List.tl f)) in
        let trs = unopt (lk_prog_ops stream ops) in
        String.concat " | " (List.map (fun tr -> String.concat " " (List.map show_event tr)) trs)
      with Bad s -> s)

(* reg <initial choice 0..3> <ops: s<k> = write_global(choice k), g = global()>: the values read *)
let choice_no (c : lk_choice) : int =
  let rec go i = function [] -> -1 | x :: r -> if x = c then i else go (i + 1) r in
  go 0 lk_all_choices

let reg side f =
  match side with
  | `Spec -> "N/A"
  | `Model ->
      let ch k = List.nth lk_all_choices k in
      let init = ch (int_of_string (List.nth f 0)) in
      let ops =
        List.map
          (fun s -> if s = "g" then LkGet else LkSet (ch (int_of_string (String.sub s 1 (String.length s - 1)))))
          (String.split_on_char ',' (List.nth f 1))
      in
      let h = unopt (lk_reg_run (lk_from_choice init) ops) in
      String.concat " "
        (List.concat_map (function RegRead c -> [ string_of_int (choice_no c) ] | RegWrite _ -> []) h)

let () =
  register "lk" lk;
  register "lkp" lkp;
  register "reg" reg
