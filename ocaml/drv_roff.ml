(* drv_roff.ml -- C15: anstyle_roff::to_roff(text).to_roff().
   Case kinds:
     roff <hex of the UTF-8 text> <segments>   a member of the domain D: <segments> is the list
                                  of segments the text is claimed to print, `,`-separated, each
                                  `<effect digits or ->:<fg 0..15 or ->:<bg or ->:<text hex or ->`.
                                  spec = the expected document of Spec/RoffSpec.rf_spec_doc (N/A if the
                                  claim is false), cross-checked against the general expectation
     roff <hex>                   no segment list: spec = the general expectation
                                  (Spec/RoffSpec.rf_general_doc: styles accumulate over sequences,
                                  256-colour / RGB forms select a colour), N/A where it is silent
     roffo <hex>                  outside D: model only (spec N/A)
     roffcolor <req hex> <colour> add_color_to_roff alone, rendered; colour = none | a<i> | x<n> | r<r>,<g>,<b>
   Result: the document as hex.  Parsing / printing only. *)
open Extracted
open Util

(* well-formed UTF-8 (RFC 3629)?  The Rust side answers INVALID-UTF8 otherwise. *)
let valid_utf8 (bs : int list) : bool =
  let cont b = b land 0xC0 = 0x80 in
  let rec go = function
    | [] -> true
    | b :: rest when b < 0x80 -> go rest
    | b :: c1 :: rest when b land 0xE0 = 0xC0 -> b >= 0xC2 && cont c1 && go rest
    | b :: c1 :: c2 :: rest when b land 0xF0 = 0xE0 ->
        cont c1 && cont c2
        && (let v = ((b land 0x0F) lsl 12) lor ((c1 land 0x3F) lsl 6) lor (c2 land 0x3F) in
            v >= 0x800 && not (v >= 0xD800 && v < 0xE000))
        && go rest
    | b :: c1 :: c2 :: c3 :: rest when b land 0xF8 = 0xF0 ->
        cont c1 && cont c2 && cont c3
        && (let v = ((b land 0x07) lsl 18) lor ((c1 land 0x3F) lsl 12) lor ((c2 land 0x3F) lsl 6) lor (c3 land 0x3F) in
            v >= 0x10000 && v <= 0x10FFFF)
        && go rest
    | _ -> false
  in
  go bs

let effect_of_digit = function
  | '1' -> RfBold | '2' -> RfFaint | '3' -> RfItalic | '4' -> RfUnderline
  | '5' -> RfBlink | '7' -> RfInvert | '8' -> RfHidden | '9' -> RfStrike
  | c -> failwith (Printf.sprintf "effect digit %c" c)

let opt_color (s : string) : n option = if s = "-" then None else Some (n_of_int (int_of_string s))

let parse_seg (s : string) : rf_seg =
  match String.split_on_char ':' s with
  | [ e; fg; bg; t ] ->
      { rs_effects = (if e = "-" then [] else List.map effect_of_digit (List.init (String.length e) (String.get e)));
        rs_fg = opt_color fg; rs_bg = opt_color bg; rs_text = nlist (unhex t) }
  | _ -> failwith "segment"

let parse_segs (s : string) : rf_seg list =
  if s = "-" then [] else List.map parse_seg (String.split_on_char ',' s)

let out (l : n list) : string = let h = hexn l in if h = "" then "-" else h

let roff side f =
  let raw = unhex (List.nth f 0) in
  if not (valid_utf8 raw) then "INVALID-UTF8"
  else
    let input = nlist raw in
    match side with
    | `Model -> (match rf_to_roff input with None -> raise Model_panic | Some d -> out d)
    | `Spec -> (
        match f with
        | [ _; segs ] -> (
            match rf_spec_answer input (parse_segs segs) with
            | None -> "N/A"
            | Some d -> (
                match rf_general_doc input with
                | Some g when g <> d -> "SPEC-MISMATCH general=" ^ out g ^ " domain=" ^ out d
                | _ -> out d))
        | _ -> (match rf_general_doc input with None -> "N/A" | Some g -> out g))

let roffo side f =
  match side with
  | `Model -> roff `Model f
  | `Spec -> if valid_utf8 (unhex (List.nth f 0)) then "N/A" else "INVALID-UTF8"

let roffcolor side f =
  let req = nlist (unhex (List.nth f 0)) in
  let c = List.nth f 1 in
  let num s = n_of_int (int_of_string s) in
  let tail = String.sub c 1 (String.length c - 1) in
  match side with
  | `Model ->
      let col =
        if c = "none" then None
        else
          match c.[0] with
          | 'a' -> Some (Ansi (num tail))
          | 'x' -> Some (Ansi256 (num tail))
          | _ -> (match String.split_on_char ',' tail with
                  | [ r; g; b ] -> Some (Rgb ((num r, num g), num b))
                  | _ -> failwith "rgb")
      in
      (match rf_color_requests req col with None -> raise Model_panic | Some d -> out d)
  | `Spec ->
      let col =
        if c = "none" then None
        else
          match c.[0] with
          | 'a' -> Some (TAnsi (num tail))
          | 'x' -> Some (TAnsi256 (num tail))
          | _ -> (match String.split_on_char ',' tail with
                  | [ r; g; b ] -> Some (TRgb (num r, num g, num b))
                  | _ -> failwith "rgb")
      in
      out (rf_gen_color_requests req col)

let () =
  register "roff" roff;
  register "roffo" roffo;
  register "roffcolor" roffcolor
